import OV.Model.C13Export
import OV.Lemmas.C13
import OV.Lemmas.C13Roundtrip
import OV.Lemmas.C13Types
import OV.Lemmas.C13Conflict
import Std.Data.String.ToInt
import OV.Lemmas.C13Values
/-!
# C13 — ONNX → Python (`proto2python`) → ONNX round-trips to an equivalent model

Property theorems only.  Model: `OV.Model.C13Export` (a transcription of
`onnxscript/backend/onnx_export.py`, tied to the source by `harness/c13.py` on every run).
Helper lemmas: `OV.Lemmas.C13`.
-/
namespace OV.Props.C13
open OV.C13

/-! ## `_cleanup_variable_name` -/

/-- **Every non-empty name is cleaned into a Python identifier that is not a keyword** — for all
strings (all lengths, all characters; on non-ASCII characters the model's `isalpha` is the ASCII one,
which is where it may differ from CPython, hence the scope `asciiName` in DESIGN.md). -/
theorem cleanup_ident (n : List Char) (hne : n ≠ []) :
    isPyIdentL (cleanupL n) = true ∧ cleanupL n ∉ kwlistL :=
  cleanupL_ident n hne

/-- the same on `String` -/
theorem cleanup_ident_string (s : String) (hne : s ≠ "") :
    isPyIdentL (cleanup s).toList = true ∧ (cleanup s).toList ∉ kwlistL := by
  unfold cleanup
  rw [String.toList_ofList]
  apply cleanupL_ident
  intro h
  apply hne
  apply String.toList_inj.mp
  rw [h]; rfl

example : cleanup "layers.0.weight" = "layers_0_weight" ∧ cleanup "5" = "__5" ∧ cleanup "if" = "r_if" := by decide

/-- **Fixpoints**: a name that already is a non-keyword identifier is left alone (so on such names the
clean-up is injective: this is the non-vacuity of every `InjectiveOn cleanup` hypothesis below). -/
theorem cleanup_fixpoint (n : List Char) (hid : isPyIdentL n = true) (hk : n ∉ kwlistL) : cleanupL n = n :=
  cleanupL_fix n hid hk

/-- **Idempotence** — what makes the double translation of initializer names in
`_translate_graph_body` harmless when `rename=False`. -/
theorem cleanup_idempotent (n : List Char) (hne : n ≠ []) : cleanupL (cleanupL n) = cleanupL n :=
  cleanupL_idem n hne

/-- **Exact characterisation of the non-injectivity** (`norm` explicit): two names are cleaned to the same
identifier iff, after the keyword step (`if ↦ r_if`) and the first-character step (`5 ↦ __5`), they have the
same length and agree at every position up to "both characters are not alphanumeric"
(`a.b` / `a_b` / `a:b`, `5` / `__5` / `-_5`, `if` / `r_if`). -/
theorem cleanup_collisions (a b : List Char) :
    cleanupL a = cleanupL b ↔ pointwise sameClass (prefixed a) (prefixed b) := by
  rw [cleanupL_eq_map_prefixed, cleanupL_eq_map_prefixed, map_eq_map_iff_pointwise]
  exact pointwise_congr renameChar_eq_iff _ _

example : cleanup "a.b" = cleanup "a_b" ∧ cleanup "5" = cleanup "__5" ∧ cleanup "if" = cleanup "r_if"
    ∧ cleanup "x:0" = cleanup "x.0" ∧ cleanup "a.b" ≠ cleanup "a.c" := by decide

/-! ## the renaming applied to a graph -/

/-- **The short-name mapper**: over any request sequence, two requests get the same `v<k>` iff their keys are
equal (all lengths, all histories from a fresh mapper).  Since da27432 the key is the ONNX name itself. -/
theorem short_names_collide_iff (ks : List String) (i j : Nat) (hi : i < ks.length) (hj : j < ks.length)
    (hi' : i < (shortRun [] ks).1.length) (hj' : j < (shortRun [] ks).1.length) :
    (shortRun [] ks).1[i] = (shortRun [] ks).1[j] ↔ ks[i] = ks[j] :=
  shortRun_eq_iff ks i j hi hj hi' hj'

/-- The renaming the exporter applies to the value names of a main graph (no attribute parameters, no
remapping, names requested in the order `ns`) has one output per name. -/
theorem rename_table_length (o : Opts) (ns : List String) (hne : ∀ n ∈ ns, n ≠ "") :
    (translateVars o {} ns).1.length = ns.length := by
  cases hr : o.rename
  · rw [translateVars_uniq o hr ns {} plain_empty]; simp
  · rw [translateVars_fresh_short o hr ns {} rfl (fun _ => rfl) hne]
    simp only [List.length_map]
    exact (shortRun_spec ns [] List.nodup_nil).2.2.1

/-- **Two values get the same Python name exactly when they are the same ONNX value** — for every list of
names (every length, colliding clean-ups included), under `rename=False` (the uniquifying mapper) and under
`rename=True` (the short-name mapper) alike.  This is what the per-export uniquifier guarantees. -/
theorem rename_eq_iff_name_eq (o : Opts) (ns : List String) (hne : ∀ n ∈ ns, n ≠ "")
    (i j : Nat) (hi : i < ns.length) (hj : j < ns.length) :
    (translateVars o {} ns).1[i]? = (translateVars o {} ns).1[j]? ↔ ns[i] = ns[j] := by
  cases hr : o.rename
  · rw [translateVars_uniq o hr ns {} plain_empty]
    simp only [List.getElem?_map, List.getElem?_eq_getElem hi, List.getElem?_eq_getElem hj, Option.map_some,
      Option.some.injEq]
    have hT : TblInv (uniqRun ({} : St).uniq ns) := tblInv_uniqRun ns tblInv_nil
    constructor
    · intro h
      exact pyT_inj hT (hne _ (List.getElem_mem hi)) (hne _ (List.getElem_mem hj))
        (present_uniqRun ns _ _ (List.getElem_mem hi)) (present_uniqRun ns _ _ (List.getElem_mem hj)) h
    · intro h; rw [h]
  · rw [translateVars_fresh_short o hr ns {} rfl (fun _ => rfl) hne]
    have hlen := (shortRun_spec ns [] List.nodup_nil).2.2.1
    have hi' : i < (shortRun [] ns).1.length := by rw [hlen]; exact hi
    have hj' : j < (shortRun [] ns).1.length := by rw [hlen]; exact hj
    simp only [List.getElem?_map, List.getElem?_eq_getElem hi', List.getElem?_eq_getElem hj', Option.map_some,
      Option.some.injEq]
    have key := shortRun_eq_iff ns i j hi hj hi' hj'
    constructor
    · intro h; exact key.mp (short_label_inj h)
    · intro h; rw [key.mpr h]

/-- **`export_names_injective`** (holds since da27432): distinct values of a graph never share a Python variable,
under every option tuple, for requests made from the empty exporter state `{}`.  Hypotheses: `hne` — no name is `""`
(the empty name is an absent input and never reaches the renamer) — and `hnd` — the list is duplicate-free (it lists
*distinct* values; a repeated name is the same value).  What is *not* assumed is anything about how the names clean
up (the pre-da27432 statement needed `cleanup` injective on the names). -/
theorem export_names_injective (o : Opts) (ns : List String) (hne : ∀ n ∈ ns, n ≠ "") (hnd : ns.Nodup)
    (i j : Nat) (hi : i < ns.length) (hj : j < ns.length)
    (h : (translateVars o {} ns).1[i]? = (translateVars o {} ns).1[j]?) : i = j :=
  (List.getElem_inj hnd).mp ((rename_eq_iff_name_eq o ns hne i j hi hj).mp h)

/-- … and the uniquified names (`rename=False`, non-empty ONNX names, empty start state) are never the empty text and
never the text `None` (which is how an absent input is printed).  **Despite its name this theorem does not prove
"not a keyword"**: that is `cleanup_ident` for the unsuffixed candidate and is not proved for suffixed candidates
(`kw_1` is never a keyword, but no theorem here says so).  The name is kept because shared documents list it. -/
theorem export_names_not_keywords (o : Opts) (hr : o.rename = false) (ns : List String) (hne : ∀ n ∈ ns, n ≠ "") :
    ∀ x ∈ (translateVars o {} ns).1, x ≠ "" ∧ x ≠ "None" := by
  rw [translateVars_uniq o hr ns {} plain_empty]
  intro x hx
  obtain ⟨n, hn, rfl⟩ := List.mem_map.mp hx
  have hT : TblInv (uniqRun ({} : St).uniq ns) := tblInv_uniqRun ns tblInv_nil
  exact ⟨pyT_ne_empty hT (hne n hn) (present_uniqRun ns _ _ hn), pyT_ne_None hT (hne n hn) (present_uniqRun ns _ _ hn)⟩

example : (translateVars ⟨false, false, false, false⟩ {} ["a.b", "a_b", "a:b", "a_b_1", "a.b"]).1
    = ["a_b", "a_b_1", "a_b_2", "a_b_1_1", "a_b"] := by decide

/-- Pre-fix behaviour, kept as the refuted statement (finding D14, fixed by da27432): the renamer used to be the
clean-up alone, and the clean-up is not injective. -/
theorem cleanup_alone_not_injective_prefix_refuted :
    ¬ (∀ a b : String, cleanup a = cleanup b → a = b) := by
  intro h
  exact absurd (h "a.b" "a_b" (by decide)) (by decide)

/-- The D14 witness as a whole model after the fix: `t = Relu(x)` named `a.b`, `u = Neg(x)` named `a_b`,
`y = Sub(a.b, a_b)` keeps two variables `a_b`, `a_b_1`. -/
theorem d14_witness_program_fixed :
    (exportModel ⟨false, false, false, false⟩ 2
      ⟨"g", none, [("", 18)],
       .mk ["x"] ["y"] [] 0
        [.mk "Relu" "" "" ["x"] ["a.b"] [], .mk "Neg" "" "" ["x"] ["a_b"] [],
         .mk "Sub" "" "" ["a.b", "a_b"] ["y"] []]⟩).toOption
      = some ["deco ", "sig g(x|)", "L1 call a_b = opset18.Relu(x|)", "L1 call a_b_1 = opset18.Neg(x|)",
             "L1 call y = opset18.Sub(a_b,a_b_1|)", "L1 return y"] := by
  decide +kernel

/-! ## refusals (`export_refuses`) -/

/-- **Sparse initializers are refused** under every option tuple, whatever else the graph contains. -/
theorem export_refuses_sparse (o : Opts) (d : Nat) (m : ModelP) (h : m.graph.nSparse > 0) :
    ∃ e, exportModel o d m = .error e :=
  translateGraph_error_of_body o d m (fun _ rec st _ => graphBody_error_of_sparse o rec m.graph st h)

/-- **`Scan` is refused**: a main graph with a `Scan` node anywhere among its nodes is never exported. -/
theorem export_refuses_scan (o : Opts) (d : Nat) (m : ModelP) (n : Node)
    (hmem : n ∈ m.graph.nodes) (hop : n.op = "Scan") : ∃ e, exportModel o d m = .error e :=
  translateGraph_error_of_body o d m (fun _ rec st hrec =>
    graphBody_error_of_node o rec m.graph st n
      (fun st' => by rw [hrec]; exact translateNode_scan o m.opsets d _ n st' hop) hmem)

/-- **Graph attributes on operators other than If/Loop/Scan are refused.** -/
theorem export_refuses_graph_attr (o : Opts) (d : Nat) (m : ModelP) (n : Node)
    (hmem : n ∈ m.graph.nodes)
    (h1 : n.op ≠ "Constant") (h2 : n.op ≠ "If") (h3 : n.op ≠ "Loop") (h4 : n.op ≠ "Scan")
    (hg : n.attrs.any (·.2.isGraph) = true) : ∃ e, exportModel o d m = .error e :=
  translateGraph_error_of_body o d m (fun _ rec st hrec =>
    graphBody_error_of_node o rec m.graph st n
      (fun st' => by
        rw [hrec]
        cases d with
        | zero => exact ⟨_, rfl⟩
        | succ d =>
          rw [translateNode_plain o m.opsets d _ n st' h1 h2 h3 h4, translatePlain_graphAttr o m.opsets n _ st' hg]
          exact ⟨_, rfl⟩) hmem)

/-- **Unknown attribute kinds are refused** (SPARSE_TENSOR, TYPE_PROTO, TENSORS, GRAPHS, …) on every node
that is printed as a call (operator sugar drops attributes: hence the side condition). -/
theorem export_refuses_attr_kind (o : Opts) (d : Nat) (m : ModelP) (n : Node) (k : String)
    (hmem : n ∈ m.graph.nodes)
    (h1 : n.op ≠ "Constant") (h2 : n.op ≠ "If") (h3 : n.op ≠ "Loop") (h4 : n.op ≠ "Scan")
    (hk : (k, Attr.unsupported) ∈ n.attrs) (hs : o.useOps = false ∨ opsTable.lookup n.op = none) :
    ∃ e, exportModel o d m = .error e :=
  translateGraph_error_of_body o d m (fun _ rec st hrec =>
    graphBody_error_of_node o rec m.graph st n
      (fun st' => by
        rw [hrec]
        cases d with
        | zero => exact ⟨_, rfl⟩
        | succ d =>
          rw [translateNode_plain o m.opsets d _ n st' h1 h2 h3 h4]
          exact translatePlain_unsupported o m.opsets n _ st' k hk hs) hmem)

example : ∃ e, exportModel ⟨false, true, true, false⟩ 3
    ⟨"g", none, [("", 18)], .mk ["x"] ["y"] [] 0 [.mk "Scan" "" "" ["x"] ["y"] [("body", .graph Graph.empty)]]⟩ = .error e :=
  export_refuses_scan _ _ _ (.mk "Scan" "" "" ["x"] ["y"] [("body", .graph Graph.empty)]) (by simp [Graph.nodes]) rfl

/-! ## inline constants -/

/-- **Which constants are inlined** (`_get_const_repr`, after 4e95266 and 71b4284): exactly FLOAT (1) / INT64 (7)
tensors of rank 0, or of rank 1 with 1 to 4 elements, all of whose elements are finite — for every dtype, every
shape. -/
theorem const_inlined_iff (dtype : Nat) (dims : List Nat) (finite : Bool) (lit : String) :
    (constRepr (.tensor dtype dims finite lit)).isSome = true ↔
      (dtype = 1 ∨ dtype = 7) ∧ (dims = [] ∨ ∃ n, dims = [n] ∧ 0 < n ∧ n < 5) ∧ finite = true := by
  unfold constRepr
  match dims with
  | [] =>
    by_cases h : (dtype == 1 || dtype == 7) = true
    · have h' : dtype = 1 ∨ dtype = 7 := by simpa using h
      cases finite <;> simp [h, h']
    · have h' : ¬ (dtype = 1 ∨ dtype = 7) := by simpa using h
      simp [h, h']
  | [n] =>
    by_cases h0 : n = 0
    · subst h0; simp
    · have hc : ([n].contains 0) = false := by simp; omega
      by_cases h : (dtype == 1 || dtype == 7) = true
      · have h' : dtype = 1 ∨ dtype = 7 := by simpa using h
        by_cases hn : n < 5 <;> cases finite <;> simp [hc, h, h', hn] <;> omega
      · have h' : ¬ (dtype = 1 ∨ dtype = 7) := by simpa using h
        simp [hc, h, h']
  | a :: b :: rest =>
    by_cases hc : ((a :: b :: rest).contains 0) = true
    · simp [hc]
    · have hc' : ((a :: b :: rest).contains 0) = false := by simpa using hc
      by_cases h : (dtype == 1 || dtype == 7) = true
      · simp [hc', h]
      · simp [hc', h]

/-- Non-finite constants (C13-NANINF, fixed by 71b4284) and empty constants (C13-EMPTYLIST, fixed by 4e95266)
are never inlined: the node stays an ordinary `Constant(value=make_tensor(…))` call. -/
theorem nonfinite_and_empty_not_inlined (dtype : Nat) (dims : List Nat) (finite : Bool) (lit : String)
    (h : finite = false ∨ 0 ∈ dims) : constRepr (.tensor dtype dims finite lit) = none := by
  have := const_inlined_iff dtype dims finite lit
  cases hc : constRepr (.tensor dtype dims finite lit) with
  | none => rfl
  | some x =>
    rw [hc] at this
    have h2 := this.mp rfl
    rcases h with h | h
    · rw [h] at h2; exact absurd h2.2.2 (by decide)
    · rcases h2.2.1 with h3 | ⟨n, h3, h4, _⟩
      · rw [h3] at h; cases h
      · rw [h3] at h; simp at h; omega

/-- A fact about the operator table only (`decide`): it has no key `"Less"` and has the non-existent `"Lesser"`; so
`sugarOf` never sugars a `Less` node.  (The table does not depend on the options.) -/
theorem less_not_sugared : opsTable.lookup "Less" = none ∧ opsTable.lookup "Lesser" = some "<" := by decide

/-- **`inline_const_repr_partial`** (INT64 scalars): the text `str(int)` parses back to the same integer, for
every integer.  (Finite floats rely on CPython's shortest-repr round trip, A-py, and are compared bit-wise by
the harness on every generated constant.) -/
theorem inline_const_repr_partial (i : Int) : (Int.repr i).toInt? = some i := Int.toInt?_repr i

/-- **`inline_const_repr_int64`** — value rendering of inlined INT64 constants round-trips, for **every** value:
the text `_get_const_repr` prints for an INT64 scalar (`str(np.int64(i))`) or an INT64 rank-1 tensor
(`repr(nparray.tolist())`, any length — the exporter only uses lengths 1–4) is read back (`parse`: optional `-`
and decimal digits; `[` items separated by `", "` `]`) as the same scalar, respectively the same list in the same
order.  `render` is compared character by character with the real `_get_const_repr`, `parse` with Python's own
reading of the text, on every run (`literal_stream`).  This removes the "scalars only" restriction of
`inline_const_repr_partial`; what remains outside is FLOAT (CPython's shortest float `repr`, A-py). -/
theorem inline_const_repr_int64 (v : OV.C13V.Lit) : OV.C13V.parse (OV.C13V.render v) = some v := by
  cases v with
  | scalar i => exact OV.C13V.parseL_scalar i
  | list l =>
    unfold OV.C13V.parse OV.C13V.render
    rw [String.toList_ofList]
    exact OV.C13V.parseL_list l

/-- consequently two different INT64 constants are never printed as the same text -/
theorem inline_const_repr_int64_injective (v w : OV.C13V.Lit) (h : OV.C13V.render v = OV.C13V.render w) : v = w := by
  have hv := inline_const_repr_int64 v
  rw [h, inline_const_repr_int64 w] at hv
  exact (Option.some.inj hv).symm

/-- **`_get_const_repr` on INT64 tensors, end to end**: whenever the exporter inlines an INT64 tensor with
dimensions `dims` and elements `vals` as the text `s`, reading `s` back gives the scalar (rank 0) or the list of
all elements in order (rank 1) — `constLitI64` says which. -/
theorem inline_const_tensor_int64 (dims : List Nat) (vals : List Int) (s : String)
    (h : OV.C13V.constReprI64 dims vals = some s) :
    ∃ v, OV.C13V.constLitI64 dims vals = some v ∧ OV.C13V.parse s = some v := by
  unfold OV.C13V.constReprI64 at h
  cases hv : OV.C13V.constLitI64 dims vals with
  | none => rw [hv] at h; cases h
  | some v =>
    rw [hv] at h
    simp only [Option.map_some, Option.some.injEq] at h
    exact ⟨v, rfl, h ▸ inline_const_repr_int64 v⟩

/-- non-vacuity: a rank-1 tensor with negative and boundary values is inlined, and its text -/
example : OV.C13V.constReprI64 [3] [-9223372036854775808, 0, 9223372036854775807]
    = some "[-9223372036854775808, 0, 9223372036854775807]" := by decide
example : OV.C13V.constReprI64 [] [-7] = some "-7" := by decide
example : OV.C13V.constReprI64 [5] [1, 2, 3, 4, 5] = none ∧ OV.C13V.constReprI64 [0] [] = none
    ∧ OV.C13V.constReprI64 [1, 1] [3] = none := by decide

/-- the value-level model inlines exactly the INT64 tensors the exporter model `constRepr` inlines (dtype 7, all
elements finite): same guard, for every shape and every element list of the right length -/
theorem inline_const_int64_guard (dims : List Nat) (vals : List Int) (lit : String)
    (hlen : vals.length = dims.foldl (· * ·) 1) :
    (OV.C13V.constReprI64 dims vals).isSome = (constRepr (.tensor 7 dims true lit)).isSome := by
  unfold OV.C13V.constReprI64 OV.C13V.constLitI64 constRepr
  cases dims with
  | nil =>
    match vals, hlen with
    | [v], _ => simp
  | cons n t =>
    cases t with
    | nil =>
      by_cases h0 : n = 0
      · subst h0; simp
      · have : ¬ (0 = n) := fun e => h0 e.symm
        by_cases hn : n < 5 <;> simp [this, hn]
    | cons a b => by_cases h0 : 0 ∈ n :: a :: b <;> simp [h0]

example : ([4, -4] : List Int).length = ([2] : List Nat).foldl (· * ·) 1 := by decide

/-- (Records two facts; it does not refute a stated theorem — the suffix `_prefix_refuted` only marks "pre-fix
behaviour".)  Why non-finite constants must not be printed with `str()` (pre-fix behaviour, C13-NANINF):
`str(np.float32('nan'))`, `str(np.float32('inf'))` are the bare words `nan`, `inf` — Python identifiers and not
keywords, hence names, not literals. -/
theorem inline_const_repr_naninf_prefix_refuted :
    (isPyIdentL "nan".toList = true ∧ "nan".toList ∉ kwlistL) ∧
    (isPyIdentL "inf".toList = true ∧ "inf".toList ∉ kwlistL) := by decide


/-! ## Lean witnesses of the other reproduced findings (each is replayed on the real exporter by the harness) -/

/-- C13-RENAME-SIG (fixed by efaa07e): with `rename=True` the signature of a main graph is printed through the
same renamer as the body (after the body, so the numbering of the body is unchanged): input `x` is `v2` in both. -/
theorem rename_signature_fixed :
    (exportModel ⟨true, false, false, false⟩ 2
      ⟨"g", none, [("", 18)],
       .mk ["x"] ["y"] [] 0 [.mk "Relu" "" "" ["x"] ["t"] [], .mk "Neg" "" "" ["t"] ["y"] []]⟩).toOption
      = some ["deco ", "sig g(v2|)", "L1 call v1 = opset18.Relu(v2|)", "L1 call v3 = opset18.Neg(v1|)", "L1 return v3"] := by
  decide +kernel

/-- the loop body `s_out = Add(s_in, x); c_out = Identity(c_in)` of the two loop witnesses -/
def forBody : Graph :=
  .mk ["i", "c_in", "s_in"] ["c_out", "s_out"] [] 0
    [.mk "Add" "" "" ["s_in", "x"] ["s_out"] [], .mk "Identity" "" "" ["c_in"] ["c_out"] []]

/-- C13-FOR-MAIN (fixed by e68372f): a `for` loop (trip count, condition passed through) in a *main graph* is
exported — the main graph now has its own remapping scope — and the suppressed `c_out = c_in` copy and the
state hand-over are printed as for a function body. -/
theorem for_loop_in_main_graph_fixed :
    (exportModel ⟨false, false, false, false⟩ 3 ⟨"g", none, [("", 18)],
        .mk ["x", "n"] ["y"] [] 0 [.mk "Loop" "" "" ["n", "", "x"] ["y"] [("body", .graph forBody)]]⟩).toOption
      = some ["deco ", "sig g(x,n|)", "L1 assign s_in = x", "L1 for i n", "L2 call s_out = opset18.Add(s_in,x|)",
              "L2 assign s_in = s_out", "L1 assign y = s_in", "L1 return y"] := by
  decide +kernel

/-- … under every option tuple the export succeeds (no exception). -/
theorem for_loop_in_main_graph_fixed_all_options : ∀ o : Opts,
    (exportModel o 3 ⟨"g", none, [("", 18)],
        .mk ["x", "n"] ["y"] [] 0 [.mk "Loop" "" "" ["n", "", "x"] ["y"] [("body", .graph forBody)]]⟩).toOption.isSome
      = true := by
  intro ⟨r, u, i, s⟩
  cases r <;> cases u <;> cases i <;> cases s <;> decide +kernel

/-- Pre-fix behaviour, kept as the refuted statement: `_translate_loop` run without any remapping scope (what
`_translate_graph` did before e68372f) raises `IndexError`, for every option tuple. -/
theorem for_loop_without_scope_prefix_refuted : ∀ o : Opts,
    (match translateLoop o (translateNode o [("", 18)] 2 2) 2
        (.mk "Loop" "" "" ["n", "", "x"] ["y"] [("body", .graph forBody)]) 1 {} with
     | .error e => e.pyClass
     | .ok _ => "") = "IndexError" := by
  intro ⟨r, u, i, s⟩
  cases r <;> cases u <;> cases i <;> cases s <;> decide +kernel

/-- … while the same loop in a FunctionProto is exported (the stack has the function's scope). -/
theorem for_loop_in_function_ok :
    (exportFunction ⟨false, false, false, false⟩ 3
      ⟨"f", "this", ["x", "n"], ["y"], [], ["x", "n", "y", "i", "c_in", "s_in", "c_out", "s_out"], [("", 18)],
       [.mk "Loop" "" "" ["n", "", "x"] ["y"] [("body", .graph forBody)]]⟩).toOption
      = some ["deco this1", "sig f(x,n|)", "L1 assign s_in = x", "L1 for i n", "L2 call s_out = opset18.Add(s_in,x|)",
              "L2 assign s_in = s_out", "L1 assign y = s_in", "L1 return y"] := by
  decide +kernel

/-- C13-SKIP-INDENT (fixed by 4af3eb7): `skip_initializers=True` without a large initializer prints the function
at depth 1, without `make_model` — exactly the text of `skip_initializers=False`. -/
theorem skip_initializers_nothing_skipped_fixed :
    (exportModel ⟨false, false, false, true⟩ 2
        ⟨"g", none, [("", 18)], .mk ["x"] ["y"] [] 0 [.mk "Relu" "" "" ["x"] ["y"] []]⟩).toOption
      = some ["deco ", "sig g(x|)", "L1 call y = opset18.Relu(x|)", "L1 return y"] := by
  decide +kernel

/-- … and with a large initializer the function stays one level deep inside `make_model(w)`. -/
theorem skip_initializers_wrapped :
    (exportModel ⟨false, false, false, true⟩ 2
        ⟨"g", none, [("", 18)], .mk ["x"] ["y"] [("w", 6, 1, [6], true, "#big")] 0 [.mk "Add" "" "" ["x", "w"] ["y"] []]⟩).toOption
      = some ["wrap w", "deco ", "sig g(x|)", "L2 call y = opset18.Add(x,w|)", "L2 return y"] := by
  decide +kernel

/-- C13-INLINE-DANGLING (fixed by b124a38): an inlined constant that is a graph output is returned as its literal
(right-hand sides of the SSA-undoing assignments, the `return`s and the Loop trip count are printed through
`_translate_onnx_var_ref`). -/
theorem inline_const_output_fixed :
    (exportModel ⟨false, false, true, false⟩ 2
      ⟨"g", none, [("", 18)],
       .mk ["x"] ["k"] [] 0 [.mk "Constant" "" "" [] ["k"] [("value", .tensor 1 [] true "#0")]]⟩).toOption
      = some ["deco ", "sig g(x|)", "L1 return #0"] := by
  decide +kernel

/-- C13-INLINE-SCOPE (fixed by e0cdb9e): the table of inlined constants is saved before and restored after each If
branch.  `t` is an inlinable Constant in the then-branch and `Add(x, x)` in the else-branch (sibling scopes may define
the same name); the else-branch now reads its own `t`: `r2 = Identity(t)` (pre-fix: `Identity(#0)`, the then-branch's
literal — 1.0 instead of 6.0 for `c = False`, `x = 3`).  Must-pass regression case of the harness. -/
theorem inline_const_sibling_scope_fixed :
    (exportModel ⟨false, false, true, false⟩ 3 ⟨"g", none, [("", 18)],
        .mk ["c", "x"] ["y"] [] 0
          [.mk "If" "" "" ["c"] ["y"]
             [("then_branch", .graph (.mk [] ["r1"] [] 0
                 [.mk "Constant" "" "" [] ["t"] [("value", .tensor 1 [] true "#0")], .mk "Identity" "" "" ["t"] ["r1"] []])),
              ("else_branch", .graph (.mk [] ["r2"] [] 0
                 [.mk "Add" "" "" ["x", "x"] ["t"] [], .mk "Identity" "" "" ["t"] ["r2"] []]))]]⟩).toOption
      = some ["deco ", "sig g(c,x|)", "L1 if c", "L2 call r1 = opset18.Identity(#0|)", "L2 assign y = r1", "L1 else",
              "L2 call t = opset18.Add(x,x|)", "L2 call r2 = opset18.Identity(t|)", "L2 assign y = r2",
              "L1 return y"] := by
  decide +kernel

/-- the same for Loop bodies (e0cdb9e): `t` is an inlined Constant in the first body and `Neg(s2)` in the second;
the second body reads its own `t`. -/
theorem inline_const_loop_body_scope_fixed :
    (exportModel ⟨false, false, true, false⟩ 3 ⟨"g", none, [("", 18)],
        .mk ["n", "x"] ["y"] [] 0
          [.mk "Loop" "" "" ["n", "", "x"] ["a"]
             [("body", .graph (.mk ["i", "ci", "s"] ["co", "so"] [] 0
                 [.mk "Identity" "" "" ["ci"] ["co"] [],
                  .mk "Constant" "" "" [] ["t"] [("value", .tensor 1 [] true "#0")],
                  .mk "Add" "" "" ["s", "t"] ["so"] []]))],
           .mk "Loop" "" "" ["n", "", "a"] ["y"]
             [("body", .graph (.mk ["i2", "ci2", "s2"] ["co2", "so2"] [] 0
                 [.mk "Identity" "" "" ["ci2"] ["co2"] [],
                  .mk "Neg" "" "" ["s2"] ["t"] [],
                  .mk "Add" "" "" ["s2", "t"] ["so2"] []]))]]⟩).toOption
      = some ["deco ", "sig g(n,x|)", "L1 assign s = x", "L1 for i n", "L2 call so = opset18.Add(s,#0|)",
              "L2 assign s = so", "L1 assign a = s", "L1 assign s2 = a", "L1 for i2 n", "L2 call t = opset18.Neg(s2|)",
              "L2 call so2 = opset18.Add(s2,t|)", "L2 assign s2 = so2", "L1 assign y = s2", "L1 return y"] := by
  decide +kernel

/-- **`if_constants_scoped`** (e0cdb9e, for every If node): the table of inlined constants after a successful
`_translate_if` equals the table before it — for every option tuple, every node translator `recIn` (any nesting), every
depth, every state, and also when the If is dropped as dead.  **This is all the theorem says** (nothing a branch inlines
survives the statement).  That the else-branch starts from the saved table, i.e. does not see the then-branch's
constants, is how `translateIf` is *defined* (tied to the real exporter by the correspondence runs) and is shown on
the concrete witness `inline_const_sibling_scope_fixed`; it is not a consequence of this theorem. -/
theorem if_constants_scoped (o : Opts) (recIn : Node → St → R) (d : Nat) (n : Node) (indent : Nat) (st : St)
    (lines : List String) (st' : St) (h : translateIf o recIn d n indent st = .ok (lines, st')) :
    st'.constants = st.constants := by
  unfold translateIf at h
  simp only at h
  split at h
  · split at h
    · cases h
    · split at h
      · cases h
      · split at h
        all_goals
          split at h <;>
          · simp only [Except.ok.injEq, Prod.mk.injEq] at h
            rw [← h.2]; exact OV.C13.translateVarRef_constants o st _
  · cases h

/-- non-vacuity of `if_constants_scoped`: an If whose then-branch inlines a constant is translated (not refused), from
a state that already holds a constant -/
example :
    ((translateIf ⟨false, false, true, false⟩ (translateNode ⟨false, false, true, false⟩ [("", 18)] 2 2) 2
        (.mk "If" "" "" ["c"] ["y"]
          [("then_branch", .graph (.mk [] ["t"] [] 0 [.mk "Constant" "" "" [] ["t"] [("value", .tensor 1 [] true "#0")]])),
           ("else_branch", .graph (.mk [] ["r2"] [] 0 [.mk "Neg" "" "" ["x"] ["r2"] []]))])
        1 { constants := [("k", "#9")], namesRead := ["y"] }).toOption.map (fun r => (r.1.length, r.2.constants)))
      = some (5, [("k", "#9")]) := by decide +kernel

/-- **`function_constants_cleared`** (e0cdb9e): `_translate_function` starts every function from an empty table of
inlined constants, whatever was translated before (for every start state) -/
theorem function_constants_cleared (o : Opts) (d : Nat) (f : FunctionP) (st : St) :
    (funcState o d f st).constants = [] := by
  unfold funcState
  simp only [OV.C13.translateVars_constants]

/-- C13-READ-SCOPE (fixed by ce0fc89): `_names_read` is the read set of the graph being translated.  The inner If of the
then-branch is dead (its result `a` is read nowhere in its graph); the else-branch defines and reads its own `a`
(sibling scopes may define the same name).  The dead If is now dropped (pre-fix it was printed, `a` assigned in both
inner branches and never read, and the converter refused the text).  Must-pass regression case of the harness. -/
theorem read_scope_sibling_fixed :
    (exportModel ⟨false, false, false, false⟩ 4 ⟨"g", none, [("", 18)],
        .mk ["c", "x"] ["y"] [] 0
          [.mk "If" "" "" ["c"] ["y"]
             [("then_branch", .graph (.mk [] ["r1"] [] 0
                 [.mk "If" "" "" ["c"] ["a"]
                    [("then_branch", .graph (.mk [] ["k1"] [] 0 [.mk "Neg" "" "" ["x"] ["k1"] []])),
                     ("else_branch", .graph (.mk [] ["k2"] [] 0 [.mk "Abs" "" "" ["x"] ["k2"] []]))],
                  .mk "Relu" "" "" ["x"] ["r1"] []])),
              ("else_branch", .graph (.mk [] ["r2"] [] 0
                 [.mk "Tanh" "" "" ["x"] ["a"] [], .mk "Identity" "" "" ["a"] ["r2"] []]))]]⟩).toOption
      = some ["deco ", "sig g(c,x|)", "L1 if c", "L2 call r1 = opset18.Relu(x|)", "L2 assign y = r1", "L1 else",
              "L2 call a = opset18.Tanh(x|)", "L2 call r2 = opset18.Identity(a|)", "L2 assign y = r2",
              "L1 return y"] := by
  decide +kernel

/-- **`graph_body_read_set_scoped`** (ce0fc89, for every subgraph): while a subgraph is translated `_names_read` is that
graph's own set (`graphBodyR` is `graphBody` from the state with `namesRead := g.outputs ++ namesReadBy d g.nodes`), and
afterwards the enclosing graph's set is back — for every option tuple, node translator, graph and state. -/
theorem graph_body_read_set_scoped (o : Opts) (d : Nat) (rec : Node → St → R) (g : Graph) (st : St)
    (lines : List String) (st' : St) (h : graphBodyR o d rec g st = .ok (lines, st')) :
    st'.namesRead = st.namesRead
    ∧ ∃ st1, graphBody o rec g { st with namesRead := g.outputs ++ namesReadBy d g.nodes } = .ok (lines, st1) := by
  unfold graphBodyR at h
  simp only at h
  split at h
  · cases h
  · rename_i l st1 heq
    simp only [Except.ok.injEq, Prod.mk.injEq] at h
    exact ⟨by rw [← h.2], ⟨st1, by rw [heq, h.1]⟩⟩

/-- non-vacuity: a subgraph is translated from a state whose read set is another graph's -/
example :
    ((graphBodyR ⟨false, false, false, false⟩ 2 (translateNode ⟨false, false, false, false⟩ [("", 18)] 2 2)
        (.mk [] ["r2"] [] 0 [.mk "Neg" "" "" ["x"] ["r2"] []]) { namesRead := ["a", "y"] }).toOption.map
          (fun r => (r.1, r.2.namesRead)))
      = some (["L2 call r2 = opset18.Neg(x|)"], ["a", "y"]) := by decide +kernel

/-- C13-OPSET-NAME (fixed by 7e6d802): the module-level names of the generated text (opset aliases, `np`,
`make_tensor`, …, the imported type names) are reserved in the unique-name mapper: a value named `opset18` is
printed `opset18_1`. -/
theorem opset_alias_reserved_fixed :
    (exportModel ⟨false, false, false, false⟩ 2
      ⟨"g", none, [("", 18)],
       .mk ["x"] ["y"] [] 0 [.mk "Relu" "" "" ["x"] ["opset18"] [], .mk "Neg" "" "" ["opset18"] ["y"] []]⟩).toOption
      = some ["deco ", "sig g(x|)", "L1 call opset18_1 = opset18.Relu(x|)", "L1 call y = opset18.Neg(opset18_1|)",
              "L1 return y"] := by
  decide +kernel

/-- the loop body of the two break-loop statements: `s_out = Add(s_in, x); c_out = Less(s_out, x)` -/
def breakBody : Graph :=
  .mk ["i", "c_in", "s_in"] ["c_out", "s_out"] [] 0
    [.mk "Add" "" "" ["s_in", "x"] ["s_out"] [], .mk "Less" "" "" ["s_out", "x"] ["c_out"] []]

/-- C13-LOOP-BREAK-NOINIT (fixed by 413fb60): a Loop with a trip count and a computed condition but **no initial
condition** is printed `for …: <body>; c_in = Not(c_out); <hand-over>; if c_in: break` — the form the converter
accepts. -/
theorem loop_break_last_fixed :
    (exportModel ⟨false, false, false, false⟩ 3 ⟨"g", none, [("", 18)],
        .mk ["x", "n"] ["y"] [] 0 [.mk "Loop" "" "" ["n", "", "x"] ["y"] [("body", .graph breakBody)]]⟩).toOption
      = some ["deco ", "sig g(x,n|)", "L1 assign s_in = x", "L1 for i n", "L2 call s_out = opset18.Add(s_in,x|)",
              "L2 call c_out = opset18.Less(s_out,x|)", "L2 call c_in = opset18.Not(c_out|)", "L2 assign s_in = s_out",
              "L2 breakif c_in", "L1 assign y = s_in", "L1 return y"] := by
  decide +kernel

/-- C13-LOOP-BREAK (open, narrowed): the same loop **with** an initial condition input is still printed with the
break first, on `not c_in` (`forbreak`), which the converter refuses. -/
theorem loop_break_with_initial_condition_witness :
    (exportModel ⟨false, false, false, false⟩ 3 ⟨"g", none, [("", 18)],
        .mk ["x", "n", "c0"] ["y"] [] 0 [.mk "Loop" "" "" ["n", "c0", "x"] ["y"] [("body", .graph breakBody)]]⟩).toOption
      = some ["deco ", "sig g(x,n,c0|)", "L1 assign c_in = c0", "L1 assign s_in = x", "L1 forbreak i n c_in",
              "L2 call s_out = opset18.Add(s_in,x|)", "L2 call c_out = opset18.Less(s_out,x|)", "L2 assign c_in = c_out",
              "L2 assign s_in = s_out", "L1 assign y = s_in", "L1 return y"] := by
  decide +kernel

/-- C13-DEAD-IF-DIRECT (fixed by 0215218): an If none of whose outputs is read anywhere is dropped from the text.
(The *open* finding C13-DEAD-IF is the transitive remainder, `dead_if_transitive_witness`.) -/
theorem dead_if_dropped_fixed :
    (exportModel ⟨false, false, false, false⟩ 3 ⟨"g", none, [("", 18)],
        .mk ["x", "c"] ["y"] [] 0
          [.mk "If" "" "" ["c"] ["unused"]
             [("then_branch", .graph (.mk [] ["k1"] [] 0 [.mk "Neg" "" "" ["x"] ["k1"] []])),
              ("else_branch", .graph (.mk [] ["k2"] [] 0 [.mk "Abs" "" "" ["x"] ["k2"] []]))],
           .mk "Relu" "" "" ["x"] ["y"] []]⟩).toOption
      = some ["deco ", "sig g(x,c|)", "L1 call y = opset18.Relu(x|)", "L1 return y"] := by
  decide +kernel

/-- C13-DEAD-IF (open, narrowed): `_names_read` is not transitive — an If read only by another If that is dropped is
still printed, with a result variable (`a`) that nothing reads; the converter refuses such an `if`. -/
theorem dead_if_transitive_witness :
    (exportModel ⟨false, false, false, false⟩ 3 ⟨"g", none, [("", 18)],
        .mk ["x", "c"] ["y"] [] 0
          [.mk "If" "" "" ["c"] ["a"]
             [("then_branch", .graph (.mk [] ["q1"] [] 0 [.mk "Neg" "" "" ["x"] ["q1"] []])),
              ("else_branch", .graph (.mk [] ["q2"] [] 0 [.mk "Abs" "" "" ["x"] ["q2"] []]))],
           .mk "If" "" "" ["c"] ["unused"]
             [("then_branch", .graph (.mk [] ["q3"] [] 0 [.mk "Relu" "" "" ["a"] ["q3"] []])),
              ("else_branch", .graph (.mk [] ["q4"] [] 0 [.mk "Tanh" "" "" ["a"] ["q4"] []]))],
           .mk "Relu" "" "" ["x"] ["y"] []]⟩).toOption
      = some ["deco ", "sig g(x,c|)", "L1 if c", "L2 call q1 = opset18.Neg(x|)", "L2 assign a = q1", "L1 else",
              "L2 call q2 = opset18.Abs(x|)", "L2 assign a = q2", "L1 call y = opset18.Relu(x|)", "L1 return y"] := by
  decide +kernel

/-- C13-LOCAL-FUNCTIONS (fixed by 41fb399): a call of a model-local function printed above goes through the Python
function (`helper(x, x)`), not through the Opset object. -/
theorem local_function_call_fixed :
    (exportModelF [] ⟨false, false, false, false⟩ 3
      [⟨"helper", "my.dom", ["A", "B"], ["R"], [], ["A", "B", "R", "T"], [("", 18)],
        [.mk "Relu" "" "" ["A"] ["T"] [], .mk "Add" "" "" ["T", "B"] ["R"] []]⟩]
      ⟨"g", none, [("", 18), ("my.dom", 1)],
       .mk ["x"] ["y"] [] 0 [.mk "helper" "my.dom" "" ["x", "x"] ["t"] [], .mk "Neg" "" "" ["t"] ["y"] []]⟩).toOption
      = some ["deco my_dom1", "sig helper(A,B|)", "L1 call T = opset18.Relu(A|)", "L1 call R = opset18.Add(T,B|)",
              "L1 return R", "deco ", "sig g(x|)", "L1 call t = helper(x,x|)", "L1 call y = opset18.Neg(t|)",
              "L1 return y"] := by
  decide +kernel

/-- C13-ATTR-INPUT-CLASH (fixed by 9e40403): the attribute parameters are registered before the inputs are
translated, so an input whose Python name equals an attribute parameter is renamed in the signature exactly as in
the body (`v1_0`), and the signature has no duplicate. -/
theorem attr_input_clash_fixed :
    (exportFunction ⟨true, false, false, false⟩ 2
      ⟨"af_w", "this", ["X"], ["y"], ["v1"], ["X", "y"], [("", 18)],
       [.mk "Elu" "" "" ["X"] ["y"] [("alpha", .ref "v1")]]⟩).toOption
      = some ["deco this1", "sig af_w(v1_0|v1)", "L1 call v2 = opset18.Elu(v1_0|alpha=@v1)", "L1 return v2"] := by
  decide +kernel

/-- C13-POW-NEG (fixed by b6d60b3): the negative literal base of `**` is printed in parentheses … -/
theorem pow_neg_parenthesised_fixed :
    (exportModel ⟨false, true, true, false⟩ 2
      ⟨"g", none, [("", 18)],
       .mk ["x"] ["y"] [] 0
        [.mk "Constant" "" "" [] ["c"] [("value", .tensor 1 [] true "-#0")], .mk "Pow" "" "" ["c", "x"] ["y"] []]⟩).toOption
      = some ["deco default_opset=opset18", "sig g(x|)", "L1 op y = (-#0) ** x", "L1 return y"] := by
  decide +kernel

/-- … and nothing else is ever parenthesised: the operand list is unchanged unless the operator is `Pow` and the
first operand's text starts with `-`. -/
theorem powParen_only_pow_neg (op : String) (a : String) (rest : List String)
    (h : op ≠ "Pow" ∨ a.toList.head? ≠ some '-') : powParen op (a :: rest) = a :: rest := by
  unfold powParen
  rcases h with h | h
  · have : (op == "Pow") = false := by simpa using h
    simp [this]
  · have : (a.toList.head? == some '-') = false := by simpa using h
    simp [this]

/-! ## the round trip on the straight-line fragment (`export_roundtrip`) -/

/-- **On the fragment the exporter prints exactly `exportStraight`**: for every option tuple with `rename=False`,
`inline_const=False` (either value of `use_operators`, `skip_initializers`), every straight-line model of the
fragment (`straightModel`: no initializers, standard-domain plain nodes with printable attributes, operator sugar
only where it is symmetric), the string-level model tied to the real exporter returns the rendering of the
structured program the next theorem is about. -/
theorem export_prints_straight (tys : List String) (o : Opts) (m : ModelP) (h : straightModel tys o m = true)
    (d : Nat) : exportModelT tys o (d + 1) m = .ok (renderProg (exportStraight tys o m)) :=
  exportModel_straight tys o m h d

/-- **`export_roundtrip_partial`** — ONNX → Python → ONNX on the straight-line fragment, **without any hypothesis on
the names** (since da27432 the exporter's renaming is injective by construction): the graph the converter reads
back from the exported program (`progToGraph`: one node per statement, callee through the import table, operator
sugar through the converter's own `primop_map`, `None` ↦ absent input) computes the same outputs as the original
**for every operator semantics `S` (uninterpreted), every argument list**, and its inputs/outputs are the original
ones renamed by the export's table.  *Partial* because of the fragment only: `straightModel` excludes the
asymmetric sugar cases (`sugar_table_asymmetry`, `sugar_reads_back_without_attributes`), inlined constants,
initializers and control flow (those are observed by the execution oracle, not proved). -/
theorem export_roundtrip_partial {V : Type} (S : Sem V) (tys : List String) (o : Opts) (m : ModelP)
    (hfrag : straightModel tys o m = true) (args : List V) :
    evalGraph S (progToGraph (exportStraight tys o m)) args = evalGraph S m.graph args
    ∧ (progToGraph (exportStraight tys o m)).inputs = m.graph.inputs.map (tblF (finalTable tys o m))
    ∧ (progToGraph (exportStraight tys o m)).outputs = m.graph.outputs.map (tblF (finalTable tys o m)) := by
  have hsyn := progToGraph_exportStraight tys o m hfrag
  have h' := hfrag
  unfold straightModel at h'
  simp only [Bool.and_eq_true, List.all_eq_true, bne_iff_ne, ne_eq] at h'
  obtain ⟨⟨⟨⟨⟨⟨⟨⟨⟨⟨⟨_, _⟩, _⟩, _⟩, _⟩, _⟩, _⟩, hin⟩, hout⟩, _⟩, _⟩, _⟩ := h'
  rw [hsyn]
  refine ⟨?_, rfl, rfl⟩
  exact evalGraph_ren S (tblF (finalTable tys o m)) m.graph (goodRen_finalTable tys o m hfrag) hin hout args

/-- the renaming of the theorem is injective on the graph's names and never yields the empty name -/
theorem export_roundtrip_renaming_injective (tys : List String) (o : Opts) (m : ModelP)
    (hfrag : straightModel tys o m = true) :
    ∀ a ∈ namesOfGraph 0 m.graph, ∀ b ∈ namesOfGraph 0 m.graph,
      tblF (finalTable tys o m) a = tblF (finalTable tys o m) b → a = b :=
  (goodRen_finalTable tys o m hfrag).inj

/-- non-vacuity: a model of the fragment whose names collide after clean-up (`t.0` / `t_0`), need cleaning
(`x.1`, `5`, `y:0`), with sugar on and an absent optional input -/
example :
    straightModel ["FLOAT"] ⟨false, true, false, true⟩
      ⟨"g", none, [("", 18)],
       .mk ["x.1", "5"] ["y:0"] [] 0
        [.mk "Relu" "" "" ["x.1"] ["t.0"] [], .mk "Neg" "" "" ["x.1"] ["t_0"] [],
         .mk "Add" "" "" ["t.0", "t_0"] ["u"] [],
         .mk "Clip" "" "" ["u", "", "5"] ["y:0"] [("dummy", .plain)]]⟩ = true := by decide

example :
    (exportStraight ["FLOAT"] ⟨false, true, false, true⟩
      ⟨"g", none, [("", 18)],
       .mk ["x.1", "5"] ["y:0"] [] 0
        [.mk "Relu" "" "" ["x.1"] ["t.0"] [], .mk "Neg" "" "" ["x.1"] ["t_0"] [],
         .mk "Add" "" "" ["t.0", "t_0"] ["u"] []]⟩).body.map (renderStmt 1)
      = ["L1 call t_0 = opset18.Relu(x_1|)", "L1 call t_0_1 = opset18.Neg(x_1|)", "L1 op u = t_0 + t_0_1"] := by
  decide

/-- **The round trip with initializers** (`export_roundtrip_inits_partial`): initializers that are neither skipped
(`skip_initializers` only skips tensors of more than 4 elements) nor inlined are printed exactly like leading `Constant`
nodes holding the tensor (`exportModel_unfoldInits`), and an initializer *denotes* what the operator semantics gives
that `Constant` node (`evalGraphI`).  For every model whose unfolded form is in the straight-line fragment, every
uninterpreted operator semantics and every argument list, the exporter prints `exportStraight` of the unfolded model
and the graph read back computes what the original graph with its initializers computes. -/
theorem export_roundtrip_inits_partial {V : Type} (S : Sem V) (tys : List String) (o : Opts) (m : ModelP) (d : Nat)
    (hskip : noneSkipped o m.graph = true) (hfrag : straightModel tys o m.unfoldInits = true) (args : List V) :
    exportModelT tys o (d + 1) m = .ok (renderProg (exportStraight tys o m.unfoldInits))
    ∧ evalGraph S (progToGraph (exportStraight tys o m.unfoldInits)) args = evalGraphI S m.graph args := by
  have hs : m.graph.nSparse = 0 := by
    have h' := hfrag
    unfold straightModel at h'
    simp only [Bool.and_eq_true, beq_iff_eq] at h'
    have := h'.1.1.1.1.1.1.1.2
    simpa [ModelP.unfoldInits, initsAsNodes, Graph.nSparse] using this
  constructor
  · rw [exportModel_unfoldInits tys o (d + 1) m hskip hs]
    exact exportModel_straight tys o m.unfoldInits hfrag d
  · exact (export_roundtrip_partial S tys o m.unfoldInits hfrag args).1

/-- non-vacuity: a model with two initializers (one needing clean-up) in the extended fragment -/
example :
    noneSkipped ⟨false, true, false, true⟩
      (.mk ["x"] ["y"] [("w.0", 3, 1, [3], true, "#0"), ("b", 1, 1, [], true, "#1")] 0
        [.mk "Mul" "" "" ["x", "w.0"] ["t"] [], .mk "Add" "" "" ["t", "b"] ["y"] []]) = true
    ∧ straightModel ["FLOAT"] ⟨false, true, false, true⟩
      (ModelP.unfoldInits ⟨"g", none, [("", 18)],
        .mk ["x"] ["y"] [("w.0", 3, 1, [3], true, "#0"), ("b", 1, 1, [], true, "#1")] 0
          [.mk "Mul" "" "" ["x", "w.0"] ["t"] [], .mk "Add" "" "" ["t", "b"] ["y"] []]⟩) = true := by
  decide

/-- **Which table entries are asymmetric**: of the exporter's operator table exactly the (dead) key `"Lesser"` is
not mapped back to itself by the converter's `primop_map` (`<` reads back as `Less`); every other entry is
symmetric at the level of operator names. -/
theorem sugar_table_asymmetry :
    ∀ p ∈ opsTable, (convTable.lookup p.2 = some p.1 ↔ p.1 ≠ "Lesser") := by decide

/-- **Operator table theorem**: every printed operator of the exporter's table other than the dead `"Lesser"`,
re-translated by the converter's `primop_map`, gives the same `op_type` in the standard domain, with the two
operands in order, one output and **no attributes** — so the round trip of a sugared node is exact precisely
when the node had no attributes (the ONNX schemas of these twelve operators declare none: checked against
`onnx.defs` on every run by the harness). -/
theorem sugar_roundtrip_table (imports : List (String × String)) (out a b : String) :
    ∀ p ∈ opsTable, p.1 ≠ "Lesser" →
      stmtToNode imports (.binop out p.2 a b) = Node.mk p.1 "" "" [unPy a, unPy b] [out] [] := by
  intro p hp hne
  have h := (sugar_table_asymmetry p hp).mpr hne
  simp only [stmtToNode, h, Option.getD_some]

/-- (Definitional: holds by `rfl` from `stmtToNode`, the model of the converter's reading — its content is the tie of
`stmtToNode` to the real converter, not a proof.)  **Sugar never carries attributes back**: whatever the node had, the node read from `out = a sym b` has none —
the second asymmetry (a sugared operator whose attributes matter, e.g. `Mod`/`fmod` if `%` were added to the
table, silently loses them); `straightModel` therefore requires sugared nodes to have no attributes. -/
theorem sugar_reads_back_without_attributes (imports : List (String × String)) (out sym a b : String) :
    (stmtToNode imports (.binop out sym a b)).attrs = [] ∧
    (stmtToNode imports (.binop out sym a b)).ins.length = 2 := ⟨rfl, rfl⟩

/-- … and this matters: with an attribute-sensitive semantics (`S.op` returns the number of attributes) a sugared
`Add` carrying an attribute reads back as a different computation — the full statement without the symmetry
hypothesis is false. -/
theorem sugar_with_attributes_refuted :
    let S : Sem Nat := ⟨fun _ _ attrs _ => some [attrs.length]⟩
    let o : Opts := ⟨false, true, false, false⟩
    let m : ModelP := ⟨"g", none, [("", 18)],
      .mk ["x"] ["y"] [] 0 [.mk "Add" "" "" ["x", "x"] ["y"] [("fmod", .plain)]]⟩
    evalGraph S (progToGraph (exportStraight ["FLOAT"] o m)) [7] ≠ evalGraph S m.graph [7] := by
  decide

/-- **C13-POW-NEG refuted statement**: a negative scalar literal printed in front of `**` is read by Python as
`-(3 ** x)`; with `x = 2` the intended `Pow(-3, x)` is 9, the text's value is −9.  `**` is the only symbol of the
table for which the two readings differ (`pow_neg_only_power`). -/
theorem pow_neg_literal_refuted :
    evalPy (fun _ => 2) (pyRead (.lit true 3) "**" (.name "x")) = -9 ∧
    evalPy (fun _ => 2) (intended (.lit true 3) "**" (.name "x")) = 9 := by decide

theorem pow_neg_only_power (a b : Operand) (sym : String) (h : sym ≠ "**") : pyRead a sym b = intended a sym b := by
  unfold pyRead intended
  cases a with
  | name s => rfl
  | lit neg mag => cases neg <;> simp [h]

/-- C13-OPS-NO-OPSET (fixed by 24e6aa0): with `use_operators=True` the decorator names the imported standard opset,
so a body printed with Python operators only still converts; without `use_operators` the text stays `@script()`. -/
theorem ops_only_default_opset_fixed :
    (exportModel ⟨false, true, false, false⟩ 2
      ⟨"g", none, [("", 18)], .mk ["x"] ["y"] [] 0 [.mk "Add" "" "" ["x", "x"] ["y"] []]⟩).toOption
      = some ["deco default_opset=opset18", "sig g(x|)", "L1 op y = x + x", "L1 return y"]
    ∧ (exportModel ⟨false, false, false, false⟩ 2
      ⟨"g", none, [("", 18)], .mk ["x"] ["y"] [] 0 [.mk "Add" "" "" ["x", "x"] ["y"] []]⟩).toOption
      = some ["deco ", "sig g(x|)", "L1 call y = opset18.Add(x,x|)", "L1 return y"] := by
  constructor <;> decide +kernel

/-- the decorator argument is empty exactly when operators are not used or no standard opset is imported -/
theorem default_opset_arg_spec (o : Opts) (opsets : List (String × Nat)) :
    defaultOpsetArg o opsets = "" ↔ (o.useOps = false ∨ (opsets.lookup "" = none ∧ opsets.lookup "ai.onnx" = none)) := by
  unfold defaultOpsetArg
  cases hu : o.useOps
  · simp
  · cases h1 : opsets.lookup "" with
    | some v =>
      simp only [if_true, Bool.true_eq_false, false_or, reduceCtorEq, false_and, iff_false]
      intro h
      have := congrArg String.toList h
      simp [String.toList_append] at this
    | none =>
      cases h2 : opsets.lookup "ai.onnx" with
      | some v =>
        simp only [if_true, Bool.true_eq_false, false_or, true_and, reduceCtorEq, iff_false]
        intro h
        have := congrArg String.toList h
        simp [String.toList_append] at this
      | none => simp

/-! ## type annotations -/
open OV.C13T in
/-- **`type_annotation_roundtrip`**: for every tensor type — every element type that has a class in `onnx_types`, every
shape: unknown rank, rank 0, any rank with static sizes (0 included), symbolic and unknown dimensions — the annotation
`onnx_type_to_onnxscript_repr` prints evaluates (`__class_getitem__`, Python's one-item subscript is not a tuple,
`X[None]` is `(None,)`) and converts back (`to_type_proto`) to the same type. -/
theorem type_annotation_roundtrip (t : OV.C13T.TType) (a : OV.C13T.Ann) (h : OV.C13T.toAnn t = some a) :
    OV.C13T.evalAnn a = some t := by
  unfold toAnn at h
  cases hn : dtypeTable.lookup t.dtype with
  | none => rw [hn] at h; cases h
  | some name =>
    rw [hn] at h
    have hc := class_of_name _ (lookup_mem _ _ _ hn)
    simp only at hc
    obtain ⟨dt, sh⟩ := t
    simp only at hn hc h
    cases sh with
    | none =>
      simp only [Option.some.injEq] at h; subst h
      simp only [evalAnn, hc, Option.map_some, toTypeProtoShape]
    | some ds =>
      cases ds with
      | nil =>
        simp only [Option.some.injEq] at h; subst h
        simp only [evalAnn, hc, Option.map_some, toTypeProtoShape]
      | cons d rest =>
        simp only [Option.some.injEq] at h; subst h
        simp only [evalAnn, hc, Option.map_some, shape_of_classGetitem (d :: rest) (by simp)]

open OV.C13T in
/-- every element type of the class table is printed (the hypothesis of the theorem is satisfiable for all 26) -/
theorem type_annotation_total : ∀ p ∈ dtypeTable, ∀ sh, (toAnn ⟨p.1, sh⟩).isSome = true := by
  intro p hp sh
  have : dtypeTable.lookup p.1 = some p.2 := by revert p; decide
  unfold toAnn
  simp only [this]
  cases sh with
  | none => rfl
  | some ds => cases ds <;> rfl

open OV.C13T in
example : (toAnn ⟨1, some [.val 0]⟩).bind evalAnn = some ⟨1, some [.val 0]⟩
    ∧ (toAnn ⟨1, some [.val 0]⟩).map renderAnn = some "FLOAT[0]"
    ∧ (toAnn ⟨7, some [.sym "N", .val 3, .unk]⟩).map renderAnn = some "INT64['N',3,None]"
    ∧ (toAnn ⟨9, some []⟩).map renderAnn = some "BOOL" ∧ (toAnn ⟨11, none⟩).map renderAnn = some "DOUBLE[...]" := by
  decide

/-! ## attribute parameters of FunctionProtos (`_handle_attrname_conflict`) -/

/-- **The conflict handler keeps value names distinct and away from the attribute parameters** — for every set of
attribute parameters `A`, every set `N0` of names marked used at the start (the base names of all values of the
function and the attribute names, as `_translate_function` sets `_names_used`), every request sequence over `N0`
(any length, any repetition): no printed name is an attribute parameter, and two requests print the same name
**iff** they are the same base name.  (This is where the seeded change C13-3 lives: accepting a candidate that is
in `_names_used` breaks `findCand_notin`.) -/
theorem attr_conflict_names_injective (A N0 : List String) (hA : ∀ a ∈ A, a ∈ N0) (hnd : A.Nodup)
    (nns : List String) (hN : ∀ n ∈ nns, n ∈ N0) :
    (conflictRun (A.map (·, none)) N0 nns).1.length = nns.length
    ∧ (∀ r ∈ (conflictRun (A.map (·, none)) N0 nns).1, r ∉ A)
    ∧ ∀ i j (hi : i < nns.length) (hj : j < nns.length),
        ((conflictRun (A.map (·, none)) N0 nns).1[i]? = (conflictRun (A.map (·, none)) N0 nns).1[j]?
          ↔ nns[i] = nns[j]) := by
  obtain ⟨hinv, _, hrs, hset, hna⟩ :=
    conflictRun_spec hA nns _ _ (confInv_start A N0 hA hnd) hN
  refine ⟨by rw [hrs]; simp, hna, ?_⟩
  intro i j hi hj
  rw [hrs]
  simp only [List.getElem?_map, List.getElem?_eq_getElem hi, List.getElem?_eq_getElem hj, Option.map_some,
    Option.some.injEq]
  constructor
  · intro e
    exact confRes_inj hinv (hN _ (List.getElem_mem hi)) (hN _ (List.getElem_mem hj))
      (hset _ (List.getElem_mem hi)) (hset _ (List.getElem_mem hj)) e
  · intro e; rw [e]

/-- **`function_names_injective`** — the names `_translate_function` prints, both layers composed: in the exporter
state in which the signature is printed (`funcState`: `_attr_renaming` reset, pre-pass over the used names done,
attribute parameters registered), every sequence of renamer requests for values of the function — the inputs of the
signature, the outputs and inputs of the body's nodes, the `return` — prints no attribute parameter's name, and
prints the same Python name for two requests **iff** they are the same ONNX value; under `rename=False` (unique-name
mapper + conflict layer) and under `rename=True` (short-name mapper + conflict layer), for every attribute list
without duplicates and every start state whose tables are well formed (`Plain`, `TblInv`, duplicate-free short keys:
true of the state `export()` starts from). -/
theorem function_names_injective (o : Opts) (d : Nat) (f : FunctionP) (st0 : St)
    (hp : Plain st0) (hT : TblInv st0.uniq) (hK : st0.shortKeys.Nodup)
    (hattrs : f.attrs.Nodup) (hne : ∀ v ∈ f.usedOrder, v ≠ "")
    (vs : List String) (hvs : ∀ v ∈ vs, v ∈ f.usedOrder) :
    (translateVars o (funcState o d f st0) vs).1.length = vs.length
    ∧ (∀ r ∈ (translateVars o (funcState o d f st0) vs).1, r ∉ f.attrs)
    ∧ ∀ i j (hi : i < vs.length) (hj : j < vs.length),
        ((translateVars o (funcState o d f st0) vs).1[i]? = (translateVars o (funcState o d f st0) vs).1[j]?
          ↔ vs[i] = vs[j]) :=
  function_names_injective_aux o d f st0 hp hT hK hattrs hne vs hvs

/-- the state `export()` starts a FunctionProto from (`exportFunction`): the unique-name mapper seeded with the
reserved module-level names -/
def fnStart (f : FunctionP) : St := { uniq := reservedTable (reservedNames [] [f.opsets] [f.domain]) }

/-- (Definitional, `rfl`: it only names the start state so that `exportFunction_names_injective` can be stated.)
`exportFunction` is `_translate_function` run from `fnStart` -/
theorem exportFunction_from_start (o : Opts) (d : Nat) (f : FunctionP) :
    exportFunction o d f = (translateFunction o d f (fnStart f)).map (·.1) := rfl

section
attribute [local irreducible] OV.C13.reservedNames
/-- … `function_names_injective` instantiated at that state: the only side condition left is the checked `reservedOk`. -/
theorem exportFunction_names_injective (o : Opts) (d : Nat) (f : FunctionP)
    (hres : reservedOk (reservedNames [] [f.opsets] [f.domain]) = true)
    (hattrs : f.attrs.Nodup) (hne : ∀ v ∈ f.usedOrder, v ≠ "")
    (vs : List String) (hvs : ∀ v ∈ vs, v ∈ f.usedOrder) :
    (translateVars o (funcState o d f (fnStart f)) vs).1.length = vs.length
    ∧ (∀ r ∈ (translateVars o (funcState o d f (fnStart f)) vs).1, r ∉ f.attrs)
    ∧ ∀ i j (hi : i < vs.length) (hj : j < vs.length),
        ((translateVars o (funcState o d f (fnStart f)) vs).1[i]? =
            (translateVars o (funcState o d f (fnStart f)) vs).1[j]? ↔ vs[i] = vs[j]) := by
  have hp : Plain (fnStart f) := ⟨rfl, fun _ => rfl, rfl, rfl⟩
  have hT : TblInv (fnStart f).uniq := by
    have h := (tblInv_reserved (reservedNames_nodup [] [f.opsets] [f.domain]) hres).1
    unfold fnStart
    exact h
  have hK : (fnStart f).shortKeys.Nodup := List.nodup_nil
  exact function_names_injective o d f (fnStart f) hp hT hK hattrs hne vs hvs
end

/-- non-vacuity (the C13-3 scenario through the whole function set-up): attribute `alpha`, values `alpha`, `alpha_0`,
`X`, `a.b`, `a_b` — both modes -/
example :
    (translateVars ⟨false, false, false, false⟩
      (funcState ⟨false, false, false, false⟩ 2
        ⟨"f", "this", ["X"], ["alpha_0"], ["alpha"], ["X", "a.b", "a_b", "alpha", "alpha_0"], [("", 18)], []⟩ {})
      ["alpha", "alpha_0", "X", "a.b", "a_b", "alpha"]).1 = ["alpha_1", "alpha_0", "X", "a_b", "a_b_1", "alpha_1"]
    ∧ (translateVars ⟨true, false, false, false⟩
      (funcState ⟨true, false, false, false⟩ 2
        ⟨"f", "this", ["X"], ["y"], ["v2"], ["X", "t", "y"], [("", 18)], []⟩ {})
      ["t", "X", "y", "t"]).1 = ["v2_0", "v1", "v3", "v2_0"] := by
  decide

/-- the scenario of C13-3: attribute `alpha`, values with base names `alpha`, `alpha_0`, `X` -/
example : (conflictRun (["alpha"].map (·, none)) ["alpha", "alpha", "alpha_0", "X"] ["alpha", "alpha_0", "X", "alpha"]).1
    = ["alpha_1", "alpha_0", "X", "alpha_1"] := by decide

end OV.Props.C13
