import OV.Model.C15Wrappers
import OV.Gen.C15Plumbing
/-!
# C15 — a ModelProto and an IR model are treated alike, and nothing untouched is lost

Property theorems only.  Model: `OV.Model.C15Wrappers` (the wrappers of `/repo` transcribed as record
algebra over *carriers*).  **Scope**: these theorems decide the wrappers' plumbing — which carrier of
the result comes from where, which object is mutated, what is returned — for *every* serde `s`, every
IR-level transformation `T`, every model.  What `onnx_ir`'s serde does to one carrier (loses nothing,
idempotent, payload bytes) and what the passes leave alone (`FrameOK`) are **contracts**: hypotheses
here, validated against the real `onnx_ir` by the harness on every run, never proved.
-/
namespace OV.Props.C15
open OV.C15

variable {P I W : Type}

/-- Frame contract on the IR transformation of API `f` (A-ir + the passes of `/repo`): a carrier outside
`touches f` serialises to the same content after the transformation as before it. -/
def FrameOK (s : Serde P I) (T : Api → Opts W → Rec I → Rec I) (f : Api) : Prop :=
  ∀ (o : Opts W) (m : Rec I) (c : Carrier), touches f c = false → s.ser (T f o m) c = s.ser m c

/-- The serde contract (A-ir), per carrier: `N` is idempotent and whatever is populated in `M`
reappears in `N M` (`Incl a b` = "`b` holds every populated field of `a` with the same value; only
explicitly-default fields may be missing, only initializer-implied annotations may be extra"). -/
structure SerdeContract (s : Serde P I) (Incl : P → P → Prop) : Prop where
  idem : ∀ M, s.N (s.N M) = s.N M
  incl : ∀ M c, Incl (M c) (s.N M c)

/-- `SerdeContract` is satisfiable by a serde that really normalises (not the identity): `de` rounds down to even,
`ser` is the identity, `Incl a b` = "`b ≤ a` and they differ by at most the dropped bit". -/
example : ∃ (s : Serde Nat Nat) (Incl : Nat → Nat → Prop), SerdeContract s Incl ∧ (∃ M : Rec Nat, s.N M ≠ M) :=
  ⟨⟨fun M c => M c / 2 * 2, id, 0, fun M _ => M, fun M _ => M⟩, fun a b => b ≤ a ∧ a ≤ b + 1,
    ⟨by intro M; funext c; show M c / 2 * 2 / 2 * 2 = M c / 2 * 2; omega,
     by intro M c; show M c / 2 * 2 ≤ M c ∧ M c ≤ M c / 2 * 2 + 1; omega⟩,
    ⟨fun _ => 1, by intro h; have := congrFun h Carrier.nodes; revert this; decide⟩⟩

/-! ## 0. Options reach the IR-level implementation alike on both entries -/

/-- Both entries of every API hand each parameter the same caller option …  (Definitional: a case check of the
hand-written `route`; its content comes from `source_routes_match_model`, which ties `route` to the source.) -/
theorem options_routed_alike (f : Api) (k : OptKey) : route f .proto k = route f .ir k := by
  cases f <;> cases k <;> rfl

/-- … namely the option of that name (nothing is dropped, swapped or defaulted on the way).  (Definitional over
`route`, as above.) -/
theorem options_forwarded_unchanged (f : Api) (e : Entry) (o : Opts W) : forward f e o = o := by
  funext k; cases f <;> cases e <;> cases k <;> rfl

/-! ## 1. proto(f)(M) = ser(ir(f)(de M)) -/

/-- **Whole-model wrappers** (`optimize`, `fold_constants`, `remove_unused_nodes`,
`remove_unused_functions`, `rewrite` with rules, `replace_functions`): for every serde, every
transformation, every model **and every option tuple given identically to both entries**, the model
produced through the proto entry *is* the serialisation of the model produced through the IR entry on the
deserialised input — no carrier is dropped, kept back or taken from anywhere else, and the transformation
runs under the same options (`route`).  Restricted by `hf : f.wholesale = true`: `convert_version` and
`rewrite(M, [])` are excluded (see `convert_proto_eq_ir_iff/_partial`, `rewrite_empty_agree_*`), and
`replace_functions` here is the plain path without its guard (`protoReplace` adds it). -/
theorem proto_eq_ir (s : Serde P I) (T : Api → Opts W → Rec I → Rec I) (o : Opts W) (f : Api)
    (hf : f.wholesale = true) (M : Rec P) :
    (protoPath s T f o M).result = s.ser ((irPath T f o (s.de M)).result) := by
  have h : forward f .proto o = forward f .ir o := by
    rw [options_forwarded_unchanged, options_forwarded_unchanged]
  cases f with
  | rewrite e =>
    cases e
    · simp only [protoPath, irPath, Outcome.result, h]
    · simp [Api.wholesale] at hf
  | convertVersion => simp [Api.wholesale] at hf
  | _ => simp only [protoPath, irPath, Outcome.result, h]

example : Api.optimize.wholesale = true ∧ (Api.rewrite false).wholesale = true := by decide

/-- `rewrite(model, [])` hands back the very object it was given, on both entries, untouched. -/
theorem rewrite_empty_returns_argument (s : Serde P I) (T : Api → Opts W → Rec I → Rec I) (o : Opts W) (M : Rec P) (m : Rec I) :
    (protoPath s T (.rewrite true) o M).argAfter = M ∧ (protoPath s T (.rewrite true) o M).result = M ∧
    (irPath T (.rewrite true) o m).argAfter = m ∧ (irPath T (.rewrite true) o m).result = m ∧
    showRet (protoPath s T (.rewrite true) o M).ret = "arg" ∧ showRet (irPath T (.rewrite true) o m).ret = "arg" :=
  ⟨rfl, rfl, rfl, rfl, rfl, rfl⟩

/-- Because no serde happens on the empty-rule path, the proto result equals the serialised IR result
exactly when the input is already normal …  (Definitional — `Iff.rfl` — once `protoPath`/`irPath` are unfolded; the
content is that the model of this path is tied to the source by `source_*_entry_is_model`.) -/
theorem rewrite_empty_agree_iff (s : Serde P I) (T : Api → Opts W → Rec I → Rec I) (o : Opts W) (M : Rec P) :
    (protoPath s T (.rewrite true) o M).result = s.ser ((irPath T (.rewrite true) o (s.de M)).result)
      ↔ M = s.N M := Iff.rfl

/-- … and in general the two agree up to one application of the normaliser.  (Definitional, `rfl`.) -/
theorem rewrite_empty_agree_modN (s : Serde P I) (T : Api → Opts W → Rec I → Rec I) (o : Opts W) (M : Rec P) :
    s.N (protoPath s T (.rewrite true) o M).result = s.ser ((irPath T (.rewrite true) o (s.de M)).result) := rfl

/-- On an input that went through serde once, they agree exactly (uses idempotence of `N`). -/
theorem rewrite_empty_agree_on_normalised (s : Serde P I) (T : Api → Opts W → Rec I → Rec I) (o : Opts W) {Incl : P → P → Prop}
    (hc : SerdeContract s Incl) (M : Rec P) :
    (protoPath s T (.rewrite true) o (s.N M)).result
      = s.ser ((irPath T (.rewrite true) o (s.de (s.N M))).result) :=
  (hc.idem M).symm

/-- The unconditional statement is false: a serde whose normaliser changes anything separates them
(real counterpart: a proto with `producer_name` explicitly set to `""`, which `N` drops). -/
theorem rewrite_empty_full_refuted :
    ¬ (∀ (s : Serde Bool Bool) (T : Api → Opts Unit → Rec Bool → Rec Bool) (o : Opts Unit) (M : Rec Bool),
        (protoPath s T (.rewrite true) o M).result = s.ser ((irPath T (.rewrite true) o (s.de M)).result)) := by
  intro h
  have := congrFun (h ⟨id, fun _ _ => false, false, fun M _ => M, fun M _ => M⟩ (fun _ _ m => m) (fun _ => ()) (fun _ => true)) Carrier.producerName
  revert this; decide

/-! ### convert_version: the proto is edited surgically -/

/-- The serde's write-through (see `NoAlias` below, finding C15-ALIAS) can only reach carriers that hold
tensors the IR wraps: node attributes, initializers, functions.  Contract, validated by the tie (the
carriers `convert_version` keeps are byte-identical to the caller's on every case). -/
def AliasConfined (s : Serde P I) : Prop :=
  ∀ (M : Rec P) (m' : Rec I) (c : Carrier), c.holdsTensors = false → s.writeBack M m' c = M c

/-- **Exact characterisation.**  `convert_version`'s proto result equals the serialised IR result iff
(a) on every carrier the branch does not assign (`ir_version`, producer, domain, model version, doc,
model metadata, `training_info`) the serialised IR result has the caller's own value, and (b) the IR result has
no functions left (the branch deletes them instead of copying them). -/
theorem convert_proto_eq_ir_iff (s : Serde P I) (T : Api → Opts W → Rec I → Rec I) (o : Opts W) (M : Rec P) :
    (protoPath s T .convertVersion o M).result = s.ser ((irPath T .convertVersion o (s.de M)).result)
      ↔ ((∀ c, keptByConvert c = true → s.ser (T .convertVersion (forward .convertVersion .proto o) (s.de M)) c
              = s.writeBack M (T .convertVersion (forward .convertVersion .proto o) (s.de M)) c)
          ∧ s.ser (T .convertVersion (forward .convertVersion .proto o) (s.de M)) .functions = s.empty) := by
  show spliceConverted s.empty (s.writeBack M _) (s.ser (T .convertVersion (forward .convertVersion .proto o) (s.de M))) = s.ser (T .convertVersion (forward .convertVersion .proto o) (s.de M)) ↔ _
  constructor
  · intro h
    refine ⟨fun c hc => ?_, ?_⟩
    · have := congrFun h c
      cases c <;> simp_all [spliceConverted, keptByConvert, Carrier.inGraph]
    · have := congrFun h .functions
      simpa [spliceConverted, Carrier.inGraph] using this.symm
  · rintro ⟨hk, hfn⟩
    funext c
    have := hk c
    cases c <;> simp_all [spliceConverted, keptByConvert, Carrier.inGraph]

/-- **convert_version, proto = ser ∘ ir ∘ de**, under what the proof forces: the pass's frame contract,
an input that is normal on the carriers the branch keeps, and the inliner's contract that no model-local
function survives.  (After fix 4aa0d5c; before it the statement failed on `opset_import` even so —
`convert_old_branch_refuted`.) -/
theorem convert_proto_eq_ir_partial (s : Serde P I) (T : Api → Opts W → Rec I → Rec I) (o : Opts W) (M : Rec P)
    (hframe : FrameOK s T .convertVersion) (hal : AliasConfined s)
    (hnormal : ∀ c, keptByConvert c = true → s.N M c = M c)
    (hfun : s.ser (T .convertVersion (forward .convertVersion .proto o) (s.de M)) .functions = s.empty) :
    (protoPath s T .convertVersion o M).result = s.ser ((irPath T .convertVersion o (s.de M)).result) := by
  rw [convert_proto_eq_ir_iff]
  refine ⟨fun c hc => ?_, hfun⟩
  rw [hframe _ (s.de M) c (by cases c <;> simp_all [keptByConvert, touches, Carrier.inGraph]),
    hal M _ c (by cases c <;> simp_all [keptByConvert, Carrier.holdsTensors, Carrier.inGraph])]
  exact hnormal c hc

/-- Non-vacuity: the identity serde with a transformation that edits exactly its frame and empties the
functions satisfies all four hypotheses (`FrameOK`, `AliasConfined`, normality, functions emptied) on a
non-constant model. -/
example : ∃ (s : Serde Nat Nat) (T : Api → Opts Unit → Rec Nat → Rec Nat) (o : Opts Unit) (M : Rec Nat),
    FrameOK s T .convertVersion ∧ AliasConfined s ∧ (∀ c, keptByConvert c = true → s.N M c = M c) ∧
    s.ser (T .convertVersion (forward .convertVersion .proto o) (s.de M)) .functions = s.empty ∧ M .irVersion ≠ M .nodes ∧
    T .convertVersion (forward .convertVersion .proto o) (s.de M) .nodes ≠ M .nodes :=
  ⟨⟨id, id, 0, fun M _ => M, fun M _ => M⟩, fun f _ m c => if c = .functions then 0 else if touches f c then m c + 1 else m c,
    fun _ => (), fun c => if c = .irVersion then 10 else 3,
    by intro o m c h; cases c <;> simp_all [touches], by intro M m' c _; rfl, by intro c _; rfl, by decide, by decide,
    by decide⟩

/-- For an input that already went through serde once the normality hypothesis is discharged by the
idempotence of `N`. -/
theorem convert_proto_eq_ir_on_normalised (s : Serde P I) (T : Api → Opts W → Rec I → Rec I) (o : Opts W) {Incl : P → P → Prop}
    (hc : SerdeContract s Incl) (M : Rec P) (hframe : FrameOK s T .convertVersion) (hal : AliasConfined s)
    (hfun : s.ser (T .convertVersion (forward .convertVersion .proto o) (s.de (s.N M))) .functions = s.empty) :
    (protoPath s T .convertVersion o (s.N M)).result
      = s.ser ((irPath T .convertVersion o (s.de (s.N M))).result) :=
  convert_proto_eq_ir_partial s T o (s.N M) hframe hal (fun c _ => by rw [hc.idem M]) hfun

/-- Without the normality hypothesis the statement is false (real counterpart: a proto whose
`metadata_props` are not sorted or which sets `producer_name = ""` explicitly — `convert_version` keeps
the caller's bytes, the IR entry re-serialises them; equal as maps, not as bytes). -/
theorem convert_proto_eq_ir_full_refuted :
    ¬ (∀ (s : Serde Bool Bool) (T : Api → Opts Unit → Rec Bool → Rec Bool) (o : Opts Unit) (M : Rec Bool),
        FrameOK s T .convertVersion → s.ser (T .convertVersion (forward .convertVersion .proto o) (s.de M)) .functions = s.empty →
        (protoPath s T .convertVersion o M).result = s.ser ((irPath T .convertVersion o (s.de M)).result)) := by
  intro h
  have := congrFun (h ⟨id, fun _ _ => false, false, fun M _ => M, fun M _ => M⟩ (fun _ _ m => m) (fun _ => ()) (fun _ => true)
    (fun _ _ _ _ => rfl) rfl) Carrier.producerName
  revert this; decide

/-- **D9 (fixed by 4aa0d5c).**  The branch as it was — graph copied back, functions deleted, nothing
else — violates the property even on normal inputs with a well-behaved pass: the IR entry updates
`opset_import`, the old proto entry kept the caller's. -/
theorem convert_old_branch_refuted :
    ¬ (∀ (s : Serde Nat Nat) (T : Api → Opts Unit → Rec Nat → Rec Nat) (o : Opts Unit) (M : Rec Nat),
        FrameOK s T .convertVersion → (∀ c, keptByConvert c = true → s.N M c = M c) →
        s.ser (T .convertVersion (forward .convertVersion .proto o) (s.de M)) .functions = s.empty →
        (protoConvertOld s T o M).result = s.ser ((irPath T .convertVersion o (s.de M)).result)) := by
  intro h
  have := congrFun (h ⟨id, id, 0, fun M _ => M, fun M _ => M⟩ (fun _ _ m c => if c = .opsetImports then 21 else m c)
    (fun _ => ()) (fun c => if c = .opsetImports then 18 else 0)
    (by intro o m c hc; cases c <;> simp_all [touches]) (fun _ _ => rfl) (by decide)) Carrier.opsetImports
  revert this; decide

/-! ## 2. What the transformation does not touch survives -/

/-- **Whole-model wrappers**: every carrier outside the API's frame has, in the proto result, exactly
the content the normaliser gives it — the wrapper itself loses nothing. -/
theorem untouched_kept (s : Serde P I) (T : Api → Opts W → Rec I → Rec I) (o : Opts W) (f : Api) (hf : f.wholesale = true)
    (hframe : FrameOK s T f) (M : Rec P) (c : Carrier) (hc : touches f c = false) :
    (protoPath s T f o M).result c = s.N M c := by
  rw [proto_eq_ir s T o f hf M]
  cases f with
  | rewrite e => cases e <;> first | exact hframe _ (s.de M) c hc | simp [Api.wholesale] at hf
  | convertVersion => simp [Api.wholesale] at hf
  | _ => exact hframe _ (s.de M) c hc

example : touches .optimize .metadataProps = false ∧ touches .foldConstants .opsetImports = false ∧
    touches .removeUnusedFunctions .initializers = false ∧ touches .optimize .nodes = true := by decide

/-- … and therefore everything populated in the caller's model on such a carrier is in the result
(`Incl`: the serde contract's per-carrier inclusion).  **Thin by construction**: `Incl` is an arbitrary relation
and the conclusion is the *assumed* field `SerdeContract.incl` transported along `untouched_kept`; the theorem says
only that the wrapper adds no loss of its own on top of the serde's.  That the installed serde satisfies `incl` is
validated per generated model (stream 1), not proved; `idem` is known false on tensors with `metadata_props`
(C15-TMETA).  (A satisfiable instance of `SerdeContract` is exhibited after the structure.) -/
theorem untouched_survives (s : Serde P I) (T : Api → Opts W → Rec I → Rec I) (o : Opts W) {Incl : P → P → Prop}
    (hs : SerdeContract s Incl) (f : Api) (hf : f.wholesale = true) (hframe : FrameOK s T f)
    (M : Rec P) (c : Carrier) (hc : touches f c = false) :
    Incl (M c) ((protoPath s T f o M).result c) := by
  rw [untouched_kept s T o f hf hframe M c hc]; exact hs.incl M c

/-- `convert_version` on a proto: the carriers outside `graph`, `functions`, `opset_import` keep the
**caller's own content** (not the normaliser's — they are never re-serialised) … -/
theorem untouched_kept_convert_model_level (s : Serde P I) (T : Api → Opts W → Rec I → Rec I) (o : Opts W) (M : Rec P)
    (hal : AliasConfined s) (c : Carrier) (hc : keptByConvert c = true) :
    (protoPath s T .convertVersion o M).result c = M c := by
  rw [← hal M (T .convertVersion (forward .convertVersion .proto o) (s.de M)) c
    (by cases c <;> simp_all [keptByConvert, Carrier.holdsTensors, Carrier.inGraph])]
  show spliceConverted s.empty (s.writeBack M _) _ c = _
  cases c <;> simp_all [spliceConverted, keptByConvert, Carrier.inGraph]

/-- … the graph-level carriers outside the frame (name, doc, inputs, outputs, graph metadata, quantization annotations) come from the
re-serialised graph and equal the normaliser's content … -/
theorem untouched_kept_convert_graph_level (s : Serde P I) (T : Api → Opts W → Rec I → Rec I) (o : Opts W) (M : Rec P)
    (hframe : FrameOK s T .convertVersion) (c : Carrier) (hg : c.inGraph = true)
    (hc : touches .convertVersion c = false) :
    (protoPath s T .convertVersion o M).result c = s.N M c := by
  have h := hframe (forward .convertVersion .proto o) (s.de M) c hc
  show spliceConverted s.empty (s.writeBack M _) _ c = s.ser (s.de M) c
  rw [← h]
  cases c <;> simp_all [spliceConverted, Carrier.inGraph]

/-- … and `functions` is emptied whatever the IR result holds.  (Definitional, `rfl` on `spliceConverted`.) -/
theorem convert_deletes_functions (s : Serde P I) (T : Api → Opts W → Rec I → Rec I) (o : Opts W) (M : Rec P) :
    (protoPath s T .convertVersion o M).result .functions = s.empty := rfl

/-- `rewrite(model, [])`: every carrier is the caller's, bit for bit.  (Definitional, `rfl`.) -/
theorem untouched_kept_rewrite_empty (s : Serde P I) (T : Api → Opts W → Rec I → Rec I) (o : Opts W) (M : Rec P) (c : Carrier) :
    (protoPath s T (.rewrite true) o M).result c = M c := rfl

/-- Every carrier is classified: for each API a carrier of the proto result is either inside the frame,
or pinned to `N M`, or pinned to `M` — nothing is left unspecified. -/
theorem every_carrier_accounted (s : Serde P I) (T : Api → Opts W → Rec I → Rec I) (o : Opts W) (f : Api) (hframe : FrameOK s T f)
    (hal : AliasConfined s)
    (M : Rec P) (c : Carrier) :
    touches f c = true ∨ (protoPath s T f o M).result c = s.N M c ∨ (protoPath s T f o M).result c = M c := by
  by_cases ht : touches f c = true
  · exact Or.inl ht
  · have ht' : touches f c = false := by simpa using ht
    by_cases hw : f.wholesale = true
    · exact Or.inr (Or.inl (untouched_kept s T o f hw hframe M c ht'))
    · cases f with
      | rewrite e =>
        cases e
        · simp [Api.wholesale] at hw
        · exact Or.inr (Or.inr rfl)
      | convertVersion =>
        by_cases hk : keptByConvert c = true
        · exact Or.inr (Or.inr (untouched_kept_convert_model_level s T o M hal c hk))
        · refine Or.inr (Or.inl (untouched_kept_convert_graph_level s T o M hframe c ?_ ht'))
          cases c <;> simp_all [keptByConvert, touches, Carrier.inGraph]
      | _ => simp [Api.wholesale] at hw

/-! ## 3. In place or pure -/

/-- **In-place variants on a proto** (`fold_constants`, `remove_unused_nodes`, `remove_unused_functions`,
`convert_version`): no model is returned; the caller's object holds the result. -/
theorem inplace_variants_mutate_argument (s : Serde P I) (T : Api → Opts W → Rec I → Rec I) (o : Opts W) (f : Api)
    (hf : f.inPlaceOnProto = true) (M : Rec P) :
    (protoPath s T f o M).result = (protoPath s T f o M).argAfter ∧
    (showRet (protoPath s T f o M).ret = "none" ∨ showRet (protoPath s T f o M).ret = "aux") := by
  cases f with
  | rewrite e => simp [Api.inPlaceOnProto] at hf
  | optimize => simp [Api.inPlaceOnProto] at hf
  | replaceFunctions => simp [Api.inPlaceOnProto] at hf
  | foldConstants => exact ⟨rfl, Or.inr rfl⟩
  | _ => exact ⟨rfl, Or.inl rfl⟩

/-- A serde that copies what it reads: transforming the IR model never writes through to the proto it
was deserialised from.  (Refuted for the installed `onnx_ir` by finding C15-ALIAS: `TensorProtoTensor`
wraps the caller's `TensorProto` and its `name` setter writes through.) -/
def NoAlias (s : Serde P I) : Prop := ∀ (M : Rec P) (m' : Rec I), s.writeBack M m' = M

/-- The name-restoring context manager undoes the serde's write-through (contract on the repair, validated by
the tie: with it no case leaves the caller's proto changed). -/
def RestoreOK (s : Serde P I) : Prop := ∀ (M : Rec P) (m' : Rec I), s.restore M (s.writeBack M m') = M

/-- **The other variants on a proto** (`optimize`, `rewrite`, `replace_functions`): the wrapper itself
never assigns to the caller's proto — whatever happens to it is the serde's write-through — and the
result is a fresh object, or (empty rule list) the argument itself. -/
theorem pure_variants_never_assign (s : Serde P I) (T : Api → Opts W → Rec I → Rec I) (o : Opts W) (f : Api)
    (hf : f.inPlaceOnProto = false) (M : Rec P) :
    ((protoPath s T f o M).argAfter = M ∨
      (protoPath s T f o M).argAfter = s.writeBack M (T f (forward f .proto o) (s.de M)) ∨
      (protoPath s T f o M).argAfter = s.restore M (s.writeBack M (T f (forward f .proto o) (s.de M)))) ∧
    (showRet (protoPath s T f o M).ret = "fresh" ∨
      (f = .rewrite true ∧ showRet (protoPath s T f o M).ret = "arg")) := by
  cases f with
  | rewrite e => cases e <;> simp [protoPath, showRet]
  | optimize => exact ⟨Or.inr (Or.inr rfl), Or.inl rfl⟩
  | replaceFunctions => exact ⟨Or.inr (Or.inl rfl), Or.inl rfl⟩
  | _ => simp [Api.inPlaceOnProto] at hf

/-- **… leave their argument unchanged.**  `optimize` (names written back, `RestoreOK`) and `rewrite(M, [])`
(nothing happens) need no assumption on aliasing; `rewrite` with rules and `replace_functions` have no such
guard in the code, so for them the statement is `_partial`: under `NoAlias`, the hypothesis the proof forces
(no case of the tie ever shows them changing their argument: their passes do not rename tensors). -/
theorem pure_variants_leave_argument_partial (s : Serde P I) (T : Api → Opts W → Rec I → Rec I) (o : Opts W)
    (f : Api) (hf : f.inPlaceOnProto = false) (hr : RestoreOK s)
    (hna : (f = .rewrite false ∨ f = .replaceFunctions) → NoAlias s) (M : Rec P) :
    (protoPath s T f o M).argAfter = M := by
  cases f with
  | rewrite e =>
    cases e
    · exact hna (Or.inl rfl) M _
    · rfl
  | optimize => exact hr M _
  | replaceFunctions => exact hna (Or.inr rfl) M _
  | _ => simp [Api.inPlaceOnProto] at hf

example : NoAlias (⟨id, id, 0, fun M _ => M, fun M _ => M⟩ : Serde Nat Nat) := fun _ _ => rfl

/-- Without `NoAlias` the statement is false *in the model* for `rewrite` with rules (and likewise
`replace_functions`): a serde that writes through changes the proto they were given.  (No real-code witness:
what wrote through in the installed onnx_ir — finding C15-ALIAS — was `optimize`'s constant lifting, now
repaired; see `optimize_old_branch_refuted`.) -/
theorem pure_variants_leave_argument_full_refuted :
    ¬ (∀ (s : Serde Bool Bool) (T : Api → Opts Unit → Rec Bool → Rec Bool) (o : Opts Unit) (f : Api),
        f.inPlaceOnProto = false → RestoreOK s → ∀ M : Rec Bool, (protoPath s T f o M).argAfter = M) := by
  intro h
  have := congrFun (h ⟨id, id, false, fun _ _ _ => false, fun saved _ => saved⟩ (fun _ _ m => m) (fun _ => ())
    (.rewrite false) rfl (fun _ _ => rfl) (fun _ => true)) Carrier.nodes
  revert this; decide

/-- **IR entry**: always in place — the `ir.Model` passed in holds the result, no fresh model is ever
built; `optimize` and `rewrite` additionally return that same object. -/
theorem ir_entry_in_place (T : Api → Opts W → Rec I → Rec I) (o : Opts W) (f : Api) (m : Rec I) :
    (irPath T f o m).result = (irPath T f o m).argAfter ∧ showRet (irPath T f o m).ret ≠ "fresh" ∧
    ((f = .optimize ∨ ∃ e, f = .rewrite e) → showRet (irPath T f o m).ret = "arg") := by
  cases f with
  | rewrite e => cases e <;> exact ⟨rfl, by simp [irPath, showRet], fun _ => rfl⟩
  | optimize => exact ⟨rfl, by simp [irPath, showRet], fun _ => rfl⟩
  | _ => exact ⟨rfl, by simp [irPath, showRet], fun h => by rcases h with h | ⟨e, h⟩ <;> cases h⟩

/-- **`replace_functions` never deletes a model-local function it was not asked to replace**: a model that
has functions of its own is refused on both entries, and the caller's object is exactly as it was (the
implementation inlines everything, so this guard is what protects unrelated functions). -/
theorem replace_refuses_models_with_functions (s : Serde P I) (T : Api → Opts W → Rec I → Rec I) (o : Opts W)
    (hasF : Rec I → Bool) (M : Rec P) (m : Rec I) :
    (hasF (s.de M) = true → (protoReplace s T hasF o M).argAfter = M ∧
        showRet (protoReplace s T hasF o M).ret = "raised") ∧
    (hasF m = true → (irReplace T hasF o m).argAfter = m ∧ showRet (irReplace T hasF o m).ret = "raised") := by
  constructor <;> intro h <;> simp [protoReplace, irReplace, h, showRet]

/-- … and on a model without functions the guard is transparent: the two entries are the plain paths, so
`proto_eq_ir` applies. -/
theorem replace_accepts_function_free_models (s : Serde P I) (T : Api → Opts W → Rec I → Rec I) (o : Opts W)
    (hasF : Rec I → Bool) (M : Rec P) (h : hasF (s.de M) = false) :
    protoReplace s T hasF o M = protoPath s T .replaceFunctions o M ∧
    irReplace T hasF o (s.de M) = irPath T .replaceFunctions o (s.de M) := by
  simp [protoReplace, irReplace, h]

example : ∃ (hasF : Rec Nat → Bool) (m : Rec Nat), hasF m = true := ⟨fun _ => true, fun _ => 0, rfl⟩

/-- `optimizer.inline` (IR only): returns nothing, and without model-local functions the model is not
handed to any pass at all. -/
theorem inline_noop_without_functions (hasF : Rec I → Bool) (inl : Rec I → Rec I) (m : Rec I)
    (h : hasF m = false) :
    (inlinePath hasF inl m).argAfter = m ∧ showRet (inlinePath hasF inl m).ret = "none" := by
  simp [inlinePath, h, showRet]

example : ∃ (hasF : Rec Nat → Bool) (m : Rec Nat), hasF m = false ∧
    (inlinePath hasF (fun _ _ => 7) m).argAfter = m := ⟨fun _ => false, fun _ => 1, rfl, rfl⟩

/-! ## 4. The source itself: programs and option tables regenerated from `/repo` on every run -/

section Source
open OV.Gen.C15

/-- **Proto entry of every wrapper, from its source.**  Executing the statement sequence the translator
extracted from the wrapper's Python body (entry form = ModelProto) gives exactly the model's `protoPath`
(`protoReplace` for `replace_functions`, whose guard sits in the callee): same content left in the caller's
object, same return — for every serde, transformation, option tuple and model. -/
theorem source_proto_entry_is_model (s : Serde P I) (T : Api → Opts W → Rec I → Rec I) (hasF modified : Rec I → Bool)
    (o : Opts W) (f : Api) (M : Rec P) :
    protoExec s (T f (forward f .proto o)) hasF modified f.emptyRules (prog f.srcName "proto") M
      = (match f with
         | .replaceFunctions => protoReplace s T hasF o M
         | f => protoPath s T f o M) := by
  cases f with
  | rewrite e => cases e <;> rfl
  | convertVersion =>
    simp only [protoExec, prog, Api.srcName, List.foldl, protoStep, protoPath, Api.emptyRules, Option.getD]
    congr 1
    funext c
    cases c <;> rfl
  | replaceFunctions =>
    simp only [protoExec, prog, Api.srcName, List.foldl, protoStep, protoReplace, protoPath, Api.emptyRules]
    by_cases h : hasF (s.de M) = true <;> simp [h, protoStep]
  | _ => rfl

/-- **IR entry of every wrapper, from its source.** -/
theorem source_ir_entry_is_model (T : Api → Opts W → Rec I → Rec I) (hasF modified : Rec I → Bool)
    (o : Opts W) (f : Api) (m : Rec I) :
    irExec (T f (forward f .ir o)) hasF modified f.emptyRules (prog f.srcName "ir") m
      = (match f with
         | .replaceFunctions => irReplace T hasF o m
         | f => irPath T f o m) := by
  cases f with
  | rewrite e => cases e <;> rfl
  | replaceFunctions =>
    simp only [irExec, prog, Api.srcName, List.foldl, irStep, irReplace, irPath, Api.emptyRules]
    by_cases h : hasF m = true <;> simp [h, irStep]
  | _ => rfl

/-- **`optimize(ModelProto)` leaves its argument unchanged** (after fix 0d5ec74) with *no* no-aliasing
assumption on the serde: whatever the IR wrote through, the recorded names are written back. -/
theorem optimize_leaves_argument (s : Serde P I) (T : Api → Opts W → Rec I → Rec I) (o : Opts W)
    (hr : RestoreOK s) (M : Rec P) :
    (protoPath s T .optimize o M).argAfter = M :=
  hr M _

/-- **C15-ALIAS (fixed by 0d5ec74).**  The branch as it was — no `_preserve_tensor_names` — changes the proto
it is given as soon as the serde writes through, although it produces the same model.  Real counterpart:
`c = Constant<value=float[2]{1,2}>(); y = Add(x, c)`: the caller's attribute `TensorProto.name` went from
`''` to `'c'`. -/
theorem optimize_old_branch_refuted :
    ¬ (∀ (s : Serde Bool Bool) (T : Api → Opts Unit → Rec Bool → Rec Bool) (o : Opts Unit) (M : Rec Bool),
        RestoreOK s → (protoOptimizeOld s T o M).argAfter = M) ∧
    (∀ (s : Serde P I) (T : Api → Opts W → Rec I → Rec I) (o : Opts W) (M : Rec P),
        (protoOptimizeOld s T o M).result = (protoPath s T .optimize o M).result) := by
  refine ⟨fun h => ?_, fun _ _ _ _ => rfl⟩
  have := congrFun (h ⟨id, id, false, fun _ _ _ => false, fun saved _ => saved⟩ (fun _ _ m => m) (fun _ => ())
    (fun _ => true) (fun _ _ => rfl)) Carrier.nodes
  revert this; decide

example : RestoreOK (⟨id, id, 0, fun _ m' => m', fun saved _ => saved⟩ : Serde Nat Nat) := fun _ _ => rfl

/-- `optimizer.inline`, from its source. -/
theorem source_inline_is_model (hasF modified : Rec I → Bool) (inl : Rec I → Rec I) (m : Rec I) :
    irExec inl hasF modified false (prog "inline" "ir") m = inlinePath hasF inl m := by
  simp only [irExec, prog, List.foldl, irStep, inlinePath]
  by_cases h : hasF m = true <;> simp [h]

/-- **The property's first clause, stated on the source.**  For every whole-model wrapper, running the
program extracted from its ModelProto branch yields the serialisation of what the program extracted from its
ir.Model branch yields on the deserialised input — same option tuple on both sides, every serde, every
transformation, every model.  Two restrictions in the statement: `hf : f.wholesale = true` (six wrappers;
`convert_version` and `rewrite(M, [])` excluded) and `hg`: for `replace_functions` only models without model-local
functions (the ones it accepts; on the others both entries raise — `replace_refuses_models_with_functions`). -/
theorem source_proto_eq_ir (s : Serde P I) (T : Api → Opts W → Rec I → Rec I) (hasF modified : Rec I → Bool)
    (o : Opts W) (f : Api) (hf : f.wholesale = true) (M : Rec P)
    (hg : f = .replaceFunctions → hasF (s.de M) = false) :
    (protoExec s (T f (forward f .proto o)) hasF modified f.emptyRules (prog f.srcName "proto") M).result
      = s.ser ((irExec (T f (forward f .ir o)) hasF modified f.emptyRules (prog f.srcName "ir") (s.de M)).result) := by
  rw [source_proto_entry_is_model, source_ir_entry_is_model]
  cases f with
  | replaceFunctions =>
    have h := hg rfl
    simp only [protoReplace, irReplace, h]
    exact proto_eq_ir s T o .replaceFunctions rfl M
  | optimize =>
    exact proto_eq_ir s T o .optimize rfl M
  | convertVersion => simp [Api.wholesale] at hf
  | rewrite e => exact proto_eq_ir s T o (.rewrite e) hf M
  | foldConstants => exact proto_eq_ir s T o .foldConstants rfl M
  | removeUnusedNodes => exact proto_eq_ir s T o .removeUnusedNodes rfl M
  | removeUnusedFunctions => exact proto_eq_ir s T o .removeUnusedFunctions rfl M

/-- **The property's last clause, stated on the source.**  Running the program extracted from the ModelProto
branch: the in-place variants return no model and leave the result in the caller's object; the others leave
the caller's object as it was (given a serde that does not write through, resp. a restore that undoes it) —
including `replace_functions` when it refuses. -/
theorem source_inplace_or_pure (s : Serde P I) (T : Api → Opts W → Rec I → Rec I) (hasF modified : Rec I → Bool)
    (o : Opts W) (f : Api) (M : Rec P) :
    (f.inPlaceOnProto = true →
      (protoExec s (T f (forward f .proto o)) hasF modified f.emptyRules (prog f.srcName "proto") M).result
        = (protoExec s (T f (forward f .proto o)) hasF modified f.emptyRules (prog f.srcName "proto") M).argAfter ∧
      (showRet (protoExec s (T f (forward f .proto o)) hasF modified f.emptyRules (prog f.srcName "proto") M).ret = "none" ∨
       showRet (protoExec s (T f (forward f .proto o)) hasF modified f.emptyRules (prog f.srcName "proto") M).ret = "aux")) ∧
    (f.inPlaceOnProto = false → NoAlias s → RestoreOK s →
      (protoExec s (T f (forward f .proto o)) hasF modified f.emptyRules (prog f.srcName "proto") M).argAfter = M) := by
  rw [source_proto_entry_is_model]
  constructor
  · intro hf
    cases f with
    | rewrite e => simp [Api.inPlaceOnProto] at hf
    | optimize => simp [Api.inPlaceOnProto] at hf
    | replaceFunctions => simp [Api.inPlaceOnProto] at hf
    | foldConstants => exact inplace_variants_mutate_argument s T o .foldConstants rfl M
    | removeUnusedNodes => exact inplace_variants_mutate_argument s T o .removeUnusedNodes rfl M
    | removeUnusedFunctions => exact inplace_variants_mutate_argument s T o .removeUnusedFunctions rfl M
    | convertVersion => exact inplace_variants_mutate_argument s T o .convertVersion rfl M
  · intro hf hna hr
    cases f with
    | rewrite e => exact pure_variants_leave_argument_partial s T o (.rewrite e) rfl hr (fun _ => hna) M
    | optimize => exact hr M _
    | replaceFunctions =>
      show (protoReplace s T hasF o M).argAfter = M
      unfold protoReplace
      by_cases h : hasF (s.de M) = true
      · rw [if_pos h]
      · rw [if_neg h]; exact hna M _
    | foldConstants => simp [Api.inPlaceOnProto] at hf
    | removeUnusedNodes => simp [Api.inPlaceOnProto] at hf
    | removeUnusedFunctions => simp [Api.inPlaceOnProto] at hf
    | convertVersion => simp [Api.inPlaceOnProto] at hf

/-- **The wrappers' outcome does not depend on what the IR-level implementation reports as `modified`**
(`FoldConstantsResult.modified`, `PassResult.modified`): every wrapper moves the transformed model back
*always*, never "only if something changed" — for every serde, transformation, option tuple, model and any two
behaviours of the flag. -/
theorem source_outcome_independent_of_modified (s : Serde P I) (T : Api → Opts W → Rec I → Rec I)
    (hasF mod₁ mod₂ : Rec I → Bool) (o : Opts W) (f : Api) (M : Rec P) :
    protoExec s (T f (forward f .proto o)) hasF mod₁ f.emptyRules (prog f.srcName "proto") M
      = protoExec s (T f (forward f .proto o)) hasF mod₂ f.emptyRules (prog f.srcName "proto") M := by
  rw [source_proto_entry_is_model, source_proto_entry_is_model]

/-- The variant of `fold_constants`' proto branch that copies back only `if result.modified:` (seeded change
C15-7) agrees with the model whenever the implementation reports a modification … -/
theorem fold_conditional_copyback_agrees_when_modified (s : Serde P I) (T : Api → Opts W → Rec I → Rec I)
    (hasF modified : Rec I → Bool) (o : Opts W) (M : Rec P) (h : modified (s.de M) = true) :
    protoExec s (T .foldConstants (forward .foldConstants .proto o)) hasF modified false foldProgConditional M
      = protoPath s T .foldConstants o M := by
  simp [protoExec, foldProgConditional, List.foldl, protoStep, protoPath, h]

/-- … and violates the property as soon as the pass changes the IR without reporting it (real counterpart:
node-level shape inference / Constant output annotations with nothing folded): the caller's proto stays as it
was while the IR entry's model moved on. -/
theorem fold_conditional_copyback_refuted :
    ¬ (∀ (s : Serde Bool Bool) (T : Api → Opts Unit → Rec Bool → Rec Bool) (hasF modified : Rec Bool → Bool)
        (o : Opts Unit) (M : Rec Bool),
        (protoExec s (T .foldConstants (forward .foldConstants .proto o)) hasF modified false
            foldProgConditional M).result
          = s.ser ((irPath T .foldConstants o (s.de M)).result)) := by
  intro h
  have := congrFun (h ⟨id, fun _ _ => false, false, fun M _ => M, fun M _ => M⟩ (fun _ _ m => m) (fun _ => false)
    (fun _ => false) (fun _ => ()) (fun _ => true)) Carrier.valueInfo
  revert this; decide

/-! ### Argument preservation of `rewrite` (with rules) and `replace_functions` without `NoAlias` -/

/-- A pass through which nothing is written into the source proto beyond what already was. -/
def QuietPass (s : Serde P I) (Ps : String → Opts W → Rec I → Rec I) (p : String) : Prop :=
  ∀ (o : Opts W) (M : Rec P) (m : Rec I), s.writeBack M (Ps p o m) = s.writeBack M m

/-- Deserialisation alone writes nothing. -/
def DeQuiet (s : Serde P I) : Prop := ∀ M : Rec P, s.writeBack M (s.de M) = M

/-- **Pipelines of quiet passes write nothing**, whatever their length (induction over the pass list). -/
theorem quiet_pipeline_writes_nothing (s : Serde P I) (Ps : String → Opts W → Rec I → Rec I)
    (ps : List String) (o : Opts W) (M : Rec P) (hde : DeQuiet s) (hq : ∀ p ∈ ps, QuietPass s Ps p) :
    s.writeBack M (pipeline Ps ps o (s.de M)) = M := by
  suffices h : ∀ (ps : List String) (m : Rec I), (∀ p ∈ ps, QuietPass s Ps p) → s.writeBack M m = M →
      s.writeBack M (pipeline Ps ps o m) = M from h ps (s.de M) hq (hde M)
  intro ps
  induction ps with
  | nil => intro m _ hm; exact hm
  | cons p rest ih =>
    intro m hq hm
    show s.writeBack M (pipeline Ps rest o (Ps p o m)) = M
    exact ih (Ps p o m) (fun q hq' => hq q (List.mem_cons_of_mem _ hq'))
      (by rw [hq p (List.mem_cons_self ..) o M m]; exact hm)

/-- The pipelines `rewrite` and `replace_functions` build in the source contain no renaming pass … -/
theorem source_rewrite_replace_run_no_renaming_pass :
    ∀ a ∈ ["rewrite", "replace_functions"], ∀ p ∈ passesOf a, (renamingPasses.contains p) = false := by
  decide

/-- … while `optimize_ir`'s does (which is why `optimize` needs `_preserve_tensor_names`). -/
theorem source_optimize_runs_renaming_passes :
    (passesOf "optimize_ir").any (fun p => renamingPasses.contains p) = true := by decide

/-- **`rewrite(ModelProto, rules)` and `replace_functions(ModelProto, …)` leave their argument unchanged** with
no global no-aliasing assumption: it suffices that the IR-level transformation is the pass pipeline found in the
source, that deserialisation writes nothing, and that every pass *outside the named renaming set* is quiet
(per-pass contracts on onnx_ir / RewritePass, validated per generated case by the tie). -/
theorem rewrite_and_replace_leave_argument (s : Serde P I) (T : Api → Opts W → Rec I → Rec I)
    (Ps : String → Opts W → Rec I → Rec I) (o : Opts W) (f : Api)
    (hf : f = .rewrite false ∨ f = .replaceFunctions)
    (hT : ∀ o', T f o' = pipeline Ps (passesOf f.srcName) o')
    (hde : DeQuiet s) (hq : ∀ p, renamingPasses.contains p = false → QuietPass s Ps p) (M : Rec P) :
    (protoPath s T f o M).argAfter = M := by
  have key : s.writeBack M (T f (forward f .proto o) (s.de M)) = M := by
    rw [hT]
    refine quiet_pipeline_writes_nothing s Ps _ _ M hde (fun p hp => hq p ?_)
    rcases hf with rfl | rfl
    · exact source_rewrite_replace_run_no_renaming_pass "rewrite" (by decide) p hp
    · exact source_rewrite_replace_run_no_renaming_pass "replace_functions" (by decide) p hp
  rcases hf with rfl | rfl <;> exact key

/-- Non-vacuity: a serde that *does* write through (on renaming passes) still satisfies the hypotheses. -/
example : ∃ (s : Serde Nat Nat) (Ps : String → Opts Unit → Rec Nat → Rec Nat),
    DeQuiet s ∧ (∀ p, renamingPasses.contains p = false → QuietPass s Ps p) ∧ ¬ NoAlias s :=
  ⟨⟨fun M c => if c = .otherModel then 0 else M c, id, 0,
     fun M m' c => if m' .otherModel = 1 then 7 else M c, fun M _ => M⟩,
   fun p _ m c => if renamingPasses.contains p = true then (if c = .otherModel then 1 else m c) else m c,
   by intro M; funext c; simp,
   by intro p hp o M m; funext c; have hp' : ¬ p ∈ renamingPasses := by simpa using hp
      simp [hp'],
   by intro h; have := congrFun (h (fun _ => 0) (fun _ => 1)) Carrier.nodes; revert this; decide⟩

/-- The translator understood every statement of every wrapper (no `unknown`). -/
theorem source_fully_recognised :
    ∀ a ∈ ["optimize", "fold_constants", "remove_unused_nodes", "remove_unused_functions", "rewrite",
           "convert_version", "replace_functions"],
      recognised (prog a "proto") = true ∧ recognised (prog a "ir") = true := by decide

def lookupRoute (api entry param : String) : Option String :=
  (routes.find? fun r => r.api == api && r.entry == entry && r.param == param).map (·.src)

/-- **Option plumbing = the model's `route`**, for every (wrapper, entry form, option) the wrappers forward:
the caller expression found at the IR-level call in the source is the option the model says. -/
theorem source_routes_match_model :
    ∀ x ∈ checkedRoutes,
      lookupRoute x.1.srcName x.2.1.srcName x.2.2.calleeName = some (route x.1 x.2.1 x.2.2).callerName := by
  decide

/-- **No option is dropped**: every public option in a wrapper's signature reaches the IR-level
implementation on both entry forms (`replace_functions_inplace` *is* the IR entry, so it has no call site). -/
theorem source_forwards_every_public_option :
    ∀ a ∈ publicOptions, ∀ opt ∈ a.2, ∀ e ∈ ["proto", "ir"],
      (a.1 == "replace_functions" && e == "ir") = true ∨
      routes.any (fun r => r.api == a.1 && r.entry == e && r.src == opt) = true := by
  decide

/-- **Every forwarded value is a plain pass-through** of a public option of that wrapper (no constant, no
expression, no other variable), and no parameter is fed twice. -/
theorem source_routes_are_passthrough :
    ∀ r ∈ routes,
      (publicOptions.any fun a => a.1 == r.api && a.2.contains r.src) = true ∧
      (routes.filter fun r' => r'.api == r.api && r'.entry == r.entry && r'.callee == r.callee && r'.param == r.param).length = 1 := by
  decide

/-- **Both entry forms run the same IR-level implementation(s), in the same order.** -/
theorem source_entries_run_same_implementation :
    ∀ a ∈ ["optimize", "fold_constants", "remove_unused_nodes", "remove_unused_functions", "rewrite",
           "convert_version", "replace_functions"],
      (callees.find? fun c => c.1 == a && c.2.1 == "proto").map (·.2.2)
        = (callees.find? fun c => c.1 == a && c.2.1 == "ir").map (·.2.2) ∧
      ((callees.find? fun c => c.1 == a && c.2.1 == "proto").map (·.2.2.length)) = some 1 := by
  decide

end Source


/-! ## 5. Call histories -/

/-- Contract (A-ir): a serialised model is normal — deserialising and re-serialising it gives it back
(`N (ser m) = ser m`; for `m = de M` this is the idempotence of `N`).
**KNOWN FALSE for the installed onnx_ir on models holding a tensor with `metadata_props`** (open finding C15-TMETA:
every serde trip appends another copy of the entries).  The four history theorems below therefore say nothing about
such models; the harness files the observed chain differences (multiplicity 3 vs 2) under that finding. -/
def SerRoundTrip (s : Serde P I) : Prop := ∀ m : Rec I, s.ser (s.de (s.ser m)) = s.ser m

/-- Contract on the IR-level transformations: they see of a model only what serialises.  (On the real code this
holds only up to auto-generated node names `node_<Op>_<n>`: the naming counter lives in the in-memory model and does
not serialise — observed by the history stream, which ignores exactly that difference.) -/
def Extensional (s : Serde P I) (T : Api → Opts W → Rec I → Rec I) : Prop :=
  ∀ (f : Api) (o : Opts W) (m₁ m₂ : Rec I), s.ser m₁ = s.ser m₂ → s.ser (T f o m₁) = s.ser (T f o m₂)

/-- Contract on `ConvertVersionPass` (it inlines first): no model-local function survives it. -/
def ConvertInlinesAll (s : Serde P I) (T : Api → Opts W → Rec I → Rec I) : Prop :=
  ∀ (o : Opts W) (m : Rec I), s.ser (T .convertVersion o m) .functions = s.empty

/-- **Any wrapper called on a proto that is itself a serialisation** (what every whole-model wrapper returns or
leaves in its argument): the proto entry's result is the serialisation of the IR entry's result on the model that
was serialised — for *every* API, `convert_version` and `rewrite(·, [])` included, with no normality hypothesis *on
the input*.  **Conditional** on five contracts, none proved: `SerRoundTrip` (refuted by C15-TMETA for tensors with
`metadata_props`), `Extensional`, `FrameOK … .convertVersion`, `AliasConfined`, `ConvertInlinesAll` (the last three
are used only in the `convert_version` case). -/
theorem second_call_proto_eq_ir (s : Serde P I) (T : Api → Opts W → Rec I → Rec I)
    (hrt : SerRoundTrip s) (hext : Extensional s T) (hframe : FrameOK s T .convertVersion)
    (hal : AliasConfined s) (hinl : ConvertInlinesAll s T) (f : Api) (o : Opts W) (m : Rec I) :
    (protoPath s T f o (s.ser m)).result = s.ser ((irPath T f o m).result) := by
  have hfw : ∀ e, forward f e o = o := fun e => options_forwarded_unchanged f e o
  have key : s.ser (T f o (s.de (s.ser m))) = s.ser (T f o m) := hext f o _ _ (hrt m)
  cases f with
  | rewrite e =>
    cases e
    · simp only [protoPath, irPath, Outcome.result, hfw]; exact key
    · rfl
  | convertVersion =>
    simp only [protoPath, irPath, Outcome.result, hfw]
    rw [← key]
    funext c
    by_cases hk : keptByConvert c = true
    · have h1 : s.ser (T .convertVersion o (s.de (s.ser m))) c = s.ser m c := by
        rw [hframe o (s.de (s.ser m)) c (by cases c <;> simp_all [keptByConvert, touches, Carrier.inGraph]), hrt m]
      have h2 := hal (s.ser m) (T .convertVersion o (s.de (s.ser m))) c
        (by cases c <;> simp_all [keptByConvert, Carrier.holdsTensors, Carrier.inGraph])
      rw [h1]
      cases c <;> simp_all [spliceConverted, keptByConvert, Carrier.inGraph]
    · have hf := hinl o (s.de (s.ser m))
      cases c <;> simp_all [spliceConverted, keptByConvert, Carrier.inGraph]
  | _ => simp only [protoPath, irPath, Outcome.result, hfw]; exact key

/-- **Histories on a serialised model**: any sequence of wrapper calls (any length, any APIs, any options), each
applied to what the previous one produced, gives on the proto side the serialisation of what the same sequence of
in-place IR calls gives (induction over the history).  **Conditional** on the same five contracts as
`second_call_proto_eq_ir` (`SerRoundTrip` is known false on tensors with `metadata_props`, C15-TMETA), and only for an
input that *is* a serialisation `s.ser m`. -/
theorem history_on_serialised (s : Serde P I) (T : Api → Opts W → Rec I → Rec I)
    (hrt : SerRoundTrip s) (hext : Extensional s T) (hframe : FrameOK s T .convertVersion)
    (hal : AliasConfined s) (hinl : ConvertInlinesAll s T) (h : History W) (m : Rec I) :
    protoChain s T h (s.ser m) = s.ser (irChain T h m) := by
  induction h generalizing m with
  | nil => rfl
  | cons c rest ih =>
    obtain ⟨f, o⟩ := c
    show protoChain s T rest (protoPath s T f o (s.ser m)).result = s.ser (irChain T rest (irPath T f o m).result)
    rw [second_call_proto_eq_ir s T hrt hext hframe hal hinl f o m]
    exact ih _

/-- **The property's first clause for call histories — restricted**: (i) the first call must be a whole-model
wrapper (`hf : f.wholesale = true`: not `convert_version`, not `rewrite(M, [])`), (ii) under the five unproved
contracts `SerRoundTrip` (known false on tensors with `metadata_props`, C15-TMETA), `Extensional`, `FrameOK`,
`AliasConfined`, `ConvertInlinesAll`.  Then, whatever follows the first call, chaining the proto entries from the caller's proto `M` equals serialising the chain of
IR entries from `de M`.  (A first call `convert_version` / `rewrite(M, [])` keeps caller bytes: there the statement
needs the normality of `convert_proto_eq_ir_partial`; from the second call on nothing is needed.) -/
theorem history_proto_eq_ir (s : Serde P I) (T : Api → Opts W → Rec I → Rec I)
    (hrt : SerRoundTrip s) (hext : Extensional s T) (hframe : FrameOK s T .convertVersion)
    (hal : AliasConfined s) (hinl : ConvertInlinesAll s T)
    (f : Api) (o : Opts W) (hf : f.wholesale = true) (rest : History W) (M : Rec P) :
    protoChain s T ((f, o) :: rest) M = s.ser (irChain T ((f, o) :: rest) (s.de M)) := by
  show protoChain s T rest (protoPath s T f o M).result = s.ser (irChain T rest (irPath T f o (s.de M)).result)
  rw [proto_eq_ir s T o f hf M]
  exact history_on_serialised s T hrt hext hframe hal hinl rest _


/-- **`convert_version` right after any whole-model wrapper** (`hf : f.wholesale = true`) satisfies proto = ser∘ir∘de
with *no* normality hypothesis on the input: the proto it receives is a serialisation, hence normal on the carriers
the branch keeps.  The normality hypothesis of `convert_proto_eq_ir_partial` is *traded* for the contracts
`SerRoundTrip` (known false on tensors with `metadata_props`, C15-TMETA), `Extensional`, `FrameOK`, `AliasConfined`,
`ConvertInlinesAll` — it is not an unconditional statement. -/
theorem convert_after_wrapper_proto_eq_ir (s : Serde P I) (T : Api → Opts W → Rec I → Rec I)
    (hrt : SerRoundTrip s) (hext : Extensional s T) (hframe : FrameOK s T .convertVersion)
    (hal : AliasConfined s) (hinl : ConvertInlinesAll s T)
    (f : Api) (o₁ o₂ : Opts W) (hf : f.wholesale = true) (M : Rec P) :
    (protoPath s T .convertVersion o₂ (protoPath s T f o₁ M).result).result
      = s.ser ((irPath T .convertVersion o₂ (s.de (protoPath s T f o₁ M).result)).result) := by
  rw [proto_eq_ir s T o₁ f hf M, second_call_proto_eq_ir s T hrt hext hframe hal hinl]
  exact (hext .convertVersion _ _ _ (hrt _)).symm

/-- Non-vacuity of the five contracts together, with a serde that is **not** a bijection (the IR carries a bit
that does not serialise: `ser` halves, `de` doubles) and transformations that really change their frame; the
three-call history `optimize; convert_version; fold_constants` then changes the model. -/
example : ∃ (s : Serde Nat Nat) (T : Api → Opts Unit → Rec Nat → Rec Nat),
    SerRoundTrip s ∧ Extensional s T ∧ FrameOK s T .convertVersion ∧ AliasConfined s ∧ ConvertInlinesAll s T ∧
    (∃ m : Rec Nat, s.de (s.ser m) ≠ m) ∧
    protoChain s T [(.optimize, fun _ => ()), (.convertVersion, fun _ => ()), (.foldConstants, fun _ => ())]
      (fun _ => 5) .nodes ≠ 5 := by
  refine ⟨⟨fun M c => M c * 2, fun m c => m c / 2, 0, fun M _ => M, fun M _ => M⟩,
    fun f _ m c => if f = .convertVersion ∧ c = .functions then 0 else if touches f c then m c + 2 else m c,
    ?_, ?_, ?_, ?_, ?_, ⟨fun _ => 1, ?_⟩, ?_⟩
  · intro m; funext c; show m c / 2 * 2 / 2 = m c / 2; omega
  · intro f o m₁ m₂ h; funext c
    have hc : m₁ c / 2 = m₂ c / 2 := congrFun h c
    show (if f = .convertVersion ∧ c = .functions then 0 else if touches f c then m₁ c + 2 else m₁ c) / 2
       = (if f = .convertVersion ∧ c = .functions then 0 else if touches f c then m₂ c + 2 else m₂ c) / 2
    split
    · rfl
    · split <;> omega
  · intro o m c hc
    show (if Api.convertVersion = .convertVersion ∧ c = .functions then 0 else if touches .convertVersion c then m c + 2 else m c) / 2 = m c / 2
    cases c <;> simp_all [touches]
  · intro M m' c _; rfl
  · intro o m; show (if Api.convertVersion = .convertVersion ∧ Carrier.functions = .functions then 0 else _) / 2 = 0
    simp
  · intro h; have := congrFun h Carrier.nodes; revert this; decide
  · decide

/-! ### Which object holds what after a history -/

/-- A call that hands back a *new* proto (`optimize`, `rewrite` with rules, `replace_functions`). -/
def returnsFresh (f : Api) : Bool := !f.inPlaceOnProto && f != .rewrite true

/-- The object the next call receives holds the chain's result, whichever object that is. -/
theorem track_current_is_chain (s : Serde P I) (T : Api → Opts W → Rec I → Rec I) (h : History W) (M : Rec P) :
    (protoTrack s T h M).current = protoChain s T h M := by
  suffices H : ∀ (h : History W) (t : Track P), (h.foldl (protoTrackStep s T) t).current = protoChain s T h t.current
    from H h ⟨M, none⟩
  intro h
  induction h with
  | nil => intro t; rfl
  | cons c rest ih =>
    intro t
    obtain ⟨f, o⟩ := c
    show (rest.foldl (protoTrackStep s T) (protoTrackStep s T t (f, o))).current = protoChain s T rest (protoPath s T f o t.current).result
    rw [ih]
    congr 1
    rcases t with ⟨orig, _ | cur⟩ <;> cases f with
    | rewrite e => cases e <;> rfl
    | _ => rfl


/-- **In-place calls and `rewrite(·, [])` keep working on the caller's own object**: after a history made only
of such calls the caller's object *is* the current object and holds the whole history's result. -/
theorem history_inplace_prefix_mutates_original (s : Serde P I) (T : Api → Opts W → Rec I → Rec I)
    (h : History W) (hh : ∀ c ∈ h, returnsFresh c.1 = false) (M : Rec P) :
    protoTrack s T h M = ⟨protoChain s T h M, none⟩ := by
  suffices H : ∀ (h : History W) (X : Rec P), (∀ c ∈ h, returnsFresh c.1 = false) →
      h.foldl (protoTrackStep s T) ⟨X, none⟩ = ⟨protoChain s T h X, none⟩ from H h M hh
  intro h
  induction h with
  | nil => intro X _; rfl
  | cons c rest ih =>
    intro X hh
    obtain ⟨f, o⟩ := c
    have hf : returnsFresh f = false := hh (f, o) (List.mem_cons_self ..)
    have hstep : protoTrackStep s T ⟨X, none⟩ (f, o) = ⟨(protoPath s T f o X).result, none⟩ := by
      cases f with
      | rewrite e => cases e <;> first | rfl | simp [returnsFresh, Api.inPlaceOnProto] at hf
      | optimize => simp [returnsFresh, Api.inPlaceOnProto] at hf
      | replaceFunctions => simp [returnsFresh, Api.inPlaceOnProto] at hf
      | _ => rfl
    show rest.foldl (protoTrackStep s T) (protoTrackStep s T ⟨X, none⟩ (f, o)) = _
    rw [hstep, ih _ (fun c hc => hh c (List.mem_cons_of_mem _ hc))]
    rfl

/-- Once the current object is a fresh proto, no later call reaches the caller's original. -/
theorem track_original_out_of_reach (s : Serde P I) (T : Api → Opts W → Rec I → Rec I)
    (h : History W) (orig cur : Rec P) :
    (h.foldl (protoTrackStep s T) ⟨orig, some cur⟩).orig = orig := by
  induction h generalizing cur with
  | nil => rfl
  | cons c rest ih =>
    obtain ⟨f, o⟩ := c
    show (rest.foldl (protoTrackStep s T) (protoTrackStep s T ⟨orig, some cur⟩ (f, o))).orig = orig
    cases f with
    | rewrite e => cases e <;> exact ih _
    | _ => exact ih _

/-- **The caller's object after an arbitrary history.**  Split the history at its first call that returns a
fresh proto (`pre` = in-place calls and `rewrite(·, [])`, then `f`, then anything): the caller's object holds
what `f` left in its argument when called on the result of `pre` — every later call, in place or not, works on
other objects. -/
theorem history_original_frozen_after_first_fresh (s : Serde P I) (T : Api → Opts W → Rec I → Rec I)
    (pre rest : History W) (f : Api) (o : Opts W) (hpre : ∀ c ∈ pre, returnsFresh c.1 = false)
    (hf : returnsFresh f = true) (M : Rec P) :
    (protoTrack s T (pre ++ (f, o) :: rest) M).orig = (protoPath s T f o (protoChain s T pre M)).argAfter := by
  unfold protoTrack
  rw [List.foldl_append]
  have hp := history_inplace_prefix_mutates_original s T pre hpre M
  unfold protoTrack at hp
  rw [hp]
  show (rest.foldl (protoTrackStep s T) (protoTrackStep s T ⟨protoChain s T pre M, none⟩ (f, o))).orig = _
  cases f with
  | rewrite e =>
    cases e
    · exact track_original_out_of_reach s T rest _ _
    · simp [returnsFresh, Api.inPlaceOnProto] at hf
  | optimize => exact track_original_out_of_reach s T rest _ _
  | replaceFunctions => exact track_original_out_of_reach s T rest _ _
  | _ => simp [returnsFresh, Api.inPlaceOnProto] at hf

/-- … which, for `optimize` (names written back) or a serde that does not write through, is exactly the result of
the in-place prefix: a pure call and everything after it leave the caller's object alone. -/
theorem history_original_is_inplace_prefix_result (s : Serde P I) (T : Api → Opts W → Rec I → Rec I)
    (pre rest : History W) (f : Api) (o : Opts W) (hpre : ∀ c ∈ pre, returnsFresh c.1 = false)
    (hf : returnsFresh f = true) (hr : RestoreOK s) (hna : f ≠ .optimize → NoAlias s) (M : Rec P) :
    (protoTrack s T (pre ++ (f, o) :: rest) M).orig = protoChain s T pre M := by
  rw [history_original_frozen_after_first_fresh s T pre rest f o hpre hf M]
  cases f with
  | rewrite e =>
    cases e
    · exact hna (by simp) _ _
    · rfl
  | optimize => exact hr _ _
  | replaceFunctions => exact hna (by simp) _ _
  | _ => simp [returnsFresh, Api.inPlaceOnProto] at hf

example : returnsFresh .optimize = true ∧ returnsFresh (.rewrite true) = false ∧ returnsFresh .foldConstants = false ∧
    (∀ c ∈ ([(.rewrite true, fun _ => ()), (.foldConstants, fun _ => ())] : History Unit), returnsFresh c.1 = false) := by
  decide

end OV.Props.C15
