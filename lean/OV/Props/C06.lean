import OV.Lemmas.C06Sound
import OV.Lemmas.C06Top
import OV.Lemmas.C06Complete
import OV.Lemmas.C06Solve
import OV.Lemmas.C06SolveC
import OV.Lemmas.C06Multi
import OV.Lemmas.C06SoundOr
import OV.Lemmas.C06SoundTag
import OV.Lemmas.C06CompleteOr
import OV.Lemmas.C06CommuteSem
import OV.Lemmas.C06Greedy
import OV.Lemmas.C06Exc
import OV.Model.C06Rule
/-!
# C06 — the pattern matcher reports a match exactly when the subgraph is an instance

Property theorems only.  Models: `OV.Model.C06Pattern` (pattern language, host graph),
`OV.Model.C06Match` (`patternMatch` = `SimplePatternMatcher.match` + `Pattern.match`
post-processing, transcribed with the partial-match stack), `OV.Model.C06Spec` (declarative
`Instance`, `ChecksPass`, `Removable`), `OV.Model.C06Commute` (`GraphPattern.commute`).

Every theorem quantifies over all patterns, all host graphs, all roots, both values of
`remove_nodes` and every tolerance relation `close`.
-/
namespace OV.Props.C06
open OV.C06

/-- **Soundness, bindings exactness, removability — patterns without BacktrackingOr.**
If `Pattern.match` (model: `patternMatch`) reports a match `r` for a pattern in which every
`OrValue` is an `OpIdDispatchOr` without tag variable (`dispOk`; OR-free patterns are a special
case, `GPat.noOr_dispOk`; any number of output nodes)
(whose node patterns refer, also inside OR alternatives, only to earlier node patterns — always true
for builder-made patterns — and, for the revision of `_match_node` as found (`E.fixF1 = false`), never asks a
locally matching node for more outputs than it has; the repaired revision `E.fixF1 = true` needs
no such condition), then the
assignment read off `r` (names ↦ `r.bindings`, pattern nodes ↦ matched nodes, unnamed value
patterns ↦ values) makes the subgraph ending at `root` an instance of the pattern: operator,
domain, attribute patterns, input positions with the trailing-`None` convention, repeated
variables, constants within `close`, output indices; every attached checker and the condition
accepted; and with `remove_nodes` no intermediate matched value is a graph output or used outside
the match.  The full statement (no side conditions) is refuted for the code before the repairs by
`match_sound_extra_outputs_prefix_refuted` (C06-F1) and `match_sound_or_prefix_refuted` (C06-F3/F4). -/
theorem match_sound_partial (E : Env) (root : NodeId) (rm : Bool) (r : Result)
    (hno : E.p.dispOk = true) (htopo : E.p.topoDeep) (har : E.fixF1 = true ∨ OutputArityOk E.p E.g)
    (h : patternMatch E root rm = some r) :
    Instance E root r.assign ∧ ChecksPass E.p r.assign ∧
      (rm = true → Removable E.g r.nodes r.outputs) :=
  patternMatch_sound E root rm r hno htopo har h

/-- **Soundness — the whole pattern language** (the committed code: repairs C06-F1 /repo 778bd07 and
C06-F3 /repo e143b53 in place, `E.fixF1`/`E.fixF3` at their defaults).  For *every* pattern —
`BacktrackingOr` and `OpIdDispatchOr` nested arbitrarily, with or without tag variables, tag variables
shared between OR values or clashing with other bindings, any number of output nodes — a match reported
by `Pattern.match` is an instance under the assignment read off the result (one chosen alternative per OR
occurrence, every tag variable bound to the chosen alternative's tag), every checker that ran accepted,
the outputs are the images of the pattern outputs, `match.nodes` is the image of the node bindings in
binding order, every declared pattern input is bound (to `None` when the match did not bind it), and with
`remove_nodes` the matched nodes are removable.

The remaining hypotheses are not restrictions of the pattern language: `topoDeep` is the well-formedness
of the encoding (a node pattern refers to earlier node patterns; builder-made patterns cannot be cyclic),
`fixF3`/`fixF1` pin the revision (for the code before the repairs the statement is false:
`match_sound_or_prefix_refuted`, `match_sound_extra_outputs_prefix_refuted`).

`_match_value` ignores the result of `bind(tag_var, i)` for an `OpIdDispatchOr`: on a clash it marks the
partial match failed and goes on returning `True`.  The proof (`Lemmas/C06SoundTag.lean`) carries every
invariant relative to "no partial match on the stack is failed"; a failed partial match is never merged
into its parent (`topOk` before `mergeTop`) and never reported (`finish`).  What is *not* guaranteed is
completeness (`match_complete_full_refuted`, finding C06-D11). -/
theorem match_sound (E : Env) (root : NodeId) (rm : Bool) (r : Result)
    (hf3 : E.fixF3 = true) (htopo : E.p.topoDeep)
    (har : E.fixF1 = true ∨ OutputArityOk E.p E.g) (h : patternMatch E root rm = some r) :
    Instance E root r.assign ∧ ChecksPass E.p r.assign ∧
      (rm = true → Removable E.g r.nodes r.outputs) ∧
      E.p.outputs.mapM (r.assign.outputOf E.p) = some r.outputs ∧
      r.nodes = r.nb.map (·.2) ∧
      (∀ nm, some nm ∈ E.p.inputs → ∃ b, r.assign.names nm = some b) :=
  patternMatch_soundT E root rm r hf3 htopo har h

/-- **The reported bindings / nodes / outputs are exactly the instance's.**  Under the same
hypotheses: `r.outputs` are the images of the pattern outputs in order (by name when named, by
object identity otherwise), `r.nodes` is the image of the pattern nodes in binding order, and
every declared pattern input is bound (to `None` when the match did not bind it).  For the committed
revision (`fixF3 = true`) `match_sound` states the same for the whole pattern language; this theorem also
covers the code before repair C06-F3 on dispatch-only patterns. -/
theorem bindings_exact_partial (E : Env) (root : NodeId) (rm : Bool) (r : Result)
    (hno : E.p.dispOk = true) (htopo : E.p.topoDeep) (har : E.fixF1 = true ∨ OutputArityOk E.p E.g)
    (h : patternMatch E root rm = some r) :
    E.p.outputs.mapM (r.assign.outputOf E.p) = some r.outputs ∧
      r.nodes = r.nb.map (·.2) ∧
      (∀ nm, some nm ∈ E.p.inputs → ∃ b, r.assign.names nm = some b) :=
  patternMatch_exact E root rm r hno htopo har h

/-- **Completeness — OR-free patterns with one output node.**  If some assignment `A` makes the
subgraph ending at `root` an instance of the pattern and every attached checker accepts under `A`,
then — for a pattern without `OrValue`, topologically ordered, with a single output node `np0`
whose outputs are the pattern's outputs — `Pattern.match(…, check_nodes_are_removable=False)`
reports a match `r`, and with `check_nodes_are_removable=True` a match is reported **iff** no
intermediate value of the nodes `r` found is a graph output or used outside them.
The unrestricted statement is refuted by `match_complete_full_refuted` (BacktrackingOr, D11);
patterns with several output nodes are not covered (their candidate filter is finding C06-F5). -/
theorem match_complete_partial (E : Env) (A : Assign) (root : NodeId) (np0 : NPId)
    (hno : E.p.noOr = true) (htopo : E.p.topo) (hnc : E.fixF2 = false ∨ NamedVarsUnchecked E.p)
    (hsingle : E.p.outputNodes = [np0])
    (hroot : OutputsOfRoot E.p np0) (hinst : Instance E root A) (hchk : ChecksPass E.p A) :
    ∃ r, patternMatch E root false = some r ∧
      ((patternMatch E root true).isSome = true ↔ Removable E.g r.nodes r.outputs) :=
  patternMatch_complete_single E A root np0 hno htopo hnc hsingle hroot hinst hchk

/-- **Completeness with `BacktrackingOr` whose alternatives are mutually exclusive** (code after repair
C06-F3).  If no value can satisfy two alternatives of one `OrValue` — under any assignment
(`GPat.exclOk`: `ExclAlts` for every BacktrackingOr, nested ones included; it also asks that no named
variable carries a checker) — then committing to the first locally successful alternative loses nothing:
for a pattern with one output node whose outputs are the pattern outputs, every instance with accepting
checkers is reported by `Pattern.match(…, check_nodes_are_removable=False)`, and with
`check_nodes_are_removable=True` exactly when the found nodes are removable.  OpIdDispatchOr (without tag
variable) is covered as well.  Without exclusivity the statement is false: `match_complete_full_refuted`
(finding C06-D11; its witness `OrValue([Neg(x), x])` has alternatives that one value satisfies both). -/
theorem match_complete_or_partial (E : Env) (A : Assign) (root : NodeId) (np0 : NPId)
    (hf3 : E.fixF3 = true) (hbk : E.p.backOk = true) (hex : GPat.exclOk E) (htopo : E.p.topoDeep)
    (har : E.fixF1 = true ∨ OutputArityOk E.p E.g) (hsingle : E.p.outputNodes = [np0])
    (hroot : OutputsOfRoot E.p np0) (hinst : Instance E root A) (hchk : ChecksPass E.p A) :
    ∃ r, patternMatch E root false = some r ∧
      ((patternMatch E root true).isSome = true ↔ Removable E.g r.nodes r.outputs) :=
  patternMatch_complete_or E A root np0 hf3 hbk hex htopo har hsingle hroot hinst hchk

/-- **Completeness for leftmost instances — what `BacktrackingOr` cannot miss** (code after repair C06-F3).
`BacktrackingOr` commits to the first alternative that succeeds (finding C06-D11).  Call an instance
*leftmost* (`InstanceL`: `SatV`/`SatN` with one more premise at the BacktrackingOr rule) when at every
BacktrackingOr occurrence it takes alternative `i` and no earlier alternative describes that value under
any assignment.  Every leftmost instance with accepting checkers is reported — no exclusivity of the
alternatives is assumed (`OrValue([Neg(x), x])`, the D11 pattern, is covered: `lmEnv` below).  This
weakens the hypothesis `exclOk` of `match_complete_or_partial` from "the alternatives of every
BacktrackingOr are mutually exclusive" to "this instance never needs a later alternative where an earlier
one could apply" (`leftmost_of_exclusive`: the former implies the latter for every instance).  The
remaining hypotheses are those of `match_complete_or_partial`: no tagged OpIdDispatchOr (`backOk`; inside
an alternative forced by finding C06-F9), no checker on named variables (`nuOk`, limit of the declarative
`ChecksPass`), one output node whose outputs are the pattern outputs.  The converse fails: the matcher
also takes a later alternative when an earlier one is satisfiable in isolation but clashes with bindings
made before, so a reported match need not be leftmost in this sense. -/
theorem match_complete_leftmost_partial (E : Env) (A : Assign) (root : NodeId) (np0 : NPId)
    (hf3 : E.fixF3 = true) (hbk : E.p.backOk = true) (hnu : E.p.nuOk) (htopo : E.p.topoDeep)
    (har : E.fixF1 = true ∨ OutputArityOk E.p E.g) (hsingle : E.p.outputNodes = [np0])
    (hroot : OutputsOfRoot E.p np0) (hinst : InstanceL E root A) (hchk : ChecksPass E.p A) :
    ∃ r, patternMatch E root false = some r ∧
      ((patternMatch E root true).isSome = true ↔ Removable E.g r.nodes r.outputs) :=
  patternMatch_complete_leftmost E A root np0 hf3 hbk hnu htopo har hsingle hroot hinst hchk

/-- with mutually exclusive alternatives every instance is leftmost (so `match_complete_leftmost_partial`
contains `match_complete_or_partial`), and a leftmost instance is an instance -/
theorem leftmost_of_exclusive (E : Env) (root : NodeId) (A : Assign) (hex : GPat.exclOk E) :
    (Instance E root A → InstanceL E root A) ∧ E.p.nuOk ∧ (InstanceL E root A → Instance E root A) :=
  ⟨instance_leftmost_of_excl hex, exclOk_nuOk hex, fun h => h.1⟩

/-- **A match is reported exactly when the subgraph is an instance** — the property's sentence as one
theorem, for the fragment where both directions hold: repaired `merge` (C06-F3), no OpIdDispatchOr with tag
variable, mutually exclusive OR alternatives and no checker on named variables (`exclOk`), acyclic pattern
with one output node whose outputs are the pattern outputs.  Without the removability test a match is
reported iff some assignment makes the subgraph ending at `root` an instance with accepting checkers; with
it, iff moreover the nodes of that match are removable. -/
theorem match_iff_instance_partial (E : Env) (root : NodeId) (np0 : NPId) (hf3 : E.fixF3 = true)
    (hbk : E.p.backOk = true) (hex : GPat.exclOk E) (htopo : E.p.topoDeep)
    (har : E.fixF1 = true ∨ OutputArityOk E.p E.g) (hsingle : E.p.outputNodes = [np0])
    (hroot : OutputsOfRoot E.p np0) :
    ((patternMatch E root false).isSome = true ↔ ∃ A, Instance E root A ∧ ChecksPass E.p A) ∧
    ((patternMatch E root true).isSome = true ↔
      ∃ r, patternMatch E root false = some r ∧ Removable E.g r.nodes r.outputs) :=
  patternMatch_iff_instance E root np0 hf3 hbk hex htopo har hsingle hroot

/-- **Completeness — OR-free patterns with several output nodes, outside finding C06-F5.**
With repair C06-F5 (`E.fixF5 = true`) unconditionally, and for the code before it if every output
node after the first has an operator identifier and no host node carries an overload
(`CandidatesComplete`; the two conditions whose failure is finding C06-F5), the pattern outputs are outputs of
output nodes and no opaque checker rejects, then every instance is reported: the instance's own
node combination is among the candidates `itertools.product` goes through, `_multi_match` succeeds
on it, hence `SimplePatternMatcher.match` and `Pattern.match` report a match (possibly on an earlier
succeeding combination, cf. `match_deterministic`).  Restrictions, all hypotheses of the statement: only
`remove_nodes=False` (nothing is said about the removability test on the reported combination); OR-free
(`noOr`) and `topo`; `OutputsOfOutputNodes`; `CandidatesComplete`; no opaque checker rejects (`checksOk`, needed
for the `Pattern.match` half); named variables carry no checker or the code is before repair F2
(`fixF2 = false ∨ NamedVarsUnchecked`); `fixF1` or `OutputArityOk`.  Soundness for several output nodes is
part of `match_sound` / `match_sound_partial`. -/
theorem match_complete_multi_partial (E : Env) (A : Assign) (root : NodeId)
    (hno : E.p.noOr = true) (htopo : E.p.topo) (hnc : E.fixF2 = false ∨ NamedVarsUnchecked E.p)
    (har : E.fixF1 = true ∨ OutputArityOk E.p E.g)
    (houts : OutputsOfOutputNodes E.p) (hcc : CandidatesComplete E)
    (hchk : E.p.checksOk = true) (hinst : Instance E root A) :
    (∃ combo, combo ∈ combos E root ∧ (multiMatch E false combo).ok = true) ∧
      (patternMatch E root false).isSome = true :=
  ⟨let ⟨c, h1, h2, _⟩ := matcher_complete_multi E A root hno htopo hnc har houts hcc hinst; ⟨c, h1, h2⟩,
   patternMatch_complete_multi E A root hno htopo hnc har houts hcc hchk hinst⟩

/-- **Determinism / first combination in graph order.**  A successful match is the result of
`_multi_match` on one candidate combination that starts with `root`, and every combination that
`itertools.product` yields before it failed.  (For a pattern with one output node there is one
combination, `[root]`.) -/
theorem match_deterministic (E : Env) (root : NodeId) (rm : Bool)
    (h : (matcherMatch E root rm).ok = true) :
    ∃ pre combo post,
      combos E root = pre ++ combo :: post ∧
      matcherMatch E root rm = multiMatch E rm combo ∧
      combo.head? = some root ∧
      ∀ c ∈ pre, (multiMatch E rm c).ok = false :=
  matcherMatch_first E root rm h

/-! ## The oracle of the correspondence check is itself verified -/

/-- **`solve` is sound** (whole pattern language: OR patterns, several output nodes, any graph):
every solution the exhaustive search returns is an instance under the assignment it stands for;
its `outputs` are the images of the pattern outputs, its `names` contain that assignment, and with
`remove_nodes` the mapped nodes are removable.  Hypothesis: node patterns refer (also inside OR
alternatives) only to earlier node patterns — true for every pattern built with the API. -/
theorem solve_sound (E : Env) (root : NodeId) (rm : Bool) (s : Sol) (htopo : E.p.topoDeep)
    (h : s ∈ solve E root rm) :
    ∃ A, Instance E root A ∧ E.p.outputs.mapM (A.outputOf E.p) = some s.outputs ∧
      (∀ k b, A.names k = some b → s.names.lookup k = some b) ∧
      (rm = true → Removable E.g s.nodes s.outputs) :=
  solve_sound_core E root rm s htopo h

/-- **`solve` is complete** (OR patterns and several output nodes included): if *any* assignment
makes the subgraph ending at `root` an instance, the search returns a solution — and that solution
is also returned with `remove_nodes` when its nodes are removable.  Hypotheses: acyclic pattern,
no opaque checker answers `False` (`checksOk`; `solve` evaluates checkers inline, also those of
named variables, which `ChecksPass` does not mention), and the pattern outputs are outputs of its
output nodes.  `_partial` for these two side conditions. -/
theorem solve_complete_partial (E : Env) (root : NodeId) (A : Assign) (htopo : E.p.topoDeep)
    (hchk : E.p.checksOk = true) (houts : OutputsOfOutputNodes E.p) (hinst : Instance E root A) :
    ∃ s, s ∈ solve E root false ∧ (Removable E.g s.nodes s.outputs → s ∈ solve E root true) :=
  solve_complete_core E root A htopo hchk houts hinst

/-! ## `commute` -/

/-- `commute` yields one pattern per swap mask; the masks are exactly the `2^k` Boolean vectors
that are `false` outside the `k` node patterns whose operator identifier is in
`COMMUTATIVE_OPS` (and, with proposed fix C06-F7b, that are written with two inputs), each once, the all-`false` mask first — and for that mask the pattern itself
(not a copy) is returned. -/
theorem commute_exact (fix7a fix7b fix7c : Bool) (p : GPat) (l : List GPat)
    (h : commute fix7a p fix7b fix7c = .ok l) :
    l.length = 2 ^ (p.nodes.filter (NPat.swappable fix7b)).length ∧
      (masks fix7b p.nodes).Nodup ∧
      (∀ m, m ∈ masks fix7b p.nodes ↔
        m.length = p.nodes.length ∧ ∀ (i : Nat) (b : Bool), m[i]? = some b → b = true →
          ∃ n : NPat, p.nodes[i]? = some n ∧ n.swappable fix7b = true) ∧
      l.head? = some p :=
  commute_counts fix7a fix7b fix7c p l h

/-- **Every swapped variant is the pattern with the masked nodes' two inputs exchanged.**  For a
mask `m` with at least one swap, node pattern `i` of `copy_graph(m)` equals node pattern `i` of `p`
in every field except that it has lost its operator identifier (`opIsStr = false`) and that its
inputs are — up to object identity of the cloned value patterns (`skel`: ids erased, and
`can_match_none` of a bare `ValuePattern`, which `ValuePattern.clone` drops) — the inputs of node
`i`, reversed iff `m[i]`; a swapped node has exactly two inputs.  The semantic corollary
("the variants match exactly the instances of the swapped patterns") is *not* a theorem here: it
needs invariance of `Instance` under renaming of object ids and fails where cloning un-shares a
doubly used unnamed object; the correspondence check tests it per case (commute oracle). -/
theorem commute_variant_is_swap (fix7a fix7c : Bool) (p q : GPat) (m : List Bool) (hm : m.any id = true)
    (h : copyGraph fix7a p m fix7c = .ok q) :
    ∀ (i : Nat) (n n' : NPat) (b : Bool), p.nodes[i]? = some n → m[i]? = some b → q.nodes[i]? = some n' →
      skelInputs n'.inputs = (if b then (skelInputs n.inputs).reverse else skelInputs n.inputs) ∧
      (b = true → n.inputs.length = 2) ∧ n' = { n with inputs := n'.inputs, opIsStr := false } :=
  copyGraph_skel fix7a fix7c p q m hm h

/-- **`commute` yields exactly the swap variants** (semantic half of `commute_exact`, for patterns whose
value patterns are `ANY`, node outputs and named `Var`s — object identity immaterial, `namedLeaves`):
the list returned by `GraphPattern.commute` *is* the list of patterns obtained by exchanging the operands of
the masked nodes (`variantOf p m = p` for the all-`false` mask, else `swapPat p m`), one per mask, in
`itertools.product` order. -/
theorem commute_is_swap_variants_partial (fix7a fix7b fix7c : Bool) (p : GPat) (l : List GPat)
    (hn : p.namedLeaves = true) (h : commute fix7a p fix7b fix7c = .ok l) :
    l = (masks fix7b p.nodes).map (variantOf p) :=
  commute_named fix7a fix7b fix7c p l hn h

/-- **A swapped variant has exactly the instances of the pattern with those operands exchanged** — with all
operator flags of the original kept (`pureSwap`): `Instance` never reads the `str`-op flag that copies lose
(`instance_str`).  For `namedLeaves` patterns. -/
theorem commute_variant_instances_partial (E : Env) (fix7a fix7c : Bool) (p q : GPat) (m : List Bool)
    (hn : p.namedLeaves = true) (hm : m.any id = true) (h : copyGraph fix7a p m fix7c = .ok q)
    (root : NodeId) (A : Assign) :
    Instance { E with p := q } root A ↔ Instance { E with p := pureSwap p m } root A := by
  have hq : q = swapPat p m := by
    have := copyGraph_named fix7a fix7c p q m hn h
    simpa [variantOf, hm] using this
  subst hq
  exact ⟨instance_str E (swapPat_pureSwap p m) root A, instance_str E (swapPat_pureSwap p m).symm root A⟩

/-- **With `commute=True` the matches are exactly those of the pattern under swaps of commutative operands**:
some variant of `commute` reports a match at `root` iff, for some swap mask, the subgraph ending at `root` is
an instance (with accepting checkers) of the pattern with those operands exchanged.  Stated for
`remove_nodes=False` and only for a narrow fragment: `namedLeaves` patterns *every swap variant of which*
satisfies the whole bundle `IffHyps` (the hypotheses of `match_iff_instance_partial`): committed merge
(`fixF3`), no tagged dispatch-OR (`backOk`), mutually exclusive BacktrackingOr alternatives and no checker on
named variables (`exclOk`), acyclic encoding (`topoDeep`), `fixF1` or `OutputArityOk`, exactly one output node
whose outputs are the pattern outputs (`OutputsOfRoot`). -/
theorem commute_matches_iff_swap_instance_partial (E : Env) (root : NodeId) (np0 : NPId)
    (fix7a fix7b fix7c : Bool) (l : List GPat) (hn : E.p.namedLeaves = true)
    (h : commute fix7a E.p fix7b fix7c = .ok l)
    (hH : ∀ m ∈ masks fix7b E.p.nodes, IffHyps E (variantOf E.p m) np0) :
    (∃ q ∈ l, (patternMatch { E with p := q } root false).isSome = true) ↔
      ∃ m ∈ masks fix7b E.p.nodes, ∃ A, Instance { E with p := variantOf E.p m } root A ∧
        ChecksPass (variantOf E.p m) A :=
  commute_semantic E root np0 fix7a fix7b fix7c l hn h hH

/-- **`commute` keeps every `Constant` pattern intact**: in every variant, node pattern `i` holds
exactly the `Constant` patterns of node pattern `i` of the original — same value, same `rel_tol`,
same `abs_tol` (a `ConstPat` is the triple).  So a swapped variant accepts a constant iff the
pattern as written does. -/
theorem clone_preserves_constant (fix7a fix7b fix7c : Bool) (p : GPat) (l : List GPat) (q : GPat)
    (h : commute fix7a p fix7b fix7c = .ok l) (hq : q ∈ l) :
    ∀ (i : Nat) (n n' : NPat), p.nodes[i]? = some n → q.nodes[i]? = some n' →
      ∀ c : ConstPat, c ∈ n'.consts ↔ c ∈ n.consts :=
  commute_consts fix7a fix7b fix7c p l q h hq

/-! ## Refutations of the unrestricted statements (witnesses replayed on the real matcher) -/

def xVar : VPat := .var 1 (some "x") true false none

def mkNode (op : String) (ins : List (Option VPat)) (nouts : Nat) : NPat :=
  { domain := .exact "", op := .exact op, opIsStr := true, inputs := ins, attrs := [],
    allowOtherAttrs := true, allowOtherInputs := false, outputs := List.replicate nouts none,
    check := none }

def mkGNode (op : String) (ins : List (Option ValueId)) (outs : List ValueId) : GNode :=
  { domain := "", op := op, overload := "", inputs := ins, attrs := [], outputs := outs }

def closeEq (_ _ : Tol) (a b : Int) : Bool := a == b

/-- finding C06-D11: `Add(OrValue([Neg(x), x]), x)` against `n = Neg(a); y = Add(n, n)` -/
def d11 : Env :=
  { p := { inputs := [some "x"], cond := true,
           nodes := [mkNode "Neg" [some xVar] 1,
                     mkNode "Add" [some (.orB 2 none none [0, 1] [.out 0 0, xVar]), some xVar] 1],
           outputs := [.out 1 0] }
    g := { nodes := [mkGNode "Neg" [some 0] [1], mkGNode "Add" [some 1, some 1] [2]],
           outputs := [2], consts := [], foreign := [], extUses := [] }
    close := closeEq }

def d11Assign : Assign :=
  { names := fun k => if k = "x" then some (.val 1) else none
    node := fun np => if np = 1 then some 1 else none
    leaf := fun k => if k = .leaf 2 then some (some 1) else if k = .outp 1 0 then some (some 2) else none }

theorem d11_is_instance : Instance d11 1 d11Assign ∧ ChecksPass d11.p d11Assign := by
  have hx : SatV d11 d11Assign xVar (some 1) :=
    .var 1 (some "x") true false none (some 1)
      (by simp [Assign.boundTo, GPat.vname, d11Assign, Bound.ofVal]) (by intro h; cases h) (by intro x _ h; simp [d11, Graph.isForeign] at h)
  have hor : SatV d11 d11Assign (.orB 2 none none [0, 1] [.out 0 0, xVar]) (some 1) :=
    .orB 2 none none [0, 1] [.out 0 0, xVar] (some 1) 1 xVar
      (by simp [Assign.boundTo, GPat.vname, VPat.key, d11Assign])
      (by intro x _; simp [d11, Graph.isForeign]) rfl hx (by intro t h; cases h)
  have hn : SatN d11 d11Assign 1 1 := by
    refine .mk 1 1 (mkNode "Add" [some (.orB 2 none none [0, 1] [.out 0 0, xVar]), some xVar] 1)
      (mkGNode "Add" [some 1, some 1] [2]) rfl rfl rfl (by decide) (by decide) ?_ (.inl (by decide)) ?_ ?_ ?_
    · exact ⟨fun name ap h => by simp [mkNode] at h, fun h => by simp [mkNode] at h⟩
    · intro i h
      match i with
      | 0 => simp [mkNode] at h
      | 1 => simp [mkNode] at h
      | n + 2 => simp [mkNode] at h
    · intro i vp h
      match i with
      | 0 => simp [mkNode] at h; subst h; exact hor
      | 1 => simp [mkNode] at h; subst h; exact hx
      | n + 2 => simp [mkNode] at h
    · intro i hi
      have : i = 0 := by simp [mkNode] at hi; omega
      subst this
      exact ⟨2, rfl, by simp [Assign.boundTo, GPat.vname, GPat.outName, VPat.key, d11Assign, d11, mkNode]⟩
  refine ⟨⟨?_, ?_, rfl⟩, ⟨?_, ?_⟩⟩
  · intro np h
    have : np = 1 := by simpa [d11, GPat.outputNodes, GPat.outputNodesCov] using h.symm
    subst this; rfl
  · intro np h
    have : np = 1 := by simpa [d11, GPat.outputNodes, GPat.outputNodesCov] using h
    subst this
    exact ⟨1, rfl, hn⟩
  · intro np n P hnode hP
    have : np = 1 := by
      by_cases h : np = 1
      · exact h
      · simp [d11Assign, h] at hnode
    subst this
    simp [d11, mkNode] at hP
    subst hP
    simp
  · intro id v _
    simp [d11, GPat.valueChecks, mkNode, vpChecks, vpChecksL, xVar]

/-- the D11 witness satisfies the hypotheses of `solve_complete_partial` (so that theorem is not
vacuous, and `solve` finds the instance the matcher misses) -/
example : d11.p.topoDeep ∧ d11.p.checksOk = true ∧ OutputsOfOutputNodes d11.p ∧
    (solve d11 1 true).length = 1 := by
  refine ⟨?_, by decide, ?_, by decide⟩
  · intro np P hP vp hin q hq
    match np with
    | 0 =>
      simp [d11, mkNode] at hP; subst hP
      simp [xVar] at hin; subst hin
      simp [VPat.refs] at hq
    | 1 =>
      simp [d11, mkNode] at hP; subst hP
      simp [xVar] at hin
      rcases hin with rfl | rfl
      · simp [VPat.refs, refsL] at hq; simp [hq]
      · simp [VPat.refs] at hq
    | n + 2 => simp [d11] at hP
  · intro vp hvp
    simp [d11] at hvp
    subst hvp
    exact ⟨1, 0, _, rfl, by decide, rfl, by simp [mkNode]⟩

/-- **Completeness fails in general** (finding C06-D11, reproduced on the real matcher): the first
locally successful alternative of a `BacktrackingOr` is committed and never revisited.  The full
statement "every instance whose checkers accept is reported" is false. -/
theorem match_complete_full_refuted :
    ¬ (∀ (E : Env) (root : NodeId) (A : Assign), Instance E root A → ChecksPass E.p A →
        (patternMatch E root false).isSome = true) := by
  intro h
  have := h d11 1 d11Assign d11_is_instance.1 d11_is_instance.2
  revert this
  decide

/-- finding C06-F1 (fixed in /repo 778bd07; `fixF1 := false` restates the code before the repair):
`a, b = D2(x)` (two outputs) against a `D2` node with one output -/
def f1 : Env :=
  { p := { inputs := [some "x"], cond := true, nodes := [mkNode "D2" [some xVar] 2],
           outputs := [.out 0 0] }
    g := { nodes := [mkGNode "D2" [some 0] [1]], outputs := [1], consts := [], foreign := [],
           extUses := [] }
    close := closeEq
    fixF1 := false }

/-- **Soundness failed in general for the matcher before repair 778bd07** (finding C06-F1, reproduced on the real matcher at that revision): a pattern
node that asks for more outputs than the node has makes `_match_node` return `False` without
failing the match, and the still-truthy `MatchResult` is reported (with no outputs). -/
theorem match_sound_extra_outputs_prefix_refuted :
    ¬ (∀ (E : Env) (root : NodeId) (rm : Bool) (r : Result), E.fixF1 = false → E.p.noOr = true →
        E.p.topo → patternMatch E root rm = some r → ∃ A, Instance E root A) := by
  intro h
  have hm : (patternMatch f1 0 false).isSome = true := by decide
  obtain ⟨r, hr⟩ := Option.isSome_iff_exists.1 hm
  have htopo : f1.p.topo := by
    intro np P hP q idx hin
    match np with
    | 0 =>
      simp [f1, mkNode] at hP
      subst hP
      simp [xVar] at hin
    | n + 1 => simp [f1] at hP
  obtain ⟨A, hA⟩ := h f1 0 false r rfl (by decide) htopo hr
  obtain ⟨n, hn, hs⟩ := hA.outNodes 0 (by decide)
  have h0 := hA.rootNode 0 (by decide)
  rw [h0] at hn
  cases hn
  cases hs with
  | mk _ _ P N hP hN _ _ _ _ _ _ _ hout =>
    simp [f1, mkNode] at hP
    simp [f1, mkGNode] at hN
    subst hP hN
    obtain ⟨x, hx, _⟩ := hout 1 (by decide)
    simp at hx

/-- with the repaired `_match_node` (`fixF1 = true`) the F1 witness is no longer reported -/
example : (patternMatch { f1 with fixF1 := true } 0 false).isSome = false := by decide

/-- findings C06-F3/F4 (fixed in /repo e143b53; `fixF3 := false` restates `merge` before the repair):
`t = Neg(x); Add(OrValue([t, y]), t)` against `n1 = Neg(a); n2 = Neg(a); s = Add(n1, n2)` -/
def f4 : Env :=
  { p := { inputs := [some "x", some "y"], cond := true,
           nodes := [mkNode "Neg" [some xVar] 1,
                     mkNode "Add" [some (.orB 4 none none [0, 1] [.out 0 0, .var 2 (some "y") true false none]),
                                   some (.out 0 0)] 1],
           outputs := [.out 1 0] }
    g := { nodes := [mkGNode "Neg" [some 0] [1], mkGNode "Neg" [some 0] [2], mkGNode "Add" [some 1, some 2] [3]],
           outputs := [3], consts := [], foreign := [], extUses := [] }
    close := closeEq
    fixF3 := false }

/-- **Before repair e143b53 soundness failed for BacktrackingOr patterns** (findings C06-F3/F4, reproduced
on the real matcher at that revision): `merge` dropped the node binding of `t` made inside the first
alternative, `t` was matched again against the other `Neg` node, and the reported assignment (t ↦ n2,
OR ↦ n1's output, y ↦ None) is no instance.  With the repaired `merge` the same input is not matched
this way (`example` below). -/
theorem match_sound_or_prefix_refuted :
    ¬ (∀ (E : Env) (root : NodeId) (rm : Bool) (r : Result), E.fixF3 = false → E.p.backOk = true →
        E.p.topoDeep → patternMatch E root rm = some r → Instance E root r.assign) := by
  intro h
  have hm : (patternMatch f4 2 false).isSome = true := by decide
  obtain ⟨r, hr⟩ := Option.isSome_iff_exists.1 hm
  have hnb : (patternMatch f4 2 false).map (fun r => (r.nb, r.bindings)) =
      some ([(1, 2), (0, 1)], [("x", .val 0), ("y", .none)]) := by decide
  rw [hr] at hnb
  simp only [Option.map_some, Option.some.injEq, Prod.mk.injEq] at hnb
  obtain ⟨hnb, hbd⟩ := hnb
  have htopo : f4.p.topoDeep := by
    intro np P hP vp hin q hq
    match np with
    | 0 =>
      simp [f4, mkNode] at hP; subst hP
      simp [xVar] at hin; subst hin
      simp [VPat.refs] at hq
    | 1 =>
      simp [f4, mkNode] at hP; subst hP
      simp at hin
      rcases hin with rfl | rfl
      · simp [VPat.refs, refsL] at hq; simp [hq]
      · simp [VPat.refs] at hq; simp [hq]
    | n + 2 => simp [f4] at hP
  have hI := h f4 2 false r rfl (by decide) htopo hr
  obtain ⟨n, hn, hs⟩ := hI.outNodes 1 (by decide)
  have hnode0 : r.assign.node 0 = some 1 := by
    show r.nb.lookup 0 = some 1
    rw [hnb]; decide
  have hy : r.assign.names "y" = some Bound.none := by
    show r.bindings.lookup "y" = some Bound.none
    rw [hbd]; decide
  have hn2 : n = 2 := by
    have : r.assign.node 1 = some 2 := by
      show r.nb.lookup 1 = some 2
      rw [hnb]; decide
    rw [this] at hn; cases hn; rfl
  subst hn2
  cases hs with
  | mk _ _ P N hP hN _ _ _ _ _ _ hsome _ =>
    simp [f4, mkNode] at hP
    simp [f4, mkGNode] at hN
    subst hP hN
    have h0 := hsome 0 _ rfl
    simp only [inputAt] at h0
    cases h0 with
    | orB _ _ _ _ _ _ i alt _ _ hi hsa _ =>
      match i with
      | 0 =>
        simp at hi; subst hi
        cases hsa with
        | out _ _ _ n' _ _ hp _ hn' =>
          have : n' = 0 := by
            have : f4.g.producer 1 = some 0 := by decide
            rw [this] at hp; cases hp; rfl
          subst this
          have := satN_node hn'
          rw [hnode0] at this
          cases this
      | 1 =>
        simp at hi; subst hi
        cases hsa with
        | var _ _ _ _ _ _ hb _ _ =>
          simp only [Assign.boundTo, GPat.vname] at hb
          rw [hy] at hb
          cases hb
      | k + 2 => simp at hi

/-- with the repaired `merge` the F4 witness is no longer reported through the first alternative; it is now
*missed* (the committed first alternative is not revisited — finding C06-D11) -/
example : (patternMatch { f4 with fixF3 := true } 2 false).isSome = false := by decide

/-- `Add(OrValue([Neg(x), x]), z)` (a BacktrackingOr) against `n = Neg(a); s = Add(n, n)` -/
def orEnv : Env :=
  { p := { inputs := [some "x", some "z"], cond := true,
           nodes := [mkNode "Neg" [some xVar] 1,
                     mkNode "Add" [some (.orB 4 none (some "t") [7, 8] [.out 0 0, xVar]),
                                   some (.var 3 (some "z") true false none)] 1],
           outputs := [.out 1 0] }
    g := { nodes := [mkGNode "Neg" [some 0] [1], mkGNode "Add" [some 1, some 1] [2]],
           outputs := [2], consts := [], foreign := [], extUses := [] }
    close := closeEq }

/-- `match_sound` is not vacuous: a pattern with a tagged BacktrackingOr satisfies its hypotheses
and is matched (tag variable bound to the first alternative's tag) -/
example : orEnv.fixF3 = true ∧ orEnv.p.backOk = true ∧ orEnv.p.dispOk = false ∧ orEnv.p.topoDeep ∧
    (patternMatch orEnv 1 true).map (fun r => r.bindings) =
      some [("x", .val 0), ("t", .tag 7), ("z", .val 1)] := by
  refine ⟨rfl, by decide, by decide, ?_, by decide⟩
  intro np P hP vp hin q hq
  match np with
  | 0 =>
    simp [orEnv, mkNode] at hP; subst hP
    simp [xVar] at hin; subst hin
    simp [VPat.refs] at hq
  | 1 =>
    simp [orEnv, mkNode] at hP; subst hP
    simp at hin
    rcases hin with rfl | rfl
    · simp [VPat.refs, refsL, xVar] at hq; simp [hq]
    · simp [VPat.refs] at hq
  | n + 2 => simp [orEnv] at hP

/-! ## Non-vacuity -/

/-- `Sub(Neg(x), x)` against `n = Neg(a); y = Sub(n, a)`: the hypotheses of `match_sound_partial`
hold and a match is reported. -/
def okEnv : Env :=
  { p := { inputs := [some "x"], cond := true,
           nodes := [mkNode "Neg" [some xVar] 1, mkNode "Sub" [some (.out 0 0), some xVar] 1],
           outputs := [.out 1 0] }
    g := { nodes := [mkGNode "Neg" [some 0] [1], mkGNode "Sub" [some 1, some 0] [2]],
           outputs := [2], consts := [], foreign := [], extUses := [] }
    close := closeEq }

/-! ## The exception channel (`OV.Model.C06Exc`, finding C06-F9) -/

/-- **Exception freedom, and the total model is the code there.**  `patternMatchX` (`OV.Model.C06Exc`) restates the
matcher with the three `raise` statements of `merge_current_match` / `PartialMatchResult.merge` (nothing on the
way out of `Pattern.match` catches them) and with the truth value of the `MatchResult` that `_match_node` tests
after `NodePattern.matches`; `patternMatch` is the total model every other theorem of this file is about.  A
pattern without tagged `OpIdDispatchOr` (`backOk`; any `BacktrackingOr`, tagged or not, any number of output
nodes) never makes `Pattern.match` raise: on every graph, root and `remove_nodes` the exception-aware model
returns, and returns `patternMatch` — so every theorem of this file speaks about the code with its exceptions on
that fragment.  `_partial`: the hypothesis `backOk` is forced — `matchX_raises_refuted` (finding C06-F9: the
ignored `bind` result of a tagged dispatch-OR leaves a failed partial match behind a `True` return value, and the
next `merge_current_match` raises).  Outside `backOk` no refinement is proved (the two models also differ in
intermediate states once a partial match is failed; the tie compares `patternMatchX` with the code on every case). -/
theorem matchX_no_exception_partial (E : Env) (root : NodeId) (rm : Bool) (hf8 : E.fixF8 = true)
    (hbk : E.p.backOk = true) : patternMatchX E root rm = .ok (patternMatch E root rm) := by
  obtain ⟨m, hm⟩ := matcherMatchX_tot E hf8 hbk root rm
  unfold patternMatchX
  rw [hm, patternMatch_post, matcherMatchX_ref E hf8 hbk root rm m hm]

/-- **Soundness with the exception channel** on that fragment: whatever `Pattern.match` returns as a match is an
instance (all conclusions of `match_sound`). -/
theorem match_sound_exc_partial (E : Env) (root : NodeId) (rm : Bool) (r : Result)
    (hf3 : E.fixF3 = true) (hf8 : E.fixF8 = true) (hbk : E.p.backOk = true) (htopo : E.p.topoDeep)
    (har : E.fixF1 = true ∨ OutputArityOk E.p E.g) (h : patternMatchX E root rm = .ok (some r)) :
    Instance E root r.assign ∧ ChecksPass E.p r.assign ∧
      (rm = true → Removable E.g r.nodes r.outputs) ∧
      E.p.outputs.mapM (r.assign.outputOf E.p) = some r.outputs ∧
      r.nodes = r.nb.map (·.2) ∧
      (∀ nm, some nm ∈ E.p.inputs → ∃ b, r.assign.names nm = some b) := by
  rw [matchX_no_exception_partial E root rm hf8 hbk] at h
  exact match_sound E root rm r hf3 htopo har (Except.ok.inj h)

/-- **Completeness for leftmost instances, exceptions included**: under the hypotheses of
`match_complete_leftmost_partial` `Pattern.match` does not raise and reports the match (and with
`remove_nodes=True` it does not raise and reports one iff the matched nodes are removable). -/
theorem match_complete_leftmost_exc_partial (E : Env) (A : Assign) (root : NodeId) (np0 : NPId)
    (hf3 : E.fixF3 = true) (hf8 : E.fixF8 = true) (hbk : E.p.backOk = true) (hnu : E.p.nuOk) (htopo : E.p.topoDeep)
    (har : E.fixF1 = true ∨ OutputArityOk E.p E.g) (hsingle : E.p.outputNodes = [np0])
    (hroot : OutputsOfRoot E.p np0) (hinst : InstanceL E root A) (hchk : ChecksPass E.p A) :
    ∃ r, patternMatchX E root false = .ok (some r) ∧
      ∃ o, patternMatchX E root true = .ok o ∧ (o.isSome = true ↔ Removable E.g r.nodes r.outputs) := by
  obtain ⟨r, h1, h2⟩ := match_complete_leftmost_partial E A root np0 hf3 hbk hnu htopo har hsingle hroot hinst hchk
  exact ⟨r, by rw [matchX_no_exception_partial E root false hf8 hbk, h1],
    _, matchX_no_exception_partial E root true hf8 hbk, h2⟩

/-- `RewriteRule.commute` hands every variant the rule's own `remove_nodes`: the variant rules are the variants of
`GraphPattern.commute()`, in order, each with `remove_nodes` of the rule it was made from.  No hypotheses — and no
depth: this is the *definition* of the model's `Rule.commute` read back (proof by unfolding).  Its content is the
restatement of `replace_pattern` in `OV.Model.C06Rule`, which the tie compares with the code on every commute
case; it is a lemma for `rule_commute_matches_iff_partial`, not a result about the matcher. -/
theorem rule_commute_variants (fix7a fix7b fix7c : Bool) (r : Rule) (rs : List Rule)
    (h : Rule.commute fix7a r fix7b fix7c = .ok rs) :
    ∃ l, commute fix7a r.p fix7b fix7c = .ok l ∧ rs.map (·.p) = l ∧ ∀ v ∈ rs, v.removeNodes = r.removeNodes := by
  unfold Rule.commute at h
  cases hc : commute fix7a r.p fix7b fix7c with
  | error e => rw [hc] at h; cases h
  | ok l =>
    rw [hc] at h
    cases h
    refine ⟨l, rfl, by simp [List.map_map, Function.comp_def], ?_⟩
    intro v hv
    obtain ⟨q, _, rfl⟩ := List.mem_map.1 hv
    rfl

/-- **`commute=True` end to end for a rule that keeps its nodes** (`remove_nodes=False`): through the entry
`RewriteRule.commute` and the match call of `try_rewrite` — exceptions included — some variant rule reports a match
iff the subgraph is an instance of the pattern under some swap of the operands of its commutative nodes.  In
particular the removability side condition plays no role for any variant.  Composition of `rule_commute_variants`,
`commute_is_swap_variants_partial`, `commute_matches_iff_swap_instance_partial` and `matchX_no_exception_partial`;
hypotheses as there, i.e. a narrow fragment: `namedLeaves` patterns every swap variant of which satisfies the whole
bundle `IffHyps` (`fixF3`, `backOk`, `exclOk`, `topoDeep`, `fixF1` or `OutputArityOk`, one output node with
`OutputsOfRoot`), plus `fixF8`. -/
theorem rule_commute_matches_iff_partial (E : Env) (root : NodeId) (np0 : NPId)
    (fix7a fix7b fix7c : Bool) (rs : List Rule) (hf8 : E.fixF8 = true) (hn : E.p.namedLeaves = true)
    (h : Rule.commute fix7a { p := E.p, removeNodes := false } fix7b fix7c = .ok rs)
    (hH : ∀ m ∈ masks fix7b E.p.nodes, IffHyps E (variantOf E.p m) np0) :
    (∃ v ∈ rs, ∃ r, Rule.tryMatch E v root = .ok (some r)) ↔
      ∃ m ∈ masks fix7b E.p.nodes, ∃ A, Instance { E with p := variantOf E.p m } root A ∧
        ChecksPass (variantOf E.p m) A := by
  obtain ⟨l, hl, hmap, hrm⟩ := rule_commute_variants fix7a fix7b fix7c _ rs h
  rw [← commute_matches_iff_swap_instance_partial E root np0 fix7a fix7b fix7c l hn hl hH]
  have hvar := commute_is_swap_variants_partial fix7a fix7b fix7c E.p l hn hl
  constructor
  · rintro ⟨v, hv, r, hr⟩
    refine ⟨v.p, by rw [← hmap]; exact List.mem_map_of_mem hv, ?_⟩
    have hqv : v.p ∈ (masks fix7b E.p.nodes).map (variantOf E.p) := by
      rw [← hvar, ← hmap]; exact List.mem_map_of_mem hv
    obtain ⟨m, hm, hmv⟩ := List.mem_map.1 hqv
    have hbk : v.p.backOk = true := by rw [← hmv]; exact (hH m hm).bk
    unfold Rule.tryMatch at hr
    rw [hrm v hv, matchX_no_exception_partial { E with p := v.p } root false hf8 hbk] at hr
    rw [Except.ok.inj hr]
    rfl
  · rintro ⟨q, hq, hs⟩
    rw [← hmap] at hq
    obtain ⟨v, hv, rfl⟩ := List.mem_map.1 hq
    have hqv : v.p ∈ (masks fix7b E.p.nodes).map (variantOf E.p) := by
      rw [← hvar, ← hmap]; exact List.mem_map_of_mem hv
    obtain ⟨m, hm, hmv⟩ := List.mem_map.1 hqv
    have hbk : v.p.backOk = true := by rw [← hmv]; exact (hH m hm).bk
    refine ⟨v, hv, ?_⟩
    unfold Rule.tryMatch
    rw [hrm v hv, matchX_no_exception_partial { E with p := v.p } root false hf8 hbk]
    cases hpm : patternMatch { E with p := v.p } root false with
    | none => rw [hpm] at hs; cases hs
    | some r => exact ⟨r, rfl⟩

def f9Alts : List DAlt := [{ domain := "", op := "Neg", tag := 0, np := 0, idx := 0 },
                           { domain := "", op := "Sub", tag := 1, np := 1, idx := 0 }]

/-- finding C06-F9 (a): `Add(OrValue([Neg(x), Sub(x,x)], tag_var="t"), OrValue([OrValue([Neg(x), Sub(x,x)],
tag_var="t"), y]))` against `n = Neg(a); s = Sub(a, a); r = Add(n, s)` -/
def f9a : Env :=
  { p := { inputs := [some "x", some "y"], cond := true,
           nodes := [mkNode "Neg" [some xVar] 1, mkNode "Sub" [some xVar, some xVar] 1,
                     mkNode "Add" [some (.orD 10 none (some "t") f9Alts),
                       some (.orB 12 none none [] [.orD 11 none (some "t") f9Alts,
                                                   .var 13 (some "y") true false none])] 1],
           outputs := [.out 2 0] }
    g := { nodes := [mkGNode "Neg" [some 0] [1], mkGNode "Sub" [some 0, some 0] [2],
                     mkGNode "Add" [some 1, some 2] [3]],
           outputs := [3], consts := [], foreign := [], extUses := [] }
    close := closeEq }

/-- finding C06-F9 (b): `Add(OrValue([Neg(x), Sub(x,x)], tag_var="x"), OrValue([Neg(x), x], tag_var="t"))` (the
tag variable of the dispatch-OR is also the name of a pattern variable) against `n = Neg(a); r = Add(n, n)` -/
def f9b : Env :=
  { p := { inputs := [some "x"], cond := true,
           nodes := [mkNode "Neg" [some xVar] 1, mkNode "Sub" [some xVar, some xVar] 1,
                     mkNode "Add" [some (.orD 10 none (some "x") f9Alts),
                       some (.orB 12 none (some "t") [0, 1] [.out 0 0, xVar])] 1],
           outputs := [.out 2 0] }
    g := { nodes := [mkGNode "Neg" [some 0] [1], mkGNode "Add" [some 1, some 1] [2]],
           outputs := [2], consts := [], foreign := [], extUses := [] }
    close := closeEq }

/-- **Exception freedom fails without `backOk`** (finding C06-F9, open): both exceptions are reachable — the
model's `ValueError("Current match is not successful.")` on witness (a), `NotImplementedError("Merging failed
matches …")` on witness (b); replayed on the real matcher on every run (`corpus_c06.jsonl`). -/
theorem matchX_raises_refuted :
    ¬ ∀ (E : Env) (root : NodeId) (rm : Bool), E.fixF8 = true → ∃ o, patternMatchX E root rm = .ok o := by
  intro h
  obtain ⟨o, ho⟩ := h f9a 2 true rfl
  have : excOf (patternMatchX f9a 2 true) = some .valueError := by decide
  rw [ho] at this
  cases this

example : excOf (patternMatchX f9a 2 true) = some .valueError ∧
    excOf (patternMatchX f9b 1 false) = some .notImplemented ∧
    f9a.p.backOk = false ∧ f9b.p.backOk = false ∧ f9a.fixF8 = true := by decide

/-- `Add(OrValue([Neg(x), Abs(x)]), y)` (an OpIdDispatchOr) against `n = Neg(a); s = Add(n, b)` -/
def dispEnv : Env :=
  { p := { inputs := [some "x", some "y"], cond := true,
           nodes := [mkNode "Neg" [some xVar] 1, mkNode "Abs" [some xVar] 1,
                     mkNode "Add" [some (.orD 3 none none
                        [{ domain := "", op := "Neg", tag := 0, np := 0, idx := 0 },
                         { domain := "", op := "Abs", tag := 1, np := 1, idx := 0 }]),
                       some (.var 2 (some "y") true false none)] 1],
           outputs := [.out 2 0] }
    g := { nodes := [mkGNode "Neg" [some 0] [1], mkGNode "Add" [some 1, some 2] [3]],
           outputs := [3], consts := [], foreign := [], extUses := [] }
    close := closeEq }

/-- `Add(OrValue([Neg(x), Abs(x)], tag_var="t"), OrValue([Neg(x), Abs(x)], tag_var=t2))` — two tagged
OpIdDispatchOr values — against `n = Neg(a); m = Abs(a); s = Add(n, m)` -/
def tagEnv (t2 : String) : Env :=
  let alts : List DAlt := [{ domain := "", op := "Neg", tag := 0, np := 0, idx := 0 },
                           { domain := "", op := "Abs", tag := 1, np := 1, idx := 0 }]
  { p := { inputs := [some "x"], cond := true,
           nodes := [mkNode "Neg" [some xVar] 1, mkNode "Abs" [some xVar] 1,
                     mkNode "Add" [some (.orD 3 none (some "t") alts), some (.orD 4 none (some t2) alts)] 1],
           outputs := [.out 2 0] }
    g := { nodes := [mkGNode "Neg" [some 0] [1], mkGNode "Abs" [some 0] [2], mkGNode "Add" [some 1, some 2] [3]],
           outputs := [3], consts := [], foreign := [], extUses := [] }
    close := closeEq }

/-- `match_sound` covers what `backOk` excluded: tagged dispatch ORs.  With two tag variables the pattern is
matched and both tags are bound; with one shared tag variable the second `bind` clashes, its result is
ignored by `_match_value`, the partial match is failed and no match is reported. -/
example : (tagEnv "u").p.backOk = false ∧ (tagEnv "u").fixF3 = true ∧ (tagEnv "u").fixF1 = true ∧
    (tagEnv "u").p.topoDeep ∧
    (patternMatch (tagEnv "u") 2 true).map (fun r => r.bindings) =
      some [("x", .val 0), ("t", .tag 0), ("u", .tag 1)] ∧
    patternMatch (tagEnv "t") 2 true = none ∧ (matcherMatch (tagEnv "t") 2 true).ok = false := by
  refine ⟨by decide, rfl, rfl, ?_, by decide, by decide, by decide⟩
  intro np P hP vp hin q hq
  match np with
  | 0 => simp [tagEnv, mkNode] at hP; subst hP; simp [xVar] at hin; subst hin; simp [VPat.refs] at hq
  | 1 => simp [tagEnv, mkNode] at hP; subst hP; simp [xVar] at hin; subst hin; simp [VPat.refs] at hq
  | 2 =>
    simp [tagEnv, mkNode] at hP; subst hP
    simp at hin
    rcases hin with rfl | rfl
    · simp [VPat.refs] at hq
      rcases hq with rfl | rfl <;> decide
    · simp [VPat.refs] at hq
      rcases hq with rfl | rfl <;> decide
  | n + 3 => simp [tagEnv] at hP

/-- `match_sound_partial` applies to a pattern with a dispatch OR, and that pattern matches -/
example : dispEnv.p.dispOk = true ∧ dispEnv.p.noOr = false ∧ dispEnv.p.topoDeep ∧
    (patternMatch dispEnv 1 true).isSome = true := by
  refine ⟨by decide, by decide, ?_, by decide⟩
  intro np P hP vp hin q hq
  match np with
  | 0 => simp [dispEnv, mkNode] at hP; subst hP; simp [xVar] at hin; subst hin; simp [VPat.refs] at hq
  | 1 => simp [dispEnv, mkNode] at hP; subst hP; simp [xVar] at hin; subst hin; simp [VPat.refs] at hq
  | 2 =>
    simp [dispEnv, mkNode] at hP; subst hP
    simp at hin
    rcases hin with rfl | rfl
    · simp [VPat.refs] at hq
      rcases hq with rfl | rfl <;> decide
    · simp [VPat.refs] at hq
  | n + 3 => simp [dispEnv] at hP

example : okEnv.p.noOr = true ∧ okEnv.p.topo ∧ OutputArityOk okEnv.p okEnv.g ∧
    (patternMatch okEnv 1 true).isSome = true := by
  refine ⟨by decide, ?_, ?_, by decide⟩
  · intro np P hP q idx hin
    match np with
    | 0 => simp [okEnv, mkNode] at hP; subst hP; simp [xVar] at hin
    | 1 =>
      simp [okEnv, mkNode] at hP; subst hP
      simp [xVar] at hin
      simp [hin]
    | n + 2 => simp [okEnv] at hP
  · intro P hP N hN _ _
    simp [okEnv, mkNode] at hP
    simp [okEnv, mkGNode] at hN
    rcases hP with rfl | rfl <;> rcases hN with rfl | rfl <;> simp

def okAssign : Assign :=
  { names := fun k => if k = "x" then some (.val 0) else none
    node := fun np => if np = 0 then some 0 else if np = 1 then some 1 else none
    leaf := fun k => if k = .outp 0 0 then some (some 1) else if k = .outp 1 0 then some (some 2) else none }

/-- the hypotheses of `match_complete_partial` are satisfiable: `Sub(Neg(x), x)` on its instance -/
example : okEnv.p.noOr = true ∧ okEnv.p.outputNodes = [1] ∧ OutputsOfRoot okEnv.p 1 ∧
    Instance okEnv 1 okAssign ∧ ChecksPass okEnv.p okAssign := by
  have hx : SatV okEnv okAssign xVar (some 0) :=
    .var 1 (some "x") true false none (some 0)
      (by simp [Assign.boundTo, GPat.vname, okAssign, Bound.ofVal]) (by intro h; cases h)
      (by intro x _ h; simp [okEnv, Graph.isForeign] at h)
  have hn0 : SatN okEnv okAssign 0 0 := by
    refine .mk 0 0 (mkNode "Neg" [some xVar] 1) (mkGNode "Neg" [some 0] [1]) rfl rfl rfl
      (by decide) (by decide) ?_ (.inl (by decide)) ?_ ?_ ?_
    · exact ⟨fun name ap h => by simp [mkNode] at h, fun h => by simp [mkNode] at h⟩
    · intro i h
      match i with
      | 0 => simp [mkNode] at h
      | n + 1 => simp [mkNode] at h
    · intro i vp h
      match i with
      | 0 => simp [mkNode] at h; subst h; exact hx
      | n + 1 => simp [mkNode] at h
    · intro i hi
      have : i = 0 := by simp [mkNode] at hi; omega
      subst this
      exact ⟨1, rfl, by simp [Assign.boundTo, GPat.vname, GPat.outName, VPat.key, okAssign, okEnv, mkNode]⟩
  have ho : SatV okEnv okAssign (.out 0 0) (some 1) :=
    .out 0 0 1 0 (by simp [Assign.boundTo, GPat.vname, GPat.outName, VPat.key, okAssign, okEnv, mkNode])
      (by simp [okEnv, Graph.isForeign]) (by decide) (by decide) hn0
  have hn1 : SatN okEnv okAssign 1 1 := by
    refine .mk 1 1 (mkNode "Sub" [some (.out 0 0), some xVar] 1) (mkGNode "Sub" [some 1, some 0] [2])
      rfl rfl rfl (by decide) (by decide) ?_ (.inl (by decide)) ?_ ?_ ?_
    · exact ⟨fun name ap h => by simp [mkNode] at h, fun h => by simp [mkNode] at h⟩
    · intro i h
      match i with
      | 0 => simp [mkNode] at h
      | 1 => simp [mkNode] at h
      | n + 2 => simp [mkNode] at h
    · intro i vp h
      match i with
      | 0 => simp [mkNode] at h; subst h; exact ho
      | 1 => simp [mkNode] at h; subst h; exact hx
      | n + 2 => simp [mkNode] at h
    · intro i hi
      have : i = 0 := by simp [mkNode] at hi; omega
      subst this
      exact ⟨2, rfl, by simp [Assign.boundTo, GPat.vname, GPat.outName, VPat.key, okAssign, okEnv, mkNode]⟩
  refine ⟨by decide, by decide, ?_, ⟨?_, ?_, rfl⟩, ⟨?_, ?_⟩⟩
  · intro vp hvp
    simp [okEnv] at hvp
    subst hvp
    exact ⟨0, _, rfl, rfl, by simp [mkNode]⟩
  · intro np h
    have : np = 1 := by simpa [okEnv, GPat.outputNodes, GPat.outputNodesCov] using h.symm
    subst this; rfl
  · intro np h
    have : np = 1 := by simpa [okEnv, GPat.outputNodes, GPat.outputNodesCov] using h
    subst this
    exact ⟨1, rfl, hn1⟩
  · intro np n P hnode hP
    match np with
    | 0 => simp [okEnv, mkNode] at hP; subst hP; simp
    | 1 => simp [okEnv, mkNode] at hP; subst hP; simp
    | k + 2 => simp [okEnv] at hP
  · intro id v _
    simp [okEnv, GPat.valueChecks, mkNode, vpChecks, vpChecksL, xVar]

/-- two output nodes: `(Neg(x), Abs(x))` against `n = Neg(a); m = Abs(a)` -/
def multiEnv : Env :=
  { p := { inputs := [some "x"], cond := true,
           nodes := [mkNode "Neg" [some xVar] 1, mkNode "Abs" [some xVar] 1],
           outputs := [.out 0 0, .out 1 0] }
    g := { nodes := [mkGNode "Neg" [some 0] [1], mkGNode "Abs" [some 0] [2]],
           outputs := [1, 2], consts := [], foreign := [], extUses := [] }
    close := closeEq }

def multiAssign : Assign :=
  { names := fun k => if k = "x" then some (.val 0) else none
    node := fun np => if np = 0 then some 0 else if np = 1 then some 1 else none
    leaf := fun k => if k = .outp 0 0 then some (some 1) else if k = .outp 1 0 then some (some 2) else none }

/-- the hypotheses of `match_complete_multi_partial` are satisfiable by a pattern with two output nodes -/
example : multiEnv.p.outputNodes = [0, 1] ∧ multiEnv.p.noOr = true ∧ multiEnv.p.checksOk = true ∧
    OutputsOfOutputNodes multiEnv.p ∧ LaterOutputsIdentified multiEnv.p ∧ NoOverloads multiEnv.g ∧
    Instance multiEnv 0 multiAssign ∧ (patternMatch multiEnv 0 false).isSome = true := by
  have hx : SatV multiEnv multiAssign xVar (some 0) :=
    .var 1 (some "x") true false none (some 0)
      (by simp [Assign.boundTo, GPat.vname, multiAssign, Bound.ofVal]) (by intro h; cases h)
      (by intro x _ h; simp [multiEnv, Graph.isForeign] at h)
  have mk : ∀ (np n : Nat) (op : String) (o : ValueId),
      multiEnv.p.nodes[np]? = some (mkNode op [some xVar] 1) →
      multiEnv.g.nodes[n]? = some (mkGNode op [some 0] [o]) →
      multiAssign.node np = some n →
      multiAssign.boundTo multiEnv.p (.out np 0) (some o) → SatN multiEnv multiAssign np n := by
    intro np n op o hP hN hnode hb
    refine .mk np n _ _ hP hN hnode (by simp [mkNode, mkGNode, StrPat.matches])
      (by simp [mkNode, mkGNode, StrPat.matches]) ?_ (.inl (by simp [mkNode, mkGNode])) ?_ ?_ ?_
    · exact ⟨fun name ap h => by simp [mkNode] at h, fun h => by simp [mkNode] at h⟩
    · intro i h
      match i with
      | 0 => simp [mkNode] at h
      | k + 1 => simp [mkNode] at h
    · intro i vp h
      match i with
      | 0 => simp [mkNode] at h; subst h; simpa [inputAt, mkGNode] using hx
      | k + 1 => simp [mkNode] at h
    · intro i hi
      have : i = 0 := by simp [mkNode] at hi; omega
      subst this
      exact ⟨o, by simp [mkGNode], hb⟩
  have h0 : SatN multiEnv multiAssign 0 0 := mk 0 0 "Neg" 1 rfl rfl rfl
    (by simp [Assign.boundTo, GPat.vname, GPat.outName, VPat.key, multiAssign, multiEnv, mkNode])
  have h1 : SatN multiEnv multiAssign 1 1 := mk 1 1 "Abs" 2 rfl rfl rfl
    (by simp [Assign.boundTo, GPat.vname, GPat.outName, VPat.key, multiAssign, multiEnv, mkNode])
  refine ⟨by decide, by decide, by decide, ?_, ?_, ?_, ⟨?_, ?_, rfl⟩, by decide⟩
  · intro vp hvp
    simp [multiEnv] at hvp
    rcases hvp with rfl | rfl
    · exact ⟨0, 0, _, rfl, by decide, rfl, by simp [mkNode]⟩
    · exact ⟨1, 0, _, rfl, by decide, rfl, by simp [mkNode]⟩
  · intro np hnp
    have : np = 1 := by
      have h : multiEnv.p.outputNodes = [0, 1] := by decide
      simpa [h] using hnp
    subst this
    exact ⟨_, "", "Abs", rfl, by decide⟩
  · intro N hN
    simp [multiEnv, mkGNode] at hN
    rcases hN with rfl | rfl <;> rfl
  · intro np h
    have h' : multiEnv.p.outputNodes = [0, 1] := by decide
    have : np = 0 := by simpa [h'] using h.symm
    subst this; rfl
  · intro np h
    have h' : multiEnv.p.outputNodes = [0, 1] := by decide
    rw [h'] at h
    simp at h
    rcases h with rfl | rfl
    · exact ⟨0, rfl, h0⟩
    · exact ⟨1, rfl, h1⟩

example : NamedVarsUnchecked okEnv.p ∧ NamedVarsUnchecked multiEnv.p := by
  constructor <;>
  · intro P hP vp hin _
    simp [okEnv, multiEnv, mkNode] at hP
    rcases hP with rfl | rfl <;> simp [xVar] at hin <;> (try rcases hin with rfl | rfl) <;> (try subst hin) <;> rfl

/-- `Add(OrValue([Neg(x), Constant(5)]), z)`: a BacktrackingOr whose alternatives are exclusive in a graph
without constants, against `n = Neg(a); s = Add(n, b)` -/
def exEnv : Env :=
  { p := { inputs := [some "x", some "z"], cond := true,
           nodes := [mkNode "Neg" [some xVar] 1,
                     mkNode "Add" [some (.orB 4 none none [0, 1]
                        [.out 0 0, .const 5 { val := .scalar 5, relTol := ⟨1, 100000⟩, absTol := ⟨1, 100000000⟩ }]),
                       some (.var 3 (some "z") true false none)] 1],
           outputs := [.out 1 0] }
    g := { nodes := [mkGNode "Neg" [some 0] [1], mkGNode "Add" [some 1, some 2] [3]],
           outputs := [3], consts := [], foreign := [], extUses := [] }
    close := closeEq }

def exAssign : Assign :=
  { names := fun k => if k = "x" then some (.val 0) else if k = "z" then some (.val 2) else none
    node := fun np => if np = 0 then some 0 else if np = 1 then some 1 else none
    leaf := fun k => if k = .leaf 4 then some (some 1) else if k = .outp 0 0 then some (some 1)
                     else if k = .outp 1 0 then some (some 3) else none }

/-- the hypotheses of `match_complete_or_partial` are satisfiable by a pattern with a BacktrackingOr -/
example : exEnv.fixF3 = true ∧ exEnv.p.backOk = true ∧ exEnv.p.dispOk = false ∧ GPat.exclOk exEnv ∧
    exEnv.p.outputNodes = [1] ∧ OutputsOfRoot exEnv.p 1 ∧ Instance exEnv 1 exAssign ∧
    ChecksPass exEnv.p exAssign ∧ (patternMatch exEnv 1 true).isSome = true := by
  have hx : SatV exEnv exAssign xVar (some 0) :=
    .var 1 (some "x") true false none (some 0)
      (by simp [Assign.boundTo, GPat.vname, exAssign, Bound.ofVal]) (by intro h; cases h)
      (by intro x _ h; simp [exEnv, Graph.isForeign] at h)
  have hz : SatV exEnv exAssign (.var 3 (some "z") true false none) (some 2) :=
    .var 3 (some "z") true false none (some 2)
      (by simp [Assign.boundTo, GPat.vname, exAssign, Bound.ofVal]) (by intro h; cases h)
      (by intro x _ h; simp [exEnv, Graph.isForeign] at h)
  have hn0 : SatN exEnv exAssign 0 0 := by
    refine .mk 0 0 (mkNode "Neg" [some xVar] 1) (mkGNode "Neg" [some 0] [1]) rfl rfl rfl
      (by decide) (by decide) ?_ (.inl (by decide)) ?_ ?_ ?_
    · exact ⟨fun name ap h => by simp [mkNode] at h, fun h => by simp [mkNode] at h⟩
    · intro i h
      match i with
      | 0 => simp [mkNode] at h
      | n + 1 => simp [mkNode] at h
    · intro i vp h
      match i with
      | 0 => simp [mkNode] at h; subst h; exact hx
      | n + 1 => simp [mkNode] at h
    · intro i hi
      have : i = 0 := by simp [mkNode] at hi; omega
      subst this
      exact ⟨1, rfl, by simp [Assign.boundTo, GPat.vname, GPat.outName, VPat.key, exAssign, exEnv, mkNode]⟩
  have ho : SatV exEnv exAssign (.out 0 0) (some 1) :=
    .out 0 0 1 0 (by simp [Assign.boundTo, GPat.vname, GPat.outName, VPat.key, exAssign, exEnv, mkNode])
      (by simp [exEnv, Graph.isForeign]) (by decide) (by decide) hn0
  have hor : SatV exEnv exAssign (.orB 4 none none [0, 1]
      [.out 0 0, .const 5 { val := .scalar 5, relTol := ⟨1, 100000⟩, absTol := ⟨1, 100000000⟩ }]) (some 1) :=
    .orB 4 none none [0, 1] _ (some 1) 0 (.out 0 0)
      (by simp [Assign.boundTo, GPat.vname, VPat.key, exAssign])
      (by intro x _; simp [exEnv, Graph.isForeign]) rfl ho (by intro t h; cases h)
  have hn1 : SatN exEnv exAssign 1 1 := by
    refine .mk 1 1 _ (mkGNode "Add" [some 1, some 2] [3]) rfl rfl rfl (by decide) (by decide) ?_
      (.inl (by decide)) ?_ ?_ ?_
    · exact ⟨fun name ap h => by simp [mkNode] at h, fun h => by simp [mkNode] at h⟩
    · intro i h
      match i with
      | 0 => simp [mkNode] at h
      | 1 => simp [mkNode] at h
      | n + 2 => simp [mkNode] at h
    · intro i vp h
      match i with
      | 0 => simp [mkNode] at h; subst h; exact hor
      | 1 => simp [mkNode] at h; subst h; exact hz
      | n + 2 => simp [mkNode] at h
    · intro i hi
      have : i = 0 := by simp [mkNode] at hi; omega
      subst this
      exact ⟨3, rfl, by simp [Assign.boundTo, GPat.vname, GPat.outName, VPat.key, exAssign, exEnv, mkNode]⟩
  refine ⟨rfl, by decide, by decide, ?_, by decide, ?_, ⟨?_, ?_, rfl⟩, ⟨?_, ?_⟩, by decide⟩
  · intro P hP vp hin
    simp [exEnv, mkNode] at hP
    rcases hP with rfl | rfl
    · simp [xVar] at hin; subst hin; exact ⟨trivial, rfl⟩
    · simp at hin
      rcases hin with rfl | rfl
      · refine ⟨⟨?_, trivial, trivial, trivial⟩, rfl⟩
        intro v i j ai aj hij hi hj hsat
        have hj1 : j = 1 := by
          match j, hj with
          | 0, _ => omega
          | 1, _ => rfl
          | k + 2, hj => simp at hj
        subst hj1
        simp at hj
        subst hj
        obtain ⟨A', hs'⟩ := hsat
        cases hs' with
        | const _ _ x cv _ hc _ => simp [exEnv, Graph.constOf] at hc
      · exact ⟨trivial, rfl⟩
  · intro vp hvp
    simp [exEnv] at hvp
    subst hvp
    exact ⟨0, _, rfl, rfl, by simp [mkNode]⟩
  · intro np h
    have : np = 1 := by simpa [exEnv, GPat.outputNodes, GPat.outputNodesCov] using h.symm
    subst this; rfl
  · intro np h
    have : np = 1 := by simpa [exEnv, GPat.outputNodes, GPat.outputNodesCov] using h
    subst this
    exact ⟨1, rfl, hn1⟩
  · intro np n P hnode hP
    match np with
    | 0 => simp [exEnv, mkNode] at hP; subst hP; simp
    | 1 => simp [exEnv, mkNode] at hP; subst hP; simp
    | k + 2 => simp [exEnv] at hP
  · intro id v _
    simp [exEnv, GPat.valueChecks, mkNode, vpChecks, vpChecksL, xVar]

/-- `exEnv` also satisfies the remaining hypotheses of `match_complete_or_partial` / `match_iff_instance_partial` -/
example : exEnv.p.topoDeep ∧ exEnv.fixF1 = true := by
  refine ⟨?_, rfl⟩
  intro np P hP vp hin q hq
  match np with
  | 0 =>
    simp [exEnv, mkNode] at hP; subst hP
    simp [xVar] at hin; subst hin
    simp [VPat.refs] at hq
  | 1 =>
    simp [exEnv, mkNode] at hP; subst hP
    simp at hin
    rcases hin with rfl | rfl
    · simp [VPat.refs, refsL] at hq; simp [hq]
    · simp [VPat.refs] at hq
  | n + 2 => simp [exEnv] at hP

/-- the D11 pattern `Add(OrValue([Neg(x), x]), x)` against `n = Neg(a); y = Add(n, a)`: the instance takes
the first alternative -/
def lmEnv : Env := { d11 with g := { nodes := [mkGNode "Neg" [some 0] [1], mkGNode "Add" [some 1, some 0] [2]],
                                     outputs := [2], consts := [], foreign := [], extUses := [] } }

def lmAssign : Assign :=
  { names := fun k => if k = "x" then some (.val 0) else none
    node := fun np => if np = 0 then some 0 else if np = 1 then some 1 else none
    leaf := fun k => if k = .leaf 2 then some (some 1) else if k = .outp 0 0 then some (some 1)
                     else if k = .outp 1 0 then some (some 2) else none }

/-- `match_complete_leftmost_partial` is not vacuous and says more than `match_complete_or_partial`: the
alternatives of the D11 pattern are *not* exclusive (`Neg`'s output satisfies both), `lmAssign` is a
leftmost instance, and the match is reported -/
example : InstanceL lmEnv 1 lmAssign ∧ ChecksPass lmEnv.p lmAssign ∧ ¬ GPat.exclOk lmEnv ∧
    lmEnv.p.backOk = true ∧ lmEnv.p.nuOk ∧ lmEnv.p.outputNodes = [1] ∧ OutputsOfRoot lmEnv.p 1 ∧
    (patternMatch lmEnv 1 true).isSome = true := by
  have hx : SatVL lmEnv lmAssign xVar (some 0) :=
    .var 1 (some "x") true false none (some 0)
      (by simp [Assign.boundTo, GPat.vname, lmAssign, Bound.ofVal]) (by intro h; cases h)
      (by intro x _ h; simp [lmEnv, Graph.isForeign] at h)
  have hn0 : SatNL lmEnv lmAssign 0 0 := by
    refine .mk 0 0 (mkNode "Neg" [some xVar] 1) (mkGNode "Neg" [some 0] [1]) rfl rfl rfl
      (by decide) (by decide) ?_ (.inl (by decide)) ?_ ?_ ?_
    · exact ⟨fun name ap h => by simp [mkNode] at h, fun h => by simp [mkNode] at h⟩
    · intro i h
      match i with
      | 0 => simp [mkNode] at h
      | n + 1 => simp [mkNode] at h
    · intro i vp h
      match i with
      | 0 => simp [mkNode] at h; subst h; exact hx
      | n + 1 => simp [mkNode] at h
    · intro i hi
      have : i = 0 := by simp [mkNode] at hi; omega
      subst this
      exact ⟨1, rfl, by simp [Assign.boundTo, GPat.vname, GPat.outName, VPat.key, lmAssign, lmEnv, d11, mkNode]⟩
  have ho : SatVL lmEnv lmAssign (.out 0 0) (some 1) :=
    .out 0 0 1 0 (by simp [Assign.boundTo, GPat.vname, GPat.outName, VPat.key, lmAssign, lmEnv, d11, mkNode])
      (by simp [lmEnv, Graph.isForeign]) (by decide) (by decide) hn0
  have hor : SatVL lmEnv lmAssign (.orB 2 none none [0, 1] [.out 0 0, xVar]) (some 1) :=
    .orB 2 none none [0, 1] _ (some 1) 0 (.out 0 0)
      (by simp [Assign.boundTo, GPat.vname, VPat.key, lmAssign])
      (by intro x _; simp [lmEnv, Graph.isForeign]) rfl ho (by intro t h; cases h)
      (fun j hj => absurd hj (Nat.not_lt_zero _))
  have hn1 : SatNL lmEnv lmAssign 1 1 := by
    refine .mk 1 1 (mkNode "Add" [some (.orB 2 none none [0, 1] [.out 0 0, xVar]), some xVar] 1)
      (mkGNode "Add" [some 1, some 0] [2]) rfl rfl rfl (by decide) (by decide) ?_ (.inl (by decide)) ?_ ?_ ?_
    · exact ⟨fun name ap h => by simp [mkNode] at h, fun h => by simp [mkNode] at h⟩
    · intro i h
      match i with
      | 0 => simp [mkNode] at h
      | 1 => simp [mkNode] at h
      | n + 2 => simp [mkNode] at h
    · intro i vp h
      match i with
      | 0 => simp [mkNode] at h; subst h; exact hor
      | 1 => simp [mkNode] at h; subst h; exact hx
      | n + 2 => simp [mkNode] at h
    · intro i hi
      have : i = 0 := by simp [mkNode] at hi; omega
      subst this
      exact ⟨2, rfl, by simp [Assign.boundTo, GPat.vname, GPat.outName, VPat.key, lmAssign, lmEnv, d11, mkNode]⟩
  refine ⟨⟨⟨?_, ?_, rfl⟩, ?_⟩, ⟨?_, ?_⟩, ?_, by decide, ?_, by decide, ?_, by decide⟩
  · intro np h
    have : np = 1 := by simpa [lmEnv, d11, GPat.outputNodes, GPat.outputNodesCov] using h.symm
    subst this; rfl
  · intro np h
    have : np = 1 := by simpa [lmEnv, d11, GPat.outputNodes, GPat.outputNodesCov] using h
    subst this
    exact ⟨1, rfl, hn1.toSatN⟩
  · intro np h n hn
    have : np = 1 := by simpa [lmEnv, d11, GPat.outputNodes, GPat.outputNodesCov] using h
    subst this
    have : n = 1 := by simpa [lmAssign] using hn.symm
    subst this
    exact hn1
  · intro np n P hnode hP
    match np with
    | 0 => simp [lmEnv, d11, mkNode] at hP; subst hP; simp
    | 1 => simp [lmEnv, d11, mkNode] at hP; subst hP; simp
    | k + 2 => simp [lmEnv, d11] at hP
  · intro id v _
    simp [lmEnv, d11, GPat.valueChecks, mkNode, vpChecks, vpChecksL, xVar]
  · intro hex
    have h1 := (hex (mkNode "Add" [some (.orB 2 none none [0, 1] [.out 0 0, xVar]), some xVar] 1)
      (by simp [lmEnv, d11]) (.orB 2 none none [0, 1] [.out 0 0, xVar]) (by simp [mkNode])).1
    simp only [VPat.excl] at h1
    have hx1 : SatV lmEnv { lmAssign with names := fun k => if k = "x" then some (.val 1) else none } xVar (some 1) :=
      .var 1 (some "x") true false none (some 1)
        (by simp [Assign.boundTo, GPat.vname, Bound.ofVal]) (by intro h; cases h)
        (by intro x _ h; simp [lmEnv, Graph.isForeign] at h)
    exact h1.1 (some 1) 0 1 (.out 0 0) xVar (by decide) rfl rfl ⟨_, hx1⟩ lmAssign ho.toSatV
  · intro P hP vp hin
    simp [lmEnv, d11, mkNode] at hP
    rcases hP with rfl | rfl
    · simp [xVar] at hin; subst hin; rfl
    · simp at hin
      rcases hin with rfl | rfl <;> rfl
  · intro vp hvp
    simp [lmEnv, d11] at hvp
    subst hvp
    exact ⟨0, _, rfl, rfl, by simp [mkNode]⟩

/-- what finding C06-D11 is, exactly, on its witness: `d11Assign` is an instance (`d11_is_instance`) but the
subgraph has *no leftmost* instance — every instance needs the second alternative at a value the first one
also describes — and that is the only way `match_complete_leftmost_partial` lets a match be missed -/
example : ¬ ∃ A, InstanceL d11 1 A ∧ ChecksPass d11.p A := by
  rintro ⟨A, hi, hc⟩
  have hnu : d11.p.nuOk := by
    intro P hP vp hin
    simp [d11, mkNode] at hP
    rcases hP with rfl | rfl
    · simp [xVar] at hin; subst hin; rfl
    · simp at hin
      rcases hin with rfl | rfl <;> rfl
  have htopo : d11.p.topoDeep := by
    intro np P hP vp hin q hq
    match np with
    | 0 =>
      simp [d11, mkNode] at hP; subst hP
      simp [xVar] at hin; subst hin
      simp [VPat.refs] at hq
    | 1 =>
      simp [d11, mkNode] at hP; subst hP
      simp [xVar] at hin
      rcases hin with rfl | rfl
      · simp [VPat.refs, refsL] at hq; simp [hq]
      · simp [VPat.refs] at hq
    | n + 2 => simp [d11] at hP
  have hroot : OutputsOfRoot d11.p 1 := by
    intro vp hvp
    simp [d11] at hvp
    subst hvp
    exact ⟨0, _, rfl, rfl, by simp [mkNode]⟩
  obtain ⟨r, hr, _⟩ := match_complete_leftmost_partial d11 A 1 1 rfl (by decide) hnu htopo (.inl rfl)
    (by decide) hroot hi hc
  have hnone : patternMatch d11 1 false = none := by decide
  rw [hnone] at hr
  cases hr

def f2Pat : GPat :=
  { inputs := [some "x"], cond := true,
    nodes := [mkNode "Neg" [some (.var 1 (some "x") true false (some false))] 1],
    outputs := [.out 0 0] }

/-- finding C06-F2 (fixed in /repo 9ec39fb): before the repair (`fixF2 := false`) the check of a
*named* `Var` was never evaluated and `Neg(Var("x", check=False))` matched; the repaired revision
(default) runs the check -/
example : (patternMatch { p := f2Pat, g := okEnv.g, close := closeEq, fixF2 := false } 0 true).isSome = true ∧
    (patternMatch { p := f2Pat, g := okEnv.g, close := closeEq } 0 true).isSome = false := by
  decide

def addPat : GPat :=
  { inputs := [some "x"], cond := true,
    nodes := [mkNode "Add" [some xVar, some (.var 2 (some "y") true false none)] 1],
    outputs := [.out 0 0] }

def mulConstPat : GPat :=
  { inputs := [some "x"], cond := true,
    nodes := [mkNode "Mul" [some xVar, some (.const 2
      { val := .scalar 1000, relTol := ⟨1, 100000⟩, absTol := ⟨1, 100000000⟩ })] 1],
    outputs := [.out 0 0] }

/-- `commute` on `Mul(x, Constant(1000))` has a swapped variant that holds the constant
(so `clone_preserves_constant` is not vacuous) -/
example : ((commute true mulConstPat).toOption.map (fun l => l.map (fun q => q.nodes.map NPat.consts))) =
    some [[[{ val := .scalar 1000, relTol := ⟨1, 100000⟩, absTol := ⟨1, 100000000⟩ }]],
          [[{ val := .scalar 1000, relTol := ⟨1, 100000⟩, absTol := ⟨1, 100000000⟩ }]]] := by decide

/-- `Sub(a, b)`-free host for the commute examples: `s = Add(a, b)` -/
def addEnv : Env :=
  { p := addPat
    g := { nodes := [mkGNode "Add" [some 0, some 1] [2]], outputs := [2], consts := [], foreign := [], extUses := [] }
    close := closeEq }

/-- `commute_is_swap_variants_partial` / `commute_matches_iff_swap_instance_partial` are not vacuous: `Add(x, y)`
has named leaves, `commute` succeeds with two variants, and both variants satisfy `IffHyps` -/
example : addPat.namedLeaves = true ∧ (commute true addPat true false).toOption.isSome = true ∧
    masks true addPat.nodes = [[false], [true]] ∧
    (∀ m ∈ masks true addEnv.p.nodes, IffHyps addEnv (variantOf addEnv.p m) 0) := by
  refine ⟨by decide, by decide, by decide, ?_⟩
  intro m hm
  have hm' : m = [false] ∨ m = [true] := by
    have : masks true addEnv.p.nodes = [[false], [true]] := by decide
    rw [this] at hm
    simpa using hm
  have key : ∀ q : GPat, q.nodes.length = 1 →
      (∀ P ∈ q.nodes, ∀ vp, some vp ∈ P.inputs → vp = xVar ∨ vp = .var 2 (some "y") true false none) →
      q.backOk = true → q.outputNodes = [0] → q.outputs = [.out 0 0] →
      (∀ P, q.nodes[0]? = some P → P.outputs.length = 1) → IffHyps addEnv q 0 := by
    intro q hlen hin hbk hon hout hol
    refine ⟨rfl, hbk, ?_, ?_, .inl rfl, hon, ?_⟩
    · intro P hP vp hvp
      rcases hin P hP vp hvp with rfl | rfl <;> exact ⟨trivial, rfl⟩
    · intro np P hP vp hvp r hr
      rcases hin P (List.mem_of_getElem? hP) vp hvp with rfl | rfl <;> simp [VPat.refs, xVar] at hr
    · intro vp hvp
      rw [hout] at hvp
      simp at hvp
      subst hvp
      have hlt : 0 < q.nodes.length := by omega
      refine ⟨0, q.nodes[0], rfl, by simp [List.getElem?_eq_getElem hlt], ?_⟩
      have := hol q.nodes[0] (by simp [List.getElem?_eq_getElem hlt])
      omega
  rcases hm' with rfl | rfl
  · refine key _ (by decide) ?_ (by decide) (by decide) rfl ?_
    · intro P hP vp hvp
      simp [variantOf, addEnv, addPat, mkNode] at hP
      subst hP
      simpa [xVar] using hvp
    · intro P hP
      simp [variantOf, addEnv, addPat, mkNode] at hP
      subst hP; rfl
  · refine key _ (by decide) ?_ (by decide) (by decide) rfl ?_
    · intro P hP vp hvp
      simp [variantOf, swapPat, swapNode, addEnv, addPat, mkNode] at hP
      subst hP
      simp [xVar] at hvp
      rcases hvp with rfl | rfl
      · exact .inr rfl
      · exact .inl rfl
    · intro P hP
      simp [variantOf, swapPat, swapNode, addEnv, addPat, mkNode] at hP
      subst hP; rfl

/-- `rule_commute_variants` / `rule_commute_matches_iff_partial` are not vacuous: the rule `Add(x, y)` with
`remove_nodes=False` commutes into two rules, both keep `remove_nodes=False`, both report a match on `addEnv`
(the remaining hypotheses `namedLeaves`, `IffHyps` are those of the example above) -/
example : addEnv.fixF8 = true ∧
    ((Rule.commute true { p := addEnv.p, removeNodes := false } true false).toOption.map
      (fun rs => rs.map (fun v => (v.removeNodes, ((Rule.tryMatch addEnv v 0).toOption.map (·.isSome)))))) =
      some [(false, some true), (false, some true)] := by decide

/-- `commute_variant_instances_partial` is not vacuous: the swapped copy of `Add(x, y)` exists -/
example : (copyGraph true addPat [true] false).toOption.isSome = true ∧ addPat.namedLeaves = true := by decide

/-- `commute` on `Add(x, y)`: two variants (so `commute_exact` is not vacuous). -/
example : (commute true addPat).toOption.map List.length = some 2 := by decide

/-- outside `backOk` without exception: two tagged dispatch-ORs, nothing raised, match reported (`tagEnv "u"`) or not
(`tagEnv "t"`); non-vacuity of `matchX_no_exception_partial` / `match_sound_exc_partial` / `match_complete_leftmost_exc_partial`:
`orEnv`, `lmEnv` (BacktrackingOr, `backOk`) -/
example : (tagEnv "u").p.backOk = false ∧ excOf (patternMatchX (tagEnv "u") 2 true) = none ∧
    ((patternMatchX (tagEnv "u") 2 true).toOption.map (·.isSome)) = some true ∧
    ((patternMatchX (tagEnv "t") 2 true).toOption.map (·.isSome)) = some false ∧
    orEnv.p.backOk = true ∧ orEnv.fixF8 = true ∧ lmEnv.p.backOk = true ∧
    ((patternMatchX lmEnv 1 true).toOption.map (·.isSome)) = some true := by decide

end OV.Props.C06
