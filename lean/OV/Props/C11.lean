import OV.Model.Index
/-!
# C11 — tensor indexing and slicing mean what they mean in NumPy

Property theorems only.  Model: `OV.Model.Index`.
-/
namespace OV.Props.C11
open OV.Index

/-- **Per-axis heart, converter.**  For every dimension size `d` (no bound other than the
int64 sentinel), every pair of optional constant bounds and every non-zero step, the bounds the
converter hands to ONNX `Slice` normalise to exactly what CPython's slice adjustment gives —
provided a negative-step slice has no explicit start below `-d` (the hypothesis the proof
forces; its necessity is `slice_axis_conv_full_refuted`). -/
theorem slice_axis_conv_eq_py_partial (d : Int) (lo hi : Option Int) (step : Int)
    (hd0 : 0 < d) (hd : d < maxint) (hs : step ≠ 0)
    (hD22 : step < 0 → ∀ x, lo = some x → -d ≤ x) :
    onnxNorm d (convBounds lo hi step).1 (convBounds lo hi step).2 step = pyAdjust d lo hi step := by
  unfold onnxNorm convBounds pyAdjust maxint minint at *
  rcases lo with _ | x <;> rcases hi with _ | y <;> simp only [Option.getD] <;>
    by_cases h1 : step > 0 <;> by_cases h2 : step < 0 <;>
    simp only [h1, h2, if_true, if_false] <;>
    (try omega)
  all_goals (try (have hxx := hD22 h2 _ rfl))
  all_goals (refine Prod.ext ?_ ?_ <;> simp only [Int.min_def, Int.max_def] <;> (repeat' split) <;> omega)

/-- The full statement (without the start hypothesis) is false: `d = 3`, `A[-4::-1]`. -/
theorem slice_axis_conv_full_refuted :
    ¬ (∀ (d : Int) (lo hi : Option Int) (step : Int), 0 < d → d < maxint → step ≠ 0 →
        onnxNorm d (convBounds lo hi step).1 (convBounds lo hi step).2 step = pyAdjust d lo hi step) := by
  intro h
  have := h 3 (some (-4)) none (-1) (by decide) (by decide) (by decide)
  revert this; decide

end OV.Props.C11
