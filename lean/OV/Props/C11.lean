import OV.Model.Index
import OV.Lemmas.Index
import OV.Lemmas.IndexPlan
import OV.Lemmas.IndexGather
import OV.Lemmas.IndexComplete
import OV.Lemmas.IndexZip
/-!
# C11 — tensor indexing and slicing mean what they mean in NumPy

Property theorems only.  Model: `OV.Model.Index` (the code after /repo commit e7769b9); helper
lemmas: `OV.Lemmas.Index`, `OV.Lemmas.IndexPlan` (Slice+Squeeze fusion), `OV.Lemmas.IndexGather`
(the Gather chain).  The two whole-expression statements are `graph_index_correct_partial` and
`eager_index_correct_partial`.
-/
namespace OV.Props.C11
open OV.Index

/-- **Per-axis heart, converter.**  For every dimension size `d` (no bound other than the
int64 sentinel), every pair of optional constant bounds and every non-zero step, the bounds the
converter hands to ONNX `Slice` normalise to exactly what CPython's slice adjustment gives —
provided a negative-step slice has no explicit start below `-d` (the hypothesis the proof
forces; its necessity is `slice_axis_conv_full_refuted`). -/
theorem slice_axis_conv_eq_py_partial (d : Int) (lo hi : Option Int) (step : Int)
    (hd0 : 0 < d) (hd : d < maxint) (hs : step ≠ 0)
    (hD22 : step < 0 → ∀ x, lo = some x → -d ≤ x) :
    onnxNorm d (convBounds lo hi step).1 (convBounds lo hi step).2 step = pyAdjust d lo hi step := by
  unfold onnxNorm convBounds pyAdjust maxint minint at *
  rcases lo with _ | x <;> rcases hi with _ | y <;> simp only [Option.getD] <;>
    by_cases h1 : step > 0 <;> by_cases h2 : step < 0 <;>
    simp only [h1, h2, if_true, if_false] <;>
    (try omega)
  all_goals (try (have hxx := hD22 h2 _ rfl))
  all_goals (refine Prod.ext ?_ ?_ <;> simp only [Int.min_def, Int.max_def] <;> (repeat' split) <;> omega)

/-- The full statement (without the start hypothesis) is false: `d = 3`, `A[-4::-1]`. -/
theorem slice_axis_conv_full_refuted :
    ¬ (∀ (d : Int) (lo hi : Option Int) (step : Int), 0 < d → d < maxint → step ≠ 0 →
        onnxNorm d (convBounds lo hi step).1 (convBounds lo hi step).2 step = pyAdjust d lo hi step) := by
  intro h
  have := h 3 (some (-4)) none (-1) (by decide) (by decide) (by decide)
  revert this; decide

/-- **Per-axis heart, eager mode** (after the repair of the eager half of D22: no hypothesis left).
For every dimension size `d > 0`, every pair of optional bounds and every non-zero step, the
bounds `Tensor.__getitem__` hands to ONNX `Slice` (`slice.indices(d)` rewritten in Slice's
conventions) normalise to exactly CPython's adjusted bounds when the slice selects something, and
to the empty range `0:0` when it selects nothing. -/
theorem slice_axis_eager_eq_py (d : Int) (lo hi : Option Int) (step : Int)
    (hd0 : 0 < d) (hs : step ≠ 0) :
    (sliceLen (pyAdjust d lo hi step).1 (pyAdjust d lo hi step).2 step ≠ 0 →
      onnxNorm d (eagerBounds d lo hi step).1 (eagerBounds d lo hi step).2 step = pyAdjust d lo hi step) ∧
    (sliceLen (pyAdjust d lo hi step).1 (pyAdjust d lo hi step).2 step = 0 →
      onnxNorm d (eagerBounds d lo hi step).1 (eagerBounds d lo hi step).2 step = (0, 0)) := by
  have hbp := pyAdjust_bounds_pos d lo hi step (by omega)
  have hbn := pyAdjust_bounds_neg d lo hi step (by omega)
  have hzp := sliceLen_pos_step (pyAdjust d lo hi step).1 (pyAdjust d lo hi step).2 step
  have hzn := sliceLen_neg_step (pyAdjust d lo hi step).1 (pyAdjust d lo hi step).2 step
  unfold eagerBounds
  generalize pyAdjust d lo hi step = p at *
  obtain ⟨s, e⟩ := p
  simp only at hbp hbn hzp hzn ⊢
  constructor
  · intro hne
    simp only [hne, if_false]
    rcases Int.lt_or_gt_of_ne hs with hneg | hpos
    · have hb := hbn hneg
      have hlt : ¬ s ≤ e := fun h => hne ((hzn hneg).mpr h)
      unfold onnxNorm
      by_cases he : e < 0
      · simp only [he, if_true, hneg]
        refine Prod.ext ?_ ?_ <;> simp only [Int.min_def, Int.max_def] <;> (repeat' split) <;> omega
      · simp only [he, if_false, hneg, if_true]
        refine Prod.ext ?_ ?_ <;> simp only [Int.min_def, Int.max_def] <;> (repeat' split) <;> omega
    · have hb := hbp hpos
      have hlt : ¬ e ≤ s := fun h => hne ((hzp hpos).mpr h)
      have hn : ¬ step < 0 := by omega
      unfold onnxNorm
      by_cases he : e < 0
      · omega
      · simp only [he, if_false, hn]
        refine Prod.ext ?_ ?_ <;> simp only [Int.min_def, Int.max_def] <;> (repeat' split) <;> omega
  · intro hz
    simp only [hz, if_true]
    unfold onnxNorm
    by_cases hneg : step < 0
    · simp only [hneg, if_true]
      refine Prod.ext ?_ ?_ <;> simp only [Int.min_def, Int.max_def] <;> (repeat' split) <;> omega
    · simp only [hneg, if_false]
      refine Prod.ext ?_ ?_ <;> simp only [Int.min_def, Int.max_def] <;> (repeat' split) <;> omega

/-- The eager half of finding D22, repaired, as a regression: `Tensor(A)[-4::-1]`, `d = 3` now
selects nothing, like CPython.  (Before the repair `onnxNorm 3 (-4) (-4) (-1) = (0, -1)`: `[A[0]]`.) -/
theorem slice_axis_eager_d22_witness_fixed :
    eagerBounds 3 (some (-4)) none (-1) = (0, 0) ∧ pyAdjust 3 (some (-4)) none (-1) = (-1, -1) ∧
    sliceLen (-1) (-1) (-1) = 0 ∧ sliceLen 0 0 (-1) = 0 := by decide

/-- **List level, converter**: for *every* list (every length below the int64 sentinel, the empty
list included) the ONNX `Slice` of the converter's bounds selects exactly the elements Python's
`l[lo:hi:step]` selects. -/
theorem slice_list_conv_eq_numpy_partial {α} (l : List α) (lo hi : Option Int) (step : Int)
    (hlen : (l.length : Int) < maxint) (hs : step ≠ 0)
    (hD22 : step < 0 → ∀ x, lo = some x → -(l.length : Int) ≤ x) :
    onnxSliceList l (convBounds lo hi step).1 (convBounds lo hi step).2 step = pySliceList l lo hi step := by
  unfold onnxSliceList pySliceList
  rcases l with _ | ⟨a, t⟩
  · simp only [enumerate_nil]
  · have hpos : (0 : Int) < ((a :: t).length : Int) := by simp only [List.length_cons]; omega
    rw [slice_axis_conv_eq_py_partial _ lo hi step hpos hlen hs hD22]

/-- **List level, eager mode** (no hypothesis beyond `step ≠ 0`): for every list, the empty one
included, the ONNX `Slice` of eager mode's bounds selects exactly the elements Python's
`l[lo:hi:step]` selects. -/
theorem slice_list_eager_eq_numpy {α} (l : List α) (lo hi : Option Int) (step : Int)
    (hs : step ≠ 0) :
    onnxSliceList l (eagerBounds l.length lo hi step).1 (eagerBounds l.length lo hi step).2 step
      = pySliceList l lo hi step := by
  unfold onnxSliceList pySliceList
  rcases l with _ | ⟨a, t⟩
  · simp only [enumerate_nil]
  · have hpos : (0 : Int) < ((a :: t).length : Int) := by simp only [List.length_cons]; omega
    obtain ⟨h1, h2⟩ := slice_axis_eager_eq_py _ lo hi step hpos hs
    generalize pyAdjust ((a :: t).length : Int) lo hi step = p at h1 h2 ⊢
    obtain ⟨s, e⟩ := p
    simp only at h1 h2 ⊢
    by_cases hz : sliceLen s e step = 0
    · rw [h2 hz]
      have : sliceLen 0 0 step = 0 := by
        unfold sliceLen; simp
      simp only [hz, this, enumerate]
    · rw [h1 hz]

example : onnxSliceList [10, 20, 30] (eagerBounds 3 (some (-4)) none (-1)).1
      (eagerBounds 3 (some (-4)) none (-1)).2 (-1) = [] ∧
    pySliceList [10, 20, 30] (some (-4)) none (-1) = [] ∧
    onnxSliceList [10, 20, 30] (eagerBounds 3 none (some 0) (-1)).1
      (eagerBounds 3 none (some 0) (-1)).2 (-1) = [30, 20] := by decide

example : onnxSliceList [10, 20, 30, 40, 50] (convBounds none (some (-3)) (-2)).1
    (convBounds none (some (-3)) (-2)).2 (-2) = [50] ∧ pySliceList [10, 20, 30, 40, 50] none (some (-3)) (-2) = [50] := by
  decide

/-- **A scalar index as a one-step slice + Squeeze** (both front ends do this when the Slice path
is taken): `i:i+1:1`, and `-1:e:1` with `e` "the end" (int64 maximum / the dimension) for `i = -1`.
For every list, every integer `i` and every `e ≥ n` the slice is the singleton `[l[i]]` exactly
when NumPy accepts the index (`-n ≤ i < n`), and empty otherwise — so the following `Squeeze`
succeeds exactly when NumPy does. -/
theorem scalar_as_slice {α} (l : List α) (i e : Int) (he : (l.length : Int) ≤ e) :
    onnxSliceList l i (scalarStop i e) 1 =
      (match normIdx l.length i with
       | some k => (l[k]?).toList
       | none => []) := by
  unfold onnxSliceList onnxNorm normIdx scalarStop
  have h1 : ¬ ((1 : Int) < 0) := by decide
  simp only [h1, if_false]
  by_cases hm1 : i = -1
  · subst hm1
    simp only [if_true]
    by_cases hnil : l = []
    · subst hnil
      simp [enumerate_nil]
    · have hpos : (0 : Int) < (l.length : Int) := by
        cases l with
        | nil => exact absurd rfl hnil
        | cons x t => simp only [List.length_cons]; omega
      generalize (l.length : Int) = n at he hpos ⊢
      have e1 : max 0 (min (if (-1 : Int) < 0 then -1 + n else -1) n) = n - 1 := by
        simp only [Int.min_def, Int.max_def]; (repeat' split) <;> omega
      have e2 : max 0 (min (if e < 0 then e + n else e) n) = n - 1 + 1 := by
        simp only [Int.min_def, Int.max_def]; (repeat' split) <;> omega
      have hneg : (-1 : Int) < 0 ∧ -n ≤ -1 := by omega
      have hin : ¬ ((0 : Int) ≤ -1 ∧ (-1 : Int) < n) := by omega
      have h0 : (0 : Int) ≤ n - 1 := by omega
      rw [e1, e2, sliceLen_one, enumerate_one]
      simp only [hin, hneg, and_self, if_true, if_false, h0]
      have : (n - 1).toNat = (-1 + n).toNat := by congr 1; omega
      rw [this]
  · simp only [hm1, if_false]
    by_cases hin : 0 ≤ i ∧ i < (l.length : Int)
    · have e1 : max 0 (min (if i < 0 then i + ↑l.length else i) (↑l.length : Int)) = i := by
        simp only [Int.min_def, Int.max_def]; (repeat' split) <;> omega
      have e2 : max 0 (min (if i + 1 < 0 then i + 1 + ↑l.length else i + 1) (↑l.length : Int)) = i + 1 := by
        simp only [Int.min_def, Int.max_def]; (repeat' split) <;> omega
      rw [e1, e2, sliceLen_one, enumerate_one]
      simp only [hin, and_self, if_true]
    · simp only [hin, if_false]
      by_cases hneg : i < 0 ∧ -(l.length : Int) ≤ i
      · have e1 : max 0 (min (if i < 0 then i + ↑l.length else i) (↑l.length : Int)) = i + l.length := by
          simp only [Int.min_def, Int.max_def]; (repeat' split) <;> omega
        have e2 : max 0 (min (if i + 1 < 0 then i + 1 + ↑l.length else i + 1) (↑l.length : Int))
            = i + l.length + 1 := by
          simp only [Int.min_def, Int.max_def]; (repeat' split) <;> omega
        have h0 : (0 : Int) ≤ i + l.length := by omega
        rw [e1, e2, sliceLen_one, enumerate_one]
        simp only [hneg, and_self, if_true, h0]
      · simp only [hneg, if_false]
        rw [sliceLen_empty_pos _ _ _ (by decide)
          (by simp only [Int.min_def, Int.max_def]; (repeat' split) <;> omega)]
        rfl

example : onnxSliceList [10, 20, 30] (-2) (scalarStop (-2) maxint) 1 = [20] ∧
    onnxSliceList [10, 20, 30] (-1) (scalarStop (-1) maxint) 1 = [30] ∧
    onnxSliceList [10, 20, 30] (-1) (scalarStop (-1) 3) 1 = [30] ∧
    onnxSliceList [10, 20, 30] 3 (scalarStop 3 maxint) 1 = [] := by decide

/-- **A Python int on the converter's Slice path is NumPy's integer index — as an equality**, error
cases included: the axis is dropped at `l[i]` when `-n ≤ i < n`, and the graph fails (Squeeze of an
empty axis) exactly when NumPy raises IndexError.  (Before the repair of `i = -1` this held only
as an implication.) -/
theorem graph_axis_int_eq_numpy (i : Int) (srcs : List Nat) (hlen : (srcs.length : Int) < maxint) :
    graphAxisSlicePath (.int i) srcs = numpyAxis (.int i) srcs := by
  simp only [graphAxisSlicePath, numpyAxis, scalar_as_slice srcs i maxint (by omega)]
  cases normIdx srcs.length i with
  | none => rfl
  | some k => cases hk : srcs[k]? <;> (simp only [hk]; rfl)

/-- … and likewise in eager mode, for Python ints and rank-0 tensor indices, with no size bound. -/
theorem eager_axis_scalar_eq_numpy (i : Int) (srcs : List Nat) :
    eagerAxisSlicePath (.int i) srcs = numpyAxis (.int i) srcs ∧
    eagerAxisSlicePath (.tScalar i) srcs = numpyAxis (.tScalar i) srcs := by
  have h : eagerAxisSlicePath (.int i) srcs = numpyAxis (.int i) srcs := by
    simp only [eagerAxisSlicePath, numpyAxis, scalar_as_slice srcs i srcs.length (by omega)]
    cases normIdx srcs.length i with
    | none => rfl
    | some k => cases hk : srcs[k]? <;> (simp only [hk]; rfl)
  exact ⟨h, h⟩

/-- **Axis level, Slice path**: whenever the converter's Slice(+Squeeze) treatment of a component
(`:`, a Python int, a slice whose bounds and step are constants *or tensors*) yields a result on an
axis (of any extent below the int64 sentinel), NumPy yields the same result on that axis — given
the D22 hypothesis for negative steps. -/
theorem graph_axis_refines_numpy_partial (c : Comp) (srcs : List Nat) (a : AxisMap)
    (hlen : (srcs.length : Int) < maxint)
    (hD22 : ∀ lo hi st, c = .slice lo hi st → (st.val?).getD 1 < 0 →
              ∀ x, lo.val? = some x → -(srcs.length : Int) ≤ x)
    (h : graphAxisSlicePath c srcs = .ok a) : numpyAxis c srcs = .ok a := by
  cases c with
  | full => simpa [graphAxisSlicePath, numpyAxis] using h
  | tScalar v => simp [graphAxisSlicePath] at h
  | tVec vs => simp [graphAxisSlicePath] at h
  | int i => rw [← graph_axis_int_eq_numpy i srcs hlen]; exact h
  | slice lo hi st =>
    have hstep : ∀ step, (st.val?).getD 1 = step → step ≠ 0 →
        onnxSliceList srcs (convBounds lo.val? hi.val? step).1 (convBounds lo.val? hi.val? step).2 step
          = pySliceList srcs lo.val? hi.val? step := by
      intro step hs hne
      exact slice_list_conv_eq_numpy_partial srcs _ _ step hlen hne
        (fun hneg x hx => hD22 lo hi st rfl (by rw [hs]; exact hneg) x hx)
    simp only [graphAxisSlicePath] at h
    by_cases hskip : lo = .none ∧ hi = .none ∧ st = .none
    · simp only [hskip, and_self, if_true] at h
      obtain ⟨rfl, rfl, rfl⟩ := hskip
      have e : (Bnd.none).val? = none := rfl
      simp only [numpyAxis, e, Option.getD]
      rw [pySliceList_full]
      exact h
    · simp only [hskip, if_false] at h
      cases st with
      | dyn v =>
        -- tensor-valued step: both bounds are written out and passed to Slice as they are
        have e : (Bnd.dyn v).val? = some v := rfl
        cases hl : lo.val? with
        | none => simp [hl] at h
        | some l =>
          cases hh : hi.val? with
          | none => simp [hl, hh] at h
          | some u =>
            simp only [hl, hh] at h
            simp only [numpyAxis, e, Option.getD, hl, hh]
            by_cases hv : v = 0
            · simp [hv] at h
            · have hb : (v == 0) = false := by simpa using hv
              simp only [hb] at h ⊢
              have hcb : convBounds (some l) (some u) v = (l, u) := by
                unfold convBounds; split <;> rfl
              have := hstep v rfl hv
              rw [hl, hh, hcb] at this
              rw [this] at h
              exact h
      | none =>
        have e : (Bnd.none).val? = none := rfl
        simp only [numpyAxis, e, Option.getD] at h ⊢
        rw [hstep 1 rfl (by decide)] at h
        exact h
      | const v =>
        have e : (Bnd.const v).val? = some v := rfl
        simp only [numpyAxis, e, Option.getD] at h ⊢
        by_cases hv : v = 0
        · simp [hv] at h
        · have hb : (v == 0) = false := by simpa using hv
          simp only [hb] at h ⊢
          rw [hstep v rfl hv] at h
          exact h

example : graphAxisSlicePath (.slice (.const 1) .none (.const 2)) [0, 1, 2, 3, 4] = .ok (.pick [1, 3]) := by decide
example : graphAxisSlicePath (.int (-2)) [0, 1, 2] = .ok (.drop 1) ∧
    graphAxisSlicePath (.int (-1)) [0, 1, 2] = .ok (.drop 2) ∧
    graphAxisSlicePath (.int 3) [0, 1, 2] = .error .indexError := by decide

/-- **The converter computes NumPy's per-axis maps** — for *every* expression (any number of 1-D
indices, wherever they stand): if the graph returns a tensor, its view is, axis by axis, what NumPy
selects on that axis.  What this does not say is in which *order* NumPy lays the axes out
(`numpyIndex` / `numpyIndexT` add that). -/
theorem graph_index_axes_partial (comps : List Comp) (shape : List Nat) (r : View)
    (hlen : comps.length ≤ shape.length)
    (hdims : ∀ d ∈ shape, (d : Int) < maxint)
    (hD22 : ∀ (j d : Nat) (lo hi st : Bnd), comps[j]? = some (.slice lo hi st) → shape[j]? = some d →
        (st.val?).getD 1 < 0 → ∀ x, lo.val? = some x → -(d : Int) ≤ x)
    (h : graphIndex comps shape = .ok r) : axiswise numpyAxis comps shape = .ok r := by
  cases huse : useSlice comps with
  | false => exact graph_gatherpath_axiswise comps shape r hlen huse h
  | true =>
    have hax := graph_slicepath_axiswise comps shape r hlen huse h
    refine axiswise_mono _ numpyAxis comps shape r ?_ hax
    intro j c d a hc hd hg
    simp only [withGather] at hg
    by_cases hk : (c.kind == Kind.nonScalar) = true
    · simpa [hk] using hg
    · simp only [hk, Bool.false_eq_true, if_false] at hg
      rw [graphPre_not_nonScalar c _ (by simpa using hk)] at hg
      refine graph_axis_refines_numpy_partial c (List.range d) a ?_ ?_ hg
      · simp only [List.length_range]; exact hdims d (List.mem_of_getElem? hd)
      · intro lo hi st hcs hneg x hx
        subst hcs
        simp only [List.length_range]
        exact hD22 j d lo hi st hc hd hneg x hx


/-- **Whole expressions, the converter (all paths, tensor-valued indices and bounds included).**
For *every* index expression with at most one 1-D tensor index placed so that NumPy keeps the
broadcast axis in place (`needsTranspose = false`) — `:`, Python ints, rank-0 tensor indices,
slices whose bounds and steps are constants or tensors; any number of components up to the rank,
any rank, any dimension sizes below the int64 sentinel, 0 included, index values in or out of
range: if the graph `Converter._translate_subscript_expr` emits (Slice, Squeeze, then the Gather
chain from the highest axis down, each Gather on the axis of the *intermediate* result — /repo
commit e7769b9) returns a tensor, NumPy returns the same tensor.  The only hypothesis that is not a
description of the covered forms is the D22 one (a negative-step slice has no explicit start below
`-d`); it is necessary (`graph_index_without_d22_refuted`).  This statement was false before
e7769b9 (finding D7: `A[i, 0]`, see `graph_index_d7_witness_fixed`). -/
theorem graph_index_correct_partial (comps : List Comp) (shape : List Nat) (r : View)
    (hvec : (comps.filter Comp.isVec).length ≤ 1)
    (hnt : needsTranspose comps = false)
    (hlen : comps.length ≤ shape.length)
    (hdims : ∀ d ∈ shape, (d : Int) < maxint)
    (hD22 : ∀ (j d : Nat) (lo hi st : Bnd), comps[j]? = some (.slice lo hi st) → shape[j]? = some d →
        (st.val?).getD 1 < 0 → ∀ x, lo.val? = some x → -(d : Int) ≤ x)
    (h : graphIndex comps shape = .ok r) : numpyIndex comps shape = .ok r := by
  exact numpyIndex_of_axiswise comps shape r hvec hnt hlen
    (graph_index_axes_partial comps shape r hlen hdims hD22 h)

-- non-vacuity: the former D7 witnesses and a 1-D index, all satisfying the hypotheses
example : graphIndex [.tScalar 1, .int 0] [2, 3, 4] = .ok [.drop 1, .drop 0, .pick [0, 1, 2, 3]] ∧
    needsTranspose [.tScalar 1, .int 0] = false := by decide
example : graphIndex [.slice (.const 1) (.const 3) .none, .tScalar 3, .int 2] [3, 4, 5]
      = .ok [.pick [1, 2], .drop 3, .drop 2] ∧
    useSlice [.slice (.const 1) (.const 3) .none, .tScalar 3, .int 2] = true := by decide
example : graphIndex [.int 0, .tVec [2, 0], .slice .none .none (.const (-1))] [2, 3, 4]
      = .ok [.drop 0, .pick [2, 0], .pick [3, 2, 1, 0]] ∧
    needsTranspose [.int 0, .tVec [2, 0], .slice .none .none (.const (-1))] = false := by decide
example : graphIndex [.tScalar (-1), .full, .tScalar 2] [2, 3, 4] = .ok [.drop 1, .pick [0, 1, 2], .drop 2] := by
  decide
-- `A[i:i+2, k]` and `A[lo:hi:s]` with everything tensor-valued (documented forms)
example : graphIndex [.slice (.dyn 1) (.dyn 3) .none, .tScalar 2] [4, 3] = .ok [.pick [1, 2], .drop 2] := by
  decide
example : graphIndex [.tScalar 0, .slice (.dyn 3) (.dyn 0) (.dyn (-2))] [2, 5] = .ok [.drop 0, .pick [3, 1]] := by
  decide

/-- The D22 hypothesis of `graph_index_correct_partial` cannot be dropped: `A[-4::-1]` on a
length-3 tensor satisfies every other hypothesis, the graph returns `[A[0]]`, NumPy `[]`. -/
theorem graph_index_without_d22_refuted :
    ¬ (∀ (comps : List Comp) (shape : List Nat) (r : View),
        (comps.filter Comp.isVec).length ≤ 1 →
        needsTranspose comps = false → comps.length ≤ shape.length →
        (∀ d ∈ shape, (d : Int) < maxint) →
        graphIndex comps shape = .ok r → numpyIndex comps shape = .ok r) := by
  intro h
  have := h [.slice (.const (-4)) .none (.const (-1))] [3] [.pick [0]]
    (by decide) (by decide) (by decide) (by decide) (by decide)
  revert this; decide

/-- **Finding C11-N1** (open): too many indices.  `A[0, :]` on a 1-D `A`: the converter does not
know the rank, `:` emits nothing, so the graph is the single Gather of `A[0]` and returns a
tensor; NumPy raises IndexError and eager mode refuses with ValueError.  Replayed on the real
code by the check. -/
theorem graph_index_too_many_indices_witness :
    graphIndex [.int 0, .full] [3] = .ok [.drop 0] ∧
    numpyIndex [.int 0, .full] [3] = .error .indexError ∧
    eagerIndex [.int 0, .full] [3] = .error .valueError := by decide

/-- … hence the hypothesis `comps.length ≤ shape.length` of `graph_index_correct_partial` cannot be
dropped (every other hypothesis holds for the witness). -/
theorem graph_index_without_len_refuted :
    ¬ (∀ (comps : List Comp) (shape : List Nat) (r : View),
        (comps.filter Comp.isVec).length ≤ 1 → needsTranspose comps = false →
        (∀ d ∈ shape, (d : Int) < maxint) →
        (∀ (j d : Nat) (lo hi st : Bnd), comps[j]? = some (.slice lo hi st) → shape[j]? = some d →
          (st.val?).getD 1 < 0 → ∀ x, lo.val? = some x → -(d : Int) ≤ x) →
        graphIndex comps shape = .ok r → numpyIndex comps shape = .ok r) := by
  intro h
  have := h [.int 0, .full] [3] [.drop 0] (by decide) (by decide) (by decide)
    (by intro j d lo hi st hc; cases j with
        | zero => simp at hc
        | succ j => cases j with
          | zero => simp at hc
          | succ j => simp at hc)
    (by decide)
  revert this; decide

/-- **Surplus `:` are ignored by the converter** — for every expression, every number of appended
`:`/`::` components and every shape (so also when they exceed the rank: the mechanism of finding
C11-N1): the graph is the graph of the expression without them. -/
theorem graph_surplus_skips_ignored (comps extra : List Comp) (shape : List Nat)
    (hextra : ∀ c ∈ extra, c.kind = Kind.skip) :
    graphIndex (comps ++ extra) shape = graphIndex comps shape := by
  unfold graphIndex
  rw [planGraph_append_skips comps extra hextra]

example : graphIndex ([.int 0] ++ [.full, .slice .none .none .none]) [3] = .ok [.drop 0] := by decide

/-- **Too many indices, exactly** (the whole family of finding C11-N1, no hypothesis).  Whenever
the translated graph returns a tensor — for any expression, any shape, also with more components
than the tensor has axes — every component beyond the rank is `:` (a surplus int, slice or tensor
index makes Slice or the first Gather fail at run time), and the tensor is the one the graph
returns for the expression cut down to the rank. -/
theorem graph_too_many_indices_only_surplus_skips (comps : List Comp) (shape : List Nat) (r : View)
    (h : graphIndex comps shape = .ok r) :
    (∀ (j : Nat) (c : Comp), shape.length ≤ j → comps[j]? = some c → c.kind = Kind.skip) ∧
    graphIndex (comps.take shape.length) shape = .ok r := by
  have hskip : ∀ (j : Nat) (c : Comp), shape.length ≤ j → comps[j]? = some c → c.kind = Kind.skip := by
    intro j c hjn hj
    by_cases hk : c.kind = Kind.skip
    · exact hk
    · obtain ⟨e, he⟩ := graph_surplus_nonskip_fails comps shape j c hj hjn hk
      rw [he] at h; cases h
  refine ⟨hskip, ?_⟩
  have := graph_surplus_skips_ignored (comps.take shape.length) (comps.drop shape.length) shape
    (by
      intro c hc
      obtain ⟨i, hi⟩ := List.getElem?_of_mem hc
      rw [List.getElem?_drop] at hi
      exact hskip (shape.length + i) c (by omega) hi)
  rw [List.take_append_drop] at this
  rw [← this]; exact h

example : graphIndex [.slice (.const 1) .none .none, .full, .full] [3] = .ok [.pick [1, 2]] ∧
    graphIndex [.full, .int 0] [3] = .error .indexError ∧
    graphIndex [.int 0, .tScalar 0] [3] = .error .indexError := by decide

/-- **Whole expressions, the converter, without the length hypothesis**: whatever the number of
components, a tensor returned by the graph is NumPy's tensor for the expression cut down to the
rank of the indexed tensor (which is the expression itself when it has at most `rank`
components). -/
theorem graph_index_correct_any_length_partial (comps : List Comp) (shape : List Nat) (r : View)
    (hvec : ((comps.take shape.length).filter Comp.isVec).length ≤ 1)
    (hnt : needsTranspose (comps.take shape.length) = false)
    (hdims : ∀ d ∈ shape, (d : Int) < maxint)
    (hD22 : ∀ (j d : Nat) (lo hi st : Bnd), comps[j]? = some (.slice lo hi st) → shape[j]? = some d →
        (st.val?).getD 1 < 0 → ∀ x, lo.val? = some x → -(d : Int) ≤ x)
    (h : graphIndex comps shape = .ok r) : numpyIndex (comps.take shape.length) shape = .ok r := by
  refine graph_index_correct_partial (comps.take shape.length) shape r hvec hnt
    (List.length_take_le _ _) hdims ?_ (graph_too_many_indices_only_surplus_skips comps shape r h).2
  intro j d lo hi st hc hd hneg x hx
  have hc' : comps[j]? = some (.slice lo hi st) := by
    rw [List.getElem?_take] at hc
    split at hc
    · exact hc
    · cases hc
  exact hD22 j d lo hi st hc' hd hneg x hx

/-- **Whole expressions, Slice(+Squeeze) path, constant components** (the statement proved before
tensor-valued components were covered; now a corollary of `graph_index_correct_partial`). -/
theorem graph_index_slicepath_correct_partial (comps : List Comp) (shape : List Nat) (r : View)
    (hbasic : ∀ c ∈ comps, c.basic = true)
    (hlen : comps.length ≤ shape.length)
    (hdims : ∀ d ∈ shape, (d : Int) < maxint)
    (hD22 : ∀ (j d : Nat) (lo hi st : Bnd), comps[j]? = some (.slice lo hi st) → shape[j]? = some d →
        (st.val?).getD 1 < 0 → ∀ x, lo.val? = some x → -(d : Int) ≤ x)
    (_huse : useSlice comps = true)
    (h : graphIndex comps shape = .ok r) : numpyIndex comps shape = .ok r := by
  have hv : comps.filter Comp.isVec = [] := filter_none _ _ (fun c hc => basic_not_vec c (hbasic c hc))
  exact graph_index_correct_partial comps shape r (by simp [hv])
    (needsTranspose_basic comps hbasic) hlen hdims hD22 h

example : useSlice [.int 1, .full, .slice .none (.const (-1)) (.const 2)] = true ∧
    graphIndex [.int 1, .full, .slice .none (.const (-1)) (.const 2)] [2, 3, 4]
      = .ok [.drop 1, .pick [0, 1, 2], .pick [0, 2]] := by decide

/-- **Whole expressions, Gather path.**  When the converter does *not* take the Slice path (no
non-trivial slice, at most one Python int — `huse`), the dims/D22 hypotheses of
`graph_index_correct_partial` are not needed and no condition is put on the *values* of the components
(in or out of range).  The other hypotheses stay: at most one 1-D index (`hvec`), broadcast axis in
place (`hnt`, finding C11-N3), not more components than axes (`hlen`, finding C11-N1) — restricted
statement, not renamed `_partial` only to keep the name stable.  Under them the result of the Gather
chain (highest axis down), if there is one, is NumPy's. -/
theorem graph_index_gatherpath_correct (comps : List Comp) (shape : List Nat) (r : View)
    (hvec : (comps.filter Comp.isVec).length ≤ 1)
    (hnt : needsTranspose comps = false)
    (hlen : comps.length ≤ shape.length)
    (huse : useSlice comps = false)
    (h : graphIndex comps shape = .ok r) : numpyIndex comps shape = .ok r :=
  numpyIndex_of_axiswise comps shape r hvec hnt hlen
    (graph_gatherpath_axiswise comps shape r hlen huse h)

example : useSlice [.full, .int (-2)] = false ∧
    graphIndex [.full, .int (-2)] [2, 3] = .ok [.pick [0, 1], .drop 1] := by decide
example : useSlice [.int 0, .tVec [1, 2]] = false ∧
    graphIndex [.int 0, .tVec [1, 2]] [2, 3, 4] = .ok [.drop 0, .pick [1, 2], .pick [0, 1, 2, 3]] := by decide

/-- **Axis level, eager mode** (every component that eager mode's Slice(+squeeze) path handles:
`:`, rank-0 indices — Python ints are promoted —, slices with constant *or tensor-valued* bounds);
no hypothesis is left after the repair of the eager half of D22. -/
theorem eager_axis_refines_numpy (c : Comp) (srcs : List Nat) (a : AxisMap)
    (h : eagerAxisSlicePath c srcs = .ok a) : numpyAxis c srcs = .ok a := by
  have hscalar : ∀ i : Int, eagerAxisSlicePath (.int i) srcs = .ok a → numpyAxis (.int i) srcs = .ok a := by
    intro i h
    rw [← (eager_axis_scalar_eq_numpy i srcs).1]; exact h
  cases c with
  | full => simpa [eagerAxisSlicePath, numpyAxis] using h
  | tVec vs => simp [eagerAxisSlicePath] at h
  | tScalar i => exact hscalar i h
  | int i => exact hscalar i h
  | slice lo hi st =>
    simp only [eagerAxisSlicePath] at h
    by_cases hskip : lo = .none ∧ hi = .none ∧ st = .none
    · simp only [hskip, and_self, if_true] at h
      obtain ⟨rfl, rfl, rfl⟩ := hskip
      have e : (Bnd.none).val? = none := rfl
      simp only [numpyAxis, e, Option.getD]
      rw [pySliceList_full]
      exact h
    · simp only [hskip, if_false] at h
      simp only [numpyAxis]
      by_cases hv : (st.val?).getD 1 = 0
      · simp [hv] at h
      · have hb0 : ((st.val?).getD 1 == 0) = false := by simpa using hv
        simp only [hb0] at h ⊢
        rw [slice_list_eager_eq_numpy srcs _ _ _ hv] at h
        exact h

/-- **Eager mode computes NumPy's per-axis maps** — for *every* expression, any number of 1-D indices
wherever they stand, **no hypothesis** (the 1-D Gathers run in ascending axis order; as each keeps its
axis the order does not matter: `gather_chain_axiswise_fwd`).  What this does not say is how NumPy
lays the axes out (`numpyIndexT`: one 1-D index; `numpyIndexZ`: any number, zipped). -/
theorem eager_index_axes (comps : List Comp) (shape : List Nat) (r : View)
    (h : eagerIndex comps shape = .ok r) :
    comps.length ≤ shape.length ∧ axiswise numpyAxis comps shape = .ok r := by
  obtain ⟨hlen, F, hF, hax⟩ := eager_index_axiswise comps shape r h
  refine ⟨hlen, ?_⟩
  refine axiswise_mono F numpyAxis comps shape r ?_ hF
  intro j c d a hc hd hg
  rcases hax j c d a hc hd hg with hn | he
  · exact hn
  · exact eager_axis_refines_numpy c (List.range d) a he


/-- **Whole expressions, eager mode (all paths, tensor-valued indices and bounds included).**
For *every* index expression with at most one 1-D tensor index placed so that NumPy keeps the
broadcast axis in place — `:`, Python ints, rank-0 tensor indices, slices whose bounds and steps
are constants or tensors, any rank, any dimension sizes: if `Tensor.__getitem__` returns a
tensor, NumPy returns the same tensor.  **No D22 hypothesis any more** (eager mode normalises with
`slice.indices`).  All paths of the code are covered: Identity, single Gather, Slice +
`np.squeeze`, each followed by the 1-D Gather on the axis of the intermediate result (/repo commit
e7769b9; before it `X[0, I]` was wrong — `eager_index_d7_witness_fixed`).  "Too many indices" and a
zero step are refused by the code itself.  What keeps the `_partial`: the two hypotheses describe
the limit of the per-axis NumPy specification, not of the code. -/
theorem eager_index_correct_partial (comps : List Comp) (shape : List Nat) (r : View)
    (hvec : (comps.filter Comp.isVec).length ≤ 1)
    (hnt : needsTranspose comps = false)
    (h : eagerIndex comps shape = .ok r) : numpyIndex comps shape = .ok r := by
  obtain ⟨hlen, hax⟩ := eager_index_axes comps shape r h
  exact numpyIndex_of_axiswise comps shape r hvec hnt hlen hax

example : eagerIndex [.int (-2), .slice (.const 1) .none .none] [3, 4] = .ok [.drop 1, .pick [1, 2, 3]] := by
  decide
example : eagerIndex [.int 0, .tVec [1, 2]] [2, 3, 4] = .ok [.drop 0, .pick [1, 2], .pick [0, 1, 2, 3]] ∧
    needsTranspose [.int 0, .tVec [1, 2]] = false := by decide
example : eagerIndex [.tScalar 1, .slice (.dyn 1) .none .none, .tVec [3, 0]] [2, 3, 4]
    = .ok [.drop 1, .pick [1, 2], .pick [3, 0]] := by decide

/-- **Axis level, Slice path, as an equality** — for every component the Slice path handles (`:`,
Python int, any slice) the converter's per-axis result *is* NumPy's, errors included (a zero step is
a ValueError in both, an out-of-range int an IndexError in both), provided a tensor-valued step
comes with both bounds (else the converter refuses the form) and the D22 hypothesis holds. -/
theorem graph_axis_eq_numpy_partial (c : Comp) (srcs : List Nat)
    (hns : (c.kind == Kind.nonScalar) = false)
    (hlen : (srcs.length : Int) < maxint)
    (hform : ∀ lo hi s, c = .slice lo hi (.dyn s) → ∃ l h, lo.val? = some l ∧ hi.val? = some h)
    (hD22 : ∀ lo hi st, c = .slice lo hi st → (st.val?).getD 1 < 0 →
              ∀ x, lo.val? = some x → -(srcs.length : Int) ≤ x) :
    graphAxisSlicePath c srcs = numpyAxis c srcs := by
  cases c with
  | full => rfl
  | tScalar v => exact absurd hns (by simp only [Comp.kind]; decide)
  | tVec vs => exact absurd hns (by simp only [Comp.kind]; decide)
  | int i => exact graph_axis_int_eq_numpy i srcs hlen
  | slice lo hi st =>
    have hstep : ∀ step, (st.val?).getD 1 = step → step ≠ 0 →
        onnxSliceList srcs (convBounds lo.val? hi.val? step).1 (convBounds lo.val? hi.val? step).2 step
          = pySliceList srcs lo.val? hi.val? step := by
      intro step hs hne
      exact slice_list_conv_eq_numpy_partial srcs _ _ step hlen hne
        (fun hneg x hx => hD22 lo hi st rfl (by rw [hs]; exact hneg) x hx)
    simp only [graphAxisSlicePath]
    by_cases hskip : lo = .none ∧ hi = .none ∧ st = .none
    · simp only [hskip, and_self, if_true]
      obtain ⟨rfl, rfl, rfl⟩ := hskip
      have e : (Bnd.none).val? = none := rfl
      simp only [numpyAxis, e, Option.getD]
      rw [pySliceList_full]
      rfl
    · simp only [hskip, if_false]
      cases st with
      | dyn v =>
        have e : (Bnd.dyn v).val? = some v := rfl
        obtain ⟨l, u, hl, hh⟩ := hform lo hi v rfl
        simp only [hl, hh, numpyAxis, e, Option.getD]
        by_cases hv : v = 0
        · simp [hv]
        · have hb : (v == 0) = false := by simpa using hv
          simp only [hb]
          have hcb : convBounds (some l) (some u) v = (l, u) := by
            unfold convBounds; split <;> rfl
          have := hstep v rfl hv
          rw [hl, hh, hcb] at this
          rw [this]
      | none =>
        have e : (Bnd.none).val? = none := rfl
        simp only [numpyAxis, e, Option.getD]
        rw [hstep 1 rfl (by decide)]
      | const v =>
        have e : (Bnd.const v).val? = some v := rfl
        simp only [numpyAxis, e, Option.getD]
        by_cases hv : v = 0
        · simp [hv]
        · have hb : (v == 0) = false := by simpa using hv
          simp only [hb]
          rw [hstep v rfl hv]

/-- Converse core: whenever NumPy's per-axis maps exist, the translated graph runs and produces
them (given the converter's refusal of a tensor-valued step without both bounds, and D22). -/
theorem graph_index_of_axes_partial (comps : List Comp) (shape : List Nat) (r : View)
    (hlen : comps.length ≤ shape.length)
    (hdims : ∀ d ∈ shape, (d : Int) < maxint)
    (hform : ∀ (j : Nat) (lo hi : Bnd) (s : Int), comps[j]? = some (.slice lo hi (.dyn s)) →
        ∃ l h, lo.val? = some l ∧ hi.val? = some h)
    (hD22 : ∀ (j d : Nat) (lo hi st : Bnd), comps[j]? = some (.slice lo hi st) → shape[j]? = some d →
        (st.val?).getD 1 < 0 → ∀ x, lo.val? = some x → -(d : Int) ≤ x)
    (h : axiswise numpyAxis comps shape = .ok r) : graphIndex comps shape = .ok r := by
  obtain ⟨_, hpw⟩ := axiswise_ok_pointwise numpyAxis comps shape r h
  cases huse : useSlice comps with
  | false => exact graph_gatherpath_complete comps shape r hlen huse h
  | true =>
    have hok : ∀ c ∈ comps, sliceOk c := by
      intro c hc lo hi st hcs hsk
      subst hcs
      obtain ⟨j, hj⟩ := List.getElem?_of_mem hc
      obtain ⟨d, a, _, ha⟩ := hpw j _ hj
      refine ⟨?_, ?_⟩
      · intro h0
        simp only [numpyAxis] at ha
        have : ((st.val?).getD 1 == 0) = true := by simpa using h0
        simp [this] at ha
      · intro s hs
        subst hs
        exact hform j lo hi s hj
    refine graph_slicepath_complete comps shape r hlen huse (sliceEntries_no_refusal comps hok) hok ?_
    refine axiswise_mono numpyAxis _ comps shape r ?_ h
    intro j c d a hc hd ha
    simp only [withGather]
    by_cases hk : (c.kind == Kind.nonScalar) = true
    · simpa [hk] using ha
    · have hk' : (c.kind == Kind.nonScalar) = false := by simpa using hk
      simp only [hk', Bool.false_eq_true, if_false]
      rw [graphPre_not_nonScalar c _ hk', graph_axis_eq_numpy_partial c (List.range d) hk' ?_ ?_ ?_]
      · exact ha
      · simp only [List.length_range]; exact hdims d (List.mem_of_getElem? hd)
      · intro lo hi s hcs; subst hcs; exact hform j lo hi s hc
      · intro lo hi st hcs hneg x hx
        subst hcs
        simp only [List.length_range]
        exact hD22 j d lo hi st hc hd hneg x hx


/-- **Whole expressions, the converter, converse direction ("exactly NumPy's result").**  For every
index expression and shape: if NumPy returns a tensor (so the expression is within the modelled
forms: at most one 1-D index, broadcast axis in place, not more components than axes), then the
translated graph returns *that* tensor — it neither fails nor refuses — provided only that a
tensor-valued step is written with both bounds (the converter's documented refusal) and the D22
hypothesis holds.  Together with `graph_index_correct_partial`:
`graphIndex comps shape = .ok r ↔ numpyIndex comps shape = .ok r` on these forms. -/
theorem graph_index_complete_partial (comps : List Comp) (shape : List Nat) (r : View)
    (hdims : ∀ d ∈ shape, (d : Int) < maxint)
    (hform : ∀ (j : Nat) (lo hi : Bnd) (s : Int), comps[j]? = some (.slice lo hi (.dyn s)) →
        ∃ l h, lo.val? = some l ∧ hi.val? = some h)
    (hD22 : ∀ (j d : Nat) (lo hi st : Bnd), comps[j]? = some (.slice lo hi st) → shape[j]? = some d →
        (st.val?).getD 1 < 0 → ∀ x, lo.val? = some x → -(d : Int) ≤ x)
    (h : numpyIndex comps shape = .ok r) : graphIndex comps shape = .ok r := by
  -- what NumPy's success says
  unfold numpyIndex at h
  by_cases h1 : comps.length > shape.length
  · rw [if_pos h1] at h; cases h
  rw [if_neg h1] at h
  by_cases h2 : (comps.filter Comp.isVec).length > 1
  · rw [if_pos h2] at h; cases h
  rw [if_neg h2] at h
  by_cases h3 : needsTranspose comps = true
  · rw [if_pos h3] at h; cases h
  rw [if_neg h3] at h
  exact graph_index_of_axes_partial comps shape r (by omega) hdims hform hD22 h

example : numpyIndex [.int (-1), .tScalar 2, .slice .none .none (.const (-1))] [2, 3, 4]
      = .ok [.drop 1, .drop 2, .pick [3, 2, 1, 0]] ∧
    graphIndex [.int (-1), .tScalar 2, .slice .none .none (.const (-1))] [2, 3, 4]
      = .ok [.drop 1, .drop 2, .pick [3, 2, 1, 0]] := by decide

/-- … so, on the forms NumPy's side of the model expresses and the converter does not refuse, the
translated graph and NumPy agree as partial functions (up to the open finding D22). -/
theorem graph_index_iff_numpy_partial (comps : List Comp) (shape : List Nat) (r : View)
    (hvec : (comps.filter Comp.isVec).length ≤ 1) (hnt : needsTranspose comps = false)
    (hlen : comps.length ≤ shape.length)
    (hdims : ∀ d ∈ shape, (d : Int) < maxint)
    (hform : ∀ (j : Nat) (lo hi : Bnd) (s : Int), comps[j]? = some (.slice lo hi (.dyn s)) →
        ∃ l h, lo.val? = some l ∧ hi.val? = some h)
    (hD22 : ∀ (j d : Nat) (lo hi st : Bnd), comps[j]? = some (.slice lo hi st) → shape[j]? = some d →
        (st.val?).getD 1 < 0 → ∀ x, lo.val? = some x → -(d : Int) ≤ x) :
    graphIndex comps shape = .ok r ↔ numpyIndex comps shape = .ok r :=
  ⟨graph_index_correct_partial comps shape r hvec hnt hlen hdims hD22,
   graph_index_complete_partial comps shape r hdims hform hD22⟩

/-- **Axis level, eager mode, as an equality** (no hypothesis): for every component the
Slice(+squeeze) path handles, eager mode's per-axis result *is* NumPy's, errors included. -/
theorem eager_axis_eq_numpy (c : Comp) (srcs : List Nat) (hv : c.isVec = false) :
    eagerAxisSlicePath c srcs = numpyAxis c srcs := by
  cases c with
  | full => rfl
  | tVec vs => simp [Comp.isVec] at hv
  | int i => exact (eager_axis_scalar_eq_numpy i srcs).1
  | tScalar i => exact (eager_axis_scalar_eq_numpy i srcs).2
  | slice lo hi st =>
    simp only [eagerAxisSlicePath]
    by_cases hskip : lo = .none ∧ hi = .none ∧ st = .none
    · simp only [hskip, and_self, if_true]
      obtain ⟨rfl, rfl, rfl⟩ := hskip
      have e : (Bnd.none).val? = none := rfl
      simp only [numpyAxis, e, Option.getD]
      rw [pySliceList_full]
      rfl
    · simp only [hskip, if_false, numpyAxis]
      by_cases h0 : (st.val?).getD 1 = 0
      · simp [h0]
      · have hb0 : ((st.val?).getD 1 == 0) = false := by simpa using h0
        simp only [hb0]
        rw [slice_list_eager_eq_numpy srcs _ _ _ h0]

/-- Converse core, eager mode — restricted statement (hypotheses `hlen`: not more components than
axes, `hvec`: at most one 1-D index; the converse for two or more 1-D indices is not proved): whenever
NumPy's per-axis maps exist, `Tensor.__getitem__` runs and produces them. -/
theorem eager_index_of_axes (comps : List Comp) (shape : List Nat) (r : View)
    (hlen : comps.length ≤ shape.length)
    (hvec : (comps.filter Comp.isVec).length ≤ 1)
    (h : axiswise numpyAxis comps shape = .ok r) : eagerIndex comps shape = .ok r := by
  obtain ⟨_, hpw⟩ := axiswise_ok_pointwise numpyAxis comps shape r h
  refine OV.Index.eager_index_complete comps shape r hlen hvec ?_ h ?_
  · intro c hc lo hi st hcs hsk h0
    subst hcs
    obtain ⟨j, hj⟩ := List.getElem?_of_mem hc
    obtain ⟨d, a, _, ha⟩ := hpw j _ hj
    simp only [numpyAxis] at ha
    have : ((st.val?).getD 1 == 0) = true := by simpa using h0
    simp [this] at ha
  · refine axiswise_mono numpyAxis _ comps shape r ?_ h
    intro j c d a _ _ ha
    simp only [withGather]
    by_cases hv : c.isVec = true
    · simpa [hv] using ha
    · have hv' : c.isVec = false := by simpa using hv
      simp only [hv', Bool.false_eq_true, if_false]
      rw [eagerPre_not_vec c _ hv', eager_axis_eq_numpy c _ hv']
      exact ha


/-- **Whole expressions, eager mode, converse direction.**  No *explicit* hypothesis — but the
antecedent is restrictive: the model `numpyIndex` answers `.unmodelled` (never `.ok`) for two or more
1-D indices and when NumPy moves the broadcast axis (`needsTranspose`), so the statement says nothing
about the forms of findings C11-N4 / C11-N3.  For every index
expression and shape: if `numpyIndex` returns a tensor (so: at most one 1-D index, broadcast axis in
place, not more components than axes, no zero step, every integer in range), then
`Tensor.__getitem__` returns *that* tensor.  Together with `eager_index_correct_partial`: on the
modelled forms `eagerIndex comps shape = .ok r ↔ numpyIndex comps shape = .ok r` — eager indexing
returns exactly NumPy's result and fails exactly when NumPy raises. -/
theorem eager_index_complete (comps : List Comp) (shape : List Nat) (r : View)
    (h : numpyIndex comps shape = .ok r) : eagerIndex comps shape = .ok r := by
  unfold numpyIndex at h
  by_cases h1 : comps.length > shape.length
  · rw [if_pos h1] at h; cases h
  rw [if_neg h1] at h
  by_cases h2 : (comps.filter Comp.isVec).length > 1
  · rw [if_pos h2] at h; cases h
  rw [if_neg h2] at h
  by_cases h3 : needsTranspose comps = true
  · rw [if_pos h3] at h; cases h
  rw [if_neg h3] at h
  exact eager_index_of_axes comps shape r (by omega) (by omega) h

/-- … so, **under the two restricting hypotheses** `hvec` (at most one 1-D index) and `hnt`
(`needsTranspose = false`, i.e. outside finding C11-N3) — a restricted statement although the name has
no `_partial` — eager indexing and the model `numpyIndex` agree as partial functions. -/
theorem eager_index_iff_numpy (comps : List Comp) (shape : List Nat) (r : View)
    (hvec : (comps.filter Comp.isVec).length ≤ 1) (hnt : needsTranspose comps = false) :
    eagerIndex comps shape = .ok r ↔ numpyIndex comps shape = .ok r :=
  ⟨eager_index_correct_partial comps shape r hvec hnt, eager_index_complete comps shape r⟩

example : numpyIndex [.slice (.const (-9)) .none (.const (-2)), .int (-1), .tVec [0, -1]] [4, 2, 3]
      = .ok [.pick [], .drop 1, .pick [0, 2]] ∧
    eagerIndex [.slice (.const (-9)) .none (.const (-2)), .int (-1), .tVec [0, -1]] [4, 2, 3]
      = .ok [.pick [], .drop 1, .pick [0, 2]] := by decide

/-! ### NumPy's axis order made explicit: one 1-D index anywhere (`numpyIndexT`) -/

/-- **The converter, any position of the 1-D index**: if the graph returns a tensor, NumPy's result
consists of exactly the same per-axis maps — and, when the advanced indices are split by a slice
(`frontOf comps = some p`, e.g. `X[0, :, I]`), NumPy additionally moves the axis of the 1-D index to
the front, which the graph (sequential Gathers, no Transpose) never does: finding C11-N3.  The
hypothesis `needsTranspose = false` of `graph_index_correct_partial` is gone. -/
theorem graph_index_correct_upto_front_partial (comps : List Comp) (shape : List Nat) (r : View)
    (hvec : (comps.filter Comp.isVec).length ≤ 1)
    (hlen : comps.length ≤ shape.length)
    (hdims : ∀ d ∈ shape, (d : Int) < maxint)
    (hD22 : ∀ (j d : Nat) (lo hi st : Bnd), comps[j]? = some (.slice lo hi st) → shape[j]? = some d →
        (st.val?).getD 1 < 0 → ∀ x, lo.val? = some x → -(d : Int) ≤ x)
    (h : graphIndex comps shape = .ok r) : numpyIndexT comps shape = .ok ⟨r, frontOf comps⟩ := by
  have hax := graph_index_axes_partial comps shape r hlen hdims hD22 h
  unfold numpyIndexT
  rw [if_neg (by omega), if_neg (by omega), hax]
  rfl

/-- … and conversely the graph produces NumPy's per-axis maps whenever NumPy returns a result. -/
theorem graph_index_complete_upto_front_partial (comps : List Comp) (shape : List Nat) (n : NView)
    (hdims : ∀ d ∈ shape, (d : Int) < maxint)
    (hform : ∀ (j : Nat) (lo hi : Bnd) (s : Int), comps[j]? = some (.slice lo hi (.dyn s)) →
        ∃ l h, lo.val? = some l ∧ hi.val? = some h)
    (hD22 : ∀ (j d : Nat) (lo hi st : Bnd), comps[j]? = some (.slice lo hi st) → shape[j]? = some d →
        (st.val?).getD 1 < 0 → ∀ x, lo.val? = some x → -(d : Int) ≤ x)
    (h : numpyIndexT comps shape = .ok n) : graphIndex comps shape = .ok n.view ∧ n.front = frontOf comps := by
  unfold numpyIndexT at h
  by_cases h1 : comps.length > shape.length
  · rw [if_pos h1] at h; cases h
  rw [if_neg h1] at h
  by_cases h2 : (comps.filter Comp.isVec).length > 1
  · rw [if_pos h2] at h; cases h
  rw [if_neg h2] at h
  cases hax : axiswise numpyAxis comps shape with
  | error e => rw [hax] at h; cases h
  | ok v =>
    rw [hax] at h
    have hn : n = ⟨v, frontOf comps⟩ := by cases h; rfl
    subst hn
    exact ⟨graph_index_of_axes_partial comps shape v (by omega) hdims hform hD22 hax, rfl⟩

/-- **Eager mode and NumPy, any position of the 1-D index, as an equivalence**: for every
expression with at most one 1-D index, `Tensor.__getitem__` returns the view `r` if and only if
NumPy's result is `r` with the axis `frontOf comps` moved to the front (no move when
`frontOf comps = none`).  No other hypothesis. -/
theorem eager_index_iff_numpyT (comps : List Comp) (shape : List Nat) (r : View)
    (hvec : (comps.filter Comp.isVec).length ≤ 1) :
    eagerIndex comps shape = .ok r ↔ numpyIndexT comps shape = .ok ⟨r, frontOf comps⟩ := by
  constructor
  · intro h
    obtain ⟨hlen, hax⟩ := eager_index_axes comps shape r h
    unfold numpyIndexT
    rw [if_neg (by omega), if_neg (by omega), hax]
    rfl
  · intro h
    unfold numpyIndexT at h
    by_cases h1 : comps.length > shape.length
    · rw [if_pos h1] at h; cases h
    rw [if_neg h1] at h
    rw [if_neg (by omega)] at h
    cases hax : axiswise numpyAxis comps shape with
    | error e => rw [hax] at h; cases h
    | ok v =>
      rw [hax] at h
      have hv : v = r := by cases h; rfl
      subst hv
      exact eager_index_of_axes comps shape v (by omega) hvec hax

/-- `numpyIndexT` extends `numpyIndex`: where the latter answers, the former gives the same view
with no axis moved. -/
theorem numpyIndexT_of_numpyIndex (comps : List Comp) (shape : List Nat) (r : View)
    (h : numpyIndex comps shape = .ok r) : numpyIndexT comps shape = .ok ⟨r, none⟩ := by
  unfold numpyIndex at h
  by_cases h1 : comps.length > shape.length
  · rw [if_pos h1] at h; cases h
  rw [if_neg h1] at h
  by_cases h2 : (comps.filter Comp.isVec).length > 1
  · rw [if_pos h2] at h; cases h
  rw [if_neg h2] at h
  by_cases h3 : needsTranspose comps = true
  · rw [if_pos h3] at h; cases h
  rw [if_neg h3] at h
  unfold numpyIndexT frontOf
  rw [if_neg h1, if_neg h2, h, if_neg h3]
  rfl

/-- **Finding C11-N3** (open): `X[0, :, I]` on a 2×3×4 tensor, `I = [1, 0]`.  Both front ends return
the view with the axes in place (shape `[3, 2]`); NumPy returns the same selections with the axis of
`I` first (shape `[2, 3]`).  Replayed on the real code by the check. -/
theorem index_front_axis_witness :
    graphIndex [.int 0, .full, .tVec [1, 0]] [2, 3, 4] = .ok [.drop 0, .pick [0, 1, 2], .pick [1, 0]] ∧
    eagerIndex [.int 0, .full, .tVec [1, 0]] [2, 3, 4] = .ok [.drop 0, .pick [0, 1, 2], .pick [1, 0]] ∧
    numpyIndexT [.int 0, .full, .tVec [1, 0]] [2, 3, 4]
      = .ok ⟨[.drop 0, .pick [0, 1, 2], .pick [1, 0]], some 2⟩ ∧
    (NView.mk [.drop 0, .pick [0, 1, 2], .pick [1, 0]] (some 2)).shape = [2, 3] ∧
    View.shape [.drop 0, .pick [0, 1, 2], .pick [1, 0]] = [3, 2] := by decide

/-- **The two front ends agree** (DESIGN: `graph_eq_eager_partial`): whenever the translated graph
and eager mode both return a tensor for the same expression (within the forms of
`graph_index_correct_partial`), they return the same tensor. -/
theorem graph_eq_eager_partial (comps : List Comp) (shape : List Nat) (r r' : View)
    (hvec : (comps.filter Comp.isVec).length ≤ 1)
    (hnt : needsTranspose comps = false)
    (hdims : ∀ d ∈ shape, (d : Int) < maxint)
    (hD22 : ∀ (j d : Nat) (lo hi st : Bnd), comps[j]? = some (.slice lo hi st) → shape[j]? = some d →
        (st.val?).getD 1 < 0 → ∀ x, lo.val? = some x → -(d : Int) ≤ x)
    (hg : graphIndex comps shape = .ok r) (he : eagerIndex comps shape = .ok r') : r = r' := by
  have hlen : comps.length ≤ shape.length := (eager_index_axiswise comps shape r' he).1
  have h1 := graph_index_correct_partial comps shape r hvec hnt hlen hdims hD22 hg
  have h2 := eager_index_correct_partial comps shape r' hvec hnt he
  rw [h1] at h2
  cases h2; rfl

example : graphIndex [.tScalar 1, .slice (.const 2) .none (.const (-1)), .int 0] [2, 3, 4]
    = eagerIndex [.tScalar 1, .slice (.const 2) .none (.const (-1)), .int 0] [2, 3, 4] ∧
    eagerIndex [.tScalar 1, .slice (.const 2) .none (.const (-1)), .int 0] [2, 3, 4]
      = .ok [.drop 1, .pick [2, 1, 0], .drop 0] := by decide

/-- Refusal: eager mode rejects more index components than the tensor has axes (the converter
cannot: finding C11-N1). -/
theorem eager_too_many_refused (comps : List Comp) (shape : List Nat) (h : comps.length > shape.length) :
    eagerIndex comps shape = .error .valueError := by
  unfold eagerIndex planEager
  rw [if_pos h]
  rfl

/-- Finding D7, repaired by /repo commit e7769b9, as a regression: `A[i, 0]` (`i` a rank-0 tensor
holding 1, `A : 2×3×4`) — the model of the old converter gathered axis 0 and then axis **1** of
the reduced tensor (`[.drop 1, .pick [0,1,2], .drop 0]`); the repaired converter gathers axis 1
first and agrees with NumPy.  The witness is replayed on the real converter on every run. -/
theorem graph_index_d7_witness_fixed :
    graphIndex [.tScalar 1, .int 0] [2, 3, 4] = numpyIndex [.tScalar 1, .int 0] [2, 3, 4] ∧
    graphIndex [.tScalar 1, .full, .tScalar 2] [2, 3, 4] = numpyIndex [.tScalar 1, .full, .tScalar 2] [2, 3, 4] ∧
    graphIndex [.slice (.const 1) (.const 3) .none, .tScalar 3, .int 2] [3, 4, 5]
      = numpyIndex [.slice (.const 1) (.const 3) .none, .tScalar 3, .int 2] [3, 4, 5] := by decide

/-- The eager face of D7, repaired by the same commit: `X[0, I]` (1-D `I` after a rank-0 index). -/
theorem eager_index_d7_witness_fixed :
    eagerIndex [.int 0, .tVec [1, 2]] [2, 3, 4] = numpyIndex [.int 0, .tVec [1, 2]] [2, 3, 4] := by decide

/-- `A[i, 0]` in eager mode (both scalars go through Slice + squeeze) was right all along; the two
front ends now agree with each other and with NumPy on it. -/
theorem eager_index_witness_ok :
    eagerIndex [.tScalar 1, .int 0] [2, 3, 4] = numpyIndex [.tScalar 1, .int 0] [2, 3, 4] ∧
    eagerIndex [.tScalar 1, .int 0] [2, 3, 4] = graphIndex [.tScalar 1, .int 0] [2, 3, 4] := by decide

/-- D22 at the level of whole expressions: `A[-4::-1]` on a length-3 tensor — open for the
translated graph (the converter does not know the dimension), repaired for eager mode. -/
theorem graph_index_d22_witness :
    graphIndex [.slice (.const (-4)) .none (.const (-1))] [3] = .ok [.pick [0]] ∧
    numpyIndex [.slice (.const (-4)) .none (.const (-1))] [3] = .ok [.pick []] := by decide

/-- … and the eager half as a regression (it returned `[A[0]]` before the repair). -/
theorem eager_index_d22_witness_fixed :
    eagerIndex [.slice (.const (-4)) .none (.const (-1))] [3]
      = numpyIndex [.slice (.const (-4)) .none (.const (-1))] [3] ∧
    eagerIndex [.int 1, .slice (.const (-9)) (.const 5) (.const (-2))] [2, 4]
      = numpyIndex [.int 1, .slice (.const (-9)) (.const 5) (.const (-2))] [2, 4] := by decide

/-- A zero step is refused by eager mode while the index is read (`slice.indices` raises
ValueError), whatever else the expression contains. -/
theorem eager_zero_step_refused (pre post : List Comp) (lo hi : Bnd) (shape : List Nat)
    (hlen : (pre ++ .slice lo hi (.const 0) :: post).length ≤ shape.length) :
    eagerIndex (pre ++ .slice lo hi (.const 0) :: post) shape = .error .valueError := by
  unfold eagerIndex planEager
  rw [if_neg (by omega)]
  have : (pre ++ Comp.slice lo hi (.const 0) :: post).any
      (fun c => c.isEagerSliced && c.stepVal == 0) = true := by
    simp [List.any_append, Comp.isEagerSliced, Comp.stepVal, Bnd.val?]
  rw [if_pos this]
  rfl

example : eagerIndex [.full, .slice .none .none (.const 0)] [2, 3] = .error .valueError := by decide

/-- Refusal: a slice whose step is tensor-valued and whose start is omitted (`A[:hi:k]`, `A[::k]`). -/
theorem dyn_step_omitted_start_refused (hi : Bnd) (s : Int) :
    planGraph [.slice .none hi (.dyn s)] = .error .refused := by
  cases hi <;> rfl

/-- Refusal: likewise with the stop omitted (`A[lo::k]`). -/
theorem dyn_step_omitted_stop_refused (lo : Bnd) (s : Int) :
    planGraph [.slice lo .none (.dyn s)] = .error .refused := by
  cases lo <;> rfl

/-- An index of only full slices (`A[:]`, `A[:, :]`, …) translates to a single Identity node, and
the graph returns the whole tensor — NumPy's result.  (Before /repo commit 35a0ff1 this form died
with AttributeError at decoration time: finding C01-D37, fixed.) -/
theorem all_full_identity (n : Nat) : planGraph (List.replicate n .full) = .ok [.identity] := by
  have h : ∀ (k : Nat) (f : Comp × Nat → Bool), (∀ m, f (.full, m) = false) →
      ((List.replicate n Comp.full).zipIdx k).filter f = [] := by
    intro k f hf
    induction n generalizing k with
    | zero => rfl
    | succ n ih => simp [List.replicate_succ, List.zipIdx_cons, hf, ih]
  have h1 : slicedOf (List.replicate n .full) = [] := h 0 _ (by intro m; rfl)
  have h2 : scalarsOf (List.replicate n .full) = [] := h 0 _ (by intro m; rfl)
  have h3 : nonScalarsOf (List.replicate n .full) = [] := h 0 _ (by intro m; rfl)
  unfold planGraph
  rw [if_pos (by rw [h1, h2, h3]; rfl)]

/-- … and the view it computes is the initial view of the tensor, which is what NumPy returns. -/
theorem all_full_correct (n : Nat) (shape : List Nat) (hn : n ≤ shape.length) :
    graphIndex (List.replicate n .full) shape = .ok (View.init shape) ∧
    numpyIndex (List.replicate n .full) shape = .ok (View.init shape) := by
  refine ⟨?_, ?_⟩
  · unfold graphIndex
    rw [all_full_identity]
    rfl
  · have hb : ∀ c ∈ List.replicate n Comp.full, c.basic = true := by
      intro c hc; rw [List.eq_of_mem_replicate hc]; rfl
    unfold numpyIndex
    rw [if_neg (by simp; omega)]
    have hv : (List.replicate n Comp.full).filter Comp.isVec = [] :=
      filter_none _ _ (fun c hc => basic_not_vec c (hb c hc))
    rw [hv, if_neg (by simp), needsTranspose_basic _ hb]
    simp only [Bool.false_eq_true, if_false]
    exact axiswise_all_skip _ shape (by simpa using hn)
      (fun c hc => by rw [List.eq_of_mem_replicate hc]; rfl)

/-! ### Two or more 1-D indices: NumPy zips them (`numpyIndexZ`), the front ends take the outer product -/

/-- **Finding C11-N4** (open): `X[I, J]` on a 2×3 tensor, `I = [0, 1]`, `J = [1, 0]`.  Both front ends
run one Gather per index, which selects independently on each axis (the 2×2 outer product
`X[[0,1]][:, [1,0]]`); NumPy broadcasts the two indices against each other and zips them
(`[X[0,1], X[1,0]]`, shape `[2]`).  With lengths that do not broadcast (`[0,1]` against `[1,0,2]`)
NumPy raises IndexError and the front ends still return a tensor.  Replayed on the real code by the
check. -/
theorem index_zip_witness :
    graphIndex [.tVec [0, 1], .tVec [1, 0]] [2, 3] = .ok [.pick [0, 1], .pick [1, 0]] ∧
    eagerIndex [.tVec [0, 1], .tVec [1, 0]] [2, 3] = .ok [.pick [0, 1], .pick [1, 0]] ∧
    numpyIndexZ [.tVec [0, 1], .tVec [1, 0]] [2, 3] = .ok ⟨[.zip [0, 1], .zip [1, 0]], false⟩ ∧
    (ZRes.mk [.zip [0, 1], .zip [1, 0]] false).shape = [2] ∧
    View.shape [.pick [0, 1], .pick [1, 0]] = [2, 2] ∧
    graphIndex [.tVec [0, 1], .tVec [1, 0, 2]] [2, 3] = .ok [.pick [0, 1], .pick [1, 0, 2]] ∧
    eagerIndex [.tVec [0, 1], .tVec [1, 0, 2]] [2, 3] = .ok [.pick [0, 1], .pick [1, 0, 2]] ∧
    numpyIndexZ [.tVec [0, 1], .tVec [1, 0, 2]] [2, 3] = .error .indexError := by decide

/-- **The converter, any number of 1-D indices (of one common length)**: if the graph returns a
tensor, its view is exactly NumPy's per-axis maps (`unzip`) — what NumPy does in addition is to read
the axes of the 1-D indices *together* (one output axis, `zmark`) and, when the advanced indices are
split by a slice, to put that axis first (`moveFront`).  This extends
`graph_index_correct_upto_front_partial` from at most one 1-D index to every expression; the
hypothesis on the lengths only excludes NumPy's stretching of length-1 indices and is vacuous when
there is at most one 1-D index. -/
theorem graph_index_correct_upto_zip_partial (comps : List Comp) (shape : List Nat) (r : View) (n : Nat)
    (hn : ∀ c ∈ comps, ∀ vs, c = .tVec vs → vs.length = n)
    (hlen : comps.length ≤ shape.length)
    (hdims : ∀ d ∈ shape, (d : Int) < maxint)
    (hD22 : ∀ (j d : Nat) (lo hi st : Bnd), comps[j]? = some (.slice lo hi st) → shape[j]? = some d →
        (st.val?).getD 1 < 0 → ∀ x, lo.val? = some x → -(d : Int) ≤ x)
    (h : graphIndex comps shape = .ok r) :
    numpyIndexZ comps shape = .ok ⟨zmark comps r, moveFront comps⟩ ∧ unzip (zmark comps r) = r := by
  have hax := graph_index_axes_partial comps shape r hlen hdims hD22 h
  obtain ⟨m, hm, hid⟩ := bcast_equal_lengths comps n hn
  refine ⟨?_, unzip_zmark comps r⟩
  unfold numpyIndexZ
  rw [if_neg (by omega), hm]
  simp only [hid, hax]
  rfl

example : graphIndex [.slice (.const 1) .none .none, .tVec [0, 1], .int 0, .tVec [1, 0]] [3, 2, 2, 3]
      = .ok [.pick [1, 2], .pick [0, 1], .drop 0, .pick [1, 0]] ∧
    numpyIndexZ [.slice (.const 1) .none .none, .tVec [0, 1], .int 0, .tVec [1, 0]] [3, 2, 2, 3]
      = .ok ⟨[.pick [1, 2], .zip [0, 1], .drop 0, .zip [1, 0]], false⟩ ∧
    (ZRes.mk [.pick [1, 2], .zip [0, 1], .drop 0, .zip [1, 0]] false).shape = [2, 2] := by decide

/-- **With two or more 1-D indices the translated graph never returns NumPy's tensor** (no other
hypothesis: any expression, any shape, any lengths and values of the indices).  Whenever the graph
returns a tensor and NumPy returns one, the graph's tensor has `k - 1` more axes than NumPy's, `k`
the number of 1-D indices: each Gather keeps an axis of its own where NumPy shares one.  (And when
NumPy raises — lengths that do not broadcast, `index_zip_witness` — a returned tensor is wrong
anyway.)  So on this whole class the property fails as soon as the graph runs: finding C11-N4. -/
theorem graph_multi_vec_never_numpy (comps : List Comp) (shape : List Nat) (r : View) (z : ZRes)
    (hk : 2 ≤ (comps.filter Comp.isVec).length)
    (hg : graphIndex comps shape = .ok r) (hz : numpyIndexZ comps shape = .ok z) :
    (View.shape r).length = z.shape.length + ((comps.filter Comp.isVec).length - 1) ∧
    View.shape r ≠ z.shape := by
  -- NumPy's side
  unfold numpyIndexZ at hz
  by_cases h1 : comps.length > shape.length
  · rw [if_pos h1] at hz; cases hz
  rw [if_neg h1] at hz
  cases hb : bcastLen (comps.filterMap Comp.vecLen?) with
  | none => rw [hb] at hz; cases hz
  | some n =>
    rw [hb] at hz
    cases hax : axiswise numpyAxis (comps.map (Comp.stretch n)) shape with
    | error e => simp [hax, bind, Except.bind] at hz
    | ok v =>
      simp only [hax, bind, Except.bind, pure, Except.pure, Except.ok.injEq] at hz
      subst hz
      obtain ⟨hc1, hc2⟩ := zmark_counts n comps shape v hax
      have hany : comps.any Comp.isVec = true := any_of_filter_length_pos _ _ (by omega)
      have hzl := ZRes.shape_length ⟨zmark comps v, moveFront comps⟩
      simp only [hc2, hany, if_true] at hzl
      -- the graph's side: one axis per component, scalar-indexed ones removed
      have hr : (View.shape r).length + (comps.filter Comp.isEagerScalar).length = shape.length := by
        cases huse : useSlice comps with
        | false =>
          exact axiswise_shape_count numpyAxis numpyAxis_isPick comps shape r
            (graph_gatherpath_axiswise comps shape r (by omega) huse hg)
        | true =>
          refine axiswise_shape_count _ ?_ comps shape r
            (graph_slicepath_axiswise comps shape r (by omega) huse hg)
          intro c srcs a ha
          simp only [withGather] at ha
          by_cases hkk : (c.kind == Kind.nonScalar) = true
          · simp only [hkk, if_true] at ha
            exact numpyAxis_isPick c srcs a ha
          · simp only [hkk, Bool.false_eq_true, if_false] at ha
            rw [graphPre_isPick c srcs a ha]
            cases c with
            | full => rfl
            | int i => rfl
            | tScalar i => exact absurd rfl hkk
            | tVec vs => exact absurd rfl hkk
            | slice lo hi st => cases lo <;> cases hi <;> cases st <;> rfl
      have hlen : (View.shape r).length = (ZRes.mk (zmark comps v) (moveFront comps)).shape.length
          + ((comps.filter Comp.isVec).length - 1) := by omega
      refine ⟨hlen, ?_⟩
      intro heq
      rw [heq] at hlen
      omega

example : 2 ≤ ([Comp.tVec [0, 1], .full, .tVec [1]].filter Comp.isVec).length ∧
    graphIndex [.tVec [0, 1], .full, .tVec [1]] [2, 3, 4] = .ok [.pick [0, 1], .pick [0, 1, 2], .pick [1]] ∧
    numpyIndexZ [.tVec [0, 1], .full, .tVec [1]] [2, 3, 4]
      = .ok ⟨[.zip [0, 1], .pick [0, 1, 2], .zip [1, 1]], false⟩ ∧
    (ZRes.mk [.zip [0, 1], .pick [0, 1, 2], .zip [1, 1]] false).shape = [2, 3] := by decide

/-- **Eager mode, any number of 1-D indices (of one common length)**: `Tensor.__getitem__`'s view is
exactly NumPy's per-axis maps, un-zipped.  Restricted statement: hypothesis `hn` (all 1-D indices have
the same length `n`, which excludes NumPy's stretching of length-1 indices); beyond `hn` nothing is
assumed (eager mode has no D22, no size bound, and refuses surplus components itself). -/
theorem eager_index_correct_upto_zip (comps : List Comp) (shape : List Nat) (r : View) (n : Nat)
    (hn : ∀ c ∈ comps, ∀ vs, c = .tVec vs → vs.length = n)
    (h : eagerIndex comps shape = .ok r) :
    numpyIndexZ comps shape = .ok ⟨zmark comps r, moveFront comps⟩ ∧ unzip (zmark comps r) = r := by
  obtain ⟨hlen, hax⟩ := eager_index_axes comps shape r h
  obtain ⟨m, hm, hid⟩ := bcast_equal_lengths comps n hn
  refine ⟨?_, unzip_zmark comps r⟩
  unfold numpyIndexZ
  rw [if_neg (by omega), hm]
  simp only [hid, hax]
  rfl

example : eagerIndex [.slice (.const 1) .none .none, .tVec [0, 1], .int 0, .tVec [1, 0]] [3, 2, 2, 3]
      = .ok [.pick [1, 2], .pick [0, 1], .drop 0, .pick [1, 0]] := by decide

/-- **With two or more 1-D indices eager mode never returns NumPy's tensor** (no other hypothesis):
whenever `Tensor.__getitem__` and NumPy both return a tensor, eager mode's has `k - 1` more axes, `k`
the number of 1-D indices — the eager half of finding C11-N4, for the whole class. -/
theorem eager_multi_vec_never_numpy (comps : List Comp) (shape : List Nat) (r : View) (z : ZRes)
    (hk : 2 ≤ (comps.filter Comp.isVec).length)
    (he : eagerIndex comps shape = .ok r) (hz : numpyIndexZ comps shape = .ok z) :
    (View.shape r).length = z.shape.length + ((comps.filter Comp.isVec).length - 1) ∧
    View.shape r ≠ z.shape := by
  obtain ⟨_, haxr⟩ := eager_index_axes comps shape r he
  have hr := axiswise_shape_count numpyAxis numpyAxis_isPick comps shape r haxr
  unfold numpyIndexZ at hz
  by_cases h1 : comps.length > shape.length
  · rw [if_pos h1] at hz; cases hz
  rw [if_neg h1] at hz
  cases hb : bcastLen (comps.filterMap Comp.vecLen?) with
  | none => rw [hb] at hz; cases hz
  | some n =>
    rw [hb] at hz
    cases hax : axiswise numpyAxis (comps.map (Comp.stretch n)) shape with
    | error e => simp [hax, bind, Except.bind] at hz
    | ok v =>
      simp only [hax, bind, Except.bind, pure, Except.pure, Except.ok.injEq] at hz
      subst hz
      obtain ⟨hc1, hc2⟩ := zmark_counts n comps shape v hax
      have hany : comps.any Comp.isVec = true := any_of_filter_length_pos _ _ (by omega)
      have hzl := ZRes.shape_length ⟨zmark comps v, moveFront comps⟩
      simp only [hc2, hany, if_true] at hzl
      have hlen : (View.shape r).length = (ZRes.mk (zmark comps v) (moveFront comps)).shape.length
          + ((comps.filter Comp.isVec).length - 1) := by omega
      refine ⟨hlen, ?_⟩
      intro heq
      rw [heq] at hlen
      omega

example : 2 ≤ ([Comp.int 1, .tVec [0, 1], .tVec [2]].filter Comp.isVec).length ∧
    eagerIndex [.int 1, .tVec [0, 1], .tVec [2]] [2, 3, 4] = .ok [.drop 1, .pick [0, 1], .pick [2]] ∧
    numpyIndexZ [.int 1, .tVec [0, 1], .tVec [2]] [2, 3, 4] = .ok ⟨[.drop 1, .zip [0, 1], .zip [2, 2]], false⟩ ∧
    (ZRes.mk [.drop 1, .zip [0, 1], .zip [2, 2]] false).shape = [2] := by decide

/-- **The zip model extends the earlier NumPy model**: wherever `numpyIndexT` answers (at most one 1-D
index) `numpyIndexZ` gives the same per-axis maps — the axis of the 1-D index, if any, marked as the
(only) zipped one — and moves that axis first exactly when `numpyIndexT` does.  So the statements against
`numpyIndexT` and those against `numpyIndexZ` speak about one and the same NumPy. -/
theorem numpyIndexZ_of_numpyIndexT (comps : List Comp) (shape : List Nat) (n : NView)
    (h : numpyIndexT comps shape = .ok n) :
    numpyIndexZ comps shape = .ok ⟨zmark comps n.view, n.front.isSome⟩ := by
  unfold numpyIndexT at h
  by_cases h1 : comps.length > shape.length
  · rw [if_pos h1] at h; cases h
  rw [if_neg h1] at h
  by_cases h2 : (comps.filter Comp.isVec).length > 1
  · rw [if_pos h2] at h; cases h
  rw [if_neg h2] at h
  cases hax : axiswise numpyAxis comps shape with
  | error e => rw [hax] at h; cases h
  | ok v =>
    rw [hax] at h
    have hn : n = ⟨v, frontOf comps⟩ := by cases h; rfl
    subst hn
    obtain ⟨n0, hn0⟩ := all_vec_lengths_of_le_one comps (by omega)
    obtain ⟨m, hm, hid⟩ := bcast_equal_lengths comps n0 hn0
    unfold numpyIndexZ
    rw [if_neg h1, hm]
    simp only [hid, hax, moveFront_eq_frontOf comps (by omega)]
    rfl

example : numpyIndexT [.int 0, .full, .tVec [1, 0]] [2, 3, 4]
      = .ok ⟨[.drop 0, .pick [0, 1, 2], .pick [1, 0]], some 2⟩ ∧
    numpyIndexZ [.int 0, .full, .tVec [1, 0]] [2, 3, 4]
      = .ok ⟨[.drop 0, .pick [0, 1, 2], .zip [1, 0]], true⟩ ∧
    (ZRes.mk [.drop 0, .pick [0, 1, 2], .zip [1, 0]] true).shape = [2, 3] := by decide

end OV.Props.C11
