import OV.Model.Index
import OV.Lemmas.Index
import OV.Lemmas.IndexPlan
/-!
# C11 — tensor indexing and slicing mean what they mean in NumPy

Property theorems only.  Model: `OV.Model.Index`.
-/
namespace OV.Props.C11
open OV.Index

/-- **Per-axis heart, converter.**  For every dimension size `d` (no bound other than the
int64 sentinel), every pair of optional constant bounds and every non-zero step, the bounds the
converter hands to ONNX `Slice` normalise to exactly what CPython's slice adjustment gives —
provided a negative-step slice has no explicit start below `-d` (the hypothesis the proof
forces; its necessity is `slice_axis_conv_full_refuted`). -/
theorem slice_axis_conv_eq_py_partial (d : Int) (lo hi : Option Int) (step : Int)
    (hd0 : 0 < d) (hd : d < maxint) (hs : step ≠ 0)
    (hD22 : step < 0 → ∀ x, lo = some x → -d ≤ x) :
    onnxNorm d (convBounds lo hi step).1 (convBounds lo hi step).2 step = pyAdjust d lo hi step := by
  unfold onnxNorm convBounds pyAdjust maxint minint at *
  rcases lo with _ | x <;> rcases hi with _ | y <;> simp only [Option.getD] <;>
    by_cases h1 : step > 0 <;> by_cases h2 : step < 0 <;>
    simp only [h1, h2, if_true, if_false] <;>
    (try omega)
  all_goals (try (have hxx := hD22 h2 _ rfl))
  all_goals (refine Prod.ext ?_ ?_ <;> simp only [Int.min_def, Int.max_def] <;> (repeat' split) <;> omega)

/-- The full statement (without the start hypothesis) is false: `d = 3`, `A[-4::-1]`. -/
theorem slice_axis_conv_full_refuted :
    ¬ (∀ (d : Int) (lo hi : Option Int) (step : Int), 0 < d → d < maxint → step ≠ 0 →
        onnxNorm d (convBounds lo hi step).1 (convBounds lo hi step).2 step = pyAdjust d lo hi step) := by
  intro h
  have := h 3 (some (-4)) none (-1) (by decide) (by decide) (by decide)
  revert this; decide

/-- **Per-axis heart, eager mode.**  Same statement for the bounds `Tensor.__getitem__` computes
(`s.start or 0`, `shape[axis]`; `shape-1`, `-(shape+1)` for a negative step). -/
theorem slice_axis_eager_eq_py_partial (d : Int) (lo hi : Option Int) (step : Int)
    (hd0 : 0 < d) (hs : step ≠ 0)
    (hD22 : step < 0 → ∀ x, lo = some x → -d ≤ x) :
    onnxNorm d (eagerBounds d lo hi step).1 (eagerBounds d lo hi step).2 step = pyAdjust d lo hi step := by
  unfold onnxNorm eagerBounds pyAdjust at *
  rcases lo with _ | x <;> rcases hi with _ | y <;> simp only [Option.getD] <;>
    by_cases h1 : step > 0 <;> by_cases h2 : step < 0 <;>
    simp only [h1, h2, if_true, if_false] <;>
    (try omega)
  all_goals (try (have hxx := hD22 h2 _ rfl))
  all_goals (refine Prod.ext ?_ ?_ <;> simp only [Int.min_def, Int.max_def] <;> (repeat' split) <;> omega)

/-- Eager mode has the same defect: `Tensor(A)[-4::-1]`, `d = 3`. -/
theorem slice_axis_eager_full_refuted :
    ¬ (∀ (d : Int) (lo hi : Option Int) (step : Int), 0 < d → step ≠ 0 →
        onnxNorm d (eagerBounds d lo hi step).1 (eagerBounds d lo hi step).2 step = pyAdjust d lo hi step) := by
  intro h
  have := h 3 (some (-4)) none (-1) (by decide) (by decide)
  revert this; decide

/-- **List level, converter**: for *every* list (every length below the int64 sentinel, the empty
list included) the ONNX `Slice` of the converter's bounds selects exactly the elements Python's
`l[lo:hi:step]` selects. -/
theorem slice_list_conv_eq_numpy_partial {α} (l : List α) (lo hi : Option Int) (step : Int)
    (hlen : (l.length : Int) < maxint) (hs : step ≠ 0)
    (hD22 : step < 0 → ∀ x, lo = some x → -(l.length : Int) ≤ x) :
    onnxSliceList l (convBounds lo hi step).1 (convBounds lo hi step).2 step = pySliceList l lo hi step := by
  unfold onnxSliceList pySliceList
  rcases l with _ | ⟨a, t⟩
  · simp only [enumerate_nil]
  · have hpos : (0 : Int) < ((a :: t).length : Int) := by simp only [List.length_cons]; omega
    rw [slice_axis_conv_eq_py_partial _ lo hi step hpos hlen hs hD22]

/-- **List level, eager mode.** -/
theorem slice_list_eager_eq_numpy_partial {α} (l : List α) (lo hi : Option Int) (step : Int)
    (hs : step ≠ 0)
    (hD22 : step < 0 → ∀ x, lo = some x → -(l.length : Int) ≤ x) :
    onnxSliceList l (eagerBounds l.length lo hi step).1 (eagerBounds l.length lo hi step).2 step
      = pySliceList l lo hi step := by
  unfold onnxSliceList pySliceList
  rcases l with _ | ⟨a, t⟩
  · simp only [enumerate_nil]
  · have hpos : (0 : Int) < ((a :: t).length : Int) := by simp only [List.length_cons]; omega
    rw [slice_axis_eager_eq_py_partial _ lo hi step hpos hs hD22]

example : onnxSliceList [10, 20, 30, 40, 50] (convBounds none (some (-3)) (-2)).1
    (convBounds none (some (-3)) (-2)).2 (-2) = [50] ∧ pySliceList [10, 20, 30, 40, 50] none (some (-3)) (-2) = [50] := by
  decide

/-- **A scalar index as `i:i+1:1` + Squeeze** (both front ends do this when the Slice path is
taken).  For every list and every integer `i` the one-step slice is the singleton `[l[i]]` when
`0 ≤ i < n` or `-n ≤ i ≤ -2`, and is *empty* otherwise — in particular for `i = -1` — so the
following `Squeeze` fails: an error, never a different element. -/
theorem scalar_as_slice {α} (l : List α) (i : Int) :
    onnxSliceList l i (i + 1) 1 =
      (match (if i = -1 then none else normIdx l.length i) with
       | some k => (l[k]?).toList
       | none => []) := by
  unfold onnxSliceList onnxNorm normIdx
  have h1 : ¬ ((1 : Int) < 0) := by decide
  simp only [h1, if_false]
  by_cases hm1 : i = -1
  · subst hm1
    simp only [if_true]
    rw [sliceLen_empty_pos _ _ _ (by decide) (by simp only [Int.min_def, Int.max_def]; (repeat' split) <;> omega)]
    rfl
  · simp only [hm1, if_false]
    by_cases hin : 0 ≤ i ∧ i < (l.length : Int)
    · have e1 : max 0 (min (if i < 0 then i + ↑l.length else i) (↑l.length : Int)) = i := by
        simp only [Int.min_def, Int.max_def]; (repeat' split) <;> omega
      have e2 : max 0 (min (if i + 1 < 0 then i + 1 + ↑l.length else i + 1) (↑l.length : Int)) = i + 1 := by
        simp only [Int.min_def, Int.max_def]; (repeat' split) <;> omega
      rw [e1, e2, sliceLen_one, enumerate_one]
      simp only [hin, and_self, if_true]
    · simp only [hin, if_false]
      by_cases hneg : i < 0 ∧ -(l.length : Int) ≤ i
      · have e1 : max 0 (min (if i < 0 then i + ↑l.length else i) (↑l.length : Int)) = i + l.length := by
          simp only [Int.min_def, Int.max_def]; (repeat' split) <;> omega
        have e2 : max 0 (min (if i + 1 < 0 then i + 1 + ↑l.length else i + 1) (↑l.length : Int))
            = i + l.length + 1 := by
          simp only [Int.min_def, Int.max_def]; (repeat' split) <;> omega
        have h0 : (0 : Int) ≤ i + l.length := by omega
        rw [e1, e2, sliceLen_one, enumerate_one]
        simp only [hneg, and_self, if_true, h0]
      · simp only [hneg, if_false]
        rw [sliceLen_empty_pos _ _ _ (by decide)
          (by simp only [Int.min_def, Int.max_def]; (repeat' split) <;> omega)]
        rfl

example : onnxSliceList [10, 20, 30] (-2) (-1) 1 = [20] ∧ onnxSliceList [10, 20, 30] (-1) 0 1 = [] := by decide

/-- **Axis level, Slice path**: whenever the converter's Slice(+Squeeze) treatment of a constant
component yields a result on an axis (of any extent below the int64 sentinel), NumPy yields the
same result on that axis — given the D22 hypothesis for negative steps. -/
theorem graph_axis_refines_numpy_partial (c : Comp) (srcs : List Nat) (a : AxisMap)
    (hlen : (srcs.length : Int) < maxint)
    (hD22 : ∀ lo hi st, c = .slice lo hi st → (st.val?).getD 1 < 0 →
              ∀ x, lo.val? = some x → -(srcs.length : Int) ≤ x)
    (h : graphAxisSlicePath c srcs = .ok a) : numpyAxis c srcs = .ok a := by
  cases c with
  | full => simpa [graphAxisSlicePath, numpyAxis] using h
  | tScalar v => simp [graphAxisSlicePath] at h
  | tVec vs => simp [graphAxisSlicePath] at h
  | int i =>
    simp only [graphAxisSlicePath, scalar_as_slice] at h
    simp only [numpyAxis]
    by_cases hm1 : i = -1
    · simp [hm1, single?, Functor.map, Except.map] at h
    · simp only [hm1, if_false] at h
      cases hn : normIdx srcs.length i with
      | none => simp [hn, single?, Functor.map, Except.map] at h
      | some k =>
        simp only [hn] at h ⊢
        cases hk : srcs[k]? with
        | none => simp [hk, single?, Functor.map, Except.map] at h
        | some s => simpa [hk, single?, Functor.map, Except.map] using h
  | slice lo hi st =>
    have hstep : ∀ step, (st.val?).getD 1 = step → step ≠ 0 →
        onnxSliceList srcs (convBounds lo.val? hi.val? step).1 (convBounds lo.val? hi.val? step).2 step
          = pySliceList srcs lo.val? hi.val? step := by
      intro step hs hne
      exact slice_list_conv_eq_numpy_partial srcs _ _ step hlen hne
        (fun hneg x hx => hD22 lo hi st rfl (by rw [hs]; exact hneg) x hx)
    simp only [graphAxisSlicePath] at h
    by_cases hskip : lo = .none ∧ hi = .none ∧ st = .none
    · simp only [hskip, and_self, if_true] at h
      obtain ⟨rfl, rfl, rfl⟩ := hskip
      have e : (Bnd.none).val? = none := rfl
      simp only [numpyAxis, e, Option.getD]
      rw [pySliceList_full]
      exact h
    · simp only [hskip, if_false] at h
      cases st with
      | dyn v => simp at h
      | none =>
        have e : (Bnd.none).val? = none := rfl
        simp only [numpyAxis, e, Option.getD] at h ⊢
        rw [hstep 1 rfl (by decide)] at h
        exact h
      | const v =>
        have e : (Bnd.const v).val? = some v := rfl
        simp only [numpyAxis, e, Option.getD] at h ⊢
        by_cases hv : v = 0
        · simp [hv] at h
        · have hb : (v == 0) = false := by simpa using hv
          simp only [hb] at h ⊢
          rw [hstep v rfl hv] at h
          exact h

example : graphAxisSlicePath (.slice (.const 1) .none (.const 2)) [0, 1, 2, 3, 4] = .ok (.pick [1, 3]) := by decide
example : graphAxisSlicePath (.int (-2)) [0, 1, 2] = .ok (.drop 1) ∧
    graphAxisSlicePath (.int (-1)) [0, 1, 2] = .error .indexError := by decide

/-- **Whole expressions, Slice(+Squeeze) path.**  For every index expression made of constant
components (`:`, Python ints, slices with constant bounds — any number of them, any rank, any
dimension sizes below the int64 sentinel, including 0) for which the converter takes its
Slice path: if the translated graph returns a tensor, NumPy returns the same tensor.  The only
hypothesis beyond the code's own case split is the D22 one (a negative-step slice has no explicit
start below `-d`). -/
theorem graph_index_slicepath_correct_partial (comps : List Comp) (shape : List Nat) (r : View)
    (hbasic : ∀ c ∈ comps, c.basic = true)
    (hlen : comps.length ≤ shape.length)
    (hdims : ∀ d ∈ shape, (d : Int) < maxint)
    (hD22 : ∀ (j d : Nat) (lo hi st : Bnd), comps[j]? = some (.slice lo hi st) → shape[j]? = some d →
        (st.val?).getD 1 < 0 → ∀ x, lo.val? = some x → -(d : Int) ≤ x)
    (huse : useSlice comps = true)
    (h : graphIndex comps shape = .ok r) : numpyIndex comps shape = .ok r := by
  -- 1. shape of the plan
  have hns : nonScalarsOf comps = [] :=
    filter_zipIdx_none (fun c => c.kind == Kind.nonScalar) comps 0
      (fun c hc => basic_kind_ne_nonScalar c (hbasic c hc))
  unfold graphIndex planGraph at h
  by_cases hempty : ((slicedOf comps).isEmpty && (scalarsOf comps).isEmpty && (nonScalarsOf comps).isEmpty) = true
  · -- impossible: the Slice path needs a slice or two scalars
    exfalso
    simp only [Bool.and_eq_true, List.isEmpty_iff] at hempty
    have : useSlice comps = false := by simp [useSlice, hempty.1.1, hempty.1.2]
    rw [this] at huse; cases huse
  rw [if_neg hempty, huse] at h
  simp only [if_true] at h
  by_cases hnone : ((sliceEntriesOf comps).any Option.isNone) = true
  · rw [if_pos hnone] at h; simp [bind, Except.bind] at h
  rw [if_neg hnone, hns] at h
  simp only [List.filterMap_nil, List.append_nil, bind, Except.bind] at h
  -- 2. lookups
  have hE : ∀ j c, comps[j]? = some c →
      ((sliceEntriesOf comps).filterMap id).find? (fun e => e.axis == 0 + j) = entryOf c (0 + j) := by
    intro j c hj
    simp only [sliceEntriesOf, List.filterMap_map, List.map_append, List.filterMap_append, Nat.zero_add,
      List.find?_append, slicedOf, scalarsOf]
    have e1 := find_entries_zipIdx (fun c => c.kind == Kind.sliced) comps 0 j
    have e2 := find_entries_zipIdx (fun c => c.kind == Kind.scalar) comps 0 j
    simp only [Nat.zero_le, if_true, Nat.sub_zero, hj] at e1 e2
    have e1' : (List.filterMap (id ∘ fun p => entryOf p.1 p.2)
        (List.filter (fun p => p.1.kind == Kind.sliced) comps.zipIdx)).find? (fun e => e.axis == j)
        = if (c.kind == Kind.sliced) = true then entryOf c j else none := e1
    have e2' : (List.filterMap (id ∘ fun p => entryOf p.1 p.2)
        (List.filter (fun p => p.1.kind == Kind.scalar) comps.zipIdx)).find? (fun e => e.axis == j)
        = if (c.kind == Kind.scalar) = true then entryOf c j else none := e2
    rw [e1', e2']
    have hb := hbasic c (List.mem_of_getElem? hj)
    cases c with
    | tScalar v => simp [Comp.basic] at hb
    | tVec v => simp [Comp.basic] at hb
    | full => rfl
    | int i => rfl
    | slice lo hi st =>
      by_cases hskip : lo = .none ∧ hi = .none ∧ st = .none
      · obtain ⟨rfl, rfl, rfl⟩ := hskip
        rfl
      · have hk : (Comp.slice lo hi st).kind = Kind.sliced := by
          cases lo <;> cases hi <;> cases st <;> first | rfl | (exfalso; exact hskip ⟨rfl, rfl, rfl⟩)
        rw [hk]
        cases hent : entryOf (Comp.slice lo hi st) j <;> rfl
  have hE' : ∀ j, comps.length ≤ j →
      ((sliceEntriesOf comps).filterMap id).find? (fun e => e.axis == 0 + j) = none := by
    intro j hj
    simp only [sliceEntriesOf, List.filterMap_map, List.map_append, List.filterMap_append, Nat.zero_add,
      List.find?_append, slicedOf, scalarsOf]
    have e1 := find_entries_zipIdx (fun c => c.kind == Kind.sliced) comps 0 j
    have e2 := find_entries_zipIdx (fun c => c.kind == Kind.scalar) comps 0 j
    have hnone : comps[j]? = none := List.getElem?_eq_none hj
    simp only [Nat.zero_le, if_true, Nat.sub_zero, hnone] at e1 e2
    have e1' : (List.filterMap (id ∘ fun p => entryOf p.1 p.2)
        (List.filter (fun p => p.1.kind == Kind.sliced) comps.zipIdx)).find? (fun e => e.axis == j) = none := e1
    have e2' : (List.filterMap (id ∘ fun p => entryOf p.1 p.2)
        (List.filter (fun p => p.1.kind == Kind.scalar) comps.zipIdx)).find? (fun e => e.axis == j) = none := e2
    rw [e1', e2']; rfl
  have hS : ∀ j c, comps[j]? = some c →
      ((scalarsOf comps).map (fun p => p.2)).contains (0 + j) = c.isInt := by
    intro j c hj
    have := contains_zipIdx (fun c => c.kind == Kind.scalar) comps 0 j
    simp only [Nat.zero_le, if_true, Nat.sub_zero, hj] at this
    simp only [scalarsOf, Nat.zero_add]
    rw [this]
    have hb := hbasic c (List.mem_of_getElem? hj)
    cases c with
    | tScalar v => simp [Comp.basic] at hb
    | tVec v => simp [Comp.basic] at hb
    | full => rfl
    | int i => rfl
    | slice lo hi st => cases lo <;> cases hi <;> cases st <;> rfl
  have hS' : ∀ j, comps.length ≤ j → ((scalarsOf comps).map (fun p => p.2)).contains (0 + j) = false := by
    intro j hj
    have := contains_zipIdx (fun c => c.kind == Kind.scalar) comps 0 j
    have hnone : comps[j]? = none := List.getElem?_eq_none hj
    simp only [Nat.zero_le, if_true, Nat.sub_zero, hnone] at this
    simp only [scalarsOf, Nat.zero_add]
    exact this
  -- 3. run the plan
  have hax : axiswise graphAxisSlicePath comps shape = .ok r := by
    by_cases hsq : ((scalarsOf comps).map (fun p => p.2)).isEmpty = true
    · -- no Squeeze
      rw [if_pos hsq] at h
      have hrun : opSlice ((sliceEntriesOf comps).filterMap id) (View.init shape) = .ok r := by
        cases hsl : opSlice ((sliceEntriesOf comps).filterMap id) (View.init shape) with
        | error e => simp [runPlan, List.foldlM, runOp, hsl, bind, Except.bind] at h
        | ok v1 => simpa [runPlan, List.foldlM, runOp, hsl, bind, Except.bind, pure, Except.pure] using h
      obtain ⟨hz, hr⟩ := opSlice_ok _ _ _ hrun
      have hSnil : (scalarsOf comps).map (fun p => p.2) = [] := by simpa using hsq
      rw [hSnil] at hS hS'
      refine slice_squeeze_axiswise _ [] comps shape 0 r hlen hbasic hz hE hE' hS hS' ?_
      rw [squeeze_go_nil, hr]
    · rw [if_neg hsq] at h
      cases hsl : opSlice ((sliceEntriesOf comps).filterMap id) (View.init shape) with
      | error e => simp [runPlan, List.foldlM, runOp, hsl, bind, Except.bind] at h
      | ok v1 =>
        have hsqz : opSqueeze ((scalarsOf comps).map (fun p => p.2)) v1 = .ok r := by
          cases hq : opSqueeze ((scalarsOf comps).map (fun p => p.2)) v1 with
          | error e => simp [runPlan, List.foldlM, runOp, hsl, hq, bind, Except.bind] at h
          | ok v2 => simpa [runPlan, List.foldlM, runOp, hsl, hq, bind, Except.bind, pure, Except.pure] using h
        obtain ⟨hz, hr⟩ := opSlice_ok _ _ _ hsl
        have hgo := opSqueeze_ok _ _ _ hsqz
        rw [hr] at hgo
        exact slice_squeeze_axiswise _ _ comps shape 0 r hlen hbasic hz hE hE' hS hS' hgo
  -- 4. axis by axis into NumPy
  have hnp : axiswise numpyAxis comps shape = .ok r := by
    refine axiswise_mono graphAxisSlicePath numpyAxis comps shape r ?_ hax
    intro j c d a hc hd hg
    refine graph_axis_refines_numpy_partial c (List.range d) a ?_ ?_ hg
    · simp only [List.length_range]; exact hdims d (List.mem_of_getElem? hd)
    · intro lo hi st hcs hneg x hx
      subst hcs
      simp only [List.length_range]
      exact hD22 j d lo hi st hc hd hneg x hx
  -- 5. NumPy's guards do not fire on constant components
  unfold numpyIndex
  rw [if_neg (by omega)]
  have hv : comps.filter Comp.isVec = [] := filter_none _ _ (fun c hc => basic_not_vec c (hbasic c hc))
  rw [hv, if_neg (by simp), needsTranspose_basic comps hbasic]
  simpa using hnp

example : useSlice [.int 1, .full, .slice .none (.const (-1)) (.const 2)] = true ∧
    graphIndex [.int 1, .full, .slice .none (.const (-1)) (.const 2)] [2, 3, 4]
      = .ok [.drop 1, .pick [0, 1, 2], .pick [0, 2]] := by decide

/-- **Whole expressions, single-Gather path.**  For every index expression of constant components
for which the converter does *not* take the Slice path — exactly one Python int `i` (any sign, in
or out of range) among any number of `:` — if the translated graph returns a tensor, NumPy returns
the same tensor.  No hypothesis beyond the code's own case split is needed here. -/
theorem graph_index_gatherpath_correct (comps : List Comp) (shape : List Nat) (r : View)
    (hbasic : ∀ c ∈ comps, c.basic = true)
    (hlen : comps.length ≤ shape.length)
    (huse : useSlice comps = false)
    (h : graphIndex comps shape = .ok r) : numpyIndex comps shape = .ok r := by
  have hns : nonScalarsOf comps = [] :=
    filter_zipIdx_none (fun c => c.kind == Kind.nonScalar) comps 0
      (fun c hc => basic_kind_ne_nonScalar c (hbasic c hc))
  have huse' := huse
  simp only [useSlice, Bool.or_eq_false_iff, Bool.not_eq_false', decide_eq_false_iff_not] at huse'
  obtain ⟨hsl, hsc⟩ := huse'
  have hsl' : slicedOf comps = [] := by simpa using hsl
  have hnumpy : axiswise numpyAxis comps shape = .ok r → numpyIndex comps shape = .ok r := by
    intro hnp
    unfold numpyIndex
    rw [if_neg (by omega)]
    have hv : comps.filter Comp.isVec = [] := filter_none _ _ (fun c hc => basic_not_vec c (hbasic c hc))
    rw [hv, if_neg (by simp), needsTranspose_basic comps hbasic]
    simpa using hnp
  unfold graphIndex planGraph at h
  by_cases hempty : ((slicedOf comps).isEmpty && (scalarsOf comps).isEmpty && (nonScalarsOf comps).isEmpty) = true
  · -- only full slices: one Identity node, and NumPy returns the whole tensor too
    rw [if_pos hempty] at h
    simp only [Bool.and_eq_true, List.isEmpty_iff] at hempty
    have hr : r = View.init shape := by
      simpa [runPlan, List.foldlM, runOp, bind, Except.bind, pure, Except.pure] using h.symm
    subst hr
    refine hnumpy (axiswise_all_skip comps shape hlen ?_)
    intro c hc
    obtain ⟨j, hj⟩ := List.getElem?_of_mem hc
    have h1 := filter_zipIdx_nil_forall (fun c => c.kind == Kind.scalar) comps 0 hempty.1.2 j c hj
    have h2 := filter_zipIdx_nil_forall (fun c => c.kind == Kind.sliced) comps 0 hempty.1.1 j c hj
    have h3 := basic_kind_ne_nonScalar c (hbasic c hc)
    cases hk : c.kind <;> rw [hk] at h1 h2 h3 <;> first | rfl | (exact absurd h1 (by decide)) | (exact absurd h2 (by decide)) | (exact absurd h3 (by decide))
  rw [if_neg hempty, huse, hns] at h
  simp only [Bool.false_eq_true, if_false, List.nil_append, bind, Except.bind] at h
  -- exactly one scalar
  have hone : ∃ c j, scalarsOf comps = [(c, j)] := by
    rw [hsl', hns] at hempty
    cases hs : scalarsOf comps with
    | nil => simp [hs] at hempty
    | cons p rest =>
      cases rest with
      | nil => exact ⟨p.1, p.2, rfl⟩
      | cons q rest' => rw [hs] at hsc; simp at hsc
  obtain ⟨c, j, hs⟩ := hone
  obtain ⟨_, hget, hothers⟩ := filter_zipIdx_singleton (fun c => c.kind == Kind.scalar) comps 0 c j hs
  simp only [Nat.sub_zero] at hget hothers
  have hck : (c.kind == Kind.scalar) = true := by
    have : (c, j) ∈ scalarsOf comps := by rw [hs]; simp
    simp only [scalarsOf, List.mem_filter] at this
    exact this.2
  have hcb := hbasic c (List.mem_of_getElem? hget)
  obtain ⟨i, rfl⟩ : ∃ i, c = .int i := by
    cases c with
    | int i => exact ⟨i, rfl⟩
    | full => exact absurd hck (by decide)
    | tScalar v => simp [Comp.basic] at hcb
    | tVec v => simp [Comp.basic] at hcb
    | slice lo hi st => cases lo <;> cases hi <;> cases st <;> exact absurd hck (by intro h; cases h)
  rw [hs] at h
  simp only [List.filterMap_cons, gatherOp, List.filterMap_nil, runPlan, List.foldlM, runOp, bind,
    Except.bind, pure, Except.pure] at h
  have hmod : modifyPick j (gatherF i) (View.init shape) = .ok r := by
    rw [← opGatherScalar_eq]
    cases hg : opGatherScalar j i (View.init shape) with
    | error e => simp [hg] at h
    | ok v => simpa [hg] using h
  have hskip : ∀ (j' : Nat) (c' : Comp), j' ≠ j → comps[j']? = some c' → c'.kind = Kind.skip := by
    intro j' c' hne hc'
    have h1 := hothers j' c' hne hc'
    have h2 := filter_zipIdx_nil_forall (fun c => c.kind == Kind.sliced) comps 0 hsl' j' c' hc'
    have h3 := basic_kind_ne_nonScalar c' (hbasic c' (List.mem_of_getElem? hc'))
    cases hk : c'.kind <;> rw [hk] at h1 h2 h3 <;> first | rfl | (exact absurd h1 (by decide)) | (exact absurd h2 (by decide)) | (exact absurd h3 (by decide))
  have hnp := gather_axiswise i comps shape j r hlen hget hskip hmod
  unfold numpyIndex
  rw [if_neg (by omega)]
  have hv : comps.filter Comp.isVec = [] := filter_none _ _ (fun c hc => basic_not_vec c (hbasic c hc))
  rw [hv, if_neg (by simp), needsTranspose_basic comps hbasic]
  simpa using hnp

example : useSlice [.full, .int (-2)] = false ∧
    graphIndex [.full, .int (-2)] [2, 3] = .ok [.pick [0, 1], .drop 1] := by decide

/-- **Axis level, eager mode.** -/
theorem eager_axis_refines_numpy_partial (c : Comp) (srcs : List Nat) (a : AxisMap)
    (hb : c.basic = true)
    (hD22 : ∀ lo hi st, c = .slice lo hi st → (st.val?).getD 1 < 0 →
              ∀ x, lo.val? = some x → -(srcs.length : Int) ≤ x)
    (h : eagerAxisSlicePath c srcs = .ok a) : numpyAxis c srcs = .ok a := by
  cases c with
  | full => simpa [eagerAxisSlicePath, numpyAxis] using h
  | tScalar v => simp [Comp.basic] at hb
  | tVec vs => simp [Comp.basic] at hb
  | int i =>
    simp only [eagerAxisSlicePath, scalar_as_slice] at h
    simp only [numpyAxis]
    by_cases hm1 : i = -1
    · simp [hm1, single?, Functor.map, Except.map] at h
    · simp only [hm1, if_false] at h
      cases hn : normIdx srcs.length i with
      | none => simp [hn, single?, Functor.map, Except.map] at h
      | some k =>
        simp only [hn] at h ⊢
        cases hk : srcs[k]? with
        | none => simp [hk, single?, Functor.map, Except.map] at h
        | some s => simpa [hk, single?, Functor.map, Except.map] using h
  | slice lo hi st =>
    simp only [eagerAxisSlicePath] at h
    by_cases hskip : lo = .none ∧ hi = .none ∧ st = .none
    · simp only [hskip, and_self, if_true] at h
      obtain ⟨rfl, rfl, rfl⟩ := hskip
      have e : (Bnd.none).val? = none := rfl
      simp only [numpyAxis, e, Option.getD]
      rw [pySliceList_full]
      exact h
    · simp only [hskip, if_false] at h
      simp only [numpyAxis]
      by_cases hv : (st.val?).getD 1 = 0
      · simp [hv] at h
      · have hb0 : ((st.val?).getD 1 == 0) = false := by simpa using hv
        simp only [hb0] at h ⊢
        rw [slice_list_eager_eq_numpy_partial srcs _ _ _ hv
          (fun hneg x hx => hD22 lo hi st rfl hneg x hx)] at h
        exact h

/-- **Whole expressions, eager mode.**  For every index expression of constant components (`:`,
Python ints — which eager mode promotes to rank-0 tensors —, slices with constant bounds), any
rank, any dimension sizes: if `Tensor.__getitem__` returns a tensor, NumPy returns the same
tensor — given only the D22 hypothesis for negative steps.  All three paths of the code are
covered: Identity (only `:`), single Gather (one int, no slice), Slice + `np.squeeze`. -/
theorem eager_index_correct_partial (comps : List Comp) (shape : List Nat) (r : View)
    (hbasic : ∀ c ∈ comps, c.basic = true)
    (hD22 : ∀ (j d : Nat) (lo hi st : Bnd), comps[j]? = some (.slice lo hi st) → shape[j]? = some d →
        (st.val?).getD 1 < 0 → ∀ x, lo.val? = some x → -(d : Int) ≤ x)
    (h : eagerIndex comps shape = .ok r) : numpyIndex comps shape = .ok r := by
  -- NumPy's guards never fire on constant components within rank
  have hnumpy : comps.length ≤ shape.length → axiswise numpyAxis comps shape = .ok r →
      numpyIndex comps shape = .ok r := by
    intro hl hnp
    unfold numpyIndex
    rw [if_neg (by omega)]
    have hv : comps.filter Comp.isVec = [] := filter_none _ _ (fun c hc => basic_not_vec c (hbasic c hc))
    rw [hv, if_neg (by simp), needsTranspose_basic comps hbasic]
    simpa using hnp
  have hvecs : eVecsOf comps = [] :=
    filter_zipIdx_none Comp.isVec comps 0 (fun c hc => basic_not_vec c (hbasic c hc))
  unfold eagerIndex planEager at h
  by_cases hlen : comps.length > shape.length
  · rw [if_pos hlen] at h; simp [bind, Except.bind] at h
  rw [if_neg hlen] at h
  have hlen' : comps.length ≤ shape.length := by omega
  rw [hvecs] at h
  simp only [List.filterMap_nil, List.append_nil, List.isEmpty_nil, Bool.and_true] at h
  -- kinds of basic components
  have hkind : ∀ (c : Comp), c.basic = true → c.isEagerSliced = false → c.isEagerScalar = false →
      c.kind = Kind.skip := by
    intro c hb hs hsc
    cases c with
    | full => rfl
    | int i => simp [Comp.isEagerScalar] at hsc
    | tScalar v => simp [Comp.basic] at hb
    | tVec v => simp [Comp.basic] at hb
    | slice lo hi st =>
      have : lo = .none ∧ hi = .none ∧ st = .none := by
        simpa [Comp.isEagerSliced] using hs
      obtain ⟨rfl, rfl, rfl⟩ := this
      rfl
  by_cases hempty : ((eSlicedOf comps).isEmpty && (eScalarsOf comps).isEmpty) = true
  · -- Identity
    rw [if_pos hempty] at h
    simp only [Bool.and_eq_true, List.isEmpty_iff] at hempty
    have hr : r = View.init shape := by
      simpa [runPlan, List.foldlM, runOp, bind, Except.bind, pure, Except.pure] using h.symm
    subst hr
    refine hnumpy hlen' (axiswise_all_skip comps shape hlen' ?_)
    intro c hc
    obtain ⟨j, hj⟩ := List.getElem?_of_mem hc
    exact hkind c (hbasic c hc)
      (filter_zipIdx_nil_forall Comp.isEagerSliced comps 0 hempty.1 j c hj)
      (filter_zipIdx_nil_forall Comp.isEagerScalar comps 0 hempty.2 j c hj)
  rw [if_neg hempty] at h
  by_cases hg : ((eSlicedOf comps).isEmpty && ((eScalarsOf comps).length == 1)) = true
  · -- single Gather
    rw [if_pos hg] at h
    simp only [Bool.and_eq_true, List.isEmpty_iff, beq_iff_eq] at hg
    obtain ⟨hsl, hone⟩ := hg
    obtain ⟨c, j, hs⟩ : ∃ c j, eScalarsOf comps = [(c, j)] := by
      cases hsc : eScalarsOf comps with
      | nil => rw [hsc] at hone; simp at hone
      | cons p rest =>
        cases rest with
        | nil => exact ⟨p.1, p.2, rfl⟩
        | cons q rest' => rw [hsc] at hone; simp at hone
    obtain ⟨_, hget, hothers⟩ := filter_zipIdx_singleton Comp.isEagerScalar comps 0 c j hs
    simp only [Nat.sub_zero] at hget hothers
    have hcs : c.isEagerScalar = true := by
      have : (c, j) ∈ eScalarsOf comps := by rw [hs]; simp
      simp only [eScalarsOf, List.mem_filter] at this
      exact this.2
    have hcb := hbasic c (List.mem_of_getElem? hget)
    obtain ⟨i, rfl⟩ : ∃ i, c = .int i := by
      cases c with
      | int i => exact ⟨i, rfl⟩
      | full => simp [Comp.isEagerScalar] at hcs
      | tScalar v => simp [Comp.basic] at hcb
      | tVec v => simp [Comp.basic] at hcb
      | slice lo hi st => simp [Comp.isEagerScalar] at hcs
    rw [hs] at h
    simp only [List.map_cons, List.map_nil, Comp.scalarVal, runPlan, List.foldlM, runOp, bind, Except.bind,
      pure, Except.pure] at h
    have hmod : modifyPick j (gatherF i) (View.init shape) = .ok r := by
      rw [← opGatherScalar_eq]
      cases hgs : opGatherScalar j i (View.init shape) with
      | error e => simp [hgs] at h
      | ok v => simpa [hgs] using h
    have hskip : ∀ (j' : Nat) (c' : Comp), j' ≠ j → comps[j']? = some c' → c'.kind = Kind.skip := by
      intro j' c' hne hc'
      exact hkind c' (hbasic c' (List.mem_of_getElem? hc'))
        (filter_zipIdx_nil_forall Comp.isEagerSliced comps 0 hsl j' c' hc')
        (hothers j' c' hne hc')
    exact hnumpy hlen' (gather_axiswise i comps shape j r hlen' hget hskip hmod)
  · -- Slice (+ np.squeeze)
    rw [if_neg hg] at h
    have hany : (!(eSlicedOf comps).isEmpty || !(eScalarsOf comps).isEmpty) = true := by
      cases h1 : (eSlicedOf comps).isEmpty <;> cases h2 : (eScalarsOf comps).isEmpty <;> simp_all
    rw [if_pos hany] at h
    -- lookups
    have gax : ∀ c j e, entryOfEager c j (shape.getD j 0) = some e → e.axis = j := by
      intro c j e he
      cases c with
      | full => simp [entryOfEager] at he
      | tVec v => simp [entryOfEager] at he
      | int i => simp [entryOfEager] at he; rw [← he]
      | tScalar i => simp [entryOfEager] at he; rw [← he]
      | slice lo hi st =>
        have he' : (if lo = .none ∧ hi = .none ∧ st = .none then none else
            some (⟨j, (eagerBounds (shape.getD j 0) lo.val? hi.val? ((st.val?).getD 1)).1,
              (eagerBounds (shape.getD j 0) lo.val? hi.val? ((st.val?).getD 1)).2,
              (st.val?).getD 1⟩ : SliceEntry)) = some e := he
        by_cases hsk : lo = .none ∧ hi = .none ∧ st = .none
        · rw [if_pos hsk] at he'; simp at he'
        · rw [if_neg hsk] at he'; simp at he'; rw [← he']
    have hfind : ∀ (j : Nat), (eagerEntriesOf comps shape).find? (fun e => e.axis == j)
        = (match comps[j]? with
           | some c => (if c.isEagerSliced then entryOfEager c j (shape.getD j 0) else none).or
                       (if c.isEagerScalar then entryOfEager c j (shape.getD j 0) else none)
           | none => none) := by
      intro j
      simp only [eagerEntriesOf, List.filterMap_append, List.find?_append, eSlicedOf, eScalarsOf]
      have e1 := find_entries_zipIdx_gen Comp.isEagerSliced
        (fun c j => entryOfEager c j (shape.getD j 0)) gax comps 0 j
      have e2 := find_entries_zipIdx_gen Comp.isEagerScalar
        (fun c j => entryOfEager c j (shape.getD j 0)) gax comps 0 j
      simp only [Nat.zero_le, if_true, Nat.sub_zero] at e1 e2
      rw [e1, e2]
      cases comps[j]? <;> rfl
    have hE : ∀ (j : Nat) (c : Comp) (d : Nat), comps[j]? = some c → shape[j]? = some d →
        (eagerEntriesOf comps shape).find? (fun e => e.axis == 0 + j) = entryOfEager c (0 + j) d := by
      intro j c d hj hd
      have hd' : shape.getD j 0 = d := by simp [List.getD, hd]
      rw [Nat.zero_add, hfind j, hj]
      simp only [hd']
      have hb := hbasic c (List.mem_of_getElem? hj)
      cases c with
      | tScalar v => simp [Comp.basic] at hb
      | tVec v => simp [Comp.basic] at hb
      | full => rfl
      | int i => rfl
      | slice lo hi st =>
        by_cases hsk : lo = .none ∧ hi = .none ∧ st = .none
        · obtain ⟨rfl, rfl, rfl⟩ := hsk; rfl
        · have h1 : (Comp.slice lo hi st).isEagerSliced = true := by simp [Comp.isEagerSliced, hsk]
          have h2 : (Comp.slice lo hi st).isEagerScalar = false := rfl
          simp only [h1, h2, if_true, Bool.false_eq_true, if_false, Option.or_none]
    have hE' : ∀ j, comps.length ≤ j →
        (eagerEntriesOf comps shape).find? (fun e => e.axis == 0 + j) = none := by
      intro j hj
      rw [Nat.zero_add, hfind j, List.getElem?_eq_none hj]
    have hS : ∀ (j : Nat) (c : Comp), comps[j]? = some c →
        ((eScalarsOf comps).map (fun p => p.2)).contains (0 + j) = c.isEagerScalar := by
      intro j c hj
      have := contains_zipIdx Comp.isEagerScalar comps 0 j
      simp only [Nat.zero_le, if_true, Nat.sub_zero, hj] at this
      simp only [eScalarsOf, Nat.zero_add]
      exact this
    have hS' : ∀ j, comps.length ≤ j →
        ((eScalarsOf comps).map (fun p => p.2)).contains (0 + j) = false := by
      intro j hj
      have := contains_zipIdx Comp.isEagerScalar comps 0 j
      simp only [Nat.zero_le, if_true, Nat.sub_zero, List.getElem?_eq_none hj] at this
      simp only [eScalarsOf, Nat.zero_add]
      exact this
    -- run the plan
    cases hsl : opSlice (eagerEntriesOf comps shape) (View.init shape) with
    | error e =>
      by_cases hsq : (eScalarsOf comps).isEmpty = true <;>
        simp [hsq, runPlan, List.foldlM, runOp, hsl, bind, Except.bind] at h
    | ok v1 =>
      obtain ⟨hz, hv1⟩ := opSlice_ok _ _ _ hsl
      -- every component's step is non-zero (else Slice would have failed)
      have hstep : ∀ c ∈ comps, c.basic = true ∧
          (∀ lo hi st, c = .slice lo hi st → ¬ (lo = .none ∧ hi = .none ∧ st = .none) →
            (st.val?).getD 1 ≠ 0) := by
        intro c hc
        refine ⟨hbasic c hc, ?_⟩
        intro lo hi st hcs hsk h0
        subst hcs
        obtain ⟨j, hj⟩ := List.getElem?_of_mem hc
        have hjl : j < shape.length := by
          have := List.getElem?_eq_some_iff.mp hj |>.1
          omega
        have hfd := hE j _ (shape[j]) hj (by simp [hjl])
        have hent : entryOfEager (.slice lo hi st) (0 + j) shape[j]
            = some ⟨0 + j, (eagerBounds shape[j] lo.val? hi.val? ((st.val?).getD 1)).1,
                (eagerBounds shape[j] lo.val? hi.val? ((st.val?).getD 1)).2, (st.val?).getD 1⟩ := by
          show (if _ then _ else _) = _
          rw [if_neg hsk]
        rw [hent] at hfd
        exact hz _ (List.mem_of_find?_eq_some hfd) h0
      have hgo : opSqueeze.go ((eScalarsOf comps).map (fun p => p.2)) 0
          (opSlice.go (eagerEntriesOf comps shape) 0 (View.init shape)) = .ok r := by
        by_cases hsq : (eScalarsOf comps).isEmpty = true
        · have hSnil : (eScalarsOf comps).map (fun p => p.2) = [] := by
            simp only [List.isEmpty_iff] at hsq; simp [hsq]
          rw [hSnil, squeeze_go_nil, ← hv1]
          simpa [hsq, runPlan, List.foldlM, runOp, hsl, bind, Except.bind, pure, Except.pure] using h
        · have hsq' : (eScalarsOf comps).isEmpty = false := by simpa using hsq
          cases hq : opSqueeze ((eScalarsOf comps).map (fun p => p.2)) v1 with
          | error e =>
            simp [hsq', runPlan, List.foldlM, runOp, hsl, hq, bind, Except.bind] at h
          | ok v2 =>
            have : v2 = r := by
              simpa [hsq', runPlan, List.foldlM, runOp, hsl, hq, bind, Except.bind, pure, Except.pure] using h
            subst this
            have := opSqueeze_ok _ _ _ hq
            rwa [hv1] at this
      have hax := slice_squeeze_axiswise_gen (eagerEntriesOf comps shape)
        ((eScalarsOf comps).map (fun p => p.2)) entryOfEager Comp.isEagerScalar eagerAxisSlicePath
        (fun c => c.basic = true ∧ (∀ lo hi st, c = .slice lo hi st →
            ¬ (lo = .none ∧ hi = .none ∧ st = .none) → (st.val?).getD 1 ≠ 0))
        (by
          intro c j d hP
          obtain ⟨hb, hst⟩ := hP
          cases c with
          | tScalar v => simp [Comp.basic] at hb
          | tVec v => simp [Comp.basic] at hb
          | full => simp [eagerAxisSlicePath, axisAfter, entryOfEager, applyEntry, Comp.isEagerScalar]
          | int i => simp [eagerAxisSlicePath, axisAfter, entryOfEager, applyEntry, Comp.isEagerScalar]
          | slice lo hi st =>
            by_cases hsk : lo = .none ∧ hi = .none ∧ st = .none
            · simp [eagerAxisSlicePath, axisAfter, entryOfEager, applyEntry, Comp.isEagerScalar, hsk]
            · have h0 := hst lo hi st rfl hsk
              have hb0 : ((st.val?).getD 1 == 0) = false := by simpa using h0
              simp [eagerAxisSlicePath, axisAfter, entryOfEager, applyEntry, Comp.isEagerScalar, hsk, hb0])
        comps shape 0 r hlen' hstep hE hE' hS hS' hgo
      refine hnumpy hlen' (axiswise_mono eagerAxisSlicePath numpyAxis comps shape r ?_ hax)
      intro j c d a hc hd hg'
      refine eager_axis_refines_numpy_partial c (List.range d) a (hbasic c (List.mem_of_getElem? hc)) ?_ hg'
      intro lo hi st hcs hneg x hx
      subst hcs
      simp only [List.length_range]
      exact hD22 j d lo hi st hc hd hneg x hx

example : eagerIndex [.int (-2), .slice (.const 1) .none .none] [3, 4] = .ok [.drop 1, .pick [1, 2, 3]] := by
  decide

/-- Whole expressions, full statement: "if the translated graph returns a tensor, it is NumPy's".
**Refuted** on the model of the unchanged converter by `A[i, 0]` (`i` a rank-0 tensor holding 1,
`A : 2×3×4`): the plan gathers axis 0 (rank drops) and then gathers axis **1** of the reduced
tensor — finding D7, replayed on the real converter by the check. -/
theorem graph_index_full_refuted :
    ¬ (∀ comps shape r, graphIndex comps shape = .ok r → numpyIndex comps shape = .ok r) := by
  intro h
  have := h [.tScalar 1, .int 0] [2, 3, 4] [.drop 1, .pick [0, 1, 2], .drop 0] (by decide)
  revert this; decide

/-- The same expression in eager mode is right (both scalars go through Slice + squeeze), so the two
front ends disagree with each other on it. -/
theorem eager_index_witness_ok :
    eagerIndex [.tScalar 1, .int 0] [2, 3, 4] = numpyIndex [.tScalar 1, .int 0] [2, 3, 4] := by decide

/-- D22 at the level of whole expressions: `A[-4::-1]` on a length-3 tensor. -/
theorem graph_index_d22_witness :
    graphIndex [.slice (.const (-4)) .none (.const (-1))] [3] = .ok [.pick [0]] ∧
    eagerIndex [.slice (.const (-4)) .none (.const (-1))] [3] = .ok [.pick [0]] ∧
    numpyIndex [.slice (.const (-4)) .none (.const (-1))] [3] = .ok [.pick []] := by decide

/-- Refusal: a slice whose step is tensor-valued and whose start is omitted (`A[:hi:k]`, `A[::k]`). -/
theorem dyn_step_omitted_start_refused (hi : Bnd) (s : Int) :
    planGraph [.slice .none hi (.dyn s)] = .error .refused := by
  cases hi <;> rfl

/-- Refusal: likewise with the stop omitted (`A[lo::k]`). -/
theorem dyn_step_omitted_stop_refused (lo : Bnd) (s : Int) :
    planGraph [.slice lo .none (.dyn s)] = .error .refused := by
  cases lo <;> rfl

/-- An index of only full slices (`A[:]`, `A[:, :]`, …) translates to a single Identity node, and
the graph returns the whole tensor — NumPy's result.  (Before /repo commit 35a0ff1 this form died
with AttributeError at decoration time: finding C01-D37, fixed.) -/
theorem all_full_identity (n : Nat) : planGraph (List.replicate n .full) = .ok [.identity] := by
  have h : ∀ (k : Nat) (f : Comp × Nat → Bool), (∀ m, f (.full, m) = false) →
      ((List.replicate n Comp.full).zipIdx k).filter f = [] := by
    intro k f hf
    induction n generalizing k with
    | zero => rfl
    | succ n ih => simp [List.replicate_succ, List.zipIdx_cons, hf, ih]
  have h1 : slicedOf (List.replicate n .full) = [] := h 0 _ (by intro m; rfl)
  have h2 : scalarsOf (List.replicate n .full) = [] := h 0 _ (by intro m; rfl)
  have h3 : nonScalarsOf (List.replicate n .full) = [] := h 0 _ (by intro m; rfl)
  unfold planGraph
  rw [if_pos (by rw [h1, h2, h3]; rfl)]

/-- … and the view it computes is the initial view of the tensor, which is what NumPy returns. -/
theorem all_full_correct (n : Nat) (shape : List Nat) (hn : n ≤ shape.length) :
    graphIndex (List.replicate n .full) shape = .ok (View.init shape) ∧
    numpyIndex (List.replicate n .full) shape = .ok (View.init shape) := by
  refine ⟨?_, ?_⟩
  · unfold graphIndex
    rw [all_full_identity]
    rfl
  · have hb : ∀ c ∈ List.replicate n Comp.full, c.basic = true := by
      intro c hc; rw [List.eq_of_mem_replicate hc]; rfl
    unfold numpyIndex
    rw [if_neg (by simp; omega)]
    have hv : (List.replicate n Comp.full).filter Comp.isVec = [] :=
      filter_none _ _ (fun c hc => basic_not_vec c (hb c hc))
    rw [hv, if_neg (by simp), needsTranspose_basic _ hb]
    simp only [Bool.false_eq_true, if_false]
    exact axiswise_all_skip _ shape (by simpa using hn)
      (fun c hc => by rw [List.eq_of_mem_replicate hc]; rfl)

end OV.Props.C11
