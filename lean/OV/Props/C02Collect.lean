import OV.Lemmas.C02Collect
/-!
# C02, second file — the import lists and the function list of the emitted protos

Property theorems only (model: `OV.Model.C02Collect`, the transcription of `IRFunction.append_node`,
`Converter._exit_scope`, `IRFunction.get_called_functions` and the import part of `OnnxFunction._to_model_proto`).
The clause of C02 they are about: *"every operator domain used is imported with a single version"*, and (for
`to_model_proto`) that the model carries every function it calls — without which the proto is not loadable.

* `function_imports_cover`   — FunctionProto: every domain used at any depth is a key of the import table, keys distinct;
* `imports_first_version_kept` — a table only grows: whatever was imported keeps its version;
* `collect_total`            — `get_called_functions` terminates within the model's step budget, GIVEN `RefsOK` (no callee
                                 reference dangles: on the stack and in every function of the world);
* `collect_by_ident_closed`  — **the closure theorem of the current code** (dict keyed by `(domain, name)`, d4270e9): every
                                 function called from the main body or from a listed function is listed under its
                                 identifier; identifiers distinct; entries are `identifier of f ↦ f`.  Conditional on the walk
                                 returning (`collect w main = some r`; `collect_total` gives that under `RefsOK`), nothing
                                 assumed about names or domains;
* `collect_only_reachable`   — every listed function is reachable from the main body (nothing superfluous is listed);
* about the PRE-FIX walk `collectByName` (dict keyed by `f.name`; not the code any more — regression record of C02-D1):
  `name_keyed_closed_by_name`, `name_keyed_closed_partial` (closed by identifier only when no name is used in two
  domains) and `collect_closed_full_refuted` (without that hypothesis the name-keyed walk drops the second `foo`);
* `to_model_env`             — ModelProto: keys distinct, every domain used in the main graph at any depth imported with the
                                 version the function body had, the default domain imported, the domain of every listed
                                 function imported, listed identifiers distinct.
-/
namespace OV.Props.C02
open OV.C02

/-- **FunctionProto imports.**  For every node list (any nesting of `If` / `Loop` bodies), the table built by
`append_node` on each graph and merged by `_exit_scope` has pairwise distinct domains and contains every operator
domain used at any depth (C01-D29 was the failure of the second clause: imports collected from top-level nodes only). -/
theorem function_imports_cover (nodes : List CNode) :
    (keys (graphImports [] nodes)).Nodup ∧ ∀ d, d ∈ domainsL nodes → d ∈ keys (graphImports [] nodes) := by
  have g := graphImports_good nodes []
  exact ⟨g.nodup (by simp [keys]), fun d hd => (hasKey_iff_mem _ _).mp (g.covers d hd)⟩

/-- **The first version seen for a domain is the one imported** (`append_node` only warns on a second version;
`setdefault` in `_exit_scope`): continuing the translation after `imp` never changes the version of a domain `imp` has. -/
theorem imports_first_version_kept (imp : Imports) (nodes : List CNode) (d : String) (h : hasKey imp d = true) :
    lookup (graphImports imp nodes) d = lookup imp d :=
  (graphImports_good nodes imp).ext.look h

example : graphImports [] [.op "c.dom" 1 none, .ifN 18 [.op "c.dom" 2 none, .op "d.dom" 3 none] [.op "" 17 none]]
    = [("c.dom", 1), ("d.dom", 3), ("", 17)] := by decide

/-- **`get_called_functions` terminates**: when no callee reference dangles (every `meta["callee"]` is an object), the
walk finishes within `|references of main| + Σ |references of each function|` steps — the budget of `collect`. -/
theorem collect_total (w : World) (main : List CNode) (h : RefsOK w (calleesL main)) :
    ∃ r, collect w main = some r :=
  visitBy_total ident w _ (calleesL main) [] h (Nat.le_refl _)

/-- **`collect_by_ident_closed`: every called function is in `ModelProto.functions`** (the code since d4270e9:
`called_functions` keyed by `(f.function_ir.domain, f.name)`).  Whatever the world: the identifiers in the dict are
pairwise distinct, every entry is `identifier of f ↦ f`, every function called from the main body at any depth is listed
under its identifier, and so is every function called from a listed function.  Hypothesis: the walk returned
(`collect w main = some r`, provided by `collect_total` when no reference dangles); nothing is assumed about names. -/
theorem collect_by_ident_closed (w : World) (main : List CNode) (r : Called) (h : collect w main = some r) :
    (r.map (·.1)).Nodup
      ∧ (∀ p, p ∈ r → ∃ f, w[p.2]? = some f ∧ ident f = p.1)
      ∧ (∀ c, c ∈ calleesL main → ∀ g, w[c]? = some g → ident g ∈ r.map (·.1))
      ∧ (∀ p, p ∈ r → ∀ f, w[p.2]? = some f → ∀ c, c ∈ calleesL f.nodes → ∀ g, w[c]? = some g →
            ident g ∈ r.map (·.1)) := by
  have s := visitBy_spec ident w _ _ _ _ h
  refine ⟨s.nodup (by simp), s.entries (fun p hp => by simp at hp),
    fun c hc g hg => (hasK_iff_mem r _).mp (s.stackDone c hc g hg), ?_⟩
  intro p hp f hf c hc g hg
  rcases s.closed (fun p hp => by simp at hp) p hp f hf c hc g hg with h1 | h1
  · exact (hasK_iff_mem r _).mp h1
  · simp at h1

/-- **Nothing else is listed**: every function `get_called_functions` returns is called from the main body, directly
or through other functions (`Reach`: the least set containing main's callee references and closed under "callee of") —
`ModelProto.functions` holds no function the model does not use. -/
theorem collect_only_reachable (w : World) (main : List CNode) (r : Called) (h : collect w main = some r) :
    ∀ p, p ∈ r → Reach w (calleesL main) p.2 :=
  visitBy_reach ident w (calleesL main) _ _ _ _ h (fun p hp => by simp at hp) (fun c hc => Reach.root hc)

/-- Regression witness of C02-D1 (fixed by d4270e9): `foo` defined in `dom.a` and another `foo` in `dom.b`; `main`
calls both. -/
def dupWorld : World :=
  [{ name := "foo", domain := "dom.a", version := 1, nodes := [.op "" 18 none] },
   { name := "foo", domain := "dom.b", version := 1, nodes := [.op "" 18 none] }]
def dupMain : List CNode := [.op "dom.a" 1 (some 0), .op "dom.b" 1 (some 1), .op "" 18 none]

/-- … the code lists both `foo`; the name-keyed walk listed one. -/
example : collect dupWorld dupMain = some [(("dom.a", "foo"), 0), (("dom.b", "foo"), 1)]
    ∧ collectByName dupWorld dupMain = some [("foo", 0)] := by decide

/-- Non-vacuity of `collect_by_ident_closed` / `collect_total` / `collect_only_reachable`: `main` calls `h2` inside a
branch, `h2` calls `h0` inside a loop body and `h1` at top level, `h1` calls `h0`. -/
def nestWorld : World :=
  [{ name := "h0", domain := "dom.a", version := 1, nodes := [.op "" 18 none] },
   { name := "h1", domain := "dom.b", version := 2, nodes := [.op "dom.a" 1 (some 0), .op "cust" 3 none] },
   { name := "h2", domain := "dom.a", version := 1,
     nodes := [.loop 18 [.op "dom.a" 1 (some 0)], .op "dom.b" 2 (some 1)] }]
def nestMain : List CNode := [.op "" 18 none, .ifN 18 [.op "dom.a" 1 (some 2)] [.op "" 18 none]]

example : collect nestWorld nestMain = some [(("dom.a", "h2"), 2), (("dom.a", "h0"), 0), (("dom.b", "h1"), 1)] := by
  decide
example : RefsOK nestWorld (calleesL nestMain) := by
  refine ⟨by decide, ?_⟩
  intro f hf
  simp only [nestWorld, List.mem_cons, List.not_mem_nil, or_false] at hf
  rcases hf with rfl | rfl | rfl <;> decide
example : Reach nestWorld (calleesL nestMain) 1 :=
  Reach.step (p := 2) (f := nestWorld[2]) (Reach.root (by decide)) rfl (by decide)

/-! ### the walk before d4270e9 (dict keyed by `f.name`) — why the key had to change -/

/-- **The name-keyed walk is closed under "calls" by name only.**  Names (dict keys) pairwise distinct, every entry is
`name of f ↦ f`, every function called from the main body or from a listed function has its *name* among the keys.
(About `collectByName`, the pre-fix algorithm; the code is `collect`.) -/
theorem name_keyed_closed_by_name (w : World) (main : List CNode) (r : List (String × Nat))
    (h : collectByName w main = some r) :
    (r.map (·.1)).Nodup ∧ EntriesBy CFunc.name w r
      ∧ (∀ c, c ∈ calleesL main → ∀ g, w[c]? = some g → g.name ∈ r.map (·.1))
      ∧ (∀ p, p ∈ r → ∀ f, w[p.2]? = some f → ∀ c, c ∈ calleesL f.nodes → ∀ g, w[c]? = some g →
            g.name ∈ r.map (·.1)) := by
  have s := visitBy_spec CFunc.name w _ _ _ _ h
  refine ⟨s.nodup (by simp), s.entries (fun p hp => by simp at hp),
    fun c hc g hg => (hasK_iff_mem r _).mp (s.stackDone c hc g hg), ?_⟩
  intro p hp f hf c hc g hg
  rcases s.closed (fun p hp => by simp at hp) p hp f hf c hc g hg with h1 | h1
  · exact (hasK_iff_mem r _).mp h1
  · simp at h1

/-- **`name_keyed_closed_partial`** (was `collect_closed_partial` while the code was name-keyed): the name-keyed walk lists
every called function under its identifier `(domain, name)` *provided* no function name is used in two domains
(`NamesIdentify`).  The hypothesis is forced for that walk: `collect_closed_full_refuted`. -/
theorem name_keyed_closed_partial (w : World) (main : List CNode) (r : List (String × Nat))
    (h : collectByName w main = some r) (hid : NamesIdentify w) :
    (∀ c, c ∈ calleesL main → ∀ g, w[c]? = some g → ident g ∈ (funcsOf w (r.map (·.2))).map ident)
      ∧ (∀ f, f ∈ funcsOf w (r.map (·.2)) → ∀ c, c ∈ calleesL f.nodes → ∀ g, w[c]? = some g →
            ident g ∈ (funcsOf w (r.map (·.2))).map ident) := by
  obtain ⟨_, he, h1, h2⟩ := name_keyed_closed_by_name w main r h
  refine ⟨fun c hc g hg => mem_funcsOf_ident he hid hg (h1 c hc g hg), ?_⟩
  intro f hf c hc g hg
  obtain ⟨i, hi, hfi⟩ := List.mem_filterMap.mp hf
  obtain ⟨p, hp, rfl⟩ := List.mem_map.mp hi
  exact mem_funcsOf_ident he hid hg (h2 p hp f hfi c hc g hg)

example : NamesIdentify nestWorld := namesIdentify_of_check _ (by decide)
example : collectByName nestWorld nestMain = some [("h2", 2), ("h0", 0), ("h1", 1)] := by decide

/-- **The name-keyed walk does not list every called function** (finding C02-D1, fixed by d4270e9 — a statement about
`collectByName`, the pre-fix algorithm, NOT about the code's `collect`): of two called functions with one name in two
domains it lists only the first; the node calling `dom.b:foo` referred to a function the model did not contain
(onnxruntime: "dom.b:foo(-1) is not a registered function/op").  The real-code witness `w_c02d1` runs on every check and
must now list both. -/
theorem collect_closed_full_refuted :
    ¬ (∀ (w : World) (main : List CNode) (r : List (String × Nat)), collectByName w main = some r →
        ∀ c, c ∈ calleesL main → ∀ g, w[c]? = some g → ident g ∈ (funcsOf w (r.map (·.2))).map ident) := by
  intro h
  have := h dupWorld dupMain [("foo", 0)] (by decide) 1 (by decide) _ rfl
  revert this
  decide

/-- **`to_model_env`: the import list and the function list of `to_model_proto()`.**  Whenever the model produces them:
1. imported domains are pairwise distinct (each imported exactly once);
2. every operator domain used in the main graph, at any depth, is imported;
3. … with the version the function body's own table had for it (the main graph is a clone of the body);
4. the default domain is imported;
5. the domain of every listed function is imported;
6. the listed functions have pairwise distinct identifiers;
7. every function called from the main body or from a listed function is listed (by identifier). -/
theorem to_model_env (w : World) (main : List CNode) (ov : Option Nat) (latest : Nat) (m : ModelEnv)
    (h : toModel w main ov latest = some m) :
    (keys m.imports).Nodup
      ∧ (∀ d, d ∈ domainsL main → d ∈ keys m.imports)
      ∧ (∀ d, d ∈ domainsL main → lookup m.imports d = lookup (graphImports [] main) d)
      ∧ "" ∈ keys m.imports
      ∧ (∀ f, f ∈ funcsOf w m.functions → f.domain ∈ keys m.imports)
      ∧ ((funcsOf w m.functions).map ident).Nodup
      ∧ (∀ c, c ∈ calleesL main → ∀ g, w[c]? = some g → ident g ∈ (funcsOf w m.functions).map ident)
      ∧ (∀ f, f ∈ funcsOf w m.functions → ∀ c, c ∈ calleesL f.nodes → ∀ g, w[c]? = some g →
            ident g ∈ (funcsOf w m.functions).map ident) := by
  unfold toModel at h
  cases hc : collect w main with
  | none => simp [hc] at h
  | some called =>
    simp only [hc, Option.some.injEq] at h
    subst h
    have gm := graphImports_good main []
    have mm := modelImports_good (graphImports [] main) (funcsOf w (called.map (·.2))) ov latest
    obtain ⟨hnd, he, h1, h2⟩ := collect_by_ident_closed w main called hc
    have hk : (funcsOf w (called.map (·.2))).map ident = called.map (·.1) := funcsOf_keys he
    refine ⟨mm.nodup (gm.nodup (by simp [keys])),
      fun d hd => (hasKey_iff_mem _ _).mp (mm.ext.key (gm.covers d hd)),
      fun d hd => mm.ext.look (gm.covers d hd),
      (hasKey_iff_mem _ _).mp (mm.covers "" (by simp)),
      fun f hf => (hasKey_iff_mem _ _).mp (mm.covers f.domain (by
        simp only [List.mem_append, List.mem_map]
        exact Or.inl ⟨f, hf, rfl⟩)), ?_, ?_, ?_⟩
    · show ((funcsOf w (called.map (·.2))).map ident).Nodup
      rw [hk]; exact hnd
    · intro c hc' g hg
      show ident g ∈ (funcsOf w (called.map (·.2))).map ident
      rw [hk]; exact h1 c hc' g hg
    · intro f hf c hc' g hg
      show ident g ∈ (funcsOf w (called.map (·.2))).map ident
      rw [hk]
      obtain ⟨i, hi, hfi⟩ := List.mem_filterMap.mp hf
      obtain ⟨p, hp, rfl⟩ := List.mem_map.mp hi
      exact h2 p hp f hfi c hc' g hg

/-- Non-vacuity of `to_model_env`: the nested world above; `main` itself uses only the default domain and `dom.a`, the
default domain is already in the body's table, `dom.b` comes in with `h1`'s opset version. -/
example : (toModel nestWorld nestMain none 21).map (fun m => (m.imports, m.functions))
    = some ([("", 18), ("dom.a", 1), ("dom.b", 2)], [2, 0, 1]) := by decide

/-- … a main body without any default-domain operator: the default domain is taken from the first listed function
that has it, else from `opset_version` / the installed onnx; and the C02-D1 witness: both `foo` are listed. -/
example : (toModel nestWorld [.op "dom.a" 1 (some 0)] none 21).map (·.imports) = some [("dom.a", 1), ("", 18)]
    ∧ (toModel [{ name := "g", domain := "dom.a", version := 1, nodes := [.op "cust" 3 none] }]
          [.op "dom.a" 1 (some 0)] (some 17) 21).map (·.imports) = some [("dom.a", 1), ("", 17)]
    ∧ (toModel dupWorld dupMain none 21).map (·.functions) = some [0, 1] := by decide

end OV.Props.C02
