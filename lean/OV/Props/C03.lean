import OV.Lemmas.C03Steps
import OV.Lemmas.C03Uses
import OV.Lemmas.C03FragA
import OV.Lemmas.C03Mod
import OV.Lemmas.C03BkA
import OV.Lemmas.C03Dce
/-!
# C03 — `optimize()` never changes what a model computes

Property theorems only.  Model: `OV.Model.C03Graph` (graphs and `evalGraph`), `OV.Model.C03Fold`,
`OV.Model.C03Pass` (`processNode`, `foldGraph`, `optimizeIr`).  Helper lemmas: `OV.Lemmas.C03Sem`
(frame property of `evalGraph`), `OV.Lemmas.C03Steps`.

Every operator is the uninterpreted `sem.op` (A-op); the reference evaluator's answer enters as
the hypothesis `href` (A-ref); onnx_ir passes and the rewrite pass enter `pipeline_preserves` as
refinement contracts (A-ir).  All statements hold for every operator semantics `sem`, every nesting
depth `d`, every enclosing environment, every argument list (every input), and — because no
statement mentions them — every value of the size limits / `should_fold` / iteration options.
-/
namespace OV.Props.C03
open OV.C03

variable {V : Type}

/-- `g'` computes whatever `g` computes (on every input on which `g` is defined). -/
def Refines (sem : Sem V) (d : Nat) (g' g : Graph) : Prop :=
  ∀ (outer : Env V) (args : List (Option V)) (vs : List V),
    evalGraph sem d outer g args = some vs → evalGraph sem d outer g' args = some vs

/-- **Alias substitution** (first loop of `process_node`): if the environment holds the same
value for `x` and `y` (what `symMap x = alias y` asserts), replacing the input `x` by `y`
does not change what the node computes — including what its bodies compute. -/
theorem alias_subst_sound (sem : Sem V) (sub : Env V → Graph → List (Option V) → Option (List V))
    (ρ : Env V) (n : Node) (x y : Name) (h : ρ x = ρ y) :
    evalNode sem sub ρ (n.setInputs (substIn x y n.inputs)) = evalNode sem sub ρ n := by
  have hin : (n.setInputs (substIn x y n.inputs)).inputs = substIn x y n.inputs := rfl
  have hout : ∀ args, nodeOutputs sem sub ρ (n.setInputs (substIn x y n.inputs)) args = nodeOutputs sem sub ρ n args := by
    intro args
    cases n with
    | mk op dom ins outs attrs subs =>
      have hemp : (substIn x y ins).isEmpty = ins.isEmpty := by simp [substIn]
      simp only [nodeOutputs, constDenote, Node.setInputs, Node.subs, Node.isOp, Node.op, Node.domain,
        Node.isOnnxDomain, Node.attrs, Node.inputs, Node.sub, Node.outputs, hemp]
      rfl
  unfold evalNode
  rw [hin, lookupAll_substIn h]
  cases lookupAll ρ n.inputs with
  | none => rfl
  | some args =>
    simp only [Option.bind, hout]
    rfl

/-- An `Identity` node establishes the alias the pass records for it: afterwards its output and
its input hold the same value (given the operator law `Identity v = v`). -/
theorem identity_establishes_alias (sem : Sem V) (sub) (ρ ρ' : Env V) (x o : Name) (attrs : List (String × Attr))
    (hid : ∀ v, sem.op "Identity" "" attrs [some v] = some [v]) (hne : o ≠ x)
    (h : evalNode sem sub ρ (.mk "Identity" "" [some x] [o] attrs []) = some ρ') : ρ' o = ρ' x := by
  simp only [evalNode, Node.inputs, lookupAll, lookupIn, Node.outputs] at h
  cases hx : ρ x with
  | none => simp [hx] at h
  | some v =>
    simp only [hx, Option.map, Option.bind, nodeOutputs, Node.subs, List.isEmpty_nil, if_true, constDenote,
      Node.isOp, Node.op, Node.domain, Node.attrs] at h
    have hc : ("Identity" == "Constant") = false := by decide
    simp only [hc, Bool.false_and, hid v] at h
    have h' : ρ' = ρ.set o v := by
      simp only [bindOuts, Bool.false_eq_true, if_false, Option.some.injEq] at h
      exact h.symm
    rw [h', Env.set_get_same, Env.set_get_ne ρ v (Ne.symm hne), hx]

/-- **Generic folding** (the tail of `process_node` + `new_initializer` + `replace_node`).
A node `n` without bodies whose inputs evaluate to fixed constants `cargs` whatever the
arguments are, and for which the reference evaluator's answer `c` is what the operator computes
(`href`, A-ref), may be removed and its output registered as the initializer `(o, c)`: the
graph's meaning is *equal* (same outputs, same definedness) for every argument list, every
enclosing environment and every nesting depth.  `hfresh` is single assignment + definition
before use for `o`.  No size limit, blacklist or `should_fold` occurs in the statement. -/
theorem generic_fold_sound (sem : Sem V) (d : Nat) (outer : Env V)
    (ins : List Name) (inits : List (Name × String)) (pre post : List Node) (n : Node) (outs : List Name)
    (o c : String) (cargs : List (Option V)) (args : List (Option V))
    (hplain : n.subs = []) (hnc : constDenote sem n = none) (hout : n.outputs = [o])
    (hfresh : mentionsG (d + 1) (Graph.mk ins inits pre []) o = false)
    (hconst : ∀ ρ0 ρ, startEnv sem outer (Graph.mk ins inits (pre ++ n :: post) outs) args = some ρ0 →
        evalNodes (evalNode sem (evalGraph sem d)) ρ0 pre = some ρ → lookupAll ρ n.inputs = some cargs)
    (href : sem.op n.op n.domain n.attrs cargs = some [sem.tensor c]) :
    evalGraph sem (d + 1) outer (Graph.mk ins (inits ++ [(o, c)]) (pre ++ post) outs) args
      = evalGraph sem (d + 1) outer (Graph.mk ins inits (pre ++ n :: post) outs) args := by
  simp only [mentionsG, Graph.inputs, Graph.inits, Graph.outputs, Graph.nodes, Bool.or_eq_false_iff] at hfresh
  obtain ⟨⟨⟨hin, hinit⟩, _⟩, hpre⟩ := hfresh
  -- start environments
  have hstart : startEnv sem outer (Graph.mk ins (inits ++ [(o, c)]) (pre ++ post) outs) args =
      (startEnv sem outer (Graph.mk ins inits (pre ++ n :: post) outs) args).map (·.set o (sem.tensor c)) := by
    simp only [startEnv, Graph.inits, Graph.inputs, Graph.initTok]
    rw [bindInits_append]
    simp only [bindInits]
    have hd : ∀ {xs : List Name} {as : List (Option V)} {ρ : Env V}, xs.contains o = false →
        bindInputs (fun x => (((inits ++ [(o, c)]).find? (fun p => p.1 == x)).map (·.2)).isSome) ρ xs as =
        bindInputs (fun x => ((inits.find? (fun p => p.1 == x)).map (·.2)).isSome) ρ xs as := by
      intro xs
      induction xs with
      | nil => intro as ρ _; cases as <;> rfl
      | cons x xs ih =>
        intro as ρ hx
        simp only [List.contains_cons, Bool.or_eq_false_iff] at hx
        have hxo : x ≠ o := by
          intro e; subst e; simp at hx
        cases as with
        | nil => rfl
        | cons a as =>
          cases a with
          | some w => simp only [bindInputs]; exact ih hx.2
          | none =>
            simp only [bindInputs, find_append_single hxo]
            split
            · exact ih hx.2
            · rfl
    rw [hd hin]
    exact bindInputs_set _ hin
  have hall : ∀ m ∈ pre, m.inputs.contains (some o) = false ∧ m.outputs.contains o = false ∧
      SubFrame (evalGraph sem d) o m := by
    intro m hm
    have := List.any_eq_false.mp hpre m hm
    simp only [Bool.not_eq_true] at this
    exact subFrame_of_mentions sem d o m this
  simp only [evalGraph, hstart, Graph.nodes, Graph.outputs]
  cases hs : startEnv sem outer (Graph.mk ins inits (pre ++ n :: post) outs) args with
  | none => rfl
  | some ρ0 =>
    simp only [Option.map, Option.bind]
    rw [evalNodes_append, evalNodes_append, evalNodes_set sem hall]
    cases hp : evalNodes (evalNode sem (evalGraph sem d)) ρ0 pre with
    | none => rfl
    | some ρ =>
      simp only [Option.map, Option.bind, evalNodes]
      have hn : evalNode sem (evalGraph sem d) ρ n = some (ρ.set o (sem.tensor c)) := by
        simp only [evalNode, hconst ρ0 ρ hs hp, Option.bind, nodeOutputs, hplain, List.isEmpty_nil, if_true, hnc,
          href, hout, bindOuts]
      rw [hn]

/-- Which nodes may be folded: the reflexive–transitive closure of single generic-fold steps
(each under the hypotheses of `generic_fold_sound`).  Any subset of the foldable nodes, in any
order, with any gate configuration, is an instance. -/
inductive FoldSteps (sem : Sem V) (d : Nat) (outer : Env V) (args : List (Option V)) : Graph → Graph → Prop
  | refl (g : Graph) : FoldSteps sem d outer args g g
  | step (ins : List Name) (inits : List (Name × String)) (pre post : List Node) (n : Node) (outs : List Name)
      (o c : String) (cargs : List (Option V)) (g'' : Graph)
      (hplain : n.subs = []) (hnc : constDenote sem n = none) (hout : n.outputs = [o])
      (hfresh : mentionsG (d + 1) (Graph.mk ins inits pre []) o = false)
      (hconst : ∀ ρ0 ρ, startEnv sem outer (Graph.mk ins inits (pre ++ n :: post) outs) args = some ρ0 →
          evalNodes (evalNode sem (evalGraph sem d)) ρ0 pre = some ρ → lookupAll ρ n.inputs = some cargs)
      (href : sem.op n.op n.domain n.attrs cargs = some [sem.tensor c])
      (rest : FoldSteps sem d outer args (Graph.mk ins (inits ++ [(o, c)]) (pre ++ post) outs) g'') :
      FoldSteps sem d outer args (Graph.mk ins inits (pre ++ n :: post) outs) g''

/-- **Soundness of the abstract relation `FoldSteps`** (not of `foldGraph`).  `FoldSteps` is the inductive closure of the
single step "remove one bodiless, non-`Constant`, SINGLE-OUTPUT node (`hout`) whose inputs are constant in every reached
environment (`hconst`), register the value the semantics gives for it (`href`) as a fresh initializer (`hfresh`)".  Any chain
of such steps leaves `evalGraph` equal.  Because the relation does not mention size limits, blacklist or `should_fold`, whichever
subset of such steps a gate cascade selects is covered — but that `foldGraph` performs only such steps is proved only on the
fragments below (`fold_generic_fragment_preserves`, `fold_fragmentA_preserves`). -/
theorem fold_preserves (sem : Sem V) (d : Nat) (outer : Env V) (args : List (Option V)) (g g' : Graph)
    (h : FoldSteps sem d outer args g g') :
    evalGraph sem (d + 1) outer g' args = evalGraph sem (d + 1) outer g args := by
  induction h with
  | refl g => rfl
  | step ins inits pre post n outs o c cargs g'' hplain hnc hout hfresh hconst href _ ih =>
    rw [ih]
    exact generic_fold_sound sem d outer ins inits pre post n outs o c cargs args hplain hnc hout hfresh hconst href

/-- An initializer that is not a formal input and is not redefined keeps its constant value in
every environment reached in the graph — this is what makes the hypothesis `hconst` of
`generic_fold_sound` hold for nodes fed by initializers. -/
theorem initializer_is_constant (sem : Sem V) (sub) (outer : Env V) (ins : List Name) (inits : List (Name × String))
    (nodes : List Node) (outs : List Name) (pre : List Node) (args : List (Option V)) (x t : String)
    (hlast : ∃ a b, inits = a ++ (x, t) :: b ∧ b.any (fun p => p.1 == x) = false)
    (hin : ins.contains x = false) (hpre : ∀ m ∈ pre, m.outputs.contains x = false)
    (ρ0 ρ : Env V) (h0 : startEnv sem outer (Graph.mk ins inits nodes outs) args = some ρ0)
    (h1 : evalNodes (evalNode sem sub) ρ0 pre = some ρ) : ρ x = some (sem.tensor t) := by
  obtain ⟨a, b, hab, hb⟩ := hlast
  rw [evalNodes_get_other sem h1 hpre]
  simp only [startEnv, Graph.inits, Graph.inputs] at h0
  have hbi : (bindInits sem outer inits) x = some (sem.tensor t) := by
    rw [hab, bindInits_append]
    simp only [bindInits]
    have := bindInits_set sem (ρ := bindInits sem outer a) (v := sem.tensor t) hb
    rw [this, Env.set_get_same]
  have key : ∀ {xs : List Name} {as : List (Option V)} {ρa ρb : Env V}, xs.contains x = false →
      bindInputs (fun z => ((Graph.mk ins inits nodes outs).initTok z).isSome) ρa xs as = some ρb → ρb x = ρa x := by
    intro xs
    induction xs with
    | nil =>
      intro as ρa ρb _ h
      cases as with
      | nil => simp only [bindInputs, Option.some.injEq] at h; rw [h]
      | cons _ _ => simp [bindInputs] at h
    | cons y ys ih =>
      intro as ρa ρb hx h
      simp only [List.contains_cons, Bool.or_eq_false_iff] at hx
      have hne : x ≠ y := by
        intro e; subst e; simp at hx
      cases as with
      | nil => simp [bindInputs] at h
      | cons a' as' =>
        cases a' with
        | some w =>
          simp only [bindInputs] at h
          rw [ih hx.2 h, Env.set_get_ne ρa w hne]
        | none =>
          simp only [bindInputs] at h
          split at h
          · exact ih hx.2 h
          · simp at h
  rw [key hin h0, hbi]

/-- **Graph-output replacement** (`visit_graph` + `_sym_value_can_replace_graph_output`): if in
the final environment every new output holds the value of the output it replaces (the alias
invariant), the graph returns the same list — same length, same order; the declared output
names are positional and untouched. -/
theorem output_replacement_sound (sem : Sem V) (d : Nat) (outer : Env V) (ins : List Name)
    (inits : List (Name × String)) (nodes : List Node) (outs outs' : List Name) (args : List (Option V))
    (hlen : outs'.length = outs.length)
    (halias : ∀ ρ0 ρ, startEnv sem outer (Graph.mk ins inits nodes outs) args = some ρ0 →
        evalNodes (evalNode sem (evalGraph sem d)) ρ0 nodes = some ρ →
        ∀ i (h1 : i < outs'.length) (h2 : i < outs.length), ρ (outs'[i]) = ρ (outs[i])) :
    evalGraph sem (d + 1) outer (Graph.mk ins inits nodes outs') args
      = evalGraph sem (d + 1) outer (Graph.mk ins inits nodes outs) args := by
  simp only [evalGraph, Graph.nodes, Graph.outputs]
  have hs : startEnv sem outer (Graph.mk ins inits nodes outs') args = startEnv sem outer (Graph.mk ins inits nodes outs) args := rfl
  rw [hs]
  cases h0 : startEnv sem outer (Graph.mk ins inits nodes outs) args with
  | none => rfl
  | some ρ0 =>
    simp only [Option.bind]
    cases h1 : evalNodes (evalNode sem (evalGraph sem d)) ρ0 nodes with
    | none => rfl
    | some ρ =>
      simp only []
      exact lookupOuts_pointwise hlen (halias ρ0 ρ h0 h1)

/-! ### the pipeline -/

theorem Refines.refl (sem : Sem V) (d : Nat) (g : Graph) : Refines sem d g g := fun _ _ _ h => h

theorem Refines.trans {sem : Sem V} {d : Nat} {g1 g2 g3 : Graph} (h12 : Refines sem d g2 g1) (h23 : Refines sem d g3 g2) :
    Refines sem d g3 g1 := fun o a v h => h23 o a v (h12 o a v h)

/-- Contracts for the passes that live outside `/repo` (A-ir) and for the rewrite pass (C05/C07). -/
structure PassContracts (sem : Sem V) (d : Nat) (P : IrPasses) : Prop where
  inline : ∀ g, Refines sem d (P.inline g) g
  rewrite : ∀ g, Refines sem d (P.rewrite g).1 g
  dce : ∀ g, Refines sem d (P.dce g).1 g
  liftConstants : ∀ g, Refines sem d (P.liftConstants g) g
  liftSubgraphInits : ∀ g, Refines sem d (P.liftSubgraphInits g) g
  dedup : ∀ g, Refines sem d (P.dedup g) g
  cse : ∀ g, Refines sem d (P.cse g) g
  outputFix : ∀ g, Refines sem d (P.outputFix g) g
  nameFix : ∀ g, Refines sem d (P.nameFix g) g

theorem iterStep_refines (sem : Sem V) (d : Nat) (P : IrPasses) (C : PassContracts sem d P)
    (fold : Graph → Graph × Bool) (hfold : ∀ g, Refines sem d (fold g).1 g) (g : Graph) :
    Refines sem d (iterStep P fold g).1 g := by
  simp only [iterStep]
  have h1 : Refines sem d (if (fold g).2 then P.nameFix (fold g).1 else (fold g).1) g := by
    split
    · exact Refines.trans (hfold g) (C.nameFix _)
    · exact hfold g
  exact Refines.trans (Refines.trans h1 (C.rewrite _)) (C.dce _)

theorem iterate_refines (sem : Sem V) (d : Nat) (P : IrPasses) (C : PassContracts sem d P)
    (fold : Graph → Graph × Bool) (hfold : ∀ g, Refines sem d (fold g).1 g) (early : Bool) :
    ∀ (k : Nat) (g : Graph), Refines sem d (iterate P fold early k g) g
  | 0, g => Refines.refl sem d g
  | k + 1, g => by
    simp only [iterate]
    split
    · exact iterStep_refines sem d P C fold hfold g
    · exact Refines.trans (iterStep_refines sem d P C fold hfold g) (iterate_refines sem d P C fold hfold early k _)

/-- **Conditional (contract) theorem — `_partial` in the sense of BUILDING.md, the name is historical.**  IF all nine
non-fold passes satisfy `PassContracts` (an assumption: eight of them live in onnx_ir, the rewrite rules belong to C05/C07)
AND the folding pass refines on EVERY graph (`hfold`; no theorem of this file discharges `hfold` for `foldGraph` — the
end-to-end fold theorems hold on fragment A only and under semantic hypotheses), THEN `optimizeIr` refines for every option
tuple (`num_iterations`, `stop_if_no_change`, `inline`).  The content is the composition structure of `optimize_ir`
(iteration, early exit, order of passes), nothing more. -/
theorem pipeline_preserves (sem : Sem V) (d : Nat) (P : IrPasses) (C : PassContracts sem d P)
    (fold : Graph → Graph × Bool) (hfold : ∀ g, Refines sem d (fold g).1 g) (o : OptOpts) (g : Graph) :
    Refines sem d (optimizeIr P fold o g) g := by
  simp only [optimizeIr]
  have h0 : Refines sem d (if o.inline then P.inline g else g) g := by
    split
    · exact C.inline g
    · exact Refines.refl sem d g
  have h1 := Refines.trans h0 (iterate_refines sem d P C fold hfold o.stopIfNoChange o.numIterations _)
  have h2 := Refines.trans h1 (C.dce _)
  have h3 := Refines.trans h2 (C.liftConstants _)
  have h4 := Refines.trans h3 (C.liftSubgraphInits _)
  have h5 := Refines.trans h4 (C.dedup _)
  have h6 := Refines.trans h5 (C.cse _)
  have h7 := Refines.trans h6 (C.outputFix _)
  exact Refines.trans h7 (C.nameFix _)

/-! ### the `dce` slot of the pipeline: `RemoveUnusedNodesPass` as a modelled function -/

/-- **`RemoveUnusedNodesPass` preserves meaning — FRAGMENT theorem** (bodiless graphs of `dceFragB` only, under the operator law
`TrailingNoneLaw`; it discharges the `dce` contract of `PassContractsOn (dceFragB · = true)`, not of the absolute
`PassContracts`, and says nothing about kept nodes with bodies).  `dcePass` (OV/Model/C03Dce.lean) restates onnx_ir's pass: reverse sweep, removal of nodes
none of whose outputs is used or a graph output, trimming of trailing absent inputs, renaming/dropping of unused optional
outputs according to the operator schema (any schema table `ctx`), the `BatchNormalization` branch, removal of unused
initializers.  For every graph in the decidable fragment `dceFragB` (bodiless nodes, definition before use, no node reads its
own output or the empty name, `Constant` nodes have no inputs, no `BatchNormalization` carrying `training_mode`), every schema
table, with or without a default-domain opset import, every semantics obeying `TrailingNoneLaw` (trailing absent optional
inputs do not matter), every depth, enclosing environment and argument list: the result computes what the input computes. -/
theorem dce_refines (sem : Sem V) (hT : TrailingNoneLaw sem) (ctx : DceCtx) (hasOpset : Bool) (g : Graph)
    (hwf : dceFragB g = true) (d : Nat) : Refines sem d (dceSlot ctx hasOpset g).1 g := by
  intro outer args vs hev
  cases d with
  | zero => simp [evalGraph] at hev
  | succ d => exact dcePass_sound sem hT ctx hasOpset g hwf d outer args vs hev

/-- Minor lemma (not a headline result): on a bodiless node list, `count = 0` implies that the sweep kept every node (same
length; nodes may still have been trimmed).  `PassResult.modified` of the modelled pass is `count ≠ 0`. -/
theorem dce_unmodified_keeps_every_node (ctx : DceCtx) (sub : Graph → DceOut × Graph) (ho : Bool) (outs : List Name) :
    ∀ (ns : List Node), (∀ n ∈ ns, n.subs = []) → (dceNodes ctx sub ho outs ns).count = 0 →
      (dceNodes ctx sub ho outs ns).nodes.length = ns.length
  | [], _, _ => rfl
  | n :: rest, hb, hc => by
    have hn := hb n List.mem_cons_self
    have hs : (trimNode ctx ho (usedLater outs (dceNodes ctx sub ho outs rest).nodes (dceNodes ctx sub ho outs rest).ghosts) n).subs = [] := by
      rw [(trimNode_fields ctx ho _ n).2.2.2]; exact hn
    simp only [dceNodes] at hc ⊢
    split at hc
    · simp at hc
    · rename_i hk
      simp only [hs, dceSubs] at hc
      rw [if_neg hk]
      simp only [List.length_cons]
      rw [dce_unmodified_keeps_every_node ctx sub ho outs rest (fun m hm => hb m (List.mem_cons_of_mem _ hm)) (by omega)]

/-- the modelled pass maps its fragment into itself (so the contract below can be iterated) -/
theorem dce_preserves_fragment (ctx : DceCtx) (hasOpset : Bool) (g : Graph) (hwf : dceFragB g = true) :
    dceFragB (dceSlot ctx hasOpset g).1 = true := dceFragB_preserved ctx hasOpset g hwf

/-- Pass contracts **relative to a class of graphs** `Dom` that every pass maps into itself (the absolute `PassContracts`
is the case `Dom = fun _ => True`). -/
structure PassContractsOn (Dom : Graph → Prop) (sem : Sem V) (d : Nat) (P : IrPasses) : Prop where
  inline : ∀ g, Dom g → Dom (P.inline g) ∧ Refines sem d (P.inline g) g
  rewrite : ∀ g, Dom g → Dom (P.rewrite g).1 ∧ Refines sem d (P.rewrite g).1 g
  dce : ∀ g, Dom g → Dom (P.dce g).1 ∧ Refines sem d (P.dce g).1 g
  liftConstants : ∀ g, Dom g → Dom (P.liftConstants g) ∧ Refines sem d (P.liftConstants g) g
  liftSubgraphInits : ∀ g, Dom g → Dom (P.liftSubgraphInits g) ∧ Refines sem d (P.liftSubgraphInits g) g
  dedup : ∀ g, Dom g → Dom (P.dedup g) ∧ Refines sem d (P.dedup g) g
  cse : ∀ g, Dom g → Dom (P.cse g) ∧ Refines sem d (P.cse g) g
  outputFix : ∀ g, Dom g → Dom (P.outputFix g) ∧ Refines sem d (P.outputFix g) g
  nameFix : ∀ g, Dom g → Dom (P.nameFix g) ∧ Refines sem d (P.nameFix g) g

theorem iterate_refines_on (Dom : Graph → Prop) (sem : Sem V) (d : Nat) (P : IrPasses) (C : PassContractsOn Dom sem d P)
    (fold : Graph → Graph × Bool) (hfold : ∀ g, Dom g → Dom (fold g).1 ∧ Refines sem d (fold g).1 g) (early : Bool) :
    ∀ (k : Nat) (g : Graph), Dom g → Dom (iterate P fold early k g) ∧ Refines sem d (iterate P fold early k g) g
  | 0, g, hg => ⟨hg, Refines.refl sem d g⟩
  | k + 1, g, hg => by
    have hstep : Dom (iterStep P fold g).1 ∧ Refines sem d (iterStep P fold g).1 g := by
      simp only [iterStep]
      have h1 : Dom (if (fold g).2 then P.nameFix (fold g).1 else (fold g).1) ∧
          Refines sem d (if (fold g).2 then P.nameFix (fold g).1 else (fold g).1) g := by
        have hf := hfold g hg
        split
        · have hn := C.nameFix _ hf.1
          exact ⟨hn.1, Refines.trans hf.2 hn.2⟩
        · exact hf
      have h2 := C.rewrite _ h1.1
      have h3 := C.dce _ h2.1
      exact ⟨h3.1, Refines.trans (Refines.trans h1.2 h2.2) h3.2⟩
    simp only [iterate]
    split
    · exact hstep
    · have ih := iterate_refines_on Dom sem d P C fold hfold early k _ hstep.1
      exact ⟨ih.1, Refines.trans hstep.2 ih.2⟩

/-- **Conditional (contract) theorem**, relative form of `pipeline_preserves`: IF every non-fold pass (`PassContractsOn`) and
the folding pass (`hfold`) map the class `Dom` into itself and refine on it, THEN so does `optimizeIr`.  All nine contracts and
`hfold` are hypotheses; this is the form into which a *modelled* pass with a delimited domain can be plugged. -/
theorem pipeline_preserves_on (Dom : Graph → Prop) (sem : Sem V) (d : Nat) (P : IrPasses) (C : PassContractsOn Dom sem d P)
    (fold : Graph → Graph × Bool) (hfold : ∀ g, Dom g → Dom (fold g).1 ∧ Refines sem d (fold g).1 g) (o : OptOpts)
    (g : Graph) (hg : Dom g) : Dom (optimizeIr P fold o g) ∧ Refines sem d (optimizeIr P fold o g) g := by
  simp only [optimizeIr]
  have h0 : Dom (if o.inline then P.inline g else g) ∧ Refines sem d (if o.inline then P.inline g else g) g := by
    split
    · exact C.inline g hg
    · exact ⟨hg, Refines.refl sem d g⟩
  have h1 := iterate_refines_on Dom sem d P C fold hfold o.stopIfNoChange o.numIterations _ h0.1
  have h2 := C.dce _ h1.1
  have h3 := C.liftConstants _ h2.1
  have h4 := C.liftSubgraphInits _ h3.1
  have h5 := C.dedup _ h4.1
  have h6 := C.cse _ h5.1
  have h7 := C.outputFix _ h6.1
  have h8 := C.nameFix _ h7.1
  exact ⟨h8.1, Refines.trans (Refines.trans (Refines.trans (Refines.trans (Refines.trans (Refines.trans (Refines.trans
    (Refines.trans h0.2 h1.2) h2.2) h3.2) h4.2) h5.2) h6.2) h7.2) h8.2⟩

/-- **Conditional (contract) theorem with ONE of the nine contracts discharged.**  When the remove-unused-nodes pass *is* the
modelled `dcePass` (any schema table), no contract is assumed for it (`dce_refines` + `dce_preserves_fragment`; it runs
`num_iterations + 1` times).  STILL ASSUMED: `hpass` — the other eight passes keep the graph in `dceFragB` and refine — and
`hfold` — the folding pass keeps the graph in `dceFragB` and refines (closure of `dceFragB` under `foldGraph` is NOT proved).
The only instance exhibited (`idPassesDce`) uses identity passes and an identity fold: it shows the hypotheses are consistent,
not that the real passes satisfy them. -/
theorem pipeline_preserves_dce_modelled (sem : Sem V) (hT : TrailingNoneLaw sem) (d : Nat) (ctx : DceCtx) (hasOpset : Bool)
    (P : IrPasses) (hdce : P.dce = dceSlot ctx hasOpset)
    (hpass : ∀ f ∈ [P.inline, fun g => (P.rewrite g).1, P.liftConstants, P.liftSubgraphInits, P.dedup, P.cse, P.outputFix, P.nameFix],
      ∀ g, dceFragB g = true → dceFragB (f g) = true ∧ Refines sem d (f g) g)
    (fold : Graph → Graph × Bool) (hfold : ∀ g, dceFragB g = true → dceFragB (fold g).1 = true ∧ Refines sem d (fold g).1 g)
    (o : OptOpts) (g : Graph) (hg : dceFragB g = true) : Refines sem d (optimizeIr P fold o g) g := by
  have C : PassContractsOn (fun g => dceFragB g = true) sem d P :=
    { inline := hpass _ (by simp)
      rewrite := hpass (fun g => (P.rewrite g).1) (by simp)
      dce := fun g hg => by
        rw [hdce]
        exact ⟨dce_preserves_fragment ctx hasOpset g hg, dce_refines sem hT ctx hasOpset g hg d⟩
      liftConstants := hpass _ (by simp)
      liftSubgraphInits := hpass _ (by simp)
      dedup := hpass _ (by simp)
      cse := hpass _ (by simp)
      outputFix := hpass _ (by simp)
      nameFix := hpass _ (by simp) }
  exact (pipeline_preserves_on _ sem d P C fold hfold o g hg).2

/-! non-vacuity of `dce_refines`: a graph of the fragment on which a dead chain, a dead initializer, a trailing absent input
and an unused optional output are all removed; `firstSem` obeys `TrailingNoneLaw`. -/
def firstSem : Sem Nat where
  op := fun o _ _ args => some [args.filterMap id |>.foldl (· + ·) o.length, 7, 9]
  ctl := fun _ _ _ _ _ => none
  truth := fun v => some (v != 0)
  tensor := fun t => t.length
  intsTensor := fun l => l.length
  intTensor := fun i => i.toNat

theorem filterMap_dropTrailing_none : ∀ (l : List (Option Nat)), (dropTrailing Option.isNone l).filterMap id = l.filterMap id
  | [] => rfl
  | a :: l => by
    rw [dropTrailing_cons]
    have ih := filterMap_dropTrailing_none l
    split
    · rename_i hc
      simp only [Bool.and_eq_true, List.isEmpty_iff] at hc
      rw [hc.1] at ih
      cases a with
      | none => simpa using ih
      | some v => simp at hc
    · cases a <;> simp [ih]

theorem firstSem_trailing : TrailingNoneLaw firstSem := by
  intro op dom attrs args
  simp only [firstSem, filterMap_dropTrailing_none]

def gDce : Graph :=
  .mk ["X"] [("w", "tw"), ("unused", "tu")]
    [ .mk "Clip" "" [some "X", none, none] ["a"] [] [],
      .mk "Abs" "" [some "a"] ["d0"] [] [],
      .mk "Add" "" [some "d0", some "w"] ["dead"] [] [],
      .mk "LayerNormalization" "" [some "a", some "X", none] ["l", "mean", "isd"] [] [] ]
    ["l"]

def ctxDce : DceCtx := { schema := [("LayerNormalization", some [0, 1, 1]), ("Clip", some [0]), ("Abs", some [0]), ("Add", some [0])] }

example : dceFragB gDce = true := by decide
example : ((dceSlot ctxDce true gDce).1.nodes.map fun n => (n.op, n.inputs, n.outputs)) =
      [("Clip", [some "X"], ["a"]), ("LayerNormalization", [some "a", some "X"], ["l"])] ∧
    (dceSlot ctxDce true gDce).1.inits = [] ∧ (dceSlot ctxDce true gDce).2 = true := by
  decide
example : evalGraph firstSem 1 Env.empty gDce [some 5] = some [32] := by decide
example : evalGraph firstSem 1 Env.empty (dceSlot ctxDce true gDce).1 [some 5] = some [32] := by decide

/-- non-vacuity of `pipeline_preserves_dce_modelled`: identity passes around the modelled `dce`, three iterations -/
def idPassesDce : IrPasses :=
  { inline := id, rewrite := fun g => (g, false), dce := dceSlot ctxDce true, liftConstants := id, liftSubgraphInits := id,
    dedup := id, cse := id, outputFix := id, nameFix := id }

example : Refines firstSem 1 (optimizeIr idPassesDce (fun g => (g, false)) { numIterations := 3, stopIfNoChange := false, inline := true } gDce) gDce :=
  pipeline_preserves_dce_modelled firstSem firstSem_trailing 1 ctxDce true idPassesDce rfl
    (by
      intro f hf g hg
      simp only [idPassesDce, List.mem_cons, List.not_mem_nil, or_false] at hf
      rcases hf with e | e | e | e | e | e | e | e <;> subst e <;> exact ⟨hg, Refines.refl _ _ _⟩)
    (fun g => (g, false)) (fun g hg => ⟨hg, Refines.refl _ _ _⟩) _ gDce (by decide)

/-- **C03-D4 (refuted).**  What is negated is the UNRESTRICTED universal (every graph, no `dceFragB` hypothesis at all) — stronger
than `dce_refines` minus one clause; the link to the finding is the witness `gBn`, which (example below) violates only the
`training_mode` clause of `dceFragB`.  Without the `BatchNormalization` clause of `dceFragB`, `dce_refines` is false: the
pass pops `training_mode` when the running outputs are unused, and a semantics in which `training_mode` matters (the ONNX
specification: batch statistics instead of the running ones) distinguishes the two graphs.  Replayed on the real code by
`harness/c03_dce.py` (family `dce_bn_training_unused`). -/
def bnSem : Sem Nat where
  op := fun o _ attrs _ => some [if o == "BatchNormalization" && attrs.any (·.1 == "training_mode") then 1 else 0, 0, 0]
  ctl := fun _ _ _ _ _ => none
  truth := fun v => some (v != 0)
  tensor := fun _ => 0
  intsTensor := fun _ => 0
  intTensor := fun _ => 0

def gBn : Graph :=
  .mk ["X"] [] [ .mk "BatchNormalization" "" [some "X"] ["Y", "rm", "rv"] [("training_mode", .int 1)] [] ] ["Y"]

def ctxBn : DceCtx := { schema := [("BatchNormalization", some [0, 1, 1])] }

/-- the witness violates the `training_mode` clause of `dceFragB` and nothing else: the same graph without the attribute is
in the fragment -/
example : dceFragB gBn = false ∧
    dceFragB (.mk ["X"] [] [ .mk "BatchNormalization" "" [some "X"] ["Y", "rm", "rv"] [] [] ] ["Y"]) = true := by decide

theorem dce_batchnorm_training_mode_refuted :
    ¬ ∀ (sem : Sem Nat) (ctx : DceCtx) (g : Graph), TrailingNoneLaw sem → Refines sem 1 (dceSlot ctx true g).1 g := by
  intro h
  have h1 := h bnSem ctxBn gBn (fun _ _ _ _ => rfl) Env.empty [some 5] [1] (by decide)
  revert h1
  decide

/-! ### end to end on a delimited fragment -/

/-- **End-to-end theorem on the generic-folding fragment.**  For every graph whose nodes carry no
bodies, are not `Constant` nodes and have no registered partial evaluator (`FragWF`: also ordered,
single-assignment, outputs distinct from the formal inputs, no name of the form `%k`), for every
option tuple in `ctx` (input/output size limits, `should_fold`, opset imports, any oracle table
satisfying A-ref = `OracleSound`), every annotation table that is truthful about constants
(`ConstInfoSound`, A-shape), every operator semantics, nesting depth, enclosing environment and
argument list: **the graph returned by the model of `FoldConstantsPass` — node loop, gate
cascade, reference evaluation, `new_initializer`, `replace_node` and `_clear_unused_initializers`
all included — computes what the original computes.**  Proof: simulation through `visitNodes`
(`visitNodes_sim`: invariant "every constant the state knows is what the environment holds, the
symbolic map is empty, no known constant is redefined later"; folded outputs are bound early as
initializers and pushed through the kept prefix by the frame lemma), plus the bookkeeping
invariant (`visitNodes_bk`: use counts are upper bounds of real occurrences, so a popped
initializer is unmentioned) and `prune_sound`. -/
theorem fold_generic_fragment_preserves (sem : Sem V) (ctx : Ctx) (hnf : ctx.isFunction = false)
    (hor : OracleSound sem ctx) (info : List (Name × VInfo)) (g : Graph) (hwf : FragWF g)
    (hnofresh : ∀ k : Nat, cnt ("%" ++ toString k) g.nodes = 0)
    (d : Nat) (outer : Env V) (args : List (Option V))
    (hinfo : ConstInfoSound sem outer g args info) (vs : List V)
    (he : evalGraph sem (d + 1) outer g args = some vs) :
    evalGraph sem (d + 1) outer (foldGraph ctx info g).2 args = some vs :=
  foldGraph_fragment sem ctx hnf hor info g hwf hnofresh d outer args hinfo vs he

/-- the two replacement laws are instances of the operator laws -/
theorem replLaws_of {sem : Sem V} (L : OpLaws sem) : ReplLaws sem := by
  refine ⟨L.concat_single, ?_⟩
  intro attrs v rest vs hlen h
  refine L.dropout_inference attrs v rest vs ?_ h
  cases rest with
  | nil => exact Or.inl rfl
  | cons a r =>
    cases r with
    | nil => exact Or.inr (Or.inl ⟨a, rfl⟩)
    | cons b r' => simp at hlen

/-- **End-to-end theorem on fragment A** = generic folding + `Constant` nodes (`_process_constant_node`)
+ `Identity` nodes (the `identity` evaluator records an alias, `process_node` substitutes it into later
inputs, `visit_graph` replaces graph outputs by their alias) + one-operand `Concat` and inference-mode
`Dropout` with one declared output (the `concat`/`dropout` evaluators record `Identity(x)` on a fresh
tape, `replace_node` renames its output, moves the uses, and the new node is visited next; `Dropout`
below opset 12 has no evaluator and goes through the gate cascade) + `_clear_unused_initializers`.  For
every graph of the fragment (`FragAWF`; no name of the form `%k`), every option tuple, every oracle
table sound for the model's queries (`OracleSound`), constants truthfully annotated
(`ConstInfoSound`, `ConstMarkSound`), the laws `Identity v = v`, `Concat [v] = v`,
`Dropout (v :: rest)` returns `v` first when there is no `training_mode` operand (`ReplLaws`), every semantics, depth, enclosing
environment and argument list: **the graph returned by the model of `FoldConstantsPass` computes what
the original computes.**  Proof: `visitNodes_simA` (invariant: recorded aliases and constants hold
in the environment and are never redefined later), `replaceOutputs_alias`, and — for the pruning —
`visitNodes_bkA`: use counts follow the alias substitution and stay upper bounds of the real
occurrences, every alias target is an input of an emitted node, so a popped initializer is
unreferenced (`prune_ok_fragmentA`). -/
theorem fold_fragmentA_preserves (sem : Sem V) (ctx : Ctx) (hnf : ctx.isFunction = false)
    (hor : OracleSound sem ctx) (L : OpLaws sem) (hct : CastTyped L) (hot : OracleTyped L ctx)
    (info : List (Name × VInfo)) (g : Graph)
    (hwf : FragAWF sem ctx g) (hcmt : ∀ n ∈ g.nodes, n.isOp "Constant" = true → ConstMarkTyped L ctx n)
    (hnofresh : ∀ k : Nat, cnt ("%" ++ toString k) g.nodes = 0)
    (d : Nat) (outer : Env V) (args : List (Option V))
    (hinfo : ConstInfoSound sem outer g args info)
    (hinfoNF : ∀ x c, ((lookupA info x).getD {}).const = some c → NF x)
    (hann : AnnotSound L d outer g args info) (vs : List V)
    (he : evalGraph sem (d + 1) outer g args = some vs) :
    evalGraph sem (d + 1) outer (foldGraph ctx info g).2 args = some vs :=
  foldGraph_fragmentA sem ctx hnf hor L.identity (replLaws_of L) L hct hot info g hwf hcmt d outer args hinfo hinfoNF hann vs
    (prune_ok_fragmentA 7 ctx hnf info g (fun n hn => FragA.toBk (hwf.nodes n hn).1) hnofresh) he

/-- **The same theorem with its structural hypotheses replaced by one decidable check** that the driver evaluates on every
generated case (`inTheoremFragment`, reported as `thm:fragmentA` in the evidence): not a function body, every node in one
of the classes of fragment A, order condition, node outputs are not formal inputs, no name looks generated, the annotation
table records constants/element types only for names that do not look generated and no constant for a node output.  What
remains are the semantic hypotheses: oracle soundness and typing, operator laws, truthfulness of the recorded constants
and element types for the execution at hand. -/
theorem fold_fragmentA_checked (sem : Sem V) (ctx : Ctx) (hor : OracleSound sem ctx) (L : OpLaws sem) (hct : CastTyped L)
    (hot : OracleTyped L ctx) (info : List (Name × VInfo)) (g : Graph)
    (hchk : inTheoremFragment ctx.isFunction info g = true)
    (hcms : ∀ n ∈ g.nodes, n.isOp "Constant" = true → ConstMarkSound sem ctx n)
    (hcmt : ∀ n ∈ g.nodes, n.isOp "Constant" = true → ConstMarkTyped L ctx n)
    (d : Nat) (outer : Env V) (args : List (Option V))
    (hstart : ∀ ρ0, startEnv sem outer g args = some ρ0 → ∀ x c, ((lookupA info x).getD {}).const = some c →
      ρ0 x = some (sem.tensor c.tok))
    (hann : ∀ ρ0 ρf, startEnv sem outer g args = some ρ0 → evalNodes (evalNode sem (evalGraph sem d)) ρ0 g.nodes = some ρf →
      ∀ x v dt, ρf x = some v → ((lookupA info x).getD {}).dtype = some dt → L.hasDtype v dt)
    (vs : List V) (he : evalGraph sem (d + 1) outer g args = some vs) :
    evalGraph sem (d + 1) outer (foldGraph ctx info g).2 args = some vs := by
  simp only [inTheoremFragment, Bool.and_eq_true, Bool.not_eq_true'] at hchk
  obtain ⟨⟨hnf, hfrag⟩, hinfo⟩ := hchk
  obtain ⟨h1, h2, h3, h4, h5⟩ := fragAWFB_sound g hfrag
  obtain ⟨i1, i2, i3⟩ := infoOKB_sound info g hinfo
  exact fold_fragmentA_preserves sem ctx hnf hor L hct hot info g
    ⟨fun n hn => ⟨h1 n hn, hcms n hn⟩, h2, h3, h4⟩ hcmt h5 d outer args ⟨hstart, i2⟩ i1
    (fun ρ0 ρf hs hn => ⟨hann ρ0 ρf hs hn, i3⟩) vs he

/-- **`ConstMarkSound` is derivable** for the three `Constant` forms the semantics interprets (`value`,
`value_ints`, `value_int`): if the token table is coherent with the semantics (`TokCoherent`: the
token `_process_constant_node` finds for a `value` tensor denotes that tensor; the tokens it builds
for `value_ints` / `value_int` denote those integers), then whatever constant the pass attributes to
the node's output is what the node evaluates to.  This discharges the `ConstMarkSound` hypothesis of
`fold_fragmentA_preserves` for such nodes. -/
theorem const_mark_sound (sem : Sem V) (ctx : Ctx) (hco : TokCoherent sem ctx) (o : Name) (a : String × Attr)
    (ha : (∃ t, a = ("value", .tensor t)) ∨ (∃ l, a = ("value_ints", .ints l)) ∨ (∃ i, a = ("value_int", .int i))) :
    ConstMarkSound sem ctx (.mk "Constant" "" [] [o] [a] []) :=
  constMarkSound_of_coherent sem ctx hco o a ha

/-- …and so is `ConstMarkTyped`, from `TokTyped` (the token found for a `value` tensor has that tensor's element type; the
`value_ints`/`value_int` forms are INT64). -/
theorem const_mark_typed {sem : Sem V} (L : OpLaws sem) (ctx : Ctx) (hty : TokTyped L ctx) (o : Name) (a : String × Attr)
    (ha : (∃ t, a = ("value", .tensor t)) ∨ (∃ l, a = ("value_ints", .ints l)) ∨ (∃ i, a = ("value_int", .int i))) :
    ConstMarkTyped L ctx (.mk "Constant" "" [] [o] [a] []) :=
  constMarkTyped_of_typed L ctx hty o a ha

/-- …and before pruning no extra hypothesis is needed: the result of the node loop and of the
graph-output replacement (`visit_graph`) refines the input on fragment A. -/
theorem visit_graph_fragmentA_preserves (sem : Sem V) (ctx : Ctx) (hnf : ctx.isFunction = false)
    (hor : OracleSound sem ctx) (L : OpLaws sem) (hct : CastTyped L) (hot : OracleTyped L ctx)
    (info : List (Name × VInfo)) (g : Graph)
    (hwf : FragAWF sem ctx g) (hcmt : ∀ n ∈ g.nodes, n.isOp "Constant" = true → ConstMarkTyped L ctx n)
    (d : Nat) (outer : Env V) (args : List (Option V))
    (hinfo : ConstInfoSound sem outer g args info)
    (hinfoNF : ∀ x c, ((lookupA info x).getD {}).const = some c → NF x)
    (hann : AnnotSound L d outer g args info) (vs : List V)
    (he : evalGraph sem (d + 1) outer g args = some vs) :
    evalGraph sem (d + 1) outer (visitGraph ctx maxDepth (initialState g info) g).2 args = some vs :=
  (visitGraph_fragmentA sem ctx hnf hor L.identity (replLaws_of L) L hct hot info g hwf hcmt d 7 outer args hinfo hinfoNF hann vs he).1

/-- **The `modified` flag is truthful on fragment A**: if the model of `FoldConstantsPass` reports "not modified", the graph
it returns is *equal* to the graph it was given (nodes, initializers, outputs) — for every option tuple, annotation table
and oracle table, errors included.  This is what `stop_if_no_change` relies on: an iteration that reports no change has
reached a fixed point of the fold pass.  Proof (`visitNodes_mod`): through the node loop the flag only goes up (alias
substitution, `replace_node` and the graph-output replacement set it), and while it is down the emitted ++ pending nodes
are the original list, no initializer has been registered and none popped. -/
theorem fold_unmodified_means_unchanged (ctx : Ctx) (hnf : ctx.isFunction = false) (info : List (Name × VInfo)) (g : Graph)
    (hfr : ∀ n ∈ g.nodes, FragBk n) (hm : (foldGraph ctx info g).1.modified = false) :
    (foldGraph ctx info g).2 = g :=
  foldGraph_unmodified ctx hnf info g hfr hm

/-! ### partial evaluators (under the operator laws `OpLaws` and truthful annotations `InfoSound`) -/

/-- The replacement is `Identity(x)` on a fresh tape. -/
def IsIdentityOf (r : Repl) (x : Name) : Prop :=
  ∃ o', r.newNodes = [mkNode "Identity" [some x] [o']] ∧ r.newOuts = [o'] ∧ r.inits = []

theorem intAttr_some {n : Node} {k : String} {i : Int} (h : intAttr n k none = some i) :
    (n.attrs.find? (·.1 == k)).map (·.2) = some (Attr.int i) := by
  unfold intAttr Node.attr at h
  split at h
  · rename_i j hj
    simp only [Option.some.injEq] at h
    subst h
    exact hj
  · simp at h
  · split at h <;> simp at h

/-- **`cast`**: whenever the evaluator replaces `Cast<to>(x)` it replaces it by `Identity(x)`, and —
because the annotated element type of `x` (truthful by `InfoSound`) equals `to` — the `Cast` node
computes exactly its input (`OpLaws.cast_same`). -/
theorem cast_identity_sound (sem : Sem V) (L : OpLaws sem) (σ : String → Int) (st st' : St) (n : Node) (r : Repl)
    (ρ : Env V) (hI : InfoSound L σ st ρ) (hop : n.op = "Cast") (hdom : n.domain = "")
    (hto : intAttr n "to" none ≠ some 0)
    (hev : evCast st n = (.repl r, st')) :
    ∃ x, getInput n 0 = some x ∧ IsIdentityOf r x ∧
      ∀ v, ρ x = some v → sem.op n.op n.domain n.attrs [some v] = some [v] := by
  unfold evCast at hev
  split at hev
  · rename_i x o hx ho
    split at hev
    · rename_i to hattr
      split at hev
      · rename_i heq
        refine ⟨x, hx, ?_, ?_⟩
        · simp only [replIdentity, St.freshName, Prod.mk.injEq, EvRes.repl.injEq] at hev
          exact ⟨_, by rw [← hev.1], by rw [← hev.1], by rw [← hev.1]⟩
        · intro v hv
          have hinp : n.inputs[0]? = some (some x) := by
            unfold getInput at hx
            cases h0 : n.inputs[0]? with
            | none => simp [h0] at hx
            | some y => simp [h0] at hx; rw [hx]
          cases hdt : (st.getInfo x).dtype with
          | none =>
            exfalso
            simp only [elemType, hinp, hdt, Option.getD_none] at heq
            have : to = 0 := by
              have := beq_iff_eq.mp heq
              simpa using this.symm
            exact hto (by rw [hattr, this])
          | some dt =>
            simp only [elemType, hinp, hdt, Option.getD_some] at heq
            have hdtto : to = (dt : Int) := (beq_iff_eq.mp heq).symm
            rw [hop, hdom]
            exact L.cast_same n.attrs v dt (hI.dtype x v dt hv hdt) (by rw [← hdtto]; exact intAttr_some hattr)
      · simp at hev
    · simp at hev
  · simp at hev

/-- **`cast_like`**: the evaluator replaces `CastLike(x, w)` (no attributes) by `Identity(x)` when the
annotated element types agree, and by `Cast<to = type of w>(x)` otherwise; in both cases the
replacement computes what `CastLike` computes (`castlike_is_cast`, then `cast_same`). -/
theorem castlike_sound (sem : Sem V) (L : OpLaws sem) (σ : String → Int) (st st' : St) (n : Node) (r : Repl)
    (ρ : Env V) (hI : InfoSound L σ st ρ) (hop : n.op = "CastLike") (hdom : n.domain = "") (hattrs : n.attrs = [])
    (x w : Name) (hin : n.inputs = [some x, some w]) (vx vw : V) (hvx : ρ x = some vx) (hvw : ρ w = some vw)
    (hev : evCastLike st n = (.repl r, st')) :
    (IsIdentityOf r x ∧ sem.op n.op n.domain n.attrs [some vx, some vw] = some [vx]) ∨
    (∃ (dt : Nat) (o' : Name), r.newNodes = [mkNode "Cast" [some x] [o'] [("to", .int dt)]] ∧ r.newOuts = [o'] ∧
      sem.op n.op n.domain n.attrs [some vx, some vw] = sem.op "Cast" "" [("to", .int dt)] [some vx]) := by
  unfold evCastLike at hev
  rw [hin] at hev
  simp only [] at hev
  have e0 : elemType st n 0 = ((st.getInfo x).dtype).getD 0 := by simp [elemType, hin]
  have e1 : elemType st n 1 = ((st.getInfo w).dtype).getD 0 := by simp [elemType, hin]
  split at hev
  · simp at hev
  · rename_i htgt
    cases hdw : (st.getInfo w).dtype with
    | none => simp [e1, hdw] at htgt
    | some dw =>
      have hw := hI.dtype w vw dw hvw hdw
      have hcl := L.castlike_is_cast vx vw dw hw
      split at hev
      · rename_i hsame
        left
        constructor
        · simp only [replIdentity, St.freshName, Prod.mk.injEq, EvRes.repl.injEq] at hev
          exact ⟨_, by rw [← hev.1], by rw [← hev.1], by rw [← hev.1]⟩
        · rw [hop, hdom, hattrs, hcl]
          cases hdx : (st.getInfo x).dtype with
          | none =>
            exfalso
            have h2 := beq_iff_eq.mp hsame
            rw [e0, e1, hdx, hdw] at h2
            simp only [Option.getD_none, Option.getD_some] at h2
            apply htgt
            rw [e1, hdw]
            simp only [Option.getD_some]
            exact beq_iff_eq.mpr h2.symm
          | some dx =>
            have h2 := beq_iff_eq.mp hsame
            rw [e0, e1, hdx, hdw] at h2
            simp only [Option.getD_some] at h2
            subst h2
            exact L.cast_same _ vx dx (hI.dtype x vx dx hvx hdx) rfl
      · right
        simp only [St.freshName, Prod.mk.injEq, EvRes.repl.injEq] at hev
        have e1' : elemType st n 1 = dw := by rw [e1, hdw]; rfl
        rw [e1'] at hev
        exact ⟨dw, _, by rw [← hev.1], by rw [← hev.1], by rw [hop, hdom, hattrs, hcl]⟩

theorem mapM_denote_known (σ : String → Int) : ∀ (l : List Int), (l.map Dim.known).mapM (Dim.denote σ) = some l
  | [] => rfl
  | a :: l => by
    simp only [List.map_cons, List.mapM_cons, Dim.denote, mapM_denote_known σ l]
    rfl

/-- **`get_shape_value` is sound** (the `shape` half of `symMap_sound`): whatever the state reports as
the shape value of `t` — read from a small 1-D INT64 constant or from the symbolic map — is what
`t` holds at run time, for every valuation `σ` of the symbolic dimensions. -/
theorem shapeValue_sound (sem : Sem V) (L : OpLaws sem) (σ : String → Int) (st : St) (ρ : Env V)
    (hI : InfoSound L σ st ρ) (t : Name) (sv : List Dim) (vt : V) (dims : List Int)
    (h : shapeValue st (some t) = some sv) (hvt : ρ t = some vt) (hd : sv.mapM (Dim.denote σ) = some dims) :
    L.isInts vt dims := by
  unfold shapeValue at h
  split at h
  · rename_i c hc
    split at h
    · rename_i hlen
      cases hints : c.ints with
      | none => simp [hints] at h
      | some l =>
        simp only [hints, Option.map_some, Option.some.injEq] at h
        subst h
        rw [mapM_denote_known] at hd
        simp only [Option.some.injEq] at hd
        subst hd
        -- the constant `c` is the constant of `t`, of dtype INT64
        unfold numpyValue at hc
        simp only [] at hc
        split at hc
        · simp at hc
        · cases hct : st.constOf t with
          | none => simp [hct] at hc
          | some c' =>
            simp only [hct] at hc
            split at hc
            · simp at hc
            · rename_i hdt
              split at hc
              · simp at hc
              · simp only [Option.some.injEq] at hc
                subst hc
                have hv := hI.const t c' hct
                rw [hvt] at hv
                simp only [Option.some.injEq] at hv
                subst hv
                have hdt' : c'.dtype = DT_INT64 := by simpa using hdt
                exact L.tensor_ints c' l hdt' (by simpa using hlen) hints
    · simp at h
  · split at h
    · rename_i s hs
      simp only [Option.some.injEq] at h
      subst h
      exact hI.symShape t vt s dims hvt hs hd
    · simp at h

theorem sameShape_eq {a b : List Dim} (h : sameShape a b = true) : a = b := by
  unfold sameShape at h
  simp only [Bool.and_eq_true, beq_iff_eq] at h
  exact h.2

/-- **`reshape`** (and, with the same proof shape, the symbolic branch of `expand`): when the evaluator
replaces `Reshape(x, t)` it replaces it by `Identity(x)`; and since `_same_shape` made the annotated
shape of `x` equal to the shape value of `t` dimension by dimension, for *every* binding `σ` of
the symbolic dimensions under which that shape denotes, `x` has exactly the shape `t` asks for
and the node is a no-op (`OpLaws.reshape_same`) — no special values `0`/`-1` can interfere. -/
theorem reshape_identity_sound (sem : Sem V) (L : OpLaws sem) (σ : String → Int) (st st' : St) (n : Node) (r : Repl)
    (ρ : Env V) (hI : InfoSound L σ st ρ) (hop : n.op = "Reshape") (hdom : n.domain = "")
    (hev : evReshape st n = (.repl r, st')) :
    ∃ x t ishape, getInput n 0 = some x ∧ getInput n 1 = some t ∧ (st.getInfo x).shape = some ishape ∧ IsIdentityOf r x ∧
      ∀ vx vt dims, ρ x = some vx → ρ t = some vt → ishape.mapM (Dim.denote σ) = some dims →
        sem.op n.op n.domain n.attrs [some vx, some vt] = some [vx] := by
  unfold evReshape at hev
  split at hev
  · rename_i x t hx ht
    split at hev
    · rename_i ishape sv hishape hsv
      split at hev
      · rename_i hsame
        refine ⟨x, t, ishape, hx, ht, hishape, ?_, ?_⟩
        · simp only [replIdentity, St.freshName, Prod.mk.injEq, EvRes.repl.injEq] at hev
          exact ⟨_, by rw [← hev.1], by rw [← hev.1], by rw [← hev.1]⟩
        · intro vx vt dims hvx hvt hd
          have heq := sameShape_eq hsame
          rw [hop, hdom]
          exact L.reshape_same n.attrs vx vt dims (hI.shape x vx ishape dims hvx hishape hd)
            (shapeValue_sound sem L σ st ρ hI t sv vt dims hsv hvt (by rw [← heq]; exact hd))
      · simp only [propagateShapeValue] at hev
        split at hev <;> simp at hev
    · simp only [propagateShapeValue] at hev
      split at hev <;> simp at hev
  · simp at hev

/-- **`concat`, single operand**: `Concat(x)` is replaced by `Identity(x)` and computes `x`. -/
theorem concat_single_sound (sem : Sem V) (L : OpLaws sem) (st st' : St) (n : Node) (r : Repl) (x : Name)
    (hop : n.op = "Concat") (hdom : n.domain = "") (hin : n.inputs = [some x])
    (hev : evConcat st n = (.repl r, st')) :
    IsIdentityOf r x ∧ ∀ v, sem.op n.op n.domain n.attrs [some v] = some [v] := by
  unfold evConcat at hev
  rw [hin] at hev
  simp only [replIdentity, St.freshName, Prod.mk.injEq, EvRes.repl.injEq] at hev
  exact ⟨⟨_, by rw [← hev.1], by rw [← hev.1], by rw [← hev.1]⟩, fun v => by rw [hop, hdom]; exact L.concat_single _ v⟩

/-- **`dropout`, no `training_mode` input** (the inference default): the evaluator always fires, the
first new node is `Identity(x)` feeding the first replaced output, and the `Dropout` node's first
output is its input (`OpLaws.dropout_inference`); with two declared outputs the mask is rebuilt as
`ConstantOfShape(Shape(x), value=[True])`. -/
theorem dropout_inference_sound (sem : Sem V) (L : OpLaws sem) (st : St) (n : Node) (x : Name) (rest : List (Option Name))
    (hop : n.op = "Dropout") (hdom : n.domain = "") (hin : n.inputs = some x :: rest)
    (hrest : rest = [] ∨ (∃ q, rest = [q]) ∨ (∃ q, rest = [q, none])) :
    ∃ r st' o', evDropout st n = (.repl r, st') ∧ r.newNodes.head? = some (mkNode "Identity" [some x] [o']) ∧
      r.newOuts.head? = some o' ∧ r.newOuts.length = (if n.outputs.length == 1 then 1 else 2) ∧
      ∀ v args vs, sem.op n.op n.domain n.attrs (some v :: args) = some vs →
        (args = [] ∨ (∃ a, args = [a]) ∨ (∃ a, args = [a, none])) → vs.head? = some v := by
  have hlaw : ∀ v args vs, sem.op n.op n.domain n.attrs (some v :: args) = some vs →
      (args = [] ∨ (∃ a, args = [a]) ∨ (∃ a, args = [a, none])) → vs.head? = some v := fun v args vs h ha => by
    rw [hop, hdom] at h; exact L.dropout_inference n.attrs v args vs ha h
  have hcond : (n.inputs.length ≤ 2 || (n.inputs[2]?).join == none) = true := by
    rcases hrest with h | ⟨q, h⟩ | ⟨q, h⟩ <;> subst h <;> simp [hin]
  unfold evDropout
  rw [if_pos hcond]
  simp only [hin]
  by_cases h1 : (n.outputs.length == 1) = true
  · rw [if_pos h1]
    simp only [St.freshName, h1, if_true]
    exact ⟨_, _, _, rfl, rfl, rfl, rfl, hlaw⟩
  · rw [if_neg h1]
    simp only [St.freshName, h1]
    exact ⟨_, _, _, rfl, rfl, rfl, rfl, hlaw⟩

/-! ### non-vacuity: the hypotheses of the theorems above are satisfiable by ordinary graphs -/

/-- arithmetic over `Nat` -/
def natSem : Sem Nat where
  op := fun o _ _ args =>
    match o, args with
    | "Add", [some a, some b] => some [a + b]
    | "Mul", [some a, some b] => some [a * b]
    | "Identity", [some a] => some [a]
    | _, _ => none
  ctl := fun _ _ _ _ _ => none
  truth := fun v => some (v != 0)
  tensor := fun t => if t == "t1" then 1 else if t == "t2" then 2 else if t == "f" then 3 else 0
  intsTensor := fun l => l.length
  intTensor := fun i => i.toNat

def nAdd : Node := .mk "Add" "" [some "a", some "b"] ["o"] [] []
def nMul : Node := .mk "Mul" "" [some "x", some "o"] ["y"] [] []

/-- `o = Add(a, b)` with initializers `a = 1`, `b = 2` is folded into the initializer `o = 3`
(reference answer `f`); every hypothesis of `generic_fold_sound` holds, for every argument list and
every enclosing environment. -/
example (outer : Env Nat) (args : List (Option Nat)) :
    evalGraph natSem 1 outer (Graph.mk ["x"] ([("a", "t1"), ("b", "t2")] ++ [("o", "f")]) ([] ++ [nMul]) ["y"]) args
      = evalGraph natSem 1 outer (Graph.mk ["x"] [("a", "t1"), ("b", "t2")] ([] ++ nAdd :: [nMul]) ["y"]) args := by
  refine generic_fold_sound natSem 0 outer ["x"] [("a", "t1"), ("b", "t2")] [] [nMul] nAdd ["y"] "o" "f"
    [some 1, some 2] args rfl (by decide) rfl (by decide) ?_ rfl
  intro ρ0 ρ h0 h1
  have ha := initializer_is_constant natSem (evalGraph natSem 0) outer ["x"] [("a", "t1"), ("b", "t2")]
    ([] ++ nAdd :: [nMul]) ["y"] [] args "a" "t1" ⟨[], [("b", "t2")], rfl, by decide⟩ (by decide) (by simp) ρ0 ρ h0 h1
  have hb := initializer_is_constant natSem (evalGraph natSem 0) outer ["x"] [("a", "t1"), ("b", "t2")]
    ([] ++ nAdd :: [nMul]) ["y"] [] args "b" "t2" ⟨[("a", "t1")], [], rfl, by decide⟩ (by decide) (by simp) ρ0 ρ h0 h1
  simp only [nAdd, Node.inputs, lookupAll, lookupIn, ha, hb]
  rfl

/-- …and the folded graph really computes `x * 3` (so both sides above are defined, not both `none`). -/
example : evalGraph natSem 1 Env.empty (Graph.mk ["x"] [("a", "t1"), ("b", "t2")] [nAdd, nMul] ["y"]) [some 5] = some [15] := by
  decide +kernel

/-- `alias_subst_sound` / `identity_establishes_alias` instance: after `o = Identity(x)` the alias holds. -/
example (ρ ρ' : Env Nat)
    (h : evalNode natSem (evalGraph natSem 0) ρ (.mk "Identity" "" [some "x"] ["o"] [] []) = some ρ') : ρ' "o" = ρ' "x" :=
  identity_establishes_alias natSem (evalGraph natSem 0) ρ ρ' "x" "o" [] (fun _ => rfl) (by decide) h

/-- `pipeline_preserves` instance: the identity passes satisfy the contracts. -/
example (g : Graph) (o : OptOpts) :
    Refines natSem 3 (optimizeIr ⟨id, fun g => (g, false), fun g => (g, false), id, id, id, id, id, id⟩ (fun g => (g, false)) o g) g :=
  pipeline_preserves natSem 3 _ ⟨fun g => Refines.refl _ _ g, fun g => Refines.refl _ _ g, fun g => Refines.refl _ _ g,
    fun g => Refines.refl _ _ g, fun g => Refines.refl _ _ g, fun g => Refines.refl _ _ g, fun g => Refines.refl _ _ g,
    fun g => Refines.refl _ _ g, fun g => Refines.refl _ _ g⟩ _ (fun g => Refines.refl _ _ g) o g

/-! ### non-vacuity of the end-to-end theorem: a graph of the fragment on which folding fires -/

/-- every operator yields the value `3`, every constant is `3`: any oracle table is then sound -/
def threeSem : Sem Nat where
  op := fun _ _ _ _ => some [3]
  ctl := fun _ _ _ _ _ => none
  truth := fun _ => none
  tensor := fun _ => 3
  intsTensor := fun _ => 3
  intTensor := fun _ => 3

def tokA : CInfo := { tok := "t1", dtype := 1, shape := [], ints := none, isZero := some false }
def tokB : CInfo := { tok := "t2", dtype := 1, shape := [], ints := none, isZero := some false }

def ctxE : Ctx :=
  { inLimit := 8192, outLimit := 262144, shouldFold := none, imports := [("", 18)], isFunction := false,
    toks := [("t1", tokA), ("t2", tokB)],
    oracle := [("Mul||18|t1&t2|", .single { tok := "f", dtype := 1, shape := [], ints := none, isZero := some false })] }

/-- `o = Mul(a, b); y = Sub(x, o)` with initializers `a`, `b` -/
def gE : Graph :=
  .mk ["x"] [("a", "t1"), ("b", "t2")]
    [.mk "Mul" "" [some "a", some "b"] ["o"] [] [], .mk "Sub" "" [some "x", some "o"] ["y"] [] []] ["y"]

def infoE : List (Name × VInfo) :=
  [("a", { dtype := some 1, shape := some [], const := some tokA }), ("b", { dtype := some 1, shape := some [], const := some tokB })]

/-- folding does fire on `gE`: the `Mul` disappears, `o` becomes an initializer, `a` and `b` are popped -/
example : (foldGraph ctxE infoE gE).2.nodes.map (·.op) = ["Sub"] ∧
    (foldGraph ctxE infoE gE).2.inits = [("o", "f")] := by decide

/-- non-vacuity of `fold_unmodified_means_unchanged`: `y = Sub(x, x)` — nothing to do, the flag stays down -/
example : (foldGraph ctxE infoE (.mk ["x"] [] [.mk "Sub" "" [some "x", some "x"] ["y"] [] []] ["y"])).1.modified = false := by
  decide

theorem fresh_ne (k : Nat) (s : String) (hs : s.toList.head? ≠ some '%') : "%" ++ toString k ≠ s := by
  intro h
  apply hs
  rw [← h]
  simp [String.toList_append]

/-- every hypothesis of `fold_generic_fragment_preserves` holds for `gE`, for every argument list
and enclosing environment -/
example (outer : Env Nat) (args : List (Option Nat)) (vs : List Nat)
    (he : evalGraph threeSem 1 outer gE args = some vs) :
    evalGraph threeSem 1 outer (foldGraph ctxE infoE gE).2 args = some vs := by
  refine fold_generic_fragment_preserves threeSem ctxE rfl (fun _ _ _ _ _ _ => rfl) infoE gE ⟨?_, by decide, ?_⟩ ?_ 0 outer args ⟨?_, ?_⟩ vs he
  · intro n hn
    simp only [gE, Graph.nodes, List.mem_cons, List.mem_nil_iff, or_false] at hn
    rcases hn with rfl | rfl
    · exact ⟨rfl, by decide, fun v => rfl, by decide⟩
    · exact ⟨rfl, by decide, fun v => rfl, by decide⟩
  · intro n hn o ho
    simp only [gE, Graph.nodes, List.mem_cons, List.mem_nil_iff, or_false] at hn
    rcases hn with rfl | rfl
    · have : o = "o" := by simpa [Node.outputs] using ho
      subst this; decide
    · have : o = "y" := by simpa [Node.outputs] using ho
      subst this; decide
  · intro k
    have h1 := fresh_ne k "a" (by decide)
    have h2 := fresh_ne k "b" (by decide)
    have h3 := fresh_ne k "x" (by decide)
    have h4 := fresh_ne k "o" (by decide)
    simp only [cnt, gE, Graph.nodes, List.flatMap_cons, List.flatMap_nil, Node.inputs, List.append_nil, List.cons_append,
      List.nil_append]
    apply List.count_eq_zero.mpr
    simp only [List.mem_cons, Option.some.injEq, List.mem_nil_iff, or_false]
    intro h
    rcases h with h | h | h | h
    · exact h1 h
    · exact h2 h
    · exact h3 h
    · exact h4 h
  · intro ρ0 h0 x c hx
    show ρ0 x = some 3
    have hxa : x = "a" ∨ x = "b" := by
      by_cases ha : x = "a"
      · exact Or.inl ha
      · by_cases hb : x = "b"
        · exact Or.inr hb
        · exfalso
          have h1 : ("a" == x) = false := by simpa using fun e => ha e.symm
          have h2 : ("b" == x) = false := by simpa using fun e => hb e.symm
          simp [infoE, lookupA, List.find?, h1, h2] at hx
    rcases hxa with rfl | rfl
    · exact (initializer_is_constant threeSem (evalGraph threeSem 0) outer ["x"] [("a", "t1"), ("b", "t2")] gE.nodes ["y"] []
        args "a" "t1" ⟨[], [("b", "t2")], rfl, by decide⟩ (by decide) (by simp) ρ0 ρ0 h0 rfl :)
    · exact (initializer_is_constant threeSem (evalGraph threeSem 0) outer ["x"] [("a", "t1"), ("b", "t2")] gE.nodes ["y"] []
        args "b" "t2" ⟨[("a", "t1")], [], rfl, by decide⟩ (by decide) (by simp) ρ0 ρ0 h0 rfl :)
  · intro x c hx m hm
    have hxa : x = "a" ∨ x = "b" := by
      by_cases ha : x = "a"
      · exact Or.inl ha
      · by_cases hb : x = "b"
        · exact Or.inr hb
        · exfalso
          have h1 : ("a" == x) = false := by simpa using fun e => ha e.symm
          have h2 : ("b" == x) = false := by simpa using fun e => hb e.symm
          simp [infoE, lookupA, List.find?, h1, h2] at hx
    simp only [gE, Graph.nodes, List.mem_cons, List.mem_nil_iff, or_false] at hm
    rcases hxa with rfl | rfl <;> rcases hm with rfl | rfl <;> decide

/-! ### reference attributes (function bodies) -/

/-- (One-guard unfolding of the model, pins a branch; not a headline result.)  `_get_int_attribute` on a reference
attribute: the attribute is present, its value is not an int, the answer is `None` — never the operator's default. -/
theorem intAttr_ref (n : Node) (k r : String) (dflt : Option Int)
    (h : (n.attrs.find? (·.1 == k)).map (·.2) = some (Attr.ref r)) : intAttr n k dflt = none := by
  unfold intAttr Node.attr
  rw [h]

/-- **Evaluators do not fire on a reference attribute they read** (`concat_from_sequence`:
`new_axis`, `axis`; `split_to_sequence`: `axis`): with `new_axis=@r` the evaluator declines, so a
function body is not specialised to the operator's default for every call site. -/
theorem concat_from_sequence_declines_on_ref (st : St) (n : Node) (r : String)
    (h : (n.attrs.find? (·.1 == "new_axis")).map (·.2) = some (Attr.ref r)) :
    ∃ st', evConcatFromSequence st n = (EvRes.none, st') ∨ ∃ m, evConcatFromSequence st n = (EvRes.error m, st') := by
  unfold evConcatFromSequence
  split
  · exact ⟨st, Or.inr ⟨_, rfl⟩⟩
  · split
    · split
      · exact ⟨st, Or.inl rfl⟩
      · simp only [intAttr_ref n "new_axis" r (some 0) h]
        split
        · exact ⟨st, Or.inl rfl⟩
        · simp
    · exact ⟨st, Or.inl rfl⟩

def isRepl : PRes → Bool
  | .repl _ _ => true
  | _ => false

/-- (One-guard unfolding of `processNode`: pins the guard added by commit 1825327; not a semantic theorem.)
**Nodes with a reference attribute are left alone**: for every option tuple and
state, `process_node` keeps a node that carries an attribute reference after the input
substitution — no partial evaluator and no generic folding can specialise a function body to one
call site's (or the operator's default) attribute value. -/
theorem reference_attribute_kept (ctx : Ctx) (st : St) (n : Node) (h : hasRefAttr n = true) :
    ∃ n' st', processNode ctx st n = (.keep n', st') ∧ n'.attrs = n.attrs := by
  have hattrs : (substInputs st n).1.attrs = n.attrs := by
    unfold substInputs
    cases n
    rfl
  have h' : hasRefAttr (substInputs st n).1 = true := by
    unfold hasRefAttr
    rw [hattrs]
    exact h
  unfold processNode
  simp only [h', if_true]
  exact ⟨_, _, rfl, hattrs⟩

def tokRc : CInfo := { tok := "t0", dtype := 1, shape := [2, 2], ints := none, isZero := none }
def tokRax : CInfo := { tok := "t1", dtype := 7, shape := [1], ints := some [0], isZero := some true }

def ctxRef : Ctx :=
  { inLimit := 8192, outLimit := 262144, shouldFold := none, imports := [("", 18)], isFunction := true, toks := [],
    oracle := [("ReduceSum||18|t0&t1|keepdims=r:k", .single { tok := "f0", dtype := 1, shape := [2], ints := none, isZero := none })] }

def stRef : St :=
  { info := [("c", { dtype := some 1, shape := some [.known 2, .known 2], const := some tokRc }),
             ("ax", { dtype := some 7, shape := some [.known 1], const := some tokRax })] }

/-- `r0 = ReduceSum<keepdims=@k>(c, ax)` inside a function body -/
def nRef : Node := .mk "ReduceSum" "" [some "c", some "ax"] ["r0"] [("keepdims", .ref "k")] []

/-- Regression witness of C03-D2 (fixed by 1825327): the all-constant `ReduceSum<keepdims=@k>` — which
the gate cascade alone would still fold, the oracle answering for `keepdims=None` — is kept by `process_node`. -/
theorem reference_attribute_witness_kept :
    isRepl (processNode ctxRef stRef nRef).1 = false ∧ isRepl (gateCascade ctxRef stRef nRef 18).1 = true := by
  decide

/-- (One-guard unfolding of `oracleAnswer`; not a headline result.)  Regression witness of C03-D3 (fixed by 9d7b9e7): below opset 13 the reference evaluator has no answer for
Softmax / LogSoftmax / Hardmax, whatever the oracle table says; from opset 13 on the table is consulted. -/
theorem softmax_family_not_evaluated_below_13 (ctx : Ctx) (st : St) (n : Node) (v : Nat)
    (hd : n.domain = "") (hv : v < 13) (hop : n.op = "Softmax" ∨ n.op = "LogSoftmax" ∨ n.op = "Hardmax") :
    oracleAnswer ctx st n v = some .fail := by
  unfold oracleAnswer refEvaluatorMissing
  rcases hop with h | h | h <;> simp [hd, hv, h]

/-! ### non-vacuity of the fragment-A theorem: Constant + fold + Identity + output replacement all fire -/

/-- every operator yields `3`, every constant is `3`; `Identity`, one-operand `Concat`, `Dropout`, `Cast`, `CastLike`,
`Reshape`, `Expand` return their first operand (every value has every element type and shape) -/
def idSem : Sem Nat where
  op := fun o _ _ args => match o, args with
    | "Identity", [some v] => some [v]
    | "Concat", [some v] => some [v]
    | "Dropout", some v :: _ => some [v]
    | "Cast", [some v] => some [v]
    | "CastLike", [some v, some _] => some [v]
    | "Reshape", [some v, some _] => some [v]
    | "Expand", [some v, some _] => some [v]
    | _, _ => some [3]
  ctl := fun _ _ _ _ _ => none
  truth := fun _ => none
  tensor := fun _ => 3
  intsTensor := fun _ => 3
  intTensor := fun _ => 3

/-- the operator laws hold of `idSem` -/
def idLaws : OpLaws idSem where
  hasDtype := fun _ _ => True
  hasShape := fun _ _ => True
  isInts := fun _ _ => True
  identity := fun _ _ => rfl
  cast_same := fun _ _ _ _ _ => rfl
  castlike_is_cast := fun _ _ _ _ => rfl
  reshape_same := fun _ _ _ _ _ _ => rfl
  expand_same := fun _ _ _ _ _ _ => rfl
  concat_single := fun _ _ => rfl
  dropout_inference := fun _ v _ vs _ h => by
    have h' : some [v] = some vs := h
    rw [← Option.some.inj h']; rfl
  tensor_ints := fun _ _ _ _ _ => trivial

def infoA : List (Name × VInfo) := infoE ++ [("x", { dtype := some 1 })]

/-- `c = Constant; o = Mul(a, b); s = Sub(x, o); y = Identity(s); z = Div(y, c); w = Concat(z); u = Dropout(w);
k = Cast<to=1>(x); q = CastLike(u, x)`, outputs `y, u, k, q`; `x` is annotated with element type 1 -/
def gA : Graph :=
  .mk ["x"] [("a", "t1"), ("b", "t2")]
    [.mk "Constant" "" [] ["c"] [("value", .tensor "t1")] [],
     .mk "Mul" "" [some "a", some "b"] ["o"] [] [],
     .mk "Sub" "" [some "x", some "o"] ["s"] [] [],
     .mk "Identity" "" [some "s"] ["y"] [] [],
     .mk "Div" "" [some "y", some "c"] ["z"] [] [],
     .mk "Concat" "" [some "z"] ["w"] [("axis", .int 0)] [],
     .mk "Dropout" "" [some "w"] ["u"] [] [],
     .mk "Cast" "" [some "x"] ["k"] [("to", .int 1)] [],
     .mk "CastLike" "" [some "u", some "x"] ["q"] [] []] ["y", "u", "k", "q"]

/-- on `gA`: the `Mul` is folded, the input `y` of `Div` is replaced by its alias `s`, `Concat(z)` and `Dropout(w)` are
replaced by `Identity(z)` (the second after alias substitution), `Cast<1>(x)` by `Identity(x)` (annotated type 1),
`CastLike(u, x)` by `Cast<1>(z)`, the graph outputs `y`, `u`, `k` by their aliases `s`, `z`, … -/
example : (foldGraph ctxE infoA gA).2.nodes.map (fun n => (n.op, n.inputs, n.outputs)) =
      [("Constant", [], ["c"]), ("Sub", [some "x", some "o"], ["s"]), ("Identity", [some "s"], ["y"]),
       ("Div", [some "s", some "c"], ["z"]), ("Identity", [some "z"], ["w"]), ("Identity", [some "z"], ["u"]),
       ("Identity", [some "x"], ["k"]), ("Cast", [some "z"], ["q"])] ∧
    (foldGraph ctxE infoA gA).2.outputs = ["s", "z", "k", "q"] ∧ (foldGraph ctxE infoA gA).2.inits = [("o", "f")] ∧
    (foldGraph ctxE infoA gA).1.err = none := by decide

theorem idSem_oracleSound (ctx : Ctx) : OracleSound idSem ctx := by
  intro st n v c _ hins
  -- every argument is a constant, i.e. `3`
  have hargs : ∀ (l : List (Option Name)), (∀ x, some x ∈ l → (st.constOf x).isSome = true) →
      ∀ a ∈ constArgs idSem st l, a = none ∨ a = some 3 := by
    intro l
    induction l with
    | nil => intro _ a ha; simp [constArgs] at ha
    | cons y ys ih =>
      intro hl a ha
      have ih' := ih (fun x hx => hl x (List.mem_cons_of_mem _ hx))
      cases y with
      | none =>
        simp only [constArgs, List.mem_cons] at ha
        rcases ha with rfl | ha
        · exact Or.inl rfl
        · exact ih' a ha
      | some x =>
        simp only [constArgs, List.mem_cons] at ha
        rcases ha with rfl | ha
        · have := hl x List.mem_cons_self
          cases hc : st.constOf x with
          | none => rw [hc] at this; exact absurd this (by decide)
          | some cc => exact Or.inr rfl
        · exact ih' a ha
  have hall := hargs n.inputs hins
  have hfirst : ∀ (v' : Nat) (r : List (Option Nat)), constArgs idSem st n.inputs = some v' :: r → v' = 3 := by
    intro v' r h
    rcases hall (some v') (by rw [h]; simp) with h' | h'
    · exact absurd h' (by simp)
    · exact Option.some.inj h'
  show (match n.op, constArgs idSem st n.inputs with
    | "Identity", [some v] => some [v]
    | "Concat", [some v] => some [v]
    | "Dropout", some v :: _ => some [v]
    | "Cast", [some v] => some [v]
    | "CastLike", [some v, some _] => some [v]
    | "Reshape", [some v, some _] => some [v]
    | "Expand", [some v, some _] => some [v]
    | _, _ => some [3]) = some [3]
  split
  · rename_i v' _ h; rw [hfirst v' _ h]
  · rename_i v' _ h; rw [hfirst v' _ h]
  · rename_i v' _ _ h; rw [hfirst v' _ h]
  · rename_i v' _ h; rw [hfirst v' _ h]
  · rename_i v' _ _ h; rw [hfirst v' _ h]
  · rename_i v' _ _ h; rw [hfirst v' _ h]
  · rename_i v' _ _ h; rw [hfirst v' _ h]
  · rfl

theorem infoA_dom {x : Name} {c : CInfo} (hx : ((lookupA infoA x).getD {}).const = some c) : x = "a" ∨ x = "b" := by
  by_cases ha : x = "a"
  · exact Or.inl ha
  · by_cases hb : x = "b"
    · exact Or.inr hb
    · exfalso
      have h1 : ("a" == x) = false := by simpa using fun e => ha e.symm
      have h2 : ("b" == x) = false := by simpa using fun e => hb e.symm
      by_cases hxx : x = "x"
      · subst hxx; simp [infoA, infoE, lookupA, List.find?] at hx
      · have h3 : ("x" == x) = false := by simpa using fun e => hxx e.symm
        simp [infoA, infoE, lookupA, List.find?, h1, h2, h3] at hx

theorem infoA_dtype_dom {x : Name} {dt : Nat} (hx : ((lookupA infoA x).getD {}).dtype = some dt) : x = "a" ∨ x = "b" ∨ x = "x" := by
  by_cases ha : x = "a"
  · exact Or.inl ha
  · by_cases hb : x = "b"
    · exact Or.inr (Or.inl hb)
    · by_cases hxx : x = "x"
      · exact Or.inr (Or.inr hxx)
      · exfalso
        have h1 : ("a" == x) = false := by simpa using fun e => ha e.symm
        have h2 : ("b" == x) = false := by simpa using fun e => hb e.symm
        have h3 : ("x" == x) = false := by simpa using fun e => hxx e.symm
        simp [infoA, infoE, lookupA, List.find?, h1, h2, h3] at hx

theorem nf_of_head (s : String) (hs : s.toList.head? ≠ some '%') : NF s := fun k => (fresh_ne k s hs).symm

example (outer : Env Nat) (args : List (Option Nat)) (vs : List Nat)
    (he : evalGraph idSem 1 outer gA args = some vs) :
    evalGraph idSem 1 outer (foldGraph ctxE infoA gA).2 args = some vs := by
  refine fold_fragmentA_preserves idSem ctxE rfl (idSem_oracleSound ctxE) idLaws (fun _ _ _ _ _ _ _ => trivial)
    (fun _ _ _ => trivial) infoA gA ⟨?_, by decide, ?_, ?_⟩ (fun _ _ _ _ _ _ _ _ _ _ _ _ _ _ => trivial) ?_ 0 outer args ⟨?_, ?_⟩ ?_ ?_ vs he
  · intro n hn
    simp only [gA, Graph.nodes, List.mem_cons, List.mem_nil_iff, or_false] at hn
    rcases hn with rfl | rfl | rfl | rfl | rfl | rfl | rfl | rfl | rfl
    · exact ⟨⟨rfl, by decide, Or.inr (Or.inl ⟨by decide, rfl, "c", rfl⟩)⟩, fun _ =>
        constMarkSound_of_coherent idSem ctxE ⟨fun _ _ _ => rfl, fun _ => rfl, fun _ => rfl⟩ "c" _ (Or.inl ⟨"t1", rfl⟩)⟩
    · exact ⟨⟨rfl, by decide, Or.inl ⟨by decide, fun v => rfl⟩⟩, fun h => absurd h (by decide)⟩
    · exact ⟨⟨rfl, by decide, Or.inl ⟨by decide, fun v => rfl⟩⟩, fun h => absurd h (by decide)⟩
    · exact ⟨⟨rfl, by decide, Or.inr (Or.inr (Or.inl ⟨rfl, rfl, "s", "y", rfl, rfl, by decide⟩))⟩, fun h => absurd h (by decide)⟩
    · exact ⟨⟨rfl, by decide, Or.inl ⟨by decide, fun v => rfl⟩⟩, fun h => absurd h (by decide)⟩
    · refine ⟨⟨rfl, by decide, Or.inr (Or.inr (Or.inr (Or.inl ⟨rfl, "z", "w", rfl, ?_, Or.inl ⟨rfl, rfl⟩⟩)))⟩, fun h => absurd h (by decide)⟩
      intro y hy
      have : y = "z" := by simpa [Node.inputs] using hy
      subst this; decide
    · refine ⟨⟨rfl, by decide, Or.inr (Or.inr (Or.inr (Or.inl ⟨rfl, "w", "u", rfl, ?_, Or.inr ⟨rfl, [], rfl, by decide⟩⟩)))⟩, fun h => absurd h (by decide)⟩
      intro y hy
      have : y = "w" := by simpa [Node.inputs] using hy
      subst this; decide
    · refine ⟨⟨rfl, by decide, Or.inr (Or.inr (Or.inr (Or.inr (Or.inl ⟨rfl, rfl, "x", "k", rfl, rfl, ?_, by decide⟩))))⟩, fun h => absurd h (by decide)⟩
      intro y hy
      have : y = "x" := by simpa [Node.inputs] using hy
      subst this; decide
    · refine ⟨⟨rfl, by decide, Or.inr (Or.inr (Or.inr (Or.inr (Or.inr ⟨rfl, rfl, rfl, "u", "x", "q", rfl, rfl, ?_⟩))))⟩, fun h => absurd h (by decide)⟩
      intro y hy
      have : y = "u" ∨ y = "x" := by simpa [Node.inputs] using hy
      rcases this with rfl | rfl <;> decide
  · intro n hn o ho
    simp only [gA, Graph.nodes, List.mem_cons, List.mem_nil_iff, or_false] at hn
    rcases hn with rfl | rfl | rfl | rfl | rfl | rfl | rfl | rfl | rfl <;>
      (have := ho; simp only [Node.outputs, List.contains_cons, List.contains_nil, Bool.or_false, beq_iff_eq] at this; subst this; decide)
  · intro n hn y hy
    simp only [gA, Graph.nodes, List.mem_cons, List.mem_nil_iff, or_false] at hn
    rcases hn with rfl | rfl | rfl | rfl | rfl | rfl | rfl | rfl | rfl <;>
      (simp only [mentionsTop, Node.inputs, Node.outputs, List.contains_cons, List.contains_nil, Bool.or_false, Bool.or_eq_true,
          beq_iff_eq, Option.some.injEq, Bool.false_or] at hy
       first
         | (rcases hy with (rfl | rfl) | rfl <;> exact nf_of_head _ (by decide))
         | (rcases hy with rfl | rfl <;> exact nf_of_head _ (by decide))
         | (subst hy; exact nf_of_head _ (by decide)))
  · intro k
    simp only [cnt, gA, Graph.nodes, List.flatMap_cons, List.flatMap_nil, Node.inputs, List.append_nil, List.cons_append,
      List.nil_append]
    apply List.count_eq_zero.mpr
    simp only [List.mem_cons, Option.some.injEq, List.mem_nil_iff, or_false]
    intro h
    rcases h with h | h | h | h | h | h | h | h | h | h | h | h
    · exact fresh_ne k "a" (by decide) h
    · exact fresh_ne k "b" (by decide) h
    · exact fresh_ne k "x" (by decide) h
    · exact fresh_ne k "o" (by decide) h
    · exact fresh_ne k "s" (by decide) h
    · exact fresh_ne k "y" (by decide) h
    · exact fresh_ne k "c" (by decide) h
    · exact fresh_ne k "z" (by decide) h
    · exact fresh_ne k "w" (by decide) h
    · exact fresh_ne k "x" (by decide) h
    · exact fresh_ne k "u" (by decide) h
    · exact fresh_ne k "x" (by decide) h
  · intro ρ0 h0 x c hx
    show ρ0 x = some 3
    rcases infoA_dom hx with rfl | rfl
    · exact (initializer_is_constant idSem (evalGraph idSem 0) outer ["x"] [("a", "t1"), ("b", "t2")] gA.nodes ["y", "u", "k", "q"] []
        args "a" "t1" ⟨[], [("b", "t2")], rfl, by decide⟩ (by decide) (by simp) ρ0 ρ0 h0 rfl :)
    · exact (initializer_is_constant idSem (evalGraph idSem 0) outer ["x"] [("a", "t1"), ("b", "t2")] gA.nodes ["y", "u", "k", "q"] []
        args "b" "t2" ⟨[("a", "t1")], [], rfl, by decide⟩ (by decide) (by simp) ρ0 ρ0 h0 rfl :)
  · intro x c hx m hm
    simp only [gA, Graph.nodes, List.mem_cons, List.mem_nil_iff, or_false] at hm
    rcases infoA_dom hx with rfl | rfl <;> rcases hm with rfl | rfl | rfl | rfl | rfl | rfl | rfl | rfl | rfl <;> decide
  · intro x c hx
    rcases infoA_dom hx with rfl | rfl <;> exact nf_of_head _ (by decide)
  · intro ρ0 ρf _ _
    refine ⟨fun _ _ _ _ _ => trivial, ?_⟩
    intro x dt hx
    rcases infoA_dtype_dom hx with rfl | rfl | rfl <;> exact nf_of_head _ (by decide)

/-! ### a refuted clause (finding C03-D1) -/

/-- A witness semantics over `Nat`: a value is the *rank* of a tensor (of the elements, for a
sequence).  `SplitToSequence` with a `split` input keeps the rank whatever `keepdims` says — the
sentence of the operator specification the evaluator overlooks. -/
def rankSem : Sem Nat where
  op := fun o _ _ args =>
    match o, args with
    | "SplitToSequence", some r :: _ => some [r]
    | "Split", some r :: _ => some [r, r, r]
    | "Squeeze", some r :: _ => some [r - 1]
    | "SequenceConstruct", some r :: _ => some [r]
    | "SequenceAt", some r :: _ => some [r]
    | "Identity", [some r] => some [r]
    | _, _ => none
  ctl := fun _ _ _ _ _ => none
  truth := fun _ => none
  tensor := fun t => if t == "t1" then 1 else 0
  intsTensor := fun _ => 1
  intTensor := fun _ => 0

def ctxK : Ctx :=
  { inLimit := 8192, outLimit := 262144, shouldFold := none, imports := [("", 18)], isFunction := false,
    toks := [], oracle := [] }

/-- `s = SplitToSequence(x:[2,3], sp=[1,1,1], axis=1, keepdims=0); y = SequenceAt(s, 0)` -/
def gK : Graph :=
  .mk ["x"] [("i", "t0"), ("sp", "t1")]
    [.mk "SplitToSequence" "" [some "x", some "sp"] ["s"] [("axis", .int 1), ("keepdims", .int 0)] [],
     .mk "SequenceAt" "" [some "s", some "i"] ["y"] [] []] ["y"]

def infoK : List (Name × VInfo) :=
  [("x", { dtype := some 1, shape := some [.known 2, .known 3] }),
   ("i", { dtype := some 7, shape := some [], const := some { tok := "t0", dtype := 7, shape := [], ints := some [0], isZero := some true } }),
   ("sp", { dtype := some 7, shape := some [.known 3], const := some { tok := "t1", dtype := 7, shape := [3], ints := some [1, 1, 1], isZero := none } })]

/-- The two sentences of the specification that matter here. -/
def IgnoresKeepdims (sem : Sem Nat) : Prop :=
  ∀ (a1 a2 : List (String × Attr)) (x sp : Nat),
    sem.op "SplitToSequence" "" a1 [some x, some sp] = sem.op "SplitToSequence" "" a2 [some x, some sp]

def IdentityLaw (sem : Sem Nat) : Prop := ∀ a (v : Nat), sem.op "Identity" "" a [some v] = some [v]

/-- **C03-D1.**  What is negated is the UNRESTRICTED universal (every graph, every annotation table, no well-formedness,
oracle or annotation hypothesis) — a statement stronger than any positive theorem of this file; the negation alone says
little.  What ties it to the finding is the witness `gK`/`infoK`/`ctxK` (a well-formed 3-node graph with truthful
annotations), on which the model of the pass produces what the real code produces.
"The folding pass as modelled preserves the meaning of every graph under every
semantics that obeys the operator specification" is false: under `rankSem` (which ignores
`keepdims` when `split` is given, as the specification and onnxruntime do) the original returns a
rank-2 tensor, the folded graph — `Split`, three `Squeeze`, `SequenceConstruct`, `Identity` — a rank-1
tensor.  Replayed on the real code: shape (2,1) becomes (2,). -/
theorem split_to_sequence_keepdims_refuted :
    ¬ (∀ (sem : Sem Nat), IgnoresKeepdims sem → IdentityLaw sem → ∀ (ctx : Ctx) (info : List (Name × VInfo)) (g : Graph) args,
        evalGraph sem 2 Env.empty (foldGraph ctx info g).2 args = evalGraph sem 2 Env.empty g args) := by
  intro h
  have h1 : IgnoresKeepdims rankSem := fun _ _ _ _ => rfl
  have h2 : IdentityLaw rankSem := fun _ _ => rfl
  have := h rankSem h1 h2 ctxK infoK gK [some 2]
  revert this
  decide +kernel

end OV.Props.C03
