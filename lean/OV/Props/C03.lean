import OV.Lemmas.C03Steps
/-!
# C03 — `optimize()` never changes what a model computes

Property theorems only.  Model: `OV.Model.C03Graph` (graphs and `evalGraph`), `OV.Model.C03Fold`,
`OV.Model.C03Pass` (`processNode`, `foldGraph`, `optimizeIr`).  Helper lemmas: `OV.Lemmas.C03Sem`
(frame property of `evalGraph`), `OV.Lemmas.C03Steps`.

Every operator is the uninterpreted `sem.op` (A-op); the reference evaluator's answer enters as
the hypothesis `href` (A-ref); onnx_ir passes and the rewrite pass enter `pipeline_preserves` as
refinement contracts (A-ir).  All statements hold for every operator semantics `sem`, every nesting
depth `d`, every enclosing environment, every argument list (every input), and — because no
statement mentions them — every value of the size limits / `should_fold` / iteration options.
-/
namespace OV.Props.C03
open OV.C03

variable {V : Type}

/-- `g'` computes whatever `g` computes (on every input on which `g` is defined). -/
def Refines (sem : Sem V) (d : Nat) (g' g : Graph) : Prop :=
  ∀ (outer : Env V) (args : List (Option V)) (vs : List V),
    evalGraph sem d outer g args = some vs → evalGraph sem d outer g' args = some vs

/-- **Alias substitution** (first loop of `process_node`): if the environment holds the same
value for `x` and `y` (what `symMap x = alias y` asserts), replacing the input `x` by `y`
does not change what the node computes — including what its bodies compute. -/
theorem alias_subst_sound (sem : Sem V) (sub : Env V → Graph → List (Option V) → Option (List V))
    (ρ : Env V) (n : Node) (x y : Name) (h : ρ x = ρ y) :
    evalNode sem sub ρ (n.setInputs (substIn x y n.inputs)) = evalNode sem sub ρ n := by
  have hin : (n.setInputs (substIn x y n.inputs)).inputs = substIn x y n.inputs := rfl
  have hout : ∀ args, nodeOutputs sem sub ρ (n.setInputs (substIn x y n.inputs)) args = nodeOutputs sem sub ρ n args := by
    intro args
    cases n with
    | mk op dom ins outs attrs subs =>
      have hemp : (substIn x y ins).isEmpty = ins.isEmpty := by simp [substIn]
      simp only [nodeOutputs, constDenote, Node.setInputs, Node.subs, Node.isOp, Node.op, Node.domain,
        Node.isOnnxDomain, Node.attrs, Node.inputs, Node.sub, Node.outputs, hemp]
      rfl
  unfold evalNode
  rw [hin, lookupAll_substIn h]
  cases lookupAll ρ n.inputs with
  | none => rfl
  | some args =>
    simp only [Option.bind, hout]
    rfl

/-- An `Identity` node establishes the alias the pass records for it: afterwards its output and
its input hold the same value (given the operator law `Identity v = v`). -/
theorem identity_establishes_alias (sem : Sem V) (sub) (ρ ρ' : Env V) (x o : Name) (attrs : List (String × Attr))
    (hid : ∀ v, sem.op "Identity" "" attrs [some v] = some [v]) (hne : o ≠ x)
    (h : evalNode sem sub ρ (.mk "Identity" "" [some x] [o] attrs []) = some ρ') : ρ' o = ρ' x := by
  simp only [evalNode, Node.inputs, lookupAll, lookupIn, Node.outputs] at h
  cases hx : ρ x with
  | none => simp [hx] at h
  | some v =>
    simp only [hx, Option.map, Option.bind, nodeOutputs, Node.subs, List.isEmpty_nil, if_true, constDenote,
      Node.isOp, Node.op, Node.domain, Node.attrs] at h
    have hc : ("Identity" == "Constant") = false := by decide
    simp only [hc, Bool.false_and, hid v] at h
    have h' : ρ' = ρ.set o v := by
      simp only [bindOuts, Bool.false_eq_true, if_false, Option.some.injEq] at h
      exact h.symm
    rw [h', Env.set_get_same, Env.set_get_ne ρ v (Ne.symm hne), hx]

/-- **Generic folding** (the tail of `process_node` + `new_initializer` + `replace_node`).
A node `n` without bodies whose inputs evaluate to fixed constants `cargs` whatever the
arguments are, and for which the reference evaluator's answer `c` is what the operator computes
(`href`, A-ref), may be removed and its output registered as the initializer `(o, c)`: the
graph's meaning is *equal* (same outputs, same definedness) for every argument list, every
enclosing environment and every nesting depth.  `hfresh` is single assignment + definition
before use for `o`.  No size limit, blacklist or `should_fold` occurs in the statement. -/
theorem generic_fold_sound (sem : Sem V) (d : Nat) (outer : Env V)
    (ins : List Name) (inits : List (Name × String)) (pre post : List Node) (n : Node) (outs : List Name)
    (o c : String) (cargs : List (Option V)) (args : List (Option V))
    (hplain : n.subs = []) (hnc : constDenote sem n = none) (hout : n.outputs = [o])
    (hfresh : mentionsG (d + 1) (Graph.mk ins inits pre []) o = false)
    (hconst : ∀ ρ0 ρ, startEnv sem outer (Graph.mk ins inits (pre ++ n :: post) outs) args = some ρ0 →
        evalNodes (evalNode sem (evalGraph sem d)) ρ0 pre = some ρ → lookupAll ρ n.inputs = some cargs)
    (href : sem.op n.op n.domain n.attrs cargs = some [sem.tensor c]) :
    evalGraph sem (d + 1) outer (Graph.mk ins (inits ++ [(o, c)]) (pre ++ post) outs) args
      = evalGraph sem (d + 1) outer (Graph.mk ins inits (pre ++ n :: post) outs) args := by
  simp only [mentionsG, Graph.inputs, Graph.inits, Graph.outputs, Graph.nodes, Bool.or_eq_false_iff] at hfresh
  obtain ⟨⟨⟨hin, hinit⟩, _⟩, hpre⟩ := hfresh
  -- start environments
  have hstart : startEnv sem outer (Graph.mk ins (inits ++ [(o, c)]) (pre ++ post) outs) args =
      (startEnv sem outer (Graph.mk ins inits (pre ++ n :: post) outs) args).map (·.set o (sem.tensor c)) := by
    simp only [startEnv, Graph.inits, Graph.inputs, Graph.initTok]
    rw [bindInits_append]
    simp only [bindInits]
    have hd : ∀ {xs : List Name} {as : List (Option V)} {ρ : Env V}, xs.contains o = false →
        bindInputs (fun x => (((inits ++ [(o, c)]).find? (fun p => p.1 == x)).map (·.2)).isSome) ρ xs as =
        bindInputs (fun x => ((inits.find? (fun p => p.1 == x)).map (·.2)).isSome) ρ xs as := by
      intro xs
      induction xs with
      | nil => intro as ρ _; cases as <;> rfl
      | cons x xs ih =>
        intro as ρ hx
        simp only [List.contains_cons, Bool.or_eq_false_iff] at hx
        have hxo : x ≠ o := by
          intro e; subst e; simp at hx
        cases as with
        | nil => rfl
        | cons a as =>
          cases a with
          | some w => simp only [bindInputs]; exact ih hx.2
          | none =>
            simp only [bindInputs, find_append_single hxo]
            split
            · exact ih hx.2
            · rfl
    rw [hd hin]
    exact bindInputs_set _ hin
  have hall : ∀ m ∈ pre, m.inputs.contains (some o) = false ∧ m.outputs.contains o = false ∧
      SubFrame (evalGraph sem d) o m := by
    intro m hm
    have := List.any_eq_false.mp hpre m hm
    simp only [Bool.not_eq_true] at this
    exact subFrame_of_mentions sem d o m this
  simp only [evalGraph, hstart, Graph.nodes, Graph.outputs]
  cases hs : startEnv sem outer (Graph.mk ins inits (pre ++ n :: post) outs) args with
  | none => rfl
  | some ρ0 =>
    simp only [Option.map, Option.bind]
    rw [evalNodes_append, evalNodes_append, evalNodes_set sem hall]
    cases hp : evalNodes (evalNode sem (evalGraph sem d)) ρ0 pre with
    | none => rfl
    | some ρ =>
      simp only [Option.map, Option.bind, evalNodes]
      have hn : evalNode sem (evalGraph sem d) ρ n = some (ρ.set o (sem.tensor c)) := by
        simp only [evalNode, hconst ρ0 ρ hs hp, Option.bind, nodeOutputs, hplain, List.isEmpty_nil, if_true, hnc,
          href, hout, bindOuts]
      rw [hn]

/-- Which nodes may be folded: the reflexive–transitive closure of single generic-fold steps
(each under the hypotheses of `generic_fold_sound`).  Any subset of the foldable nodes, in any
order, with any gate configuration, is an instance. -/
inductive FoldSteps (sem : Sem V) (d : Nat) (outer : Env V) (args : List (Option V)) : Graph → Graph → Prop
  | refl (g : Graph) : FoldSteps sem d outer args g g
  | step (ins : List Name) (inits : List (Name × String)) (pre post : List Node) (n : Node) (outs : List Name)
      (o c : String) (cargs : List (Option V)) (g'' : Graph)
      (hplain : n.subs = []) (hnc : constDenote sem n = none) (hout : n.outputs = [o])
      (hfresh : mentionsG (d + 1) (Graph.mk ins inits pre []) o = false)
      (hconst : ∀ ρ0 ρ, startEnv sem outer (Graph.mk ins inits (pre ++ n :: post) outs) args = some ρ0 →
          evalNodes (evalNode sem (evalGraph sem d)) ρ0 pre = some ρ → lookupAll ρ n.inputs = some cargs)
      (href : sem.op n.op n.domain n.attrs cargs = some [sem.tensor c])
      (rest : FoldSteps sem d outer args (Graph.mk ins (inits ++ [(o, c)]) (pre ++ post) outs) g'') :
      FoldSteps sem d outer args (Graph.mk ins inits (pre ++ n :: post) outs) g''

/-- **Option-tuple independence of folding.**  Whatever subset of foldable nodes the gate
cascade (`input_size_limit`, `output_size_limit`, always-fold exception, blacklist,
`should_fold`) lets through, the result computes exactly what the original computes. -/
theorem fold_preserves (sem : Sem V) (d : Nat) (outer : Env V) (args : List (Option V)) (g g' : Graph)
    (h : FoldSteps sem d outer args g g') :
    evalGraph sem (d + 1) outer g' args = evalGraph sem (d + 1) outer g args := by
  induction h with
  | refl g => rfl
  | step ins inits pre post n outs o c cargs g'' hplain hnc hout hfresh hconst href _ ih =>
    rw [ih]
    exact generic_fold_sound sem d outer ins inits pre post n outs o c cargs args hplain hnc hout hfresh hconst href

/-- An initializer that is not a formal input and is not redefined keeps its constant value in
every environment reached in the graph — this is what makes the hypothesis `hconst` of
`generic_fold_sound` hold for nodes fed by initializers. -/
theorem initializer_is_constant (sem : Sem V) (sub) (outer : Env V) (ins : List Name) (inits : List (Name × String))
    (nodes : List Node) (outs : List Name) (pre : List Node) (args : List (Option V)) (x t : String)
    (hlast : ∃ a b, inits = a ++ (x, t) :: b ∧ b.any (fun p => p.1 == x) = false)
    (hin : ins.contains x = false) (hpre : ∀ m ∈ pre, m.outputs.contains x = false)
    (ρ0 ρ : Env V) (h0 : startEnv sem outer (Graph.mk ins inits nodes outs) args = some ρ0)
    (h1 : evalNodes (evalNode sem sub) ρ0 pre = some ρ) : ρ x = some (sem.tensor t) := by
  obtain ⟨a, b, hab, hb⟩ := hlast
  rw [evalNodes_get_other sem h1 hpre]
  simp only [startEnv, Graph.inits, Graph.inputs] at h0
  have hbi : (bindInits sem outer inits) x = some (sem.tensor t) := by
    rw [hab, bindInits_append]
    simp only [bindInits]
    have := bindInits_set sem (ρ := bindInits sem outer a) (v := sem.tensor t) hb
    rw [this, Env.set_get_same]
  have key : ∀ {xs : List Name} {as : List (Option V)} {ρa ρb : Env V}, xs.contains x = false →
      bindInputs (fun z => ((Graph.mk ins inits nodes outs).initTok z).isSome) ρa xs as = some ρb → ρb x = ρa x := by
    intro xs
    induction xs with
    | nil =>
      intro as ρa ρb _ h
      cases as with
      | nil => simp only [bindInputs, Option.some.injEq] at h; rw [h]
      | cons _ _ => simp [bindInputs] at h
    | cons y ys ih =>
      intro as ρa ρb hx h
      simp only [List.contains_cons, Bool.or_eq_false_iff] at hx
      have hne : x ≠ y := by
        intro e; subst e; simp at hx
      cases as with
      | nil => simp [bindInputs] at h
      | cons a' as' =>
        cases a' with
        | some w =>
          simp only [bindInputs] at h
          rw [ih hx.2 h, Env.set_get_ne ρa w hne]
        | none =>
          simp only [bindInputs] at h
          split at h
          · exact ih hx.2 h
          · simp at h
  rw [key hin h0, hbi]

/-- **Graph-output replacement** (`visit_graph` + `_sym_value_can_replace_graph_output`): if in
the final environment every new output holds the value of the output it replaces (the alias
invariant), the graph returns the same list — same length, same order; the declared output
names are positional and untouched. -/
theorem output_replacement_sound (sem : Sem V) (d : Nat) (outer : Env V) (ins : List Name)
    (inits : List (Name × String)) (nodes : List Node) (outs outs' : List Name) (args : List (Option V))
    (hlen : outs'.length = outs.length)
    (halias : ∀ ρ0 ρ, startEnv sem outer (Graph.mk ins inits nodes outs) args = some ρ0 →
        evalNodes (evalNode sem (evalGraph sem d)) ρ0 nodes = some ρ →
        ∀ i (h1 : i < outs'.length) (h2 : i < outs.length), ρ (outs'[i]) = ρ (outs[i])) :
    evalGraph sem (d + 1) outer (Graph.mk ins inits nodes outs') args
      = evalGraph sem (d + 1) outer (Graph.mk ins inits nodes outs) args := by
  simp only [evalGraph, Graph.nodes, Graph.outputs]
  have hs : startEnv sem outer (Graph.mk ins inits nodes outs') args = startEnv sem outer (Graph.mk ins inits nodes outs) args := rfl
  rw [hs]
  cases h0 : startEnv sem outer (Graph.mk ins inits nodes outs) args with
  | none => rfl
  | some ρ0 =>
    simp only [Option.bind]
    cases h1 : evalNodes (evalNode sem (evalGraph sem d)) ρ0 nodes with
    | none => rfl
    | some ρ =>
      simp only []
      exact lookupOuts_pointwise hlen (halias ρ0 ρ h0 h1)

/-! ### the pipeline -/

theorem Refines.refl (sem : Sem V) (d : Nat) (g : Graph) : Refines sem d g g := fun _ _ _ h => h

theorem Refines.trans {sem : Sem V} {d : Nat} {g1 g2 g3 : Graph} (h12 : Refines sem d g2 g1) (h23 : Refines sem d g3 g2) :
    Refines sem d g3 g1 := fun o a v h => h23 o a v (h12 o a v h)

/-- Contracts for the passes that live outside `/repo` (A-ir) and for the rewrite pass (C05/C07). -/
structure PassContracts (sem : Sem V) (d : Nat) (P : IrPasses) : Prop where
  inline : ∀ g, Refines sem d (P.inline g) g
  rewrite : ∀ g, Refines sem d (P.rewrite g).1 g
  dce : ∀ g, Refines sem d (P.dce g).1 g
  liftConstants : ∀ g, Refines sem d (P.liftConstants g) g
  liftSubgraphInits : ∀ g, Refines sem d (P.liftSubgraphInits g) g
  dedup : ∀ g, Refines sem d (P.dedup g) g
  cse : ∀ g, Refines sem d (P.cse g) g
  outputFix : ∀ g, Refines sem d (P.outputFix g) g
  nameFix : ∀ g, Refines sem d (P.nameFix g) g

theorem iterStep_refines (sem : Sem V) (d : Nat) (P : IrPasses) (C : PassContracts sem d P)
    (fold : Graph → Graph × Bool) (hfold : ∀ g, Refines sem d (fold g).1 g) (g : Graph) :
    Refines sem d (iterStep P fold g).1 g := by
  simp only [iterStep]
  have h1 : Refines sem d (if (fold g).2 then P.nameFix (fold g).1 else (fold g).1) g := by
    split
    · exact Refines.trans (hfold g) (C.nameFix _)
    · exact hfold g
  exact Refines.trans (Refines.trans h1 (C.rewrite _)) (C.dce _)

theorem iterate_refines (sem : Sem V) (d : Nat) (P : IrPasses) (C : PassContracts sem d P)
    (fold : Graph → Graph × Bool) (hfold : ∀ g, Refines sem d (fold g).1 g) (early : Bool) :
    ∀ (k : Nat) (g : Graph), Refines sem d (iterate P fold early k g) g
  | 0, g => Refines.refl sem d g
  | k + 1, g => by
    simp only [iterate]
    split
    · exact iterStep_refines sem d P C fold hfold g
    · exact Refines.trans (iterStep_refines sem d P C fold hfold g) (iterate_refines sem d P C fold hfold early k _)

/-- **The pipeline preserves meaning** for every option tuple: any `num_iterations`,
`stop_if_no_change`, `inline`; the folding pass is any function that refines (for the modelled
steps that is `fold_preserves`/the evaluator lemmas; size limits and `should_fold` only select
among sound steps), the other passes satisfy their contracts. -/
theorem pipeline_preserves (sem : Sem V) (d : Nat) (P : IrPasses) (C : PassContracts sem d P)
    (fold : Graph → Graph × Bool) (hfold : ∀ g, Refines sem d (fold g).1 g) (o : OptOpts) (g : Graph) :
    Refines sem d (optimizeIr P fold o g) g := by
  simp only [optimizeIr]
  have h0 : Refines sem d (if o.inline then P.inline g else g) g := by
    split
    · exact C.inline g
    · exact Refines.refl sem d g
  have h1 := Refines.trans h0 (iterate_refines sem d P C fold hfold o.stopIfNoChange o.numIterations _)
  have h2 := Refines.trans h1 (C.dce _)
  have h3 := Refines.trans h2 (C.liftConstants _)
  have h4 := Refines.trans h3 (C.liftSubgraphInits _)
  have h5 := Refines.trans h4 (C.dedup _)
  have h6 := Refines.trans h5 (C.cse _)
  have h7 := Refines.trans h6 (C.outputFix _)
  exact Refines.trans h7 (C.nameFix _)

/-! ### a refuted clause (finding C03-D1) -/

/-- A witness semantics over `Nat`: a value is the *rank* of a tensor (of the elements, for a
sequence).  `SplitToSequence` with a `split` input keeps the rank whatever `keepdims` says — the
sentence of the operator specification the evaluator overlooks. -/
def rankSem : Sem Nat where
  op := fun o _ _ args =>
    match o, args with
    | "SplitToSequence", some r :: _ => some [r]
    | "Split", some r :: _ => some [r, r, r]
    | "Squeeze", some r :: _ => some [r - 1]
    | "SequenceConstruct", some r :: _ => some [r]
    | "SequenceAt", some r :: _ => some [r]
    | "Identity", [some r] => some [r]
    | _, _ => none
  ctl := fun _ _ _ _ _ => none
  truth := fun _ => none
  tensor := fun t => if t == "t1" then 1 else 0
  intsTensor := fun _ => 1
  intTensor := fun _ => 0

def ctxK : Ctx :=
  { inLimit := 8192, outLimit := 262144, shouldFold := none, imports := [("", 18)], isFunction := false,
    toks := [], oracle := [] }

/-- `s = SplitToSequence(x:[2,3], sp=[1,1,1], axis=1, keepdims=0); y = SequenceAt(s, 0)` -/
def gK : Graph :=
  .mk ["x"] [("i", "t0"), ("sp", "t1")]
    [.mk "SplitToSequence" "" [some "x", some "sp"] ["s"] [("axis", .int 1), ("keepdims", .int 0)] [],
     .mk "SequenceAt" "" [some "s", some "i"] ["y"] [] []] ["y"]

def infoK : List (Name × VInfo) :=
  [("x", { dtype := some 1, shape := some [.known 2, .known 3] }),
   ("i", { dtype := some 7, shape := some [], const := some { tok := "t0", dtype := 7, shape := [], ints := some [0], isZero := some true } }),
   ("sp", { dtype := some 7, shape := some [.known 3], const := some { tok := "t1", dtype := 7, shape := [3], ints := some [1, 1, 1], isZero := none } })]

/-- The two sentences of the specification that matter here. -/
def IgnoresKeepdims (sem : Sem Nat) : Prop :=
  ∀ (a1 a2 : List (String × Attr)) (x sp : Nat),
    sem.op "SplitToSequence" "" a1 [some x, some sp] = sem.op "SplitToSequence" "" a2 [some x, some sp]

def IdentityLaw (sem : Sem Nat) : Prop := ∀ a (v : Nat), sem.op "Identity" "" a [some v] = some [v]

/-- **C03-D1.**  "The folding pass as modelled preserves the meaning of every graph under every
semantics that obeys the operator specification" is false: under `rankSem` (which ignores
`keepdims` when `split` is given, as the specification and onnxruntime do) the original returns a
rank-2 tensor, the folded graph — `Split`, three `Squeeze`, `SequenceConstruct`, `Identity` — a rank-1
tensor.  Replayed on the real code: shape (2,1) becomes (2,). -/
theorem split_to_sequence_keepdims_refuted :
    ¬ (∀ (sem : Sem Nat), IgnoresKeepdims sem → IdentityLaw sem → ∀ (ctx : Ctx) (info : List (Name × VInfo)) (g : Graph) args,
        evalGraph sem 2 Env.empty (foldGraph ctx info g).2 args = evalGraph sem 2 Env.empty g args) := by
  intro h
  have h1 : IgnoresKeepdims rankSem := fun _ _ _ _ => rfl
  have h2 : IdentityLaw rankSem := fun _ _ => rfl
  have := h rankSem h1 h2 ctxK infoK gK [some 2]
  revert this
  decide

end OV.Props.C03
