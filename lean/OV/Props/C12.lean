import OV.Model.C12Autocast
import OV.Lemmas.C12Autocast
import OV.Gen.C12SchemasOk
/-!
# C12 — Python literals are promoted identically by converter, eager mode and graph builder

Property theorems only.  Model: `OV.Model.C12Autocast`; tables: `OV.Gen.C12Schemas*` (regenerated from
/repo on every run).
-/
namespace OV.Props.C12
open OV.Autocast

/-- **Translator theorem.**  For every operator schema of the default domain that is effective in some
opset 13..23 and has an input — as read from /repo's two code paths on this run — the three front ends
(converter and eager mode on the `OpSignature` reading, the builder on the raw `OpSchema` reading) agree
with the rule at every argument position (variadic tail included), for every literal of
`{0, 1, -3, 2.5, -0.0, True, [1,2], [0.5]}` and every sibling configuration (`agree3All`, checked by the
kernel on the interned shape of the row). -/
theorem registry_ok :
    ∀ r ∈ OV.Gen.C12.rows, ∃ s, OV.Gen.C12.shapes[r.shape]? = some s ∧ agree3All s.intern = true := by
  intro r hr
  have hlt := OV.Gen.C12.rows_indexed r hr
  have hmap : (OV.Gen.C12.shapes.map Shape.intern).length = OV.Gen.C12.ishapes.length := by
    rw [OV.Gen.C12.intern_ok]
  rw [List.length_map] at hmap
  have hlt' : r.shape < OV.Gen.C12.shapes.length := by omega
  refine ⟨OV.Gen.C12.shapes[r.shape], by simp [hlt'], ?_⟩
  apply OV.Gen.C12.ishapes_ok
  rw [← OV.Gen.C12.intern_ok]
  exact List.mem_map.mpr ⟨_, List.getElem_mem hlt', rfl⟩

/-- `agree3All` is not vacuous: it rejects a schema whose two readings differ in a type variable (the
builder would read `Add`'s second input as `U`), and one whose variadic flag is read differently. -/
example : agree3All ⟨[⟨0, true, false, true⟩, ⟨0, true, false, true⟩],
                     [⟨0, true, false, true⟩, ⟨1, true, false, true⟩]⟩ = false := by decide +kernel

example : agree3All ⟨[⟨0, true, true, true⟩], [⟨0, true, false, true⟩]⟩ = false := by decide +kernel

/-! ## The three front ends agree with the rule -/

/-- Tensor operands bound to one type variable have one dtype (the call is well typed w.r.t. the
schema's type constraints). -/
def WellTyped {κ : Type} [DecidableEq κ] (fs : List (Formal κ)) (args : List Arg) : Prop :=
  ∀ sa, assign fs args = .ok sa → WTsa sa

/-- **three_agree.**  For every signature (any number of formals, variadic or not, any type-constraint
names), every argument list (tensors of any dtype known or unknown to the builder, literals, absent
optionals, any length) that is well typed and whose literals are representable in the dtype the rule
assigns them (`allRepresentable`: homogeneous lists; ints in range of the target and of INT64 /
exactly representable in the target float; floats exactly float32 unless the target is FLOAT): the
converter's `static_cast_inputs`, eager mode's `dynamic_cast_inputs` and the builder's `_cast_inputs`
all produce exactly the operands the rule prescribes — same dtype, same rank, same value — or all three
refuse the call (too many arguments).  The representability hypothesis is forced: see the three
`…_full_refuted_…` theorems (findings D21, D23, D24). -/
theorem three_agree {κ : Type} [DecidableEq κ] (fs : List (Formal κ)) (args : List Arg)
    (hwt : WellTyped fs args) (hrep : allRepresentable fs args = true) :
    castStatic fs args = expected fs args ∧ castDynamic fs args = expected fs args
      ∧ castBuilder fs args = expected fs args := by
  unfold castStatic castDynamic castBuilder expected
  cases ha : assign fs args with
  | error e => exact ⟨rfl, rfl, rfl⟩
  | ok sa =>
    have hr := reprAt_of_all fs args sa ha hrep
    have hw := hwt sa ha
    refine ⟨?_, ?_, ?_⟩
    · exact mapE_ok_map _ _ _ (fun p hp => emitStatic_eq sa hw p (hr p hp))
    · exact mapE_ok_map _ _ _ (fun p hp => emitDynamic_eq sa hw p (hr p hp))
    · exact mapE_ok_map _ _ _ (fun p hp => emitBuilder_eq sa p (hr p hp))

/-- `Add(x : FLOAT16, 1)`-shaped witness (two formals sharing `T`). -/
def sigTT : List (Formal Nat) := [⟨0, true, false, true⟩, ⟨0, true, false, true⟩]

theorem wellTyped_one_tensor (d : DType) (k : Bool) (a : Arg) (ha : ∀ d' k', a ≠ .tensor d' k') :
    WellTyped sigTT [.tensor d k, a] := by
  intro sa h
  simp [assign, assignFrom, slotAt, sigTT] at h
  subst h
  exact wtsa_one_tensor _ _ d k a ha

/-- Non-vacuity of `three_agree`: `Add(x : FLOAT16, 1)` satisfies both hypotheses and the common result is
`(x, FLOAT16 1.0)`. -/
example : WellTyped sigTT [.tensor .float16 true, .lit (.s (.i 1))] ∧
    allRepresentable sigTT [.tensor .float16 true, .lit (.s (.i 1))] = true ∧
    castStatic sigTT [.tensor .float16 true, .lit (.s (.i 1))]
      = .ok [.pass .float16, .const .float16 false [.f false 1 1 false]] :=
  ⟨wellTyped_one_tensor _ _ _ (by intro d k h; cases h), by decide, by decide⟩

/-- Full statement without `allRepresentable`, refuted (finding **D21**): `x : UINT8 + (-3)` — the converter's
`CastLike` wraps to 253, eager mode and the builder raise `OverflowError`. -/
theorem three_agree_value_full_refuted_int :
    ¬ (∀ (fs : List (Formal Nat)) (args : List Arg), WellTyped fs args →
        castStatic fs args = castDynamic fs args ∧ castStatic fs args = castBuilder fs args) := by
  intro h
  have := (h sigTT [.tensor .uint8 true, .lit (.s (.i (-3)))]
    (wellTyped_one_tensor _ _ _ (by intro d k h; cases h))).1
  revert this; decide

/-- The two sides of D21, concretely. -/
example : castStatic sigTT [.tensor .uint8 true, .lit (.s (.i (-3)))] = .ok [.pass .uint8, .const .uint8 false [.i 253]]
    ∧ castDynamic sigTT [.tensor .uint8 true, .lit (.s (.i (-3)))] = .error .overflow
    ∧ castBuilder sigTT [.tensor .uint8 true, .lit (.s (.i (-3)))] = .error .overflow := by decide

/-- Full statement refuted (finding **D23**): `x : DOUBLE + 0.1` — the converter rounds 0.1 to float32 first
(`via32 = true`), eager mode and the builder convert the Python float directly. -/
theorem three_agree_value_full_refuted_float :
    ¬ (∀ (fs : List (Formal Nat)) (args : List Arg), WellTyped fs args →
        castStatic fs args = castDynamic fs args ∧ castStatic fs args = castBuilder fs args) := by
  intro h
  have := (h sigTT [.tensor .double true, .lit (.s (.f false 3602879701896397 36028797018963968))]
    (wellTyped_one_tensor _ _ _ (by intro d k h; cases h))).1
  revert this; decide

/-- Full statement refuted (finding **D24**): the mixed list `[1, 2.5]` beside `x : INT64` is DOUBLE→INT64 `[1, 2]`
for the converter and eager mode, and refused by the builder; alone (`Reshape`-like second formal `U`) it is
DOUBLE for the converter, INT64 for eager mode. -/
theorem three_agree_full_refuted_mixed_list :
    ¬ (∀ (fs : List (Formal Nat)) (args : List Arg), WellTyped fs args →
        dtypes (castStatic fs args) = dtypes (castDynamic fs args)
        ∧ dtypes (castStatic fs args) = dtypes (castBuilder fs args)) := by
  intro h
  have := (h sigTT [.tensor .int64 true, .lit (.l (.i 1) [.f false 5 2])]
    (wellTyped_one_tensor _ _ _ (by intro d k h; cases h))).2
  revert this; decide

/-! ## First binding (builder) versus last binding (converter, eager) -/

/-- **disagree_iff_conflicting_siblings.**  For a type variable `tc` and any assigned argument list, the
builder (first binding) and `autocast.cast_inputs` (last binding) choose different target dtypes exactly
when both find a binding operand and the *first* and the *last* tensor operand bound to `tc` — which are
actual arguments of the call — have different dtypes. -/
theorem disagree_iff_conflicting_siblings {κ : Type} [DecidableEq κ] (tc : κ) (sa : List (Slot κ × Arg)) :
    (firstBinding tc sa).map (·.1) ≠ (lastBinding tc sa).map (·.1) ↔
      ∃ x ∈ sa, ∃ y ∈ sa, ∃ r1 r2, boundTo tc x = some r1 ∧ boundTo tc y = some r2 ∧
        firstBinding tc sa = some r1 ∧ lastBinding tc sa = some r2 ∧ r1.1 ≠ r2.1 := by
  constructor
  · intro hne
    cases hf : firstBinding tc sa with
    | none =>
      have := (lastBinding_eq_none tc sa).mpr ((firstBinding_eq_none tc sa).mp hf)
      rw [hf, this] at hne; exact absurd rfl hne
    | some r1 =>
      obtain ⟨x, hx, hbx⟩ := firstBinding_mem tc sa r1 hf
      cases hl : lastBinding tc sa with
      | none =>
        have := (lastBinding_eq_none tc sa).mp hl x hx
        rw [hbx] at this; cases this
      | some r2 =>
        obtain ⟨y, hy, hby⟩ := lastBinding_mem tc sa r2 hl
        refine ⟨x, hx, y, hy, r1, r2, hbx, hby, rfl, rfl, ?_⟩
        intro heq
        rw [hf, hl] at hne
        simp [heq] at hne
  · rintro ⟨x, _, y, _, r1, r2, _, _, hf, hl, hne⟩
    rw [hf, hl]
    simpa using hne

/-- In a well-typed call the two binding orders cannot be told apart. -/
theorem first_last_agree_of_wellTyped {κ : Type} [DecidableEq κ] (fs : List (Formal κ)) (args : List Arg)
    (hwt : WellTyped fs args) (sa : List (Slot κ × Arg)) (ha : assign fs args = .ok sa) (tc : κ) :
    (firstBinding tc sa).map (·.1) = (lastBinding tc sa).map (·.1) :=
  first_last_dtype sa (hwt sa ha) tc

/-- Non-vacuity: `Where(c, x : FLOAT, y : DOUBLE)`-like conflict — `Sum(x : FLOAT, 1, y : DOUBLE)`: the literal
becomes DOUBLE in the converter and eager mode, FLOAT in the builder. -/
example :
    let sig3 : List (Formal Nat) := [⟨0, true, true, true⟩]
    let args := [Arg.tensor .float true, .lit (.s (.i 1)), .tensor .double true]
    dtypes (castStatic sig3 args) = some [some .float, some .double, some .double]
    ∧ dtypes (castBuilder sig3 args) = some [some .float, some .float, some .double] := by decide

/-! ## The GraphBuilder constant cache -/

/-- The tensor a literal denotes under the cache key's dtype (`ir.tensor(value, dtype)`). -/
def castVals (l : Lit) (dt : Option DType) : Except Err (List SVal) :=
  mapE (fun s => npCast s ((keyDType l dt).getD .bool)) l.elems

/-- **cache_sound (full).**  For the cache as it is since fix F8 (key `(repr(value), dtype)`): for every cache whose
entries hold the tensors of their own keys (`CacheOk`, an invariant: true of the empty cache and re-established
here), *every* promotion `(l, dt)` — negative zeros included — is answered with an initializer holding exactly
the tensor `l` denotes in that dtype (element-wise the same number with the same sign and rounding path), or is
refused.  Hence two literals share a tensor only if their cast values are equal.  The only hypothesis, `l.WF`
(denominators of the rational encoding of floats are positive), is about the encoding, not about Python values. -/
theorem cache_sound (c : Cache) (hc : CacheOk c) (l : Lit) (dt : Option DType) (c' : Cache) (e : Entry)
    (h : promote c l dt = .ok (c', e)) (hl : l.WF) :
    valsEqv (.ok e.vals) (castVals l dt) ∧ CacheOk c' := by
  unfold promote promoteBy at h
  by_cases ha : builderAccepts l
  · simp only [ha, Bool.not_true, Bool.false_eq_true, if_false] at h
    cases hf : c.findBy reprEq l (keyDType l dt) with
    | some e0 =>
      rw [hf] at h
      simp only [Except.ok.injEq, Prod.mk.injEq] at h
      obtain ⟨rfl, rfl⟩ := h
      unfold Cache.findBy at hf
      have hmem := List.mem_of_find?_eq_some hf
      have hp := List.find?_some hf
      simp only [Bool.and_eq_true, beq_iff_eq] at hp
      obtain ⟨h1, h2, h3⟩ := hc e0 hmem
      have hd : e0.dtype = (keyDType l dt).getD .bool := by rw [h2, hp.2]
      refine ⟨?_, hc⟩
      have := reprEq_cast_same e0.key l ((keyDType l dt).getD .bool) h3 hl hp.1
      rw [← hd, h1] at this
      rw [hd] at this
      exact this
    | none =>
      rw [hf] at h
      cases hm : mapE (fun e => npCast e ((keyDType l dt).getD .bool)) l.elems with
      | error err => simp [hm] at h
      | ok vs =>
        simp only [hm, Except.ok.injEq, Prod.mk.injEq] at h
        obtain ⟨rfl, rfl⟩ := h
        refine ⟨?_, ?_⟩
        · unfold castVals; rw [hm]; exact valsEqv_refl vs
        · intro e he
          rcases List.mem_append.mp he with he | he
          · exact hc e he
          · simp only [List.mem_singleton] at he
            subst he
            exact ⟨hm, rfl, hl⟩
  · simp [ha] at h

/-- Non-vacuity of `cache_sound`: the empty cache is `CacheOk`, `-0.0` is well formed, and after promoting `0.0` the
promotion of `-0.0` creates its own initializer holding `-0.0`; `True`, `1`, `1.0` under INT64 are three keys. -/
example : CacheOk [] ∧ (Lit.s (.f true 0 1)).WF := by
  refine ⟨?_, ?_⟩
  · intro e he; cases he
  intro e he
  simp only [Lit.elems, List.mem_singleton] at he; subst he
  simp [Scalar.WF, Scalar.norm]

example :
    (promoteAll [] [(.s (.f false 0 1), none), (.s (.f true 0 1), none)]).map (fun e => (e.name, e.vals))
      = [(.scalar (.f false 0 1) (some .float), [.f false 0 1 false]),
         (.scalar (.f true 0 1) (some .float), [.f true 0 1 false])] := by decide

example :
    ((promoteAll [] [(.s (.i 1), some .int64), (.s (.b true), some .int64), (.s (.f false 1 1), some .int64),
      (.s (.i 1), some .int64)]).map (·.name)).length = 3 := by decide

/-- **cache_names_unique.**  After any sequence of promotions (including refused and failing ones) the
initializers created by the cache carry pairwise distinct names (`const_<value>_<dtype>` / `const_1d_<n>`):
distinct `(repr, dtype)` keys never generate the same name. -/
theorem cache_names_unique (reqs : List (Lit × Option DType)) :
    ((promoteAll [] reqs).map (·.name)).Nodup :=
  (namesOk_promoteAllBy reprEq reprEq_refl_s reqs [] ⟨List.nodup_nil, by simp, by simp⟩).1

/-! ### The cache before fix F8 (commit 610a39a) — kept for the record; no tie to the current code -/

/-- The cache entry the pre-fix code created for `0.0` (FLOAT, `+0.0`). -/
def zeroEntry : Entry :=
  ⟨.s (.f false 0 1), some .float, .scalar (.f false 0 1) (some .float), .float, [.f false 0 1 false]⟩

/-- **cache_sound for the pre-fix key `(value, dtype)` under Python `==`, refuted — finding D10 (fixed).**  After
promoting `0.0`, promoting `-0.0` returned the initializer holding `+0.0` (`0.0 == -0.0`, equal hashes). -/
theorem cache_sound_prefix_refuted :
    ¬ (∀ (reqs : List (Lit × Option DType)) (l : Lit) (dt : Option DType) (c' : Cache) (e : Entry),
        promotePre (promoteAllPre [] reqs) l dt = .ok (c', e) → Except.ok e.vals = castVals l dt) := by
  intro h
  have := h [(.s (.f false 0 1), none)] (.s (.f true 0 1)) none [zeroEntry] zeroEntry (by decide)
  revert this; decide

/-- The same witness is answered correctly by the current code. -/
example : ∃ c' e, promote (promoteAll [] [(.s (.f false 0 1), none)]) (.s (.f true 0 1)) none = .ok (c', e)
    ∧ Except.ok e.vals = castVals (.s (.f true 0 1)) none := by
  refine ⟨_, _, rfl, ?_⟩
  decide

/-- What the pre-fix cache did guarantee: soundness for literals without negative zero (`l.SI`), including hits on
merely `==`-equal keys (`True`/`1`/`1.0`). -/
theorem cache_sound_prefix_partial (c : Cache) (hc : CacheOkPre c) (l : Lit) (dt : Option DType) (c' : Cache)
    (e : Entry) (h : promotePre c l dt = .ok (c', e))
    (hl : l.WF ∧ l.SI ∧ LitModelled l ((keyDType l dt).getD .bool)) :
    valsEqv (.ok e.vals) (castVals l dt) ∧ CacheOkPre c' := by
  unfold promotePre promoteBy at h
  by_cases ha : builderAccepts l
  · simp only [ha, Bool.not_true, Bool.false_eq_true, if_false] at h
    cases hf : c.findBy pyEq l (keyDType l dt) with
    | some e0 =>
      rw [hf] at h
      simp only [Except.ok.injEq, Prod.mk.injEq] at h
      obtain ⟨rfl, rfl⟩ := h
      unfold Cache.findBy at hf
      have hmem := List.mem_of_find?_eq_some hf
      have hp := List.find?_some hf
      simp only [Bool.and_eq_true, beq_iff_eq] at hp
      obtain ⟨h1, h2, h3, h4, h5⟩ := hc e0 hmem
      have hd : e0.dtype = (keyDType l dt).getD .bool := by rw [h2, hp.2]
      refine ⟨?_, hc⟩
      have := pyEq_cast_same e0.key l ((keyDType l dt).getD .bool) ⟨h3, h4, hd ▸ h5⟩ hl hp.1
      rw [← hd, h1] at this
      rw [hd] at this
      exact this
    | none =>
      rw [hf] at h
      cases hm : mapE (fun e => npCast e ((keyDType l dt).getD .bool)) l.elems with
      | error err => simp [hm] at h
      | ok vs =>
        simp only [hm, Except.ok.injEq, Prod.mk.injEq] at h
        obtain ⟨rfl, rfl⟩ := h
        refine ⟨?_, ?_⟩
        · unfold castVals; rw [hm]; exact valsEqv_refl vs
        · intro e he
          rcases List.mem_append.mp he with he | he
          · exact hc e he
          · simp only [List.mem_singleton] at he
            subst he
            exact ⟨hm, rfl, hl.1, hl.2.1, hl.2.2⟩
  · simp [ha] at h

end OV.Props.C12
