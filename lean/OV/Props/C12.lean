import OV.Model.C12Autocast
import OV.Model.C12Opset
import OV.Lemmas.C12Autocast
import OV.Lemmas.C12Rename
import OV.Lemmas.C12Scope
import OV.Lemmas.C12Call
import OV.Gen.C12SchemasOk
/-!
# C12 — Python literals are promoted identically by converter, eager mode and graph builder

Property theorems only.  Model: `OV.Model.C12Autocast`; tables: `OV.Gen.C12Schemas*` (regenerated from
/repo on every run).
-/
namespace OV.Props.C12
open OV.Autocast

/-- **Translator theorem.**  For every operator schema of the default domain that is effective in some
opset 13..23 and has an input — as read from /repo's two code paths on this run, with the schema's own
type-constraint *strings* — the three front ends (converter and eager mode on the `OpSignature` reading, the
builder on the raw `OpSchema` reading) agree with the rule at every argument position (variadic tail included),
for every literal of `{0, 1, -3, 2.5, -0.0, True, [1,2], [0.5]}` and the 16 FIXED sibling configurations of `probes`
(`agree3AllG`): all other positions hold tensors of ONE dtype out of `sibSet` = {FLOAT, DOUBLE, FLOAT16, INT64, INT32,
UINT8, BOOL}, known to the builder (7) or unknown (7), or are all absent (1), or all hold the same literal (1).  This is
a finite evaluation, not a statement over all dtypes or all argument lists: BFLOAT16, INT8/INT16, UINT16/32/64, float8,
STRING siblings, and siblings of differing dtypes are never probed here — universality over dtypes, argument lists and
signatures comes only from `three_agree` / `three_agree_dtype` under their hypotheses; `registry_ok` contributes that the
two schema readings of every registry row give the same rule and the same casts on these probes.
The kernel evaluates the check on the interned shape of the row (`ishapes_ok`, `decide +kernel`);
`agree3All_intern` (renaming invariance of the casts, proved) carries it to the string-keyed signatures. -/
theorem registry_ok :
    ∀ r ∈ OV.Gen.C12.rows, ∃ s, OV.Gen.C12.shapes[r.shape]? = some s ∧
      agree3AllG (s.sig.map SFormal.formal) (s.raw.map SFormal.formal) = true := by
  intro r hr
  have hlt := OV.Gen.C12.rows_indexed r hr
  have hmap : (OV.Gen.C12.shapes.map Shape.intern).length = OV.Gen.C12.ishapes.length := by
    rw [OV.Gen.C12.intern_ok]
  rw [List.length_map] at hmap
  have hlt' : r.shape < OV.Gen.C12.shapes.length := by omega
  refine ⟨OV.Gen.C12.shapes[r.shape], by simp [hlt'], ?_⟩
  rw [← agree3All_intern]
  apply OV.Gen.C12.ishapes_ok
  rw [← OV.Gen.C12.intern_ok]
  exact List.mem_map.mpr ⟨_, List.getElem_mem hlt', rfl⟩

/-- What `registry_ok` gives for one concrete call: for `Add`-shaped rows (two formals sharing `T`) probing position 1
with the literal `-0.0` beside a FLOAT16 tensor, `agree3G` holds, i.e. all three front ends feed `FLOAT16 -0.0`. -/
example : agree3G (κ := String) [⟨"T", true, false, true⟩, ⟨"T", true, false, true⟩]
    [⟨"T", true, false, true⟩, ⟨"T", true, false, true⟩]
    [.tensor .float16 true, .lit (.s (.f true 0 1))] = true := by decide

/-- `agree3All` is not vacuous: it rejects a schema whose two readings differ in a type variable (the
builder would read `Add`'s second input as `U`), and one whose variadic flag is read differently. -/
example : agree3All ⟨[⟨0, true, false, true⟩, ⟨0, true, false, true⟩],
                     [⟨0, true, false, true⟩, ⟨1, true, false, true⟩]⟩ = false := by decide +kernel

example : agree3All ⟨[⟨0, true, true, true⟩], [⟨0, true, false, true⟩]⟩ = false := by decide +kernel

/-! ## The three front ends agree with the rule -/

/-- Tensor operands bound to one type variable have one dtype (the call is well typed w.r.t. the
schema's type constraints). -/
def WellTyped {κ : Type} [DecidableEq κ] (fs : List (Formal κ)) (args : List Arg) : Prop :=
  ∀ sa, assign fs args = .ok sa → WTsa sa

/-- **three_agree** (PARTIAL in the sense of BUILDING.md rule 1, although the name carries no `_partial` suffix: the value
clause holds only under `allRepresentable`, a hypothesis forced by the OPEN findings D21 and D23 — on inputs outside it the
real front ends do disagree; what holds unconditionally is `three_agree_dtype`).  For every signature (any number of formals, variadic or not, any type-constraint
names), every argument list (tensors of any dtype known or unknown to the builder, literals, absent
optionals, any length) that is well typed and whose literals are representable in the dtype the rule
assigns them (`allRepresentable`: ints in range of the target and of INT64 / exactly representable in the target
float; floats exactly float32 unless the target is FLOAT; an int inside a list that NumPy infers as DOUBLE at most
2^53 in magnitude — lists mixing Python types are included): the converter's `static_cast_inputs`, eager mode's
`dynamic_cast_inputs` and the builder's `_cast_inputs` all produce exactly the operands the rule prescribes — same
dtype, same rank, same value — or all three refuse the call (too many arguments).  The target-range and float32
conjuncts are forced: `three_agree_value_full_refuted_int` (D21) and `…_float` (D23) refute the statement with just that
conjunct dropped; the 2^53 conjunct (`viaOk`) is forced by float64 rounding and has no refutation theorem here. -/
theorem three_agree {κ : Type} [DecidableEq κ] (fs : List (Formal κ)) (args : List Arg)
    (hwt : WellTyped fs args) (hrep : allRepresentable fs args = true) :
    castStatic fs args = expected fs args ∧ castDynamic fs args = expected fs args
      ∧ castBuilder fs args = expected fs args := by
  unfold castStatic castDynamic castBuilder expected
  cases ha : assign fs args with
  | error e => exact ⟨rfl, rfl, rfl⟩
  | ok sa =>
    have hr := reprAt_of_all fs args sa ha hrep
    have hw := hwt sa ha
    refine ⟨?_, ?_, ?_⟩
    · exact mapE_ok_map _ _ _ (fun p hp => emitStatic_eq sa hw p (hr p hp))
    · exact mapE_ok_map _ _ _ (fun p hp => emitDynamic_eq sa hw p (hr p hp))
    · exact mapE_ok_map _ _ _ (fun p hp => emitBuilder_eq sa p (hr p hp))

/-- **three_agree_dtype.**  Without any representability or homogeneity hypothesis — out-of-range integers (D21), float
literals that are not float32 (D23), lists mixing Python types (D24, fixed by fa769b8), huge values — the *element
type* agrees: for every signature and every well-typed argument list, each of the three front ends either raises
`OverflowError` (NumPy's conversion of an out-of-range Python number; the converter only for literals beyond INT64)
or feeds operands whose dtypes are exactly those the rule prescribes (and all three refuse together when there are too
many arguments). -/
theorem three_agree_dtype {κ : Type} [DecidableEq κ] (fs : List (Formal κ)) (args : List Arg)
    (hwt : WellTyped fs args) :
    ∀ r ∈ [castStatic fs args, castDynamic fs args, castBuilder fs args],
      r = .error .overflow ∨ dtypes r = dtypes (expected fs args) := by
  unfold castStatic castDynamic castBuilder expected
  cases ha : assign fs args with
  | error e =>
    intro r hr
    simp only [List.mem_cons, List.not_mem_nil, or_false, or_self] at hr
    subst hr; right; rfl
  | ok sa =>
    have hw := hwt sa ha
    have key : ∀ (f : Slot κ × Arg → Except Err Out), (∀ p ∈ sa, OvOrDt (f p) (emitExpected sa p).dtype?) →
        mapE f sa = .error .overflow ∨ dtypes (mapE f sa) = dtypes (Except.ok (sa.map (emitExpected sa))) := by
      intro f hf
      rcases mapE_dt f (emitExpected sa) sa hf with h | ⟨os, hos, hds⟩
      · left; exact h
      · right; rw [hos]; simp only [dtypes, hds]
    intro r hr
    simp only [List.mem_cons, List.not_mem_nil, or_false] at hr
    rcases hr with rfl | rfl | rfl
    · exact key _ (fun p _ => (emit_dt sa hw p).1)
    · exact key _ (fun p _ => (emit_dt sa hw p).2.1)
    · exact key _ (fun p _ => (emit_dt sa hw p).2.2)

/-- `Add(x : FLOAT16, 1)`-shaped witness (two formals sharing `T`). -/
def sigTT : List (Formal Nat) := [⟨0, true, false, true⟩, ⟨0, true, false, true⟩]

theorem wellTyped_one_tensor (d : DType) (k : Bool) (a : Arg) (ha : ∀ d' k', a ≠ .tensor d' k') :
    WellTyped sigTT [.tensor d k, a] := by
  intro sa h
  simp [assign, assignFrom, slotAt, sigTT] at h
  subst h
  exact wtsa_one_tensor _ _ d k a ha

/-- Non-vacuity of `three_agree`: `Add(x : FLOAT16, 1)` satisfies both hypotheses and the common result is
`(x, FLOAT16 1.0)`. -/
example : WellTyped sigTT [.tensor .float16 true, .lit (.s (.i 1))] ∧
    allRepresentable sigTT [.tensor .float16 true, .lit (.s (.i 1))] = true ∧
    castStatic sigTT [.tensor .float16 true, .lit (.s (.i 1))]
      = .ok [.pass .float16, .const .float16 false [.f false 1 1 false]] :=
  ⟨wellTyped_one_tensor _ _ _ (by intro d k h; cases h), by decide, by decide⟩

/-- Non-vacuity of `three_agree` on a list mixing Python types: `Add(x : INT64, [1, 2.5])` satisfies both hypotheses. -/
example : WellTyped sigTT [.tensor .int64 true, .lit (.l (.i 1) [.f false 5 2])] ∧
    allRepresentable sigTT [.tensor .int64 true, .lit (.l (.i 1) [.f false 5 2])] = true :=
  ⟨wellTyped_one_tensor _ _ _ (by intro d k h; cases h), by decide⟩

/-- The **target-range conjunct** of `allRepresentable` is forced (finding **D21**, open).  Statement refuted: "for every
Python int `v` that fits INT64 (the other integer conjunct kept), beside `x : UINT8` the converter and eager mode feed the
same operands".  Witness `v = -3`: the converter's `CastLike` wraps to 253, eager mode (and the builder) raise
`OverflowError`.  No float literal is involved, so none of the float conjuncts can be blamed. -/
theorem three_agree_value_full_refuted_int :
    ¬ (∀ v : Int, DType.int64.inRange v = true →
        castStatic sigTT [.tensor .uint8 true, .lit (.s (.i v))] = castDynamic sigTT [.tensor .uint8 true, .lit (.s (.i v))]) := by
  intro h
  have := h (-3) (by decide)
  revert this; decide

/-- The two sides of D21, concretely. -/
example : castStatic sigTT [.tensor .uint8 true, .lit (.s (.i (-3)))] = .ok [.pass .uint8, .const .uint8 false [.i 253]]
    ∧ castDynamic sigTT [.tensor .uint8 true, .lit (.s (.i (-3)))] = .error .overflow
    ∧ castBuilder sigTT [.tensor .uint8 true, .lit (.s (.i (-3)))] = .error .overflow := by decide

/-- Non-vacuity of `three_agree_dtype` on D21's witness: the converter answers with dtype UINT8 (value wrapped), the
other two raise — both allowed by the theorem; the rule's dtype is UINT8. -/
example : dtypes (castStatic sigTT [.tensor .uint8 true, .lit (.s (.i (-3)))]) = some [some .uint8, some .uint8]
    ∧ dtypes (expected sigTT [.tensor .uint8 true, .lit (.s (.i (-3)))]) = some [some .uint8, some .uint8] := by
  decide

/-- The **float32 conjunct** of `allRepresentable` is forced (finding **D23**, open).  Statement refuted: "for every
Python float `±n/d`, beside `x : DOUBLE` the converter and eager mode feed the same operands" — for a DOUBLE target
`representable (.f _ n d) .double` is exactly `exactF32 n d`, no range condition is involved.  Witness `0.1`: the converter
rounds it to float32 first (`via32 = true`), eager mode and the builder convert the Python float directly. -/
theorem three_agree_value_full_refuted_float :
    ¬ (∀ (neg : Bool) (n d : Nat),
        castStatic sigTT [.tensor .double true, .lit (.s (.f neg n d))]
          = castDynamic sigTT [.tensor .double true, .lit (.s (.f neg n d))]) := by
  intro h
  have := h false 3602879701896397 36028797018963968
  revert this; decide

/-- The witnesses really are the conjuncts named: `-3` fits INT64 but not UINT8; `0.1` is not a float32 and its
representability beside DOUBLE is that test alone. -/
example : DType.int64.inRange (-3) = true ∧ DType.uint8.inRange (-3) = false ∧
    exactF32 3602879701896397 36028797018963968 = false ∧
    representable (.f false 3602879701896397 36028797018963968) .double = false ∧
    representable (.f false 1 2) .double = true := by decide

/-- Finding **D24** (a list mixing Python types), fixed by fa769b8 — the former witnesses now agree: `[1, 2.5]` beside
`x : INT64` is `[1, 2]` in all three front ends; alone (second formal `U` of a `Reshape`-like signature) it is DOUBLE
`[1.0, 2.5]` in all three; `[True, 1]` alone is INT64 `[1, 1]`. -/
example :
    castDynamic sigTT [.tensor .int64 true, .lit (.l (.i 1) [.f false 5 2])]
      = castStatic sigTT [.tensor .int64 true, .lit (.l (.i 1) [.f false 5 2])]
    ∧ castBuilder sigTT [.tensor .int64 true, .lit (.l (.i 1) [.f false 5 2])]
      = castStatic sigTT [.tensor .int64 true, .lit (.l (.i 1) [.f false 5 2])]
    ∧ castStatic sigTT [.tensor .int64 true, .lit (.l (.i 1) [.f false 5 2])]
      = .ok [.pass .int64, .const .int64 true [.i 1, .i 2]] := by decide

example :
    let sigTU : List (Formal Nat) := [⟨0, true, false, true⟩, ⟨1, true, false, true⟩]
    let args := [Arg.tensor .float true, .lit (.l (.i 1) [.f false 5 2])]
    castStatic sigTU args = .ok [.pass .float, .const .double true [.f false 1 1 false, .f false 5 2 false]]
    ∧ castDynamic sigTU args = castStatic sigTU args ∧ castBuilder sigTU args = castStatic sigTU args
    ∧ expected sigTU args = castStatic sigTU args := by decide

example :
    let sigTU : List (Formal Nat) := [⟨0, true, false, true⟩, ⟨1, true, false, true⟩]
    let args := [Arg.tensor .float true, .lit (.l (.b true) [.i 1])]
    castStatic sigTU args = .ok [.pass .float, .const .int64 true [.i 1, .i 1]]
    ∧ castDynamic sigTU args = castStatic sigTU args ∧ castBuilder sigTU args = castStatic sigTU args := by decide

/-! ## Which arguments reach `cast_inputs`, and at which position (param_manipulation as of b7afd5e) -/

open OV.Call in
/-- **inputs_keep_their_positions.**  For every parameter list without a variadic input (plain inputs — optional or
required, any mix — followed by attributes), every number `n` of positional arguments, every set `kws` of parameters
given by keyword and both `allow_extra_args` settings: when `separate_input_attributes_from_arguments` succeeds, the
operator inputs it returns are exactly `slot 0, slot 1, …` with the trailing placeholders removed, where `slot j` is
the `j`-th positional argument if there is one, else the keyword argument naming parameter `j`, else `None` — every
argument sits at the position of its own parameter (`op.Clip(x, max=hi)` is `Clip(x, None, hi)`). -/
theorem inputs_keep_their_positions (ins attrs : List Param) (hi : ∀ p ∈ ins, p.isPlainInput = true)
    (ha : ∀ p ∈ attrs, p.isInput = false) (n : Nat) (kws : List Nat) (allowExtra : Bool)
    (inp : List (Option Src)) (ats : List (Nat × Src))
    (h : separate (ins ++ attrs) n kws allowExtra = .ok (inp, ats)) :
    inp = trimNone ((List.range ins.length).map (slot n kws)) :=
  separate_plain ins attrs hi ha n kws allowExtra inp ats h

open OV.Call in
/-- The same when the last input is variadic: the plain inputs keep their positions, the variadic input takes all
remaining positional arguments in order. -/
theorem inputs_keep_their_positions_variadic (ins attrs : List Param) (q : Bool)
    (hi : ∀ p ∈ ins, p.isPlainInput = true) (ha : ∀ p ∈ attrs, p.isInput = false) (n : Nat) (kws : List Nat)
    (allowExtra : Bool) (inp : List (Option Src)) (ats : List (Nat × Src))
    (h : separate (ins ++ (.input true q :: attrs)) n kws allowExtra = .ok (inp, ats)) :
    inp = trimNone ((List.range ins.length).map (slot n kws) ++
      (List.range' ins.length (n - ins.length)).map (fun j => some (.pos j))) :=
  separate_variadic_last ins attrs q hi ha n kws allowExtra inp ats h

open OV.Call in
/-- **positional_inputs_are_prefix** (re-pinned to b7afd5e).  With positional arguments only, the inputs handed on are
exactly the first `min n k` positional arguments (`k` = number of inputs), in order, with no placeholder — never
reordered, skipped or duplicated; whatever follows became attributes or was dropped. -/
theorem positional_inputs_are_prefix (ins attrs : List Param) (hi : ∀ p ∈ ins, p.isPlainInput = true)
    (ha : ∀ p ∈ attrs, p.isInput = false) (n : Nat) (allowExtra : Bool)
    (inp : List (Option Src)) (ats : List (Nat × Src))
    (h : separate (ins ++ attrs) n [] allowExtra = .ok (inp, ats)) :
    inp = (List.range (min n ins.length)).map (fun j => some (.pos j)) := by
  rw [separate_plain ins attrs hi ha n [] allowExtra inp ats h, slots_nokw]
  exact trimNone_somes_replicate Src.pos _ _

open OV.Call in
/-- Non-vacuity: `Clip(input; min?, max?)`: `Clip(x, max=hi)` keeps `hi` in third place; `Clip(x)` has one input;
`Softmax(input; axis)` with two positionals → attribute; a third is dropped by the converter and refused by the
builder; `Concat(inputs…; axis)` takes all positionals as inputs. -/
example :
    separate [.input false true, .input false false, .input false false] 1 [2] true
      = .ok ([some (.pos 0), none, some (.kw 2)], []) ∧
    separate [.input false true, .input false false, .input false false] 1 [] true = .ok ([some (.pos 0)], []) ∧
    separate [.input false true, .attr false true] 2 [] true = .ok ([some (.pos 0)], [(1, .pos 1)]) ∧
    separate [.input false true, .attr false true] 3 [] true = .ok ([some (.pos 0)], [(1, .pos 1)]) ∧
    separate [.input false true, .attr false true] 3 [] false = .error .tooMany ∧
    separate [.input false true, .attr false true] 0 [] true = .error .missing ∧
    separate [.input true true, .attr true true] 3 [] false = .ok ([some (.pos 0), some (.pos 1), some (.pos 2)], []) := by
  refine ⟨?_, ?_, ?_, ?_, ?_, ?_, ?_⟩ <;> rfl

/-! ## Which named operands the converter CastLikes, across If/Loop scopes -/

open OV.Scope in
/-- **castable_refines_literal_flag.**  For every instruction sequence (assignments of literals and of tensor
expressions, uses, entering and leaving then/else blocks and loop bodies with any live outputs, to any nesting depth):
the converter's bookkeeping — a scope stack of python names and ONE flat, never-shrinking set `_castable` of unique
value names — answers every "is this operand a polymorphic constant?" question exactly as the specification in
which each binding simply remembers whether it was bound to a literal.  In particular scopes never hide or leak
castability: the answer depends only on the visible binding of the name. -/
theorem castable_refines_literal_flag (prog : List Instr) : (run prog).obs = (runS prog).obs :=
  (rel_run prog St.init Sp.init rel_init).2.1.symm

open OV.Scope in
/-- **literal_castable_until_rebound.**  After `a = <literal>` (anywhere, after any prefix), any continuation that does
not assign `a` again, does not leave a block that outputs `a`, and does not leave more scopes than it entered
(`safe a 0 is`) — entering arbitrarily many nested If/Loop bodies, binding other names, leaving inner blocks — a use
of `a` beside a tensor is CastLike'd: the converter answers `true`. -/
theorem literal_castable_until_rebound (pre is : List Instr) (a : PyName) (hs : safe a 0 is = true) :
    (run (pre ++ [.bindLit a] ++ is ++ [.use a])).obs.getLast? = some (some true) := by
  rw [castable_refines_literal_flag]
  simp only [runS, List.foldl_append, List.foldl_cons, List.foldl_nil]
  generalize List.foldl stepS Sp.init pre = sp0
  have h0 : Vis a 0 (stepS sp0 (.bindLit a)).env := by
    refine ⟨[], (stepS sp0 (.bindLit a)).env, rfl, rfl, (fun _ h => by cases h), ?_⟩
    simp only [stepS]
    cases sp0.env with
    | nil => simp [bindS, lookupS, lookupScopeS]
    | cons s rest => simp [bindS, lookupS, lookupScopeS]
  obtain ⟨d', hv⟩ := vis_run a is 0 _ hs h0
  have hl := vis_lookup a d' _ hv
  simp only [stepS] at hl ⊢
  rw [hl]
  simp

open OV.Scope in
/-- Non-vacuity: `a = 2; if c: (b = x+x; if d: use a)`, and the counterpart where the inner block rebinds `a`. -/
example : (run [.bindLit 0, .enter, .bindTensor 1, .enter, .use 0, .exit [], .exit [1], .use 0, .use 1]).obs
    = [some true, some true, some false] ∧
    safe 0 0 [.enter, .bindTensor 1, .enter, .use 0, .exit [], .exit [1]] = true ∧
    (run [.bindLit 0, .enter, .bindTensor 0, .use 0, .exit [0], .use 0]).obs = [some false, some false] := by decide

open OV.Scope in
/-- **translation_refused_like_spec** (round 5).  The modelled refusals of the statement translators — a loop with no
loop-carried name ("The loop has no effect"), a loop-carried name without a value before the loop ("Unbound name"), a
live output of an If that one branch cannot see ("not assigned a value along a conditional branch"), an If without
live outputs — fire in the converter's bookkeeping (scope stack of value names) exactly when they fire in the
specification that only remembers "literal?" per binding: refusal never depends on the castable set or on value names. -/
theorem translation_refused_like_spec (prog : List Instr) : (run prog).err = (runS prog).err :=
  (rel_run prog St.init Sp.init rel_init).2.2.2.symm

open OV.Scope in
/-- **loop_carried_not_castable** (round 5; the model-level statement of what C01-D24 records).  After any prefix,
at the top of a loop body (`for lv in range(..)` / `while c`), the loop variable and every loop-carried name — whatever
they were bound to before the loop, literal included — are NOT CastLike'd: they are body-graph parameters. -/
theorem loop_carried_not_castable (pre : List Instr) (lv : Option PyName) (state : List PyName) (n : PyName)
    (hn : n ∈ lv.toList ++ state) :
    (run (pre ++ [.enterLoop lv state, .use n])).obs.getLast? = some (some false) := by
  rw [castable_refines_literal_flag]
  simp only [runS, List.foldl_append, List.foldl_cons, List.foldl_nil, stepS]
  rw [← List.foldl_append, lookupS_bindAll_false n _ _ (Or.inr hn)]
  simp

open OV.Scope in
/-- **if_loop_outputs_not_castable** (round 5).  Right after an If statement (resp. a loop), each of its live outputs
(resp. loop-carried names) is an ordinary tensor — even when every branch assigned it the same literal. -/
theorem if_loop_outputs_not_castable (pre : List Instr) (outs : List PyName) (n : PyName) (hn : n ∈ outs) :
    (run (pre ++ [.endIf outs, .use n])).obs.getLast? = some (some false) ∧
    (run (pre ++ [.exitLoop outs, .use n])).obs.getLast? = some (some false) ∧
    (run (pre ++ [.exit outs, .use n])).obs.getLast? = some (some false) := by
  refine ⟨?_, ?_, ?_⟩ <;>
  · rw [castable_refines_literal_flag]
    simp only [runS, List.foldl_append, List.foldl_cons, List.foldl_nil, stepS]
    rw [lookupS_bindAll_false n _ _ (Or.inr hn)]
    simp

open OV.Scope in
/-- Non-vacuity and the shape of C01-D24: `a = 2; for i in range(3): (u = x*a; a = 2)`, then `x*a`;
`if c: a = 1 else: a = 1`, then `x*a`; and the refusals: a loop-carried name with no value before the loop, a live
output missing in one branch, an If without outputs, a loop without loop-carried names. -/
example :
    (run [.bindLit 0, .enterLoop (some 9) [0], .use 0, .bindLit 0, .use 0, .exitLoop [0], .use 0]).obs
      = [some false, some true, some false] ∧
    (run [.enter, .bindLit 0, .exitBranch [0], .enter, .bindLit 0, .exitBranch [0], .endIf [0], .use 0]).obs = [some false] ∧
    (run [.enter, .bindLit 0, .exitBranch [0], .enter, .bindLit 0, .exitBranch [0], .endIf [0], .use 0]).err = false ∧
    (run [.enterLoop (some 9) [0], .bindLit 0, .exitLoop [0]]).err = true ∧
    (run [.enter, .bindLit 0, .exitBranch [0], .enter, .exitBranch [0], .endIf [0]]).err = true ∧
    (run [.bindTensor 0, .enter, .bindLit 0, .exitBranch [0], .enter, .exitBranch [0], .endIf [0]]).err = false ∧
    (run [.enter, .exitBranch [], .enter, .exitBranch [], .endIf []]).err = true ∧
    (run [.enterLoop none [], .exitLoop []]).err = true := by decide

open OV.Scope in
/-- **scope_stack_balanced** (round 5).  For every instruction program that never leaves a block it did not enter
(`depthAfter 0 prog = some d`: what the statement translators produce — `_enter_scope`/`_exit_scope` are paired around
every then/else block and loop body), the converter's scope stack has exactly `d + 1` scopes afterwards; in particular
after a whole function body (`d = 0`) it is back to the single function scope, and no `_exit_scope` of such a program ever
pops the function scope itself (the model's `tail` is the real `pop`, never applied to a one-scope stack). -/
theorem scope_stack_balanced (prog : List Instr) (d : Nat) (h : depthAfter 0 prog = some d) :
    (run prog).locals.length = d + 1 :=
  foldl_depth prog St.init 0 d rfl h

open OV.Scope in
/-- Non-vacuity: a loop containing an If (balanced, depth 0 at the end), and an unbalanced program. -/
example : depthAfter 0 [.bindLit 0, .enterLoop (some 9) [0], .enter, .use 0, .exitBranch [], .enter, .exitBranch [], .bindLit 0,
    .exitLoop [0], .use 0] = some 0 ∧ depthAfter 0 [.enter, .exit [], .exit []] = none := by decide

/-! ## The converter's promotion and the opset (finding D47, fixed by 7b0eb49) -/

/-- **static_promotion_exists_at_every_opset.**  For the code as it is: at every default opset and whether or not the
sibling's dtype is known, what `cast_like` emits to promote a literal — `CastLike`, `Cast`, or nothing (refusal) —
exists at that opset. -/
theorem static_promotion_exists_at_every_opset (v : Nat) (known : Bool) :
    (promoAt v known).availableAt v = true := by
  unfold promoAt
  by_cases h : castLikeSince ≤ v
  · simp [h, Promo.availableAt]
  · cases known <;> simp [h, Promo.availableAt]

/-- From opset 15 on nothing changes: `castStaticAt v = castStatic`; below, either the same operands (via `Cast`) or a
refusal — never different operands. -/
theorem castStaticAt_eq {κ : Type} [DecidableEq κ] (v : Nat) (fs : List (Formal κ)) (args : List Arg) :
    castStaticAt v fs args = castStatic fs args ∨ castStaticAt v fs args = .error .refused := by
  unfold castStaticAt
  by_cases h : (promosAt v fs args).contains Promo.refused = true
  · right; rw [if_pos h]
  · left; rw [if_neg h]

/-- **Pre-fix statement, refuted — finding D47 (fixed).**  With `CastLike` emitted at every opset (`promoAtPre`), "the
promotion exists at every supported opset ≥ 13" was false at opsets 13 and 14. -/
theorem static_valid_below_opset15_prefix_refuted :
    ¬ (∀ (v : Nat) (known : Bool), 13 ≤ v → (promoAtPre v known).availableAt v = true) := by
  intro h
  have := h 13 true (by decide)
  revert this; decide

/-- The former witness `Add(x : DOUBLE, 1)` at opset 13: now promoted with `Cast`, same operands as at opset 18; with a
sibling of unknown static dtype the program is refused. -/
example : promosAt 13 sigTT [.tensor .double true, .lit (.s (.i 1))] = [.cast]
    ∧ castStaticAt 13 sigTT [.tensor .double true, .lit (.s (.i 1))]
      = castStaticAt 18 sigTT [.tensor .double true, .lit (.s (.i 1))]
    ∧ castStaticAt 13 sigTT [.tensor .double false, .lit (.s (.i 1))] = .error .refused
    ∧ castStaticAt 15 sigTT [.tensor .double false, .lit (.s (.i 1))]
      = .ok [.pass .double, .const .double false [.f false 1 1 false]] := by decide

/-! ## First binding (builder) versus last binding (converter, eager) -/

/-- **disagree_iff_conflicting_siblings.**  For a type variable `tc` and any assigned argument list, the
builder (first binding) and `autocast.cast_inputs` (last binding) choose different target dtypes exactly
when both find a binding operand and the *first* and the *last* tensor operand bound to `tc` — which are
actual arguments of the call — have different dtypes. -/
theorem disagree_iff_conflicting_siblings {κ : Type} [DecidableEq κ] (tc : κ) (sa : List (Slot κ × Arg)) :
    (firstBinding tc sa).map (·.1) ≠ (lastBinding tc sa).map (·.1) ↔
      ∃ x ∈ sa, ∃ y ∈ sa, ∃ r1 r2, boundTo tc x = some r1 ∧ boundTo tc y = some r2 ∧
        firstBinding tc sa = some r1 ∧ lastBinding tc sa = some r2 ∧ r1.1 ≠ r2.1 := by
  constructor
  · intro hne
    cases hf : firstBinding tc sa with
    | none =>
      have := (lastBinding_eq_none tc sa).mpr ((firstBinding_eq_none tc sa).mp hf)
      rw [hf, this] at hne; exact absurd rfl hne
    | some r1 =>
      obtain ⟨x, hx, hbx⟩ := firstBinding_mem tc sa r1 hf
      cases hl : lastBinding tc sa with
      | none =>
        have := (lastBinding_eq_none tc sa).mp hl x hx
        rw [hbx] at this; cases this
      | some r2 =>
        obtain ⟨y, hy, hby⟩ := lastBinding_mem tc sa r2 hl
        refine ⟨x, hx, y, hy, r1, r2, hbx, hby, rfl, rfl, ?_⟩
        intro heq
        rw [hf, hl] at hne
        simp [heq] at hne
  · rintro ⟨x, _, y, _, r1, r2, _, _, hf, hl, hne⟩
    rw [hf, hl]
    simpa using hne

/-- In a well-typed call the two binding orders cannot be told apart. -/
theorem first_last_agree_of_wellTyped {κ : Type} [DecidableEq κ] (fs : List (Formal κ)) (args : List Arg)
    (hwt : WellTyped fs args) (sa : List (Slot κ × Arg)) (ha : assign fs args = .ok sa) (tc : κ) :
    (firstBinding tc sa).map (·.1) = (lastBinding tc sa).map (·.1) :=
  first_last_dtype sa (hwt sa ha) tc

/-- Non-vacuity: `Where(c, x : FLOAT, y : DOUBLE)`-like conflict — `Sum(x : FLOAT, 1, y : DOUBLE)`: the literal
becomes DOUBLE in the converter and eager mode, FLOAT in the builder. -/
example :
    let sig3 : List (Formal Nat) := [⟨0, true, true, true⟩]
    let args := [Arg.tensor .float true, .lit (.s (.i 1)), .tensor .double true]
    dtypes (castStatic sig3 args) = some [some .float, some .double, some .double]
    ∧ dtypes (castBuilder sig3 args) = some [some .float, some .float, some .double] := by decide

/-! ## The GraphBuilder constant cache -/

/-- The tensor a literal denotes under the cache key's dtype (`ir.tensor(value, dtype)`). -/
def castVals (l : Lit) (dt : Option DType) : Except Err (List SVal) :=
  mapE (fun s => npCast s ((keyDType l dt).getD (irDefault l))) l.elems

/-- **cache_sound (full).**  For the cache as it is since fix F8 (key `(repr(value), dtype)`): for every cache whose
entries hold the tensors of their own keys (`CacheOk`, an invariant: true of the empty cache and re-established
here), *every* promotion `(l, dt)` — negative zeros included, no hypothesis on the literal — that returns an
initializer returns one holding exactly the tensor `l` denotes in that dtype.  Hence two literals share a tensor
only if their cast values are equal. -/
theorem cache_sound (c : Cache) (hc : CacheOk c) (l : Lit) (dt : Option DType) (c' : Cache) (e : Entry)
    (h : promote c l dt = .ok (c', e)) :
    Except.ok e.vals = castVals l dt ∧ CacheOk c' := by
  cases ha : builderAccepts l with
  | false => rw [promote_refused c l dt ha] at h; cases h
  | true =>
    unfold castVals
    cases hm : mapE (fun s => npCast s ((keyDType l dt).getD (irDefault l))) l.elems with
    | error e0 => rw [promote_error c hc l dt ha e0 hm] at h; cases h
    | ok vs =>
      obtain ⟨c1, e1, hp, hv, _, hok⟩ := promote_ok c hc l dt ha vs hm
      rw [hp] at h
      simp only [Except.ok.injEq, Prod.mk.injEq] at h
      obtain ⟨rfl, rfl⟩ := h
      exact ⟨by rw [hv], hok⟩

/-- Non-vacuity of `cache_sound`: the empty cache is `CacheOk`, `-0.0` is well formed, and after promoting `0.0` the
promotion of `-0.0` creates its own initializer holding `-0.0`; `True`, `1`, `1.0` under INT64 are three keys. -/
example : CacheOk [] := fun e he => by cases he

example :
    (promoteAll [] [(.s (.f false 0 1), none), (.s (.f true 0 1), none)]).map (fun e => (e.name, e.vals))
      = [(.scalar (.f false 0 1) (some .float), [.f false 0 1 false]),
         (.scalar (.f true 0 1) (some .float), [.f true 0 1 false])] := by decide

example :
    ((promoteAll [] [(.s (.i 1), some .int64), (.s (.b true), some .int64), (.s (.f false 1 1), some .int64),
      (.s (.i 1), some .int64)]).map (·.name)).length = 3 := by decide

/-- **cache_names_unique.**  After any sequence of promotions (including refused and failing ones) the
initializers created by the cache carry pairwise distinct names (`const_<value>_<dtype>` / `const_1d_<n>`):
distinct `(repr, dtype)` keys never generate the same name. -/
theorem cache_names_unique (reqs : List (Lit × Option DType)) :
    ((promoteAll [] reqs).map (·.name)).Nodup :=
  (namesOk_promoteAllBy reprEq reprEq_refl_s reqs [] ⟨List.nodup_nil, by simp, by simp⟩).1

/-! ### `_cast_inputs` on a builder with history -/

/-- **builder_calls_are_functions.**  Take any sequence of calls `(signature, arguments)` made one after the other on
one `GraphBuilder` starting from an empty constant cache — any operators, any opsets, any interleaving, failing
calls included (they may leave initializers behind).  The operands every call feeds its operator (dtype, rank,
value — the initializer *names* aside) are exactly those of the cache-free `castBuilder` on that call alone:
the result is a function of (signature, arguments), i.e. of (op, version, arguments), not of the history. -/
theorem builder_calls_are_functions {κ : Type} [DecidableEq κ] (calls : List (List (Formal κ) × List Arg)) :
    (runCalls [] calls).1.map outsOf = calls.map (fun q => castBuilder q.1 q.2) :=
  (runCalls_spec calls [] (fun e he => by cases he)).1

/-- The same for one further call after an arbitrary history. -/
theorem builder_history_independent {κ : Type} [DecidableEq κ] (history : List (List (Formal κ) × List Arg))
    (fs : List (Formal κ)) (args : List Arg) :
    outsOf (castBuilderC (runCalls [] history).2 fs args).2 = castBuilder fs args :=
  (castBuilderC_spec _ (runCalls_spec history [] (fun e he => by cases he)).2 fs args).1

/-- Illustration: `Mul(-0.0, 0.0)` after `Add(x, 0.0)` on one builder — the second call reuses `const_0.0_f32` for its
`0.0`, creates `const_-0.0_f32` for its `-0.0`, and feeds `(-0.0, +0.0)`. -/
example :
    (runCalls [] [(sigTT, [.tensor .float true, .lit (.s (.f false 0 1))]),
                  (sigTT, [.lit (.s (.f true 0 1)), .lit (.s (.f false 0 1))])]).1 =
      [.ok [⟨.pass .float, none⟩, ⟨.const .float false [.f false 0 1 false], some (.scalar (.f false 0 1) (some .float))⟩],
       .ok [⟨.const .float false [.f true 0 1 false], some (.scalar (.f true 0 1) (some .float))⟩,
            ⟨.const .float false [.f false 0 1 false], some (.scalar (.f false 0 1) (some .float))⟩]] := by decide

/-! ### Function bodies (`build_function` + `lift_initializers_to_constants`) -/

/-- **function_body_feeds_same_operands.**  For every signature and argument list: tracing the call as the body of an
`ir.Function` (`build_function`: fresh builder, then every initializer lifted to a `Constant(value = tensor)` node)
feeds the operator exactly the operands of `castBuilder` — lifting changes neither dtype, rank nor value of a promoted
literal.  (A lifting that used the compact `value_float`/`value_int` forms would not: see the example.) -/
theorem function_body_feeds_same_operands {κ : Type} [DecidableEq κ] (fs : List (Formal κ)) (args : List Arg) :
    castBuilderFunction fs args = castBuilder fs args := by
  have h := (castBuilderC_spec [] (fun e he => by cases he) fs args).1
  unfold castBuilderFunction
  cases hr : (castBuilderC [] fs args).2 with
  | error e => rw [hr] at h; exact h
  | ok os =>
    rw [hr] at h
    rw [← h]
    simp only [outsOf]
    congr 1
    apply List.map_congr_left
    intro o _
    unfold liftOperand
    cases o.out <;> rfl

/-- Why the form matters: a FLOAT16 literal lifted as `value_float` would denote a FLOAT tensor. -/
example : (liftInitializer .float16 false [.f false 1 2 false]).denote = .const .float16 false [.f false 1 2 false]
    ∧ (ConstAttr.valueFloat (.f false 1 2 false)).denote ≠ .const .float16 false [.f false 1 2 false] := by decide

/-! ### The cache before fix F8 (commit 610a39a) — kept for the record; no tie to the current code -/

/-- The cache entry the pre-fix code created for `0.0` (FLOAT, `+0.0`). -/
def zeroEntry : Entry :=
  ⟨.s (.f false 0 1), some .float, .scalar (.f false 0 1) (some .float), .float, [.f false 0 1 false]⟩

/-- **cache_sound for the pre-fix key `(value, dtype)` under Python `==`, refuted — finding D10 (fixed).**  After
promoting `0.0`, promoting `-0.0` returned the initializer holding `+0.0` (`0.0 == -0.0`, equal hashes). -/
theorem cache_sound_prefix_refuted :
    ¬ (∀ (reqs : List (Lit × Option DType)) (l : Lit) (dt : Option DType) (c' : Cache) (e : Entry),
        promotePre (promoteAllPre [] reqs) l dt = .ok (c', e) → Except.ok e.vals = castVals l dt) := by
  intro h
  have := h [(.s (.f false 0 1), none)] (.s (.f true 0 1)) none [zeroEntry] zeroEntry (by decide)
  revert this; decide

/-- The same witness is answered correctly by the current code. -/
example : ∃ c' e, promote (promoteAll [] [(.s (.f false 0 1), none)]) (.s (.f true 0 1)) none = .ok (c', e)
    ∧ Except.ok e.vals = castVals (.s (.f true 0 1)) none := by
  refine ⟨_, _, rfl, ?_⟩
  decide

end OV.Props.C12
