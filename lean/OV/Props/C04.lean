import OV.Lemmas.C03Steps
import OV.Lemmas.C03State
import OV.Lemmas.C03Uses
import OV.Lemmas.C04Closed
import OV.Lemmas.C04Total
import OV.Lemmas.C04Pipeline
import OV.Lemmas.C04Order
import OV.Gen.C04Pipeline
/-!
# C04 — `optimize()` is total on valid models; result valid, same interface; overridable
initializer-inputs are never folded

Property theorems only.  Model: `OV.Model.C03Pass` (`gateCascade`, `processNode`, `visitGraph`,
`foldGraph`).  The statements are about the model function itself (all graphs, all states, all
option values).  Three clauses of the property are *false* of the unchanged code; each has its
full statement refuted from a concrete witness that is replayed on the real code
(known_findings.d/C04.json: C04-D1, C04-D2, C04-D3).
-/
namespace OV.Props.C04
open OV.C03

/-! ### interface -/

theorem replaceOutputs_length (nodes : List Node) : ∀ (outs : List Name) (st : St),
    (replaceOutputs st nodes outs).2.length = outs.length
  | [], _ => rfl
  | o :: rest, st => by
    simp only [replaceOutputs]
    split
    · split
      · simp only [List.length_cons, replaceOutputs_length nodes rest]
      · split
        · simp only [List.length_cons, replaceOutputs_length nodes rest]
        · simp only [List.length_cons, replaceOutputs_length nodes rest]
    · simp only [List.length_cons, replaceOutputs_length nodes rest]

theorem visitGraph_signature (ctx : Ctx) : ∀ (d : Nat) (st : St) (g : Graph),
    (visitGraph ctx d st g).2.inputs = g.inputs ∧ (visitGraph ctx d st g).2.outputs.length = g.outputs.length
  | 0, _, _ => ⟨rfl, rfl⟩
  | d + 1, st, g => by
    simp only [visitGraph]
    split
    · exact ⟨rfl, rfl⟩
    · exact ⟨rfl, by simp only [Graph.outputs, replaceOutputs_length]⟩

theorem pruneInits_signature (removed : List Name) : ∀ (d : Nat) (g : Graph),
    (pruneInits removed d g).inputs = g.inputs ∧ (pruneInits removed d g).outputs = g.outputs
  | 0, _ => ⟨rfl, rfl⟩
  | _ + 1, _ => ⟨rfl, rfl⟩

/-- **Interface.**  For every option tuple, annotation table and graph, the folding pass returns a
graph with the same formal inputs (names and order — no input is ever dropped, added or renamed,
in particular an initializer-input stays an input) and the same NUMBER of outputs.  Not stated
here: that the outputs keep their declared names and types — in the real pass a redirected output
takes the declared name (`sym_value.name = output.name`) on the value object, which this model (a
value *is* its name, no types) does not represent; names, order, element types and declared shapes of
the outputs are checked per generated model by the harness (open finding C04-D4 is a violation of
exactly that unproved clause, in onnx_ir's CSE pass). -/
theorem fold_signature (ctx : Ctx) (info : List (Name × VInfo)) (g : Graph) :
    (foldGraph ctx info g).2.inputs = g.inputs ∧ (foldGraph ctx info g).2.outputs.length = g.outputs.length := by
  simp only [foldGraph]
  have h1 := visitGraph_signature ctx maxDepth (initialState g info) g
  have h2 := pruneInits_signature (visitGraph ctx maxDepth (initialState g info) g).1.removed maxDepth
    (visitGraph ctx maxDepth (initialState g info) g).2
  exact ⟨h2.1.trans h1.1, by rw [h2.2]; exact h1.2⟩

/-- `o'` may stand where output `o` stood: it is `o` itself, or the value recorded as equal to it
(`symMap o = alias o'`) that is produced by a node of this very graph. -/
def OutOk (sym : List (Name × SymVal)) (nodes : List Node) (o o' : Name) : Prop :=
  o' = o ∨ (lookupA sym o = some (.alias o') ∧ nodes.any (·.outputs.contains o') = true)

/-- Every output of the result is either the original output or the alias the pass recorded for
it, produced in the same graph — never anything else (`_sym_value_can_replace_graph_output`).
A statement about the model's value identities (what C03 `output_replacement_sound` needs), not about
declared output names or types. -/
theorem replaceOutputs_only_aliases (nodes : List Node) : ∀ (outs : List Name) (st : St),
    Forall2 (OutOk st.sym nodes) outs (replaceOutputs st nodes outs).2
  | [], _ => Forall2.nil
  | o :: rest, st => by
    simp only [replaceOutputs]
    split
    · rename_i y hy
      split
      · exact Forall2.cons (Or.inl rfl) (replaceOutputs_only_aliases nodes rest (st.note "out:noproducer"))
      · rename_i hprod
        split
        · exact Forall2.cons (Or.inl rfl) (replaceOutputs_only_aliases nodes rest (st.note "out:alreadyoutput"))
        · have ih := replaceOutputs_only_aliases nodes rest
            ({ st with gouts := y :: st.gouts.erase o, modified := true }.note "out:replaced")
          refine Forall2.cons (Or.inr ⟨?_, ?_⟩) ih
          · simpa [St.getSym] using hy
          · simpa using hprod
    · exact Forall2.cons (Or.inl rfl) (replaceOutputs_only_aliases nodes rest st)

/-! ### the graph-input guard -/

/-- **Graph-input guard** (`any(x.is_graph_input() …)`; a one-guard unfolding of the cascade, listed for the tie, not a
headline result): once a node reaches the gate cascade (no
partial evaluator replaced it), a single input that is a graph input — in particular an
initializer that is also a graph input, whatever its default value — makes the cascade keep the
node, for every size limit, `should_fold` callback, oracle table and state. -/
theorem graph_input_guard (ctx : Ctx) (st : St) (n : Node) (version : Nat) (x : Name)
    (hx : some x ∈ n.inputs) (hg : st.isGraphInput x = true) :
    ∃ st', gateCascade ctx st n version = (.keep n, st') := by
  have hany : (n.inputs.filterMap id).any st.isGraphInput = true := by
    apply List.any_eq_true.mpr
    exact ⟨x, List.mem_filterMap.mpr ⟨some x, hx, rfl⟩, hg⟩
  unfold gateCascade
  split
  · exact ⟨_, rfl⟩
  · split
    · exact ⟨_, rfl⟩
    · split
      · exact ⟨_, rfl⟩
      · exact ⟨_, rfl⟩

/-- helper of `generic_fold_requires` (one-guard unfolding; counted as an obligation, not a result) -/
theorem emitFold_requires (ctx : Ctx) (st st' : St) (n n' : Node) (c : CInfo) (r : Repl)
    (h : emitFold ctx st n c = (.repl n' r, st')) : n.outputs.length = 1 := by
  unfold emitFold at h
  by_cases hl : n.outputs.length = 1
  · exact hl
  · have : (n.outputs.length != 1) = true := by simpa using hl
    simp [this] at h

/-- What the cascade demands before it folds: **every** input is a known constant and **none** is a
graph input, the node has no bodies and exactly one output, and the reference evaluator answered
with a single tensor.  (These are the hypotheses of C03 `generic_fold_sound`; the size limits,
the blacklist and `should_fold` only ever *restrict* folding further.) -/
theorem generic_fold_requires (ctx : Ctx) (st st' : St) (n n' : Node) (version : Nat) (r : Repl)
    (h : gateCascade ctx st n version = (.repl n' r, st')) :
    (∀ x, some x ∈ n.inputs → st.isGraphInput x = false ∧ (st.constOf x).isSome = true) ∧
    n.outputs.length = 1 ∧ n.subs = [] ∧ n.isOp "Constant" = false ∧
    ∃ c st1, lookupA ctx.oracle (oracleKey st1 n version) = some (.single c) := by
  unfold gateCascade at h
  split at h
  · simp at h
  · rename_i hconst
    split at h
    · simp at h
    · rename_i hcf
      split at h
      · simp at h
      · split at h
        · simp at h
        · rename_i hgi
          split at h
          · simp at h
          · rename_i hnc
            have hins : ∀ x, some x ∈ n.inputs → st.isGraphInput x = false ∧ (st.constOf x).isSome = true := by
              intro x hx
              have hm : x ∈ n.inputs.filterMap id := List.mem_filterMap.mpr ⟨some x, hx, rfl⟩
              constructor
              · have := List.any_eq_false.mp (by simpa using hgi) x hm
                simpa using this
              · have := List.any_eq_false.mp (by simpa using hnc) x hm
                simpa [Option.isNone_iff_eq_none, Option.isSome_iff_ne_none] using this
            have hsubs : n.subs = [] := by
              simp only [isControlFlow, Bool.not_eq_eq_eq_not] at hcf
              simpa using hcf
            split at h
            · simp at h
            · rename_i st2 hp
              split at h
              · simp at h
              · simp at h
              · rename_i c hor0
                have hor : lookupA ctx.oracle (oracleKey st2 n version) = some (.single c) := by
                  unfold oracleAnswer at hor0
                  split at hor0
                  · simp at hor0
                  · exact hor0
                exact ⟨hins, emitFold_requires ctx st2 st' n n' c r h, hsubs, by simpa using hconst, c, st2, hor⟩

/-! ### overridable initializer-inputs are never read as constants (after fix 3131a7c) -/

/-- **Initializer-inputs are never constants for an evaluator** (a one-guard unfolding of `_get_numpy_value` after commit
3131a7c): for a graph input — whatever `const_value` its default carries — every way an evaluator
reads a constant (`_get_numpy_value` with any dtype filter and size limit, `_get_bool_value`)
answers `None`; `get_shape_value` can then only come from the symbolic map.  Together with
`graph_input_guard` no default is ever folded into the graph. -/
theorem initializer_input_never_constant (st : St) (x : Name) (hg : st.isGraphInput x = true)
    (dtype limit : Option Nat) :
    numpyValue st (some x) dtype limit = none ∧ boolValue st (some x) = none ∧
    shapeValue st (some x) = (match st.getSym (some x) with | some (.shape s) => some s | _ => none) := by
  have h1 : ∀ d l, numpyValue st (some x) d l = none := by
    intro d l
    simp only [numpyValue, hg, if_true]
  refine ⟨h1 dtype limit, ?_, ?_⟩
  · simp only [boolValue, h1]
  · simp only [shapeValue, h1]
    cases st.getSym (some x) with
    | none => rfl
    | some sv => cases sv <;> rfl

/-- **Node-level shape inference never sees the default of an overridable input**
(`_do_inference.get_constant_value` = `_get_numpy_value(x, size_limit=20)`): the constant data handed
to ONNX shape inference for a node never contains a graph input, whatever default value that input
carries.  (A static shape derived from a default would be wrong as soon as the caller overrides it.) -/
theorem inference_never_reads_graph_input_default (st : St) (n : Node) (x : Name) (c : CInfo)
    (h : (x, c) ∈ inferenceData st n) : st.isGraphInput x = false := by
  simp only [inferenceData, List.mem_filterMap] at h
  obtain ⟨y, _, hy⟩ := h
  cases hg : st.isGraphInput x with
  | false => rfl
  | true =>
    exfalso
    cases hc : inferenceConstant st y with
    | none => simp [hc] at hy
    | some c' =>
      simp only [hc, Option.map_some, Option.some.injEq, Prod.mk.injEq] at hy
      obtain ⟨hyx, _⟩ := hy
      subst hyx
      have := (initializer_input_never_constant st y hg none (some 20)).1
      simp only [inferenceConstant] at hc
      rw [this] at hc
      exact absurd hc (by simp)

/-- (one-guard unfolding of the registry lookup) `SplitToSequence` folding is only attempted from opset 18 on (commit 37e2648), so
`Split(num_outputs=…)` — an attribute that exists from opset 18 — is never emitted below it. -/
theorem split_to_sequence_needs_opset18 (n : Node) (v : Nat) (hop : n.op = "SplitToSequence") (hv : v < 18) :
    (lookupEvaluator n v).isNone = true := by
  unfold lookupEvaluator
  split
  · rfl
  · simp only [hop]
    have : ¬ (v ≥ 18) := by omega
    simp [this]

/-! ### no dangling reference (generic-folding fragment) -/

/-- **No dangling reference on the generic-folding fragment** (`replace_node` +
`_clear_unused_initializers`): for graphs whose nodes carry no bodies, are not `Constant` nodes and
have no registered partial evaluator, every initializer the pass pops is neither a formal input nor
an output of the graph nor an input of any node of the result — for every option tuple and
annotation table, unconditionally (no execution hypothesis).  Proof: the use counts the pass
maintains are upper bounds of the real number of occurrences (`Bk.lb`), so "no uses" implies
"not mentioned". -/
theorem no_dangling_fragment (ctx : Ctx) (hnf : ctx.isFunction = false) (info : List (Name × VInfo)) (g : Graph)
    (hplain : ∀ n ∈ g.nodes, Plain n) (hnofresh : ∀ k : Nat, cnt ("%" ++ toString k) g.nodes = 0) :
    ∀ x, x ∈ (foldGraph ctx info g).1.removed →
      g.inputs.contains x = false ∧ g.outputs.contains x = false ∧
      ∀ n ∈ (visitGraph ctx maxDepth (initialState g info) g).2.nodes, n.inputs.contains (some x) = false :=
  no_dangling_aux 7 ctx hnf info g hplain hnofresh

/-- **Well-formedness is preserved on the generic-folding fragment** (`fold_wf`, one level): for every
option tuple and annotation table, the nodes of the result are a sub-list of the input's nodes in
their original order — nothing is reordered, duplicated or invented — hence the order condition
(`orderOK`: no node mentions an output of a later node, i.e. single assignment + definition before
use among the nodes) carries over from the input to the result.  The statement is about the node list
returned by `visitGraph`, i.e. BEFORE the popped initializers are pruned; that pruning leaves no
dangling reference is the separate theorem `no_dangling_fragment`.  (Superseded on the larger fragment A
by `fold_closed_fragmentA` / `fold_ssa_fragmentA`, which include pruning.) -/
theorem fold_wf_fragment (ctx : Ctx) (hnf : ctx.isFunction = false) (info : List (Name × VInfo)) (g : Graph)
    (hplain : ∀ n ∈ g.nodes, Plain n) (hord : orderOK g.nodes = true) :
    List.Sublist (visitGraph ctx maxDepth (initialState g info) g).2.nodes g.nodes ∧
    orderOK (visitGraph ctx maxDepth (initialState g info) g).2.nodes = true :=
  ⟨result_nodes_sublist 7 ctx hnf info g hplain, orderOK_sublist (result_nodes_sublist 7 ctx hnf info g hplain) hord⟩

/-- `o = Mul(a, b); y = Sub(x, o)` with initializers `a`, `b`: a graph of the fragment -/
def gWF : Graph :=
  .mk ["x"] [("a", "t1"), ("b", "t2")]
    [.mk "Mul" "" [some "a", some "b"] ["o"] [] [], .mk "Sub" "" [some "x", some "o"] ["y"] [] []] ["y"]

/-- non-vacuity of `fold_wf_fragment` / `no_dangling_fragment`: `gWF` satisfies their hypotheses -/
example : (∀ n ∈ gWF.nodes, Plain n) ∧ orderOK gWF.nodes = true := by
  refine ⟨?_, by decide⟩
  intro n hn
  simp only [gWF, Graph.nodes, List.mem_cons, List.mem_nil_iff, or_false] at hn
  rcases hn with rfl | rfl
  · exact ⟨rfl, by decide, fun v => rfl, by decide⟩
  · exact ⟨rfl, by decide, fun v => rfl, by decide⟩

/-! ### fragment A: alias substitution, output replacement, one-node replacements -/

/-- **No dangling reference on fragment A** (generic folding + `Constant` + `Identity` aliasing with input
substitution and graph-output replacement + `Concat`/`Dropout` → `Identity` replacements): for every
option tuple and annotation table, every initializer the pass pops is neither a formal input, nor an
output of the *result*, nor an input of any node of the *result* — unconditionally (no execution
hypothesis).  Proof (`visitNodes_bkA`): the use counts follow the alias substitution
(`decUse x; incUse y`) and `replace_node` (`decUses` old inputs, `incUses` new ones) and stay upper
bounds of the real occurrences; every recorded alias target is an input of an emitted node, so a
graph output replaced by its alias never names a popped initializer. -/
theorem no_dangling_fragmentA (ctx : Ctx) (hnf : ctx.isFunction = false) (info : List (Name × VInfo)) (g : Graph)
    (hfr : ∀ n ∈ g.nodes, FragBk n) (hnofresh : ∀ k : Nat, cnt ("%" ++ toString k) g.nodes = 0) :
    ∀ x, (foldGraph ctx info g).1.removed.contains x = true →
      g.inputs.contains x = false ∧
      (foldGraph ctx info g).2.outputs.contains x = false ∧
      ∀ n ∈ (visitGraph ctx maxDepth (initialState g info) g).2.nodes, n.inputs.contains (some x) = false := by
  intro x hx
  have h := prune_ok_fragmentA 7 ctx hnf info g hfr hnofresh x hx
  refine ⟨h.1, ?_, h.2.2⟩
  have : (foldGraph ctx info g).2.outputs = (visitGraph ctx (7 + 1) (initialState g info) g).2.outputs := by
    show (pruneInits _ (7 + 1) _).outputs = _
    rfl
  rw [this]
  exact h.2.1

/-- **Scope well-formedness is preserved on fragment A** (`fold_wf`, one level): if every node input of
the graph is an initializer, a formal input, a name of the enclosing scope `sc` or an output of an
*earlier* node, and every graph output is defined (`GraphClosed`), then the same holds of the graph
`FoldConstantsPass` returns — after alias substitution into later inputs, replacement of nodes by
initializers or by `Identity` nodes, replacement of graph outputs by their aliases **and** removal of
the popped initializers.  For every option tuple and annotation table; no execution hypothesis.
Proof: `visitNodes_clA` (invariant `ClA`: emitted ++ pending nodes are closed over the scope extended
by the initializers registered so far; every recorded alias target is already in scope; every
originally defined name stays defined), then `no_dangling_fragmentA` to drop the popped names from
the scope (`ClosedL_restrict`). -/
theorem fold_closed_fragmentA (ctx : Ctx) (hnf : ctx.isFunction = false) (info : List (Name × VInfo)) (g : Graph)
    (hfr : ∀ n ∈ g.nodes, FragBk n) (hnofresh : ∀ k : Nat, cnt ("%" ++ toString k) g.nodes = 0)
    (sc : List Name) (hcl : GraphClosed sc g) : GraphClosed sc (foldGraph ctx info g).2 :=
  foldGraph_closedA ctx hnf info g hfr hnofresh sc hcl

/-- **Single assignment is preserved on fragment A** (one level): if the initializer names and the node outputs of the
graph are pairwise distinct and no node output is a formal input (`SSA`), the same holds of the graph
`FoldConstantsPass` returns.  For every option tuple and annotation table; no execution hypothesis.  Proof: through the
node loop the registered initializers followed by the outputs of emitted ++ pending nodes stay a *permutation* of the
original node outputs (`ClA.perm`: a kept or replaced node keeps its outputs, a folded node's output moves to the
initializers), and pruning only removes initializers. -/
theorem fold_ssa_fragmentA (ctx : Ctx) (hnf : ctx.isFunction = false) (info : List (Name × VInfo)) (g : Graph)
    (hfr : ∀ n ∈ g.nodes, FragBk n) (hnofresh : ∀ k : Nat, cnt ("%" ++ toString k) g.nodes = 0)
    (hssa : SSA g) : SSA (foldGraph ctx info g).2 :=
  foldGraph_ssaA ctx hnf info g hfr hnofresh hssa

/-- **Totality on fragment A** (`fold_total`, one level): for every graph in single-assignment form whose nodes are in
fragment A, every option tuple, annotation table and oracle table, the model of `FoldConstantsPass` ends without an error
state: no partial evaluator raises (their index operations are modelled with their Python failure modes),
`register_initializer` never meets a name that is already registered (no renaming step is ever needed on this fragment;
since 6fc3d91 a taken name is renamed instead of raising — `fold_step_never_raises`), `replace_node` is never given lists of different lengths, and the model's own step fuel
(`64 + 16·|nodes| + 16·|uses|`) is never exhausted.  The fuel argument is a rank: an `Identity` node is never replaced, a
`Cast` only by an `Identity`, any other node by an `Identity` or a `Cast` (`EvShape`), so each node costs at most three
steps (`visitNodes_total`, invariant `TotA`). -/
theorem fold_total_fragmentA (ctx : Ctx) (hnf : ctx.isFunction = false) (info : List (Name × VInfo)) (g : Graph)
    (hfr : ∀ n ∈ g.nodes, FragBk n) (hssa : SSA g) : (foldGraph ctx info g).1.err = none :=
  foldGraph_totalA ctx hnf info g hfr hssa

def tokWA : CInfo := { tok := "t1", dtype := 1, shape := [], ints := none, isZero := some false }
def tokWB : CInfo := { tok := "t2", dtype := 1, shape := [], ints := none, isZero := some false }

def ctxWA : Ctx :=
  { inLimit := 8192, outLimit := 262144, shouldFold := none, imports := [("", 18)], isFunction := false,
    toks := [("t1", tokWA), ("t2", tokWB)],
    oracle := [("Mul||18|t1&t2|", .single { tok := "f", dtype := 1, shape := [], ints := none, isZero := some false })] }

def infoWA : List (Name × VInfo) :=
  [("a", { dtype := some 1, shape := some [], const := some tokWA }), ("b", { dtype := some 1, shape := some [], const := some tokWB }),
   ("x", { dtype := some 1 })]

/-- `c = Constant; o = Mul(a, b); s = Sub(x, o); y = Identity(s); z = Div(y, c); w = Concat(z); u = Dropout(w);
k = Cast<1>(x); q = CastLike(u, x)`, outputs `y, u, k, q`; `x` is annotated with element type 1 -/
def gWFA : Graph :=
  .mk ["x"] [("a", "t1"), ("b", "t2")]
    [.mk "Constant" "" [] ["c"] [("value", .tensor "t1")] [],
     .mk "Mul" "" [some "a", some "b"] ["o"] [] [],
     .mk "Sub" "" [some "x", some "o"] ["s"] [] [],
     .mk "Identity" "" [some "s"] ["y"] [] [],
     .mk "Div" "" [some "y", some "c"] ["z"] [] [],
     .mk "Concat" "" [some "z"] ["w"] [("axis", .int 0)] [],
     .mk "Dropout" "" [some "w"] ["u"] [] [],
     .mk "Cast" "" [some "x"] ["k"] [("to", .int 1)] [],
     .mk "CastLike" "" [some "u", some "x"] ["q"] [] []] ["y", "u", "k", "q"]

/-- every rewriting step of fragment A fires on `gWFA`: `a`, `b` are popped, `o` is registered -/
example : (foldGraph ctxWA infoWA gWFA).2.nodes.map (fun n => (n.op, n.inputs, n.outputs)) =
      [("Constant", [], ["c"]), ("Sub", [some "x", some "o"], ["s"]), ("Identity", [some "s"], ["y"]),
       ("Div", [some "s", some "c"], ["z"]), ("Identity", [some "z"], ["w"]), ("Identity", [some "z"], ["u"]),
       ("Identity", [some "x"], ["k"]), ("Cast", [some "z"], ["q"])] ∧
    (foldGraph ctxWA infoWA gWFA).2.outputs = ["s", "z", "k", "q"] ∧ (foldGraph ctxWA infoWA gWFA).2.inits = [("o", "f")] ∧
    (foldGraph ctxWA infoWA gWFA).1.removed = ["b", "a"] := by decide

theorem fresh_ne2 (k : Nat) (s : String) (hs : s.toList.head? ≠ some '%') : "%" ++ toString k ≠ s := by
  intro h
  apply hs
  rw [← h]
  simp [String.toList_append]

/-- non-vacuity of `no_dangling_fragmentA` / `fold_closed_fragmentA`: `gWFA` satisfies their hypotheses -/
theorem gWFA_hyps : (∀ n ∈ gWFA.nodes, FragBk n) ∧ (∀ k : Nat, cnt ("%" ++ toString k) gWFA.nodes = 0) ∧ GraphClosed [] gWFA := by
  refine ⟨?_, ?_, ?_, ?_⟩
  · intro n hn
    simp only [gWFA, Graph.nodes, List.mem_cons, List.mem_nil_iff, or_false] at hn
    rcases hn with rfl | rfl | rfl | rfl | rfl | rfl | rfl | rfl | rfl
    · exact ⟨rfl, by decide, Or.inr (Or.inl ⟨by decide, rfl, "c", rfl⟩)⟩
    · exact ⟨rfl, by decide, Or.inl ⟨by decide, fun v => rfl⟩⟩
    · exact ⟨rfl, by decide, Or.inl ⟨by decide, fun v => rfl⟩⟩
    · exact ⟨rfl, by decide, Or.inr (Or.inr (Or.inl ⟨rfl, rfl, "s", "y", rfl, rfl⟩))⟩
    · exact ⟨rfl, by decide, Or.inl ⟨by decide, fun v => rfl⟩⟩
    · exact ⟨rfl, by decide, Or.inr (Or.inr (Or.inr (clsX_concat1 _ "z" "w" rfl rfl rfl)))⟩
    · exact ⟨rfl, by decide, Or.inr (Or.inr (Or.inr (clsX_dropout _ "w" "u" [] rfl rfl (by decide) rfl)))⟩
    · exact ⟨rfl, by decide, Or.inr (Or.inr (Or.inr (clsX_cast _ "x" "k" rfl rfl rfl)))⟩
    · exact ⟨rfl, by decide, Or.inr (Or.inr (Or.inr (clsX_castlike _ "u" "q" [some "x"] rfl rfl rfl)))⟩
  · intro k
    simp only [cnt, gWFA, Graph.nodes, List.flatMap_cons, List.flatMap_nil, Node.inputs, List.append_nil, List.cons_append,
      List.nil_append]
    apply List.count_eq_zero.mpr
    simp only [List.mem_cons, Option.some.injEq, List.mem_nil_iff, or_false]
    intro h
    rcases h with h | h | h | h | h | h | h | h | h | h | h | h
    · exact fresh_ne2 k "a" (by decide) h
    · exact fresh_ne2 k "b" (by decide) h
    · exact fresh_ne2 k "x" (by decide) h
    · exact fresh_ne2 k "o" (by decide) h
    · exact fresh_ne2 k "s" (by decide) h
    · exact fresh_ne2 k "y" (by decide) h
    · exact fresh_ne2 k "c" (by decide) h
    · exact fresh_ne2 k "z" (by decide) h
    · exact fresh_ne2 k "w" (by decide) h
    · exact fresh_ne2 k "x" (by decide) h
    · exact fresh_ne2 k "u" (by decide) h
    · exact fresh_ne2 k "x" (by decide) h
  · simp [gWFA, ClosedL, Graph.inits, Graph.inputs, Graph.nodes, Node.inputs, Node.outputs]
  · intro o ho
    simp only [gWFA, Graph.outputs, List.mem_cons, List.mem_nil_iff, or_false] at ho
    right
    rcases ho with rfl | rfl | rfl | rfl
    · exact ⟨.mk "Identity" "" [some "s"] ["y"] [] [], by simp [gWFA, Graph.nodes], by simp [Node.outputs]⟩
    · exact ⟨.mk "Dropout" "" [some "w"] ["u"] [] [], by simp [gWFA, Graph.nodes], by simp [Node.outputs]⟩
    · exact ⟨.mk "Cast" "" [some "x"] ["k"] [("to", .int 1)] [], by simp [gWFA, Graph.nodes], by simp [Node.outputs]⟩
    · exact ⟨.mk "CastLike" "" [some "u", some "x"] ["q"] [] [], by simp [gWFA, Graph.nodes], by simp [Node.outputs]⟩

/-- …hence the conclusions hold of the result on `gWFA` -/
example : GraphClosed [] (foldGraph ctxWA infoWA gWFA).2 :=
  fold_closed_fragmentA ctxWA rfl infoWA gWFA gWFA_hyps.1 gWFA_hyps.2.1 [] gWFA_hyps.2.2

example : SSA gWFA := by
  refine ⟨by decide, ?_⟩
  intro o ho
  have : o ∈ ["c", "o", "s", "y", "z", "w", "u", "k", "q"] := ho
  simp only [List.mem_cons, List.mem_nil_iff, or_false] at this
  rcases this with rfl | rfl | rfl | rfl | rfl | rfl | rfl | rfl | rfl <;> decide

example : (foldGraph ctxWA infoWA gWFA).1.err = none :=
  fold_total_fragmentA ctxWA rfl infoWA gWFA gWFA_hyps.1
    ⟨by decide, by
      intro o ho
      have : o ∈ ["c", "o", "s", "y", "z", "w", "u", "k", "q"] := ho
      simp only [List.mem_cons, List.mem_nil_iff, or_false] at this
      rcases this with rfl | rfl | rfl | rfl | rfl | rfl | rfl | rfl | rfl <;> decide⟩

example : SSA (foldGraph ctxWA infoWA gWFA).2 :=
  fold_ssa_fragmentA ctxWA rfl infoWA gWFA gWFA_hyps.1 gWFA_hyps.2.1
    ⟨by decide, by
      intro o ho
      have : o ∈ ["c", "o", "s", "y", "z", "w", "u", "k", "q"] := ho
      simp only [List.mem_cons, List.mem_nil_iff, or_false] at this
      rcases this with rfl | rfl | rfl | rfl | rfl | rfl | rfl | rfl | rfl <;> decide⟩

/-! ### refuted clauses (findings) and regression witnesses of fixed ones -/

def ctxW (v : Nat) : Ctx :=
  { inLimit := 8192, outLimit := 262144, shouldFold := none, imports := [("", v)], isFunction := false, toks := [], oracle := [] }

def tokS : CInfo := { tok := "t0", dtype := 7, shape := [2], ints := some [2, 3], isZero := none }

/-- `Reshape(x:[2,3], s)` where `s = [2,3]` is an initializer **and** a graph input (C04-D1, fixed). -/
def gReshape : Graph :=
  .mk ["x", "s"] [("s", "t0")] [.mk "Reshape" "" [some "x", some "s"] ["y"] [] []] ["y"]

def infoReshape : List (Name × VInfo) :=
  [("x", { dtype := some 1, shape := some [.known 2, .known 3] }),
   ("s", { dtype := some 7, shape := some [.known 2], const := some tokS })]

/-- Regression witness of C04-D1 (fixed by 3131a7c): the `Reshape` fed by the initializer-input is
kept and the initializer stays. -/
theorem overridable_reshape_kept :
    (foldGraph (ctxW 18) infoReshape gReshape).2.nodes.map (fun n => (n.op, n.inputs)) = [("Reshape", [some "x", some "s"])] ∧
    (foldGraph (ctxW 18) infoReshape gReshape).2.inits.map (·.1) = ["s"] := by
  decide

def tokW : CInfo := { tok := "t0", dtype := 1, shape := [3], ints := none, isZero := none }

/-- `s = Shape(w)` with `w : float[3]` an initializer **and** a graph input. -/
def gShapeW : Graph :=
  .mk ["x", "w"] [("w", "t0")]
    [.mk "Shape" "" [some "w"] ["s"] [] [], .mk "Add" "" [some "x", some "x"] ["y"] [] []] ["s", "y"]

def infoShapeW : List (Name × VInfo) :=
  [("x", { dtype := some 1, shape := some [.known 3] }),
   ("w", { dtype := some 1, shape := some [.known 3], const := some tokW })]

/-- Regression witness of C04-D6 (fixed by a75a907): `Shape(w)` is still replaced by `Constant([3])`,
but the initializer `w` — which is also a formal input — stays. -/
theorem shape_of_initializer_input_keeps_default :
    (foldGraph (ctxW 18) infoShapeW gShapeW).2.nodes.map (·.op) = ["Constant", "Add"] ∧
    (foldGraph (ctxW 18) infoShapeW gShapeW).2.inits.map (·.1) = ["w"] := by
  decide

/-- **Overridable initializer-inputs keep their default** (after commits 3131a7c + a75a907): for every
option tuple, annotation table and graph, an initializer of the main graph that is also a formal
input is still an initializer of the result.  Proof: the set of formal inputs is written once
(`initialState`) and no step of the pass changes it; `_clear_unused_initializers` is the only place
that pops an initializer and it skips graph inputs (`Kept` invariant through `processNode`,
`applyRepl`, `visitNodes`, `visitGraph` at every nesting depth); folded results are only ever
*appended* to a graph's initializers.  Before a75a907 this statement was false
(witness `gShapeW`: `Shape(w)` → `Constant`, `w` popped; replayed on the real code as C04-D6). -/
theorem overridable_inputs_kept (ctx : Ctx) (info : List (Name × VInfo)) (g : Graph) (x : Name)
    (hx : x ∈ g.inputs) (hi : x ∈ g.inits.map (·.1)) :
    x ∈ (foldGraph ctx info g).2.inits.map (·.1) := by
  have hG : (collect Graph.inputs maxDepth g).contains x = true := by
    simp only [maxDepth, collect, List.contains_iff_mem, List.mem_append]
    exact Or.inl hx
  have hk := kept_visitGraph ctx maxDepth (initialState g info) g (initialState_kept g info)
  obtain ⟨added, hadd⟩ := visitGraph_inits ctx 7 (initialState g info) g
  have hnr : (visitGraph ctx maxDepth (initialState g info) g).1.removed.contains x = false := by
    cases hc : (visitGraph ctx maxDepth (initialState g info) g).1.removed.contains x with
    | false => rfl
    | true =>
      have := hk.2 x (by simpa using hc)
      rw [hG] at this
      exact absurd this (by decide)
  obtain ⟨p, hp, hpx⟩ := List.mem_map.mp hi
  simp only [foldGraph]
  show x ∈ (pruneInits _ (7 + 1) _).inits.map (·.1)
  simp only [pruneInits, Graph.inits]
  apply List.mem_map.mpr
  refine ⟨p, ?_, hpx⟩
  apply List.mem_filter.mpr
  constructor
  · have : (visitGraph ctx maxDepth (initialState g info) g).2.inits = g.inits ++ added := hadd
    simp only [Graph.inits] at this
    rw [this]
    exact List.mem_append_left _ hp
  · rw [hpx]
    simp only [hnr, Bool.not_false]

def stSplit : St :=
  { info := [("x", { dtype := some 1, shape := some [.known 6, .known 2] }), ("sp", { dtype := some 7, shape := some [] })] }

def nSplit : Node := .mk "SplitToSequence" "" [some "x", some "sp"] ["s"] [("axis", .int 0)] []

def isError : PRes → Bool
  | .error _ => true
  | _ => false

/-- Regression witness of C04-D2 (fixed by 5b73ec4): `SplitToSequence(x:[6,2], sp)` with a
non-constant scalar `sp` no longer raises — the node is kept. -/
theorem dynamic_scalar_split_kept :
    isError (processNode (ctxW 18) stSplit nSplit).1 = false := by
  decide

def tokTwo : CInfo := { tok := "t1", dtype := 7, shape := [], ints := some [2], isZero := some false }

/-- `SplitToSequence(x:[4,3], split = 2)` under opset 17. -/
def gSplit17 : Graph :=
  .mk ["x"] [("sp", "t1")] [.mk "SplitToSequence" "" [some "x", some "sp"] ["s"] [("axis", .int 0)] []] ["s"]

def infoSplit17 : List (Name × VInfo) :=
  [("x", { dtype := some 1, shape := some [.known 4, .known 3] }), ("sp", { dtype := some 7, shape := some [], const := some tokTwo })]

def usesNumOutputs (g : Graph) : Bool :=
  g.nodes.any fun n => n.op == "Split" && (n.attr "num_outputs").isSome

/-- Regression witness of C04-D3 (fixed by 37e2648): under opset 17 nothing is rewritten; under
opset 18 the same graph does get `Split(num_outputs=2)`. -/
theorem split_num_outputs_only_from_opset18 :
    usesNumOutputs (foldGraph (ctxW 17) infoSplit17 gSplit17).2 = false ∧
    usesNumOutputs (foldGraph (ctxW 18) infoSplit17 gSplit17).2 = true := by
  decide

def tokC : CInfo := { tok := "t0", dtype := 1, shape := [1, 2], ints := none, isZero := none }

def ctxClash : Ctx :=
  { inLimit := 8192, outLimit := 262144, shouldFold := none, imports := [("", 18)], isFunction := false,
    toks := [("t0", tokC)],
    oracle := [("SequenceConstruct||18|t0&t0|", .fail),
               ("Unsqueeze||18|t0&int:0|", .single { tok := "f1", dtype := 1, shape := [1, 1, 2], ints := none, isZero := none }),
               ("Concat||18|f1&f1|axis=i:0", .single { tok := "f2", dtype := 1, shape := [2, 1, 2], ints := none, isZero := none })] }

/-- `s = SequenceConstruct(c, c); t = ConcatFromSequence(s, axis=0, new_axis=1); y = Add(x, t)`, `c` an initializer. -/
def gClash : Graph :=
  .mk ["x"] [("c", "t0")]
    [.mk "SequenceConstruct" "" [some "c", some "c"] ["s"] [] [],
     .mk "ConcatFromSequence" "" [some "s"] ["t"] [("axis", .int 0), ("new_axis", .int 1)] [],
     .mk "Add" "" [some "x", some "t"] ["y"] [] []] ["y"]

def infoClash : List (Name × VInfo) :=
  [("x", { dtype := some 1, shape := some [.known 2, .known 1, .known 2] }),
   ("c", { dtype := some 1, shape := some [.known 1, .known 2], const := some tokC })]

/-- Regression witness of C04-D5 (fixed by b6866ae): the two `Unsqueeze` outputs are now named
`c_unsqueeze_0` / `c_unsqueeze_1`; both are folded without a name clash. -/
theorem repeated_element_no_nameclash :
    (foldGraph ctxClash infoClash gClash).1.err = none := by
  decide

/-! ### the whole `optimize_ir` pipeline -/

/-- the folding pass as the pipeline runs it: option values and annotations may differ from call to call -/
def foldPass (ctxOf : Graph → Ctx) (infoOf : Graph → List (Name × VInfo)) (g : Graph) : Graph × Bool :=
  ((foldGraph (ctxOf g) (infoOf g) g).2, (foldGraph (ctxOf g) (infoOf g) g).1.modified)

/-- **The interface survives the whole pipeline — RELATIVE TO CONTRACTS for all nine passes that are not the folding
pass** (`C : RelContracts Iface P`: inline, rewrite, remove-unused, lift constants, lift subgraph initializers,
deduplicate, CSE, OutputFix, NameFix are *assumed* to keep the interface; they are parameters, not modelled; one of
these contracts is observed false for the stronger "declared type kept" clause: C04-D4).  What is proved is the
composition and the folding pass's own part.  (`optimize_ir`: `[Inline]`, then `num_iterations ×` (fold, NameFix when
modified, rewrite, remove-unused), then remove-unused, lift constants, lift subgraph initializers, deduplicate, CSE,
OutputFix, NameFix — the order `OV.Model.C03Pass.optimizeIr` restates and `pipeline_order_matches_source` ties to the
source).  For every option tuple (`num_iterations`, `stop_if_no_change`, `inline`, and any size limits / `should_fold` /
opset imports / annotations the folding pass is run with, which may change from iteration to iteration): if each
onnx_ir pass and the rewrite pass keeps the interface (`RelContracts Iface`, the contract A-ir), then the result of the
pipeline has the same formal inputs in the same order, the same number of outputs, and every initializer that is also a
formal input — a default the caller may override — still has its initializer (`Iface`: input names/order, output COUNT,
defaults kept — not output names or types).  The folding pass needs no contract: its part is `fold_signature` +
`overridable_inputs_kept`, for all graphs. -/
theorem optimize_interface_contract (P : IrPasses) (C : RelContracts Iface P) (ctxOf : Graph → Ctx)
    (infoOf : Graph → List (Name × VInfo)) (o : OptOpts) (g : Graph) :
    Iface (optimizeIr P (foldPass ctxOf infoOf) o g) g := by
  apply optimizeIr_rel Iface Iface.refl (fun h1 h2 => Iface.trans h1 h2) P C
  intro g1
  exact ⟨(fold_signature (ctxOf g1) (infoOf g1) g1).1, (fold_signature (ctxOf g1) (infoOf g1) g1).2,
    fun x hx hi => overridable_inputs_kept (ctxOf g1) (infoOf g1) g1 x hx hi⟩

/-- passes that really change the graph and satisfy the contracts: remove-unused drops `Identity` nodes, constant lifting
adds an initializer, NameFix renames nothing here -/
def demoPasses : IrPasses :=
  { inline := id, rewrite := fun g => (g, false),
    dce := fun g => (Graph.mk g.inputs g.inits (g.nodes.filter fun n => n.op != "Dropout") g.outputs, true),
    liftConstants := fun g => Graph.mk g.inputs (g.inits ++ [("lifted", "t9")]) g.nodes g.outputs,
    liftSubgraphInits := id, dedup := id, cse := id, outputFix := id, nameFix := id }

/-- non-vacuity of `optimize_interface_contract`: the contracts are satisfiable by passes that are not the identity … -/
theorem demoPasses_contracts : RelContracts Iface demoPasses :=
  { inline := fun g => Iface.refl g, rewrite := fun g => Iface.refl g,
    dce := fun g => ⟨rfl, rfl, fun _ _ h => h⟩,
    liftConstants := fun g => ⟨rfl, rfl, fun x _ h => by
      show x ∈ (g.inits ++ [("lifted", "t9")]).map (·.1)
      rw [List.map_append]
      exact List.mem_append_left _ h⟩,
    liftSubgraphInits := fun g => Iface.refl g, dedup := fun g => Iface.refl g, cse := fun g => Iface.refl g,
    outputFix := fun g => Iface.refl g, nameFix := fun g => Iface.refl g }

/-- … and on `gShapeW` (an overridable `w`, two iterations, the fold fires in the first) the pipeline keeps `x, w` and the
default of `w` while it rewrites the graph -/
example :
    (optimizeIr demoPasses (foldPass (fun _ => ctxW 18) (fun _ => infoShapeW)) ⟨2, true, true⟩ gShapeW).inputs = ["x", "w"] ∧
    (optimizeIr demoPasses (foldPass (fun _ => ctxW 18) (fun _ => infoShapeW)) ⟨2, true, true⟩ gShapeW).inits.map (·.1) = ["w", "lifted"] ∧
    (optimizeIr demoPasses (foldPass (fun _ => ctxW 18) (fun _ => infoShapeW)) ⟨2, true, true⟩ gShapeW).nodes.map (·.op) = ["Constant", "Add"] := by
  decide

/-! ### `visit_function` (commit 26dd9fc): initializers left in a function body -/

theorem foldFunction_eq (ctx : Ctx) (info : List (Name × VInfo)) (g : Graph) :
    foldFunction ctx info g =
      if (foldGraph ctx info g).1.err.isSome then foldGraph ctx info g
      else initsToConstants (foldGraph ctx info g).1 (foldGraph ctx info g).2 := by
  unfold foldFunction
  rcases foldGraph ctx info g with ⟨st, g'⟩
  rfl

/-- **A function body returned by the pass holds no initializer — under the hypothesis that the run ended without an
error (`err = none`)** (they would be dropped when the function is
serialized): whenever the pass ends without an error, for every option tuple, annotation table and body. -/
theorem foldFunction_no_initializers (ctx : Ctx) (info : List (Name × VInfo)) (g : Graph)
    (h : (foldFunction ctx info g).1.err = none) : (foldFunction ctx info g).2.inits = [] := by
  rw [foldFunction_eq] at h ⊢
  cases he : (foldGraph ctx info g).1.err.isSome with
  | false =>
    simp only [Bool.false_eq_true, if_false]
    exact initsToConstants_inits _ _
  | true =>
    simp only [he, if_true] at h
    rw [h] at he
    exact absurd he (by simp)

/-- **A function keeps its signature**: same formal inputs, same number of outputs, for all bodies and option tuples. -/
theorem foldFunction_signature (ctx : Ctx) (info : List (Name × VInfo)) (g : Graph) :
    (foldFunction ctx info g).2.inputs = g.inputs ∧ (foldFunction ctx info g).2.outputs.length = g.outputs.length := by
  rw [foldFunction_eq]
  split
  · exact fold_signature ctx info g
  · have h := initsToConstants_sig (foldGraph ctx info g).1 (foldGraph ctx info g).2
    have h2 := fold_signature ctx info g
    exact ⟨h.1.trans h2.1, by rw [h.2]; exact h2.2⟩

/-- **The clean-up keeps the body well-scoped** (full since commit a9715ec; before it the statement needed the hypothesis
"no output of the body is an initializer that no node reads", see `function_output_initializer_dropped_before_fix`): if
every node input of the body is an initializer, a formal input, a name of the enclosing scope or an output of an earlier
node and every output is defined, the same holds after the initializers that are still read **or are outputs of the body**
have become `Constant` nodes at the top of the body and the others have been dropped.  All bodies, all nesting depths of
the readers, no side condition. -/
theorem function_cleanup_closed (st : St) (g : Graph) (sc : List Name) (hcl : GraphClosed sc g) :
    GraphClosed sc (initsToConstants st g).2 :=
  initsToConstants_closed st g sc hcl

/-- **The clean-up keeps single assignment — under the hypothesis `hni` (no initializer is a formal input)**: initializer names and node outputs stay pairwise distinct and no node output
is a formal input, for bodies none of whose initializers is a formal input (function inputs have no defaults). -/
theorem function_cleanup_ssa (st : St) (g : Graph) (hssa : SSA g) (hni : ∀ x, x ∈ g.inits.map (·.1) → x ∉ g.inputs) :
    SSA (initsToConstants st g).2 :=
  initsToConstants_ssa st g hssa hni

/-- what an inlined `If` leaves in a function body: `u = Add(x, c); r = Mul(u, c)` with the branch's initializer `c`, and a
second initializer `d` nobody reads -/
def gBody : Graph :=
  .mk ["x"] [("c", "t1"), ("d", "t2")]
    [.mk "Add" "" [some "x", some "c"] ["u"] [] [], .mk "Mul" "" [some "u", some "c"] ["r"] [] []] ["r"]

/-- non-vacuity of `function_cleanup_closed` / `function_cleanup_ssa`: `gBody` satisfies the hypotheses, `c` becomes
a Constant node, `d` is dropped -/
example : GraphClosed [] gBody ∧ SSA gBody ∧ (∀ x, x ∈ gBody.inits.map (·.1) → x ∉ gBody.inputs) ∧
    (initsToConstants {} gBody).2.nodes.map (fun n => (n.op, n.outputs)) = [("Constant", ["c"]), ("Add", ["u"]), ("Mul", ["r"])] := by
  refine ⟨⟨?_, ?_⟩, ⟨by decide, ?_⟩, ?_, by decide⟩
  · simp [gBody, ClosedL, Graph.inits, Graph.inputs, Graph.nodes, Node.inputs, Node.outputs]
  · intro o ho
    right
    simp only [gBody, Graph.outputs, List.mem_cons, List.mem_nil_iff, or_false] at ho
    subst ho
    exact ⟨.mk "Mul" "" [some "u", some "c"] ["r"] [] [], by simp [gBody, Graph.nodes], by simp [Node.outputs]⟩
  · intro o ho
    have : o ∈ ["u", "r"] := ho
    simp only [List.mem_cons, List.mem_nil_iff, or_false] at this
    rcases this with rfl | rfl <;> decide
  · intro x hx
    have : x ∈ ["c", "d"] := hx
    simp only [List.mem_cons, List.mem_nil_iff, or_false] at this
    rcases this with rfl | rfl <;> decide

/-- the body `If(true){ output c, initializer c }` leaves after inlining: no node, the output is the initializer -/
def gOutInit : Graph := .mk ["x"] [("y", "t1")] [] ["y"]

/-- the clean-up as it was before commit a9715ec: only initializers that some node reads survive -/
def initsToConstantsBeforeFix (st : St) (g : Graph) : St × Graph :=
  let live := g.inits.filter fun (x, _) => readsName maxDepth g x
  if g.inits.isEmpty then (st, g) else
  (if live.isEmpty then st else { st with modified := true },
   Graph.mk g.inputs [] (live.map (fun (x, t) => mkNode "Constant" [] [x] [("value", .tensor t)]) ++ g.nodes) g.outputs)

/-- **Regression statement for C04-D13 (fixed by a9715ec).**  The *pre-fix* clean-up did not keep well-scoped bodies
well-scoped: on `gOutInit` (what inlining `If(true)` with a branch `output = initializer` leaves) it dropped the
initializer and the output was defined by nothing.  (Until the fix this was the negation of the full statement of
`function_cleanup_closed`; replayed on the real code as `w_c04d13`, which must now pass.) -/
theorem function_output_initializer_dropped_before_fix :
    ¬ (∀ (st : St) (sc : List Name) (g : Graph), GraphClosed sc g → GraphClosed sc (initsToConstantsBeforeFix st g).2) := by
  intro h
  have hcl : GraphClosed [] gOutInit := by
    refine ⟨trivial, ?_⟩
    intro o ho
    left
    have : o = "y" := by simpa [gOutInit, Graph.outputs] using ho
    subst this
    simp [gOutInit, Graph.inits, Graph.inputs]
  have h2 := (h {} [] gOutInit hcl).2 "y" (by simp [initsToConstantsBeforeFix, gOutInit, Graph.inits, Graph.outputs])
  revert h2
  simp [initsToConstantsBeforeFix, gOutInit, Graph.inits, Graph.outputs, Graph.inputs, Graph.nodes, readsName, maxDepth]

/-- … and the current clean-up keeps that output defined: the initializer becomes `y = Constant` -/
theorem function_output_initializer_kept :
    (initsToConstants {} gOutInit).2.nodes.map (fun n => (n.op, n.outputs)) = [("Constant", ["y"])] ∧
    (initsToConstants {} gOutInit).2.outputs = ["y"] ∧ (initsToConstants {} gOutInit).2.inits = [] := by
  decide

/-! ### finding C04-D12: equally named values in sibling branches -/

def tokTrue : CInfo := { tok := "tc", dtype := 9, shape := [], ints := some [1], isZero := some false }
def tokA : CInfo := { tok := "ta", dtype := 1, shape := [3], ints := none, isZero := none }

def ctxSib : Ctx :=
  { inLimit := 8192, outLimit := 262144, shouldFold := none, imports := [("", 18)], isFunction := false,
    toks := [("tc", tokTrue), ("ta", tokA)],
    oracle := [("Add||18|ta&ta|", .single { tok := "f", dtype := 1, shape := [3], ints := none, isZero := none })] }

/-- `a = Constant; t = Add(a, a); r = Mul(x, t)` -/
def takenBranch (a t r : Name) : Graph :=
  .mk [] [] [.mk "Constant" "" [] [a] [("value", .tensor "ta")] [], .mk "Add" "" [some a, some a] [t] [] [],
             .mk "Mul" "" [some "x", some t] [r] [] []] [r]

def otherBranch (s : Name) : Graph := .mk [] [] [.mk "Neg" "" [some "x"] [s] [] []] [s]

/-- `c = true; y1 = If(c){…t…}{…}; y2 = If(c){…t2…}{…}; y = Add(y1, y2)` — with `t2 = "t"` the two then-branches use the
same interior name, which sibling scopes may do -/
def gSibling (t2 : Name) : Graph :=
  .mk ["x"] []
    [.mk "Constant" "" [] ["c"] [("value", .tensor "tc")] [],
     .mk "If" "" [some "c"] ["y1"] [] [("then_branch", takenBranch "a1" "t" "r1"), ("else_branch", otherBranch "s1")],
     .mk "If" "" [some "c"] ["y2"] [] [("then_branch", takenBranch "a2" t2 "r2"), ("else_branch", otherBranch "s2")],
     .mk "Add" "" [some "y1", some "y2"] ["y"] [] []] ["y"]

def infoSib : List (Name × VInfo) := [("x", { dtype := some 1, shape := some [.known 3] })]

/-- **The fold step has no error exit** (since commit 6fc3d91, `_make_initializer_name_unique`): for every option tuple,
state, node and evaluator answer, registering the folded value never fails — a name that is already taken is made free
first (the folded value is renamed `<n>_<k>`; a graph output keeps its name and the earlier initializer is renamed).
Before the fix this was false: `register_initializer` raised on a taken name (finding C04-D12; the statement of
`fold_total_fragmentA` without its fragment hypothesis was refuted by `gSibling "t"`). -/
theorem fold_step_never_raises (ctx : Ctx) (st : St) (n : Node) (c : CInfo) (m : String) :
    (emitFold ctx st n c).1 ≠ PRes.error m :=
  emitFold_no_error ctx st n c m

/-- the condition under which the pre-fix code raised: the display name of the value being folded is a registered name -/
def clashBeforeFix (st : St) (n : Node) : Bool := st.initDisplay.contains (st.display (n.outputs.headD ""))

/-- regression example (`decide` on two concrete states, NOT a universal statement): when the pre-fix code would have
raised, `makeRoom` makes the name registered afterwards a new one (`t_2`); for a graph output the holder is renamed -/
theorem rename_gives_unregistered_name :
    clashBeforeFix { initDisplay := ["t", "t_1"] } (.mk "Add" "" [] ["t"] [] []) = true ∧
    (makeRoom { initDisplay := ["t", "t_1"] } "t").display "t" = "t_2" ∧
    (makeRoom { initDisplay := ["t", "t_1"], gouts := ["t"], initNames := ["e"], dname := [("e", "t")] } "t").display "t" = "t" ∧
    (makeRoom { initDisplay := ["t", "t_1"], gouts := ["t"], initNames := ["e"], dname := [("e", "t")] } "t").display "e" = "t_2" ∧
    (makeRoom { initDisplay := ["t", "t_1"], gouts := ["t"], initNames := ["e"], dname := [("e", "t")] } "t").initDisplay = ["t_2", "t_1"] := by
  decide

/-- **Regression statement for C04-D12 (fixed by 6fc3d91).**  Two `If` nodes with a constant condition whose taken branches
both fold a value called `t` (sibling scopes may share names): the pass ends without an error, the second registration goes
through the renaming step and happens under `t_1` (the pre-fix model ended in `register_initializer: name already
registered` on this very graph; replayed on the real code as `w_c04d12`, which must now pass). -/
theorem sibling_branches_same_name_fold :
    (foldGraph ctxSib infoSib (gSibling "t")).1.err = none ∧
    (foldGraph ctxSib infoSib (gSibling "t")).1.initDisplay = ["t_1", "t"] ∧
    (foldGraph ctxSib infoSib (gSibling "t")).1.hist.contains "fold:rename" = true := by
  decide

/-- the same graph with distinct interior names is folded completely, without the renaming step -/
theorem sibling_branches_distinct_names_fold :
    (foldGraph ctxSib infoSib (gSibling "u")).1.err = none ∧ (foldGraph ctxSib infoSib (gSibling "u")).2.inits = [("t", "f"), ("u", "f")] ∧
    (foldGraph ctxSib infoSib (gSibling "u")).1.hist.contains "fold:rename" = false := by
  decide

/-! ### the pass order: source ↔ model -/

/-- **The modelled pass order is the pass order of the source** (translator tie; `OV.Gen.C04Pipeline` is regenerated from
`onnxscript/optimizer/_optimizer.py` and `_constant_folding.py` by `harness/c04_extract.py` on every run): the passes of
the iterated `PassManager`, the passes after it and the `if inline:` prefix are, name by name and in order, the lists
`loopSpec`, `tailSpec`, `inlineSpec` that `optimizeSpec` interprets; the loop is driven by `num_iterations` /
`stop_if_no_change`; `optimize_ir` does nothing else with the list; `FoldConstantsPass.call` runs `NameFixPass` itself
exactly when it modified the model (the `if r1.2 then P.nameFix …` of `iterStep`); the option defaults are `2, True, True`
(the option tuple of the non-vacuity example).  A pass added, dropped or moved in the source makes this theorem fail. -/
theorem pipeline_order_matches_source :
    OV.Gen.C04Pipeline.loopPasses = loopSpec.map PassId.srcName ∧
    OV.Gen.C04Pipeline.tailPasses = tailSpec.map PassId.srcName ∧
    OV.Gen.C04Pipeline.prefixPasses = inlineSpec.map PassId.srcName ∧
    OV.Gen.C04Pipeline.prefixThenRest = true ∧ OV.Gen.C04Pipeline.prefixGuard = "inline" ∧
    OV.Gen.C04Pipeline.loopSteps = "num_iterations" ∧ OV.Gen.C04Pipeline.loopEarlyStop = "stop_if_no_change" ∧
    OV.Gen.C04Pipeline.otherStatements = 0 ∧ OV.Gen.C04Pipeline.foldFixesNamesWhenModified = true ∧
    OV.Gen.C04Pipeline.defaultNumIterations = 2 ∧ OV.Gen.C04Pipeline.defaultStopIfNoChange = true ∧
    OV.Gen.C04Pipeline.defaultInline = true := by
  decide +kernel

/-- **The interface survives the pipeline as the source lists it — relative to the same nine pass contracts**:
`optimize_interface_contract` for the list-driven `optimizeSpec` (`optimizeSpec_eq`: interpreting the three lists *is*
`optimizeIr`). -/
theorem optimize_interface_source_order_contract (P : IrPasses) (C : RelContracts Iface P) (ctxOf : Graph → Ctx)
    (infoOf : Graph → List (Name × VInfo)) (o : OptOpts) (g : Graph) :
    Iface (optimizeSpec P (foldPass ctxOf infoOf) o g) g := by
  rw [optimizeSpec_eq]
  exact optimize_interface_contract P C ctxOf infoOf o g

/-! ### distinct outputs stay distinct -/

/-- **The output loop of `visit_graph` never makes two outputs equal** (`_sym_value_can_replace_graph_output` is
evaluated against the outputs *as already redirected*): if the outputs of a graph are pairwise distinct and recorded as
graph outputs in the state, the outputs after the redirection loop are pairwise distinct again — two outputs that copy
the same interior value are not both redirected to it: the first takes it, the second stays (`out:alreadyoutput`).  For
every symbolic map and node list, UNDER THE HYPOTHESES `outs.Nodup` and `outs ⊆ st.gouts`; at the level of the output loop
(`replaceOutputs`), not lifted to `foldGraph` (that the state reaching the loop still records all outputs is not proved).
About the model's value identities; declared output names and types are not in the model (checked per model). -/
theorem redirected_outputs_distinct (nodes : List Node) (outs : List Name) (st : St)
    (hnd : outs.Nodup) (hin : ∀ o, o ∈ outs → o ∈ st.gouts) : (replaceOutputs st nodes outs).2.Nodup :=
  (replaceOutputs_distinct nodes outs st hnd hin).1

/-- `t = Abs(x); o0 = Identity(t); o1 = Identity(t)`, outputs `o0, o1` -/
def gTwoCopies : Graph :=
  .mk ["x"] [] [.mk "Abs" "" [some "x"] ["t"] [] [], .mk "Identity" "" [some "t"] ["o0"] [] [],
                .mk "Identity" "" [some "t"] ["o1"] [] []] ["o0", "o1"]

/-- non-vacuity: on `gTwoCopies` both outputs are recorded aliases of `t`; only the first is redirected -/
example : (foldGraph (ctxW 18) [("x", { dtype := some 1, shape := some [.known 3] })] gTwoCopies).2.outputs = ["t", "o1"] := by
  decide

end OV.Props.C04
