import OV.Model.C20Save
import OV.Lemmas.C20Save
import OV.Lemmas.C20Round
import OV.Lemmas.C20Fault
import OV.Lemmas.C20Sim
import OV.Lemmas.C20SimF
import OV.Lemmas.C20Hist
/-!
# C20 — saving with external data round-trips and never disturbs the in-memory model

Property theorems only.  Model: `OV.Model.C20Save` (`runSave cfg m dir name verbose fs k`: the real
`save_model_with_external_data(model, dir/name, verbose)` on file system `fs`, the `k`-th file-system call failing
with `OSError`; `k = none`: no fault).  Every theorem quantifies over the fault plan `k`, so "for success and for
every fault point" is the `∀ k`.  Helper lemmas: `OV.Lemmas.C20Save`.
-/
namespace OV.Props.C20
open OV.C20

/-- **Guard first.**  If an initializer the guard looks at (`deep = true`, the code as it is since 1c518f5: every graph of
`model.graphs()`; `deep = false`: the old scope, main graph only — function bodies are outside the model) has no `const_value`, the call raises `ValueError` and the *whole state* is what it was:
no file-system call was made (`calls = 0`, empty trace), no file changed, no tensor object or `const_value` touched —
for every fault plan, path, verbosity and file system. -/
theorem guard_first (cfg : Cfg) (m : Model) (dir name : String) (verbose : Bool) (fs : FS) (k : Option Nat)
    (i : Nat) (n : String) (sub : Bool)
    (hsig : m.sig[i]? = some (n, sub)) (hcv : m.cv[i]? = some none) (hscope : cfg.deep = true ∨ sub = false) :
    (runSave cfg m dir name verbose fs k).res = .error .valueError ∧
    (runSave cfg m dir name verbose fs k).st = init m fs k := by
  have h := save_guard cfg m.sig m.tnames dir name (verbose && cfg.tqdm) (init m fs k)
    (guardHits_hit cfg.deep m.sig m.cv i n sub hsig hcv hscope)
  unfold runSave
  rw [h]
  exact ⟨rfl, rfl⟩

example : ∃ (m : Model) (i : Nat) (n : String), m.sig[i]? = some (n, false) ∧ m.cv[i]? = some none :=
  ⟨{ sig := [("w", false), ("u", false)], cv := [some 0, none], heap := [.mem [1, 2, 3] true] }, 1, "u", rfl, rfl⟩

/-- The property's wording ("refuses a model with uninitialized initializers") for the guard as it was before 1c518f5
(`deep = false`; regression statement, not the current code) is false: an uninitialized initializer of a *sub-graph* is not refused — both files are written and
the initializer is missing from the saved proto.  Witness replayed on the real code (finding C20-D2). -/
theorem guard_first_all_graphs_refuted :
    ¬ (∀ (m : Model) (dir name : String) (verbose : Bool) (fs : FS) (k : Option Nat) (i : Nat) (n : String) (sub : Bool),
        m.sig[i]? = some (n, sub) → m.cv[i]? = some none →
        (runSave { deep := false } m dir name verbose fs k).res = .error .valueError) := by
  intro h
  have := h { sig := [("u", true)], cv := [none], heap := [] } "" "m" false [] none 0 "u" true rfl rfl
  revert this
  decide +kernel

/-- What the witness does instead: success, a data file and a model file without the initializer. -/
theorem guard_first_all_graphs_witness :
    let r := runSave { deep := false } { sig := [("u", true)], cv := [none], heap := [] } "" "m" false [] none
    r.res = .ok () ∧ r.st.fs = [("m.data", .data []), ("m", .proto [])] := by
  decide +kernel

/-- **Model unchanged, every fault point** (`_partial`: a configuration-independent lemma — it holds for every `cfg`, also
without the second guard, at the price of the hypothesis below, which is forced there: `model_unchanged_full_refuted`; for the
code as it is `model_unchanged` replaces the hypothesis by the guard's refusal).  If no tensor object of the model is an `ExternalTensor` living in the destination
data file `dir/name.data`, then after the call — successful or failed at *any* file-system call `k` — every
initializer's `const_value` is the same object as before and every original tensor object is unchanged. -/
theorem model_unchanged_partial (cfg : Cfg) (m : Model) (dir name : String) (verbose : Bool) (fs : FS) (k : Option Nat)
    (hdest : ∀ (id : Nat) (f : String) (o l : Nat) (v : Bool),
      m.heap[id]? = some (.ext f o l v) → f ≠ joinPath dir (name ++ ".data")) :
    (runSave cfg m dir name verbose fs k).model m = m := by
  have hinv := inv_save cfg m.sig m.tnames dir name (verbose && cfg.tqdm)
    (stable_orig m.heap (joinPath dir (name ++ ".data")) (joinPath dir name) hdest) (init m fs k)
    (fun id t h => h)
  have hcv := save_cv cfg m.sig m.tnames dir name (verbose && cfg.tqdm) (init m fs k)
  unfold runSave Result.model
  cases hs : save cfg m.sig m.tnames dir name (verbose && cfg.tqdm) (init m fs k) with
  | mk r s' =>
    rw [hs] at hinv hcv
    simp only [] at hinv hcv ⊢
    have hheap : s'.heap.take m.heap.length = m.heap := by
      apply List.ext_getElem?
      intro i
      rw [List.getElem?_take]
      by_cases hi : i < m.heap.length
      · simp only [hi, if_true]
        have : m.heap[i]? = some m.heap[i] := List.getElem?_eq_getElem hi
        rw [this]
        exact hinv i _ this
      · simp only [hi, if_false]
        exact (List.getElem?_eq_none (by omega)).symm
    cases m with
    | mk sig cv heap =>
      simp only [init] at hcv
      simp only [Model.mk.injEq, true_and]
      exact ⟨hcv, hheap, trivial⟩

example : ∃ (m : Model), m.heap ≠ [] ∧ ∀ (id : Nat) (f : String) (o l : Nat) (v : Bool),
    m.heap[id]? = some (.ext f o l v) → f ≠ joinPath "" ("m.onnx" ++ ".data") :=
  ⟨{ sig := [("a", false), ("e", false)], cv := [some 0, some 1],
     heap := [.mem [1, 2, 3] true, .ext "w.bin" 0 300 true] }, by decide, by
    intro id f o l v h
    match id, h with
    | 0, h => simp at h
    | 1, h => simp at h; obtain ⟨rfl, _⟩ := h; decide
    | n + 2, h => simp at h⟩

/-- **Model unchanged, every fault point, no hypothesis on where tensors live** — for the function *with the second
guard* (`cfg.refuse = true`, the code as it is since 56a0c3c: a model one of whose initializers is an `ExternalTensor` stored in
`dir/name.data` is refused before anything is written).  **Remaining hypothesis `howned`**: every tensor object of the model's
heap belongs to some initializer (`∀ id < heap.length, some id ∈ m.cv`) — a well-formedness condition of the *model state*, not of
the code: an unowned object stored in the destination file is never touched by the save, but the invariant framework cannot
tell which ids the save was given, so the theorem is stated for heaps without garbage.  For every such model, every file system, path, verbosity and every fault plan `k` (and the fault-free run): after
the call every `const_value` is the same object as before and every tensor object is unchanged.  Without the second
guard the statement is false (`model_unchanged_full_refuted`). -/
theorem model_unchanged (cfg : Cfg) (hr : cfg.refuse = true) (m : Model) (dir name : String) (verbose : Bool) (fs : FS)
    (k : Option Nat) (howned : ∀ id, id < m.heap.length → some id ∈ m.cv) :
    (runSave cfg m dir name verbose fs k).model m = m := by
  by_cases hd : (destHits (joinPath dir (name ++ ".data")) m.heap m.cv).isEmpty = true
  · apply model_unchanged_partial
    intro id f o l v hobj hf
    have hlt : id < m.heap.length := by
      rcases Nat.lt_or_ge id m.heap.length with h | h
      · exact h
      · rw [List.getElem?_eq_none h] at hobj; cases hobj
    have hmem := howned id hlt
    have : id ∈ destHits (joinPath dir (name ++ ".data")) m.heap m.cv := by
      unfold destHits
      simp only [List.mem_filterMap]
      exact ⟨some id, hmem, by simp [hobj, hf]⟩
    rw [List.isEmpty_iff.mp hd] at this
    cases this
  · have hd' : (destHits (joinPath dir (name ++ ".data")) (init m fs k).heap (init m fs k).cv).isEmpty = false := by
      simpa [init] using hd
    obtain ⟨_, h2⟩ := save_guard2 cfg m.sig m.tnames dir name (verbose && cfg.tqdm) (init m fs k) hr hd'
    unfold runSave Result.model
    cases hs : save cfg m.sig m.tnames dir name (verbose && cfg.tqdm) (init m fs k) with
    | mk r s' =>
      rw [hs] at h2
      simp only [] at h2 ⊢
      subst h2
      cases m with
      | mk sig cv heap tnames => simp [init]

/-- **The refusal does not depend on the size threshold** (`cfg.thr` = `size_threshold_bytes`, any value): whenever some
initializer's tensor is an `ExternalTensor` stored in `dir/name.data` — however small, i.e. also when `ir.save` would only
"load it to memory" — the call raises `ValueError`, for every fault plan, and the whole state (0 file-system calls, files,
tensor objects, pointers, names) is the initial one.  `model_unchanged`, `roundtrip` and `roundtrip_on_success` are likewise
stated for every `cfg`, hence for every threshold.  (Exempting tensors up to the threshold, seeded change C20-7, is unsound:
`backing_dest_refuted`.) -/
theorem refusal_ignores_threshold (cfg : Cfg) (hr : cfg.refuse = true) (m : Model) (dir name : String) (verbose : Bool)
    (fs : FS) (k : Option Nat) (h : destHits (joinPath dir (name ++ ".data")) m.heap m.cv ≠ []) :
    (runSave cfg m dir name verbose fs k).res = .error .valueError ∧
    (runSave cfg m dir name verbose fs k).st = init m fs k := by
  have hd' : (destHits (joinPath dir (name ++ ".data")) (init m fs k).heap (init m fs k).cv).isEmpty = false := by
    cases hl : destHits (joinPath dir (name ++ ".data")) m.heap m.cv with
    | nil => exact absurd hl h
    | cons a as => simp [init, hl]
  obtain ⟨h1, h2⟩ := save_guard2 cfg m.sig m.tnames dir name (verbose && cfg.tqdm) (init m fs k) hr hd'
  unfold runSave
  cases hs : save cfg m.sig m.tnames dir name (verbose && cfg.tqdm) (init m fs k) with
  | mk r s' => rw [hs] at h1 h2; exact ⟨h1, h2⟩

/-- A 2-byte external tensor in the destination file, threshold 1000 (it would merely be "loaded to memory"): refused. -/
example :
    let m : Model := { sig := [("e", false)], cv := [some 0], heap := [.ext "m.data" 0 2 true] }
    destHits (joinPath "" ("m" ++ ".data")) m.heap m.cv ≠ [] ∧
    (runSave { thr := 1000 } m "" "m" false [("m.data", .data [5, 6])] none).res = .error .valueError := by
  decide +kernel

/-- With the second guard the C20-D1 witness is refused and nothing is touched. -/
example :
    let m : Model := { sig := [("d", false)], cv := [some 0], heap := [.ext "m.data" 0 300 true] }
    let fs : FS := [("m.data", .data (List.replicate 300 7))]
    let r := runSave { refuse := true } m "" "m" false fs none
    r.res = .error .valueError ∧ r.st.calls = 0 ∧ r.st.fs = fs ∧ r.model m = m := by
  decide +kernel

/-- **Tensor names** — with the name-restoring `finally` (`cfg.keepNames = true`, the code as it is since 657db39) the `name` of every tensor object after the call is what it was, for every model, file
system and fault plan (onnx_ir's serializer renames each visited tensor after its initializer: `renameAll`). -/
theorem tensor_names_restored (cfg : Cfg) (hkn : cfg.keepNames = true) (m : Model) (dir name : String) (verbose : Bool)
    (fs : FS) (k : Option Nat) :
    (runSave cfg m dir name verbose fs k).st.tn = m.tnames := by
  have h := save_tn cfg hkn m.sig m.tnames dir name (verbose && cfg.tqdm) (init m fs k)
  unfold runSave
  cases hs : save cfg m.sig m.tnames dir name (verbose && cfg.tqdm) (init m fs k) with
  | mk r s' => rw [hs] at h; exact h

/-- Without it the statement is false: a 1-byte in-memory tensor named `other` held by initializer `s` is called `s`
after a successful save (finding C20-D4, replayed on the real code). -/
theorem tensor_names_full_refuted :
    ¬ (∀ (m : Model) (dir name : String) (verbose : Bool) (fs : FS) (k : Option Nat),
        (runSave { keepNames := false } m dir name verbose fs k).st.tn = m.tnames) := by
  intro h
  have := h { sig := [("s", false)], cv := [some 0], heap := [.mem [1] true], tnames := ["other"] } "" "m" false [] none
  revert this
  decide +kernel

/-- The `const_value` pointers alone are restored unconditionally (the `finally` of `ir.save`), for every model,
file system and fault plan. -/
theorem const_values_restored (cfg : Cfg) (m : Model) (dir name : String) (verbose : Bool) (fs : FS) (k : Option Nat) :
    ((runSave cfg m dir name verbose fs k).model m).cv = m.cv := by
  have hcv := save_cv cfg m.sig m.tnames dir name (verbose && cfg.tqdm) (init m fs k)
  unfold runSave Result.model
  cases hs : save cfg m.sig m.tnames dir name (verbose && cfg.tqdm) (init m fs k) with
  | mk r s' => rw [hs] at hcv; exact hcv

/-- The full statement (no hypothesis on where external tensors live) is false: a 300-byte initializer that is
external in the destination data file is *invalidated* by a successful save of the function without the second guard (finding C20-D1, replayed on the real
code: `ExternalTensor.valid()` is `False` afterwards). -/
theorem model_unchanged_full_refuted :
    ¬ (∀ (m : Model) (dir name : String) (verbose : Bool) (fs : FS) (k : Option Nat),
        (runSave { refuse := false } m dir name verbose fs k).model m = m) := by
  intro h
  have := h { sig := [("d", false)], cv := [some 0], heap := [.ext "m.data" 0 300 true] }
    "" "m" false [("m.data", .data (List.replicate 300 7))] none
  revert this
  decide +kernel

/-- **Files the save does not own are never touched**, success or any fault: every path other than `dir/name.data` and
`dir/name` holds what it held. -/
theorem fs_frame (cfg : Cfg) (m : Model) (dir name : String) (verbose : Bool) (fs : FS) (k : Option Nat)
    (p : String) (h1 : p ≠ joinPath dir (name ++ ".data")) (h2 : p ≠ joinPath dir name) :
    FS.get? (runSave cfg m dir name verbose fs k).st.fs p = FS.get? fs p := by
  have hinv := inv_save cfg m.sig m.tnames dir name (verbose && cfg.tqdm)
    (stable_frame fs (joinPath dir (name ++ ".data")) (joinPath dir name)) (init m fs k)
    (fun _ _ _ => rfl)
  unfold runSave
  cases hs : save cfg m.sig m.tnames dir name (verbose && cfg.tqdm) (init m fs k) with
  | mk r s' => rw [hs] at hinv; exact hinv p h1 h2

/-- **Tensors stay backed by their original data**: an external tensor whose file is neither of the two destination
files denotes, on the file system left by the call (successful or failed at any `k`), exactly the bytes it denoted
before. (In-memory tensors carry their bytes; `model_unchanged_partial` says the objects are unchanged.) -/
theorem backing_preserved (cfg : Cfg) (m : Model) (dir name : String) (verbose : Bool) (fs : FS) (k : Option Nat)
    (f : String) (off len : Nat) (valid : Bool)
    (h1 : f ≠ joinPath dir (name ++ ".data")) (h2 : f ≠ joinPath dir name) :
    bytesOf (runSave cfg m dir name verbose fs k).st.fs (.ext f off len valid) = bytesOf fs (.ext f off len valid) := by
  have := fs_frame cfg m dir name verbose fs k f h1 h2
  simp only [bytesOf, FS.read, this]

/-- …whereas, *before the second guard* (`refuse := false`, the function up to 56a0c3c), a small (≤ 256 bytes, so never
invalidated) external tensor living in the destination data file silently
denotes other bytes after a successful save: here 100 bytes of `7` become the first 100 bytes of the 400-byte tensor
`b` (finding C20-D1, second face; replayed on the real code). -/
theorem backing_dest_refuted :
    let m : Model := { sig := [("s", false), ("b", false)], cv := [some 0, some 1],
                       heap := [.ext "m.data" 0 100 true, .mem (List.replicate 400 9) false] }
    let fs : FS := [("m.data", .data (List.replicate 100 7))]
    let r := runSave { refuse := false } m "" "m" false fs none
    r.res = .ok () ∧ r.model m = m ∧
    bytesOf fs (.ext "m.data" 0 100 true) = some (List.replicate 100 7) ∧
    bytesOf r.st.fs (.ext "m.data" 0 100 true) = some (List.replicate 100 9) := by
  decide +kernel

/-! ## Layout (`_compute_new_offset` and the offset loop of `convert_tensors_to_external`) -/

/-- Every recorded length is the tensor's size, in order — for every list of sizes, zero included. -/
theorem layout_lengths (cur : Nat) (sizes : List Nat) : (layout cur sizes).map (·.2) = sizes := by
  induction sizes generalizing cur with
  | nil => rfl
  | cons n ns ih => simp only [layout, List.map_cons, ih]

/-- Alignment as promised: a tensor larger than 1 MiB starts on a 64 KiB boundary; every tensor starts at or after
the running end of file. -/
theorem layout_aligned (cur : Nat) (sizes : List Nat) :
    ∀ e ∈ layout cur sizes, cur ≤ e.1 ∧ (e.2 > alignThreshold → e.1 % alignFactor = 0) := by
  induction sizes generalizing cur with
  | nil => intro e h; simp [layout] at h
  | cons n ns ih =>
    intro e h
    simp only [layout, List.mem_cons] at h
    rcases h with rfl | h
    · exact ⟨newOffset_ge cur n, fun h => newOffset_aligned cur n h⟩
    · have h3 := ih _ e h
      have h4 := newOffset_ge cur n
      exact ⟨by omega, h3.2⟩

/-- Non-overlap and order: any earlier tensor ends at or before any later tensor starts (so offsets are non-decreasing,
and strictly increasing past every non-empty tensor). -/
theorem layout_disjoint (cur : Nat) (sizes : List Nat) :
    List.Pairwise (fun a b => a.1 + a.2 ≤ b.1) (layout cur sizes) := by
  induction sizes generalizing cur with
  | nil => exact List.Pairwise.nil
  | cons n ns ih =>
    simp only [layout]
    refine List.Pairwise.cons ?_ (ih _)
    intro b hb
    exact layout_ge _ _ b hb

/-- Every tensor lies within the final file length. -/
theorem layout_within (cur : Nat) (sizes : List Nat) :
    ∀ e ∈ layout cur sizes, e.1 + e.2 ≤ layoutEnd cur sizes := by
  induction sizes generalizing cur with
  | nil => intro e h; simp [layout] at h
  | cons n ns ih =>
    intro e h
    simp only [layout, List.mem_cons] at h
    simp only [layoutEnd]
    rcases h with rfl | h
    · exact layoutEnd_ge _ _
    · exact ih _ e h

/-- No waste beyond the promise: padding before a tensor is less than 64 KiB, and there is none at all before a tensor of
at most 1 MiB. -/
theorem layout_padding (cur size : Nat) :
    cur ≤ newOffset cur size ∧ newOffset cur size < cur + alignFactor ∧
    (size ≤ alignThreshold → newOffset cur size = cur) :=
  ⟨newOffset_ge cur size, newOffset_lt cur size, newOffset_small cur size⟩

example : layout 0 [400, 560, 1200000] = [(0, 400), (400, 560), (65536, 1200000)] := by decide

/-! ## Round trip -/

/-- **Layout read-back** (pure heart of the round trip).  Whatever is already in the file (`pre`), for every list of
tensors (every size, zero included, alignment padding or not) and every index `i`: the `(offset, length)` recorded for
tensor `i` selects, in the file image the write loop produces, exactly that tensor's bytes. -/
theorem layout_readback (pre : Bytes) (bs : List Bytes) (i : Nat) (h : i < bs.length) :
    ∃ e, (layout pre.length (bs.map List.length))[i]? = some e ∧ e.2 = bs[i].length ∧
      slice (pre ++ image pre.length bs) e.1 e.2 = bs[i] := by
  obtain ⟨e, h1, h2, h3⟩ := image_readback_aux bs pre i h
  have : bs[i]?.getD [] = bs[i] := by simp [h]
  rw [this] at h2 h3
  exact ⟨e, h1, h2, h3⟩

/-- **Round trip, end to end, for any guard configuration** (fault-free run; the form the other theorems build on).  Hypotheses: the model has as many
`const_value` slots as initializers, and `bs` lists, initializer by initializer, the bytes its tensor denotes —
`All2 (InitOK dest fs heap) cv bs` (`OV.Lemmas.C20Round`): every initializer is initialized with a tensor object that is
either in memory or a *valid* external tensor that does **not live in the destination data file** and is readable on `fs`
(its bytes are `FS.read fs file off len`); and, where the guard of 3d20cf2 is present, none lives in the model file `dir/name`
either (`hmpf`).  Conclusion: `save_model_with_external_data` succeeds, and `load` of what it
left on the file system — read the written proto; for each entry take the inline bytes or read `(location, offset, length)`
back from the file system — returns **for every initializer exactly its name, graph level and bytes, in the original
initializer order** (`zip3 sig bs`).  Covered by the proof: the guard, classification by the 256-byte threshold (small
in-memory kept inline, small external loaded to memory, everything larger written out), the stable sort (as a membership-
preserving rearrangement), offsets/alignment/padding, all three `tofile` paths incl. the chunked copy of external tensors,
the new `ExternalTensor`s restored to input order, the pointer swap, `serialize`, the model-file write, and the `finally`. -/
theorem roundtrip_outside_destination (cfg : Cfg) (m : Model) (dir name : String) (verbose : Bool) (fs : FS) (bs : List Bytes)
    (hsig : m.sig.length = m.cv.length)
    (hinit : All2 (InitOK (joinPath dir (name ++ ".data")) fs m.heap) m.cv bs)
    (hmpf : cfg.refuseModel = false ∨ destHits (joinPath dir name) m.heap m.cv = []) :
    (runSave cfg m dir name verbose fs none).res = .ok () ∧
    load (runSave cfg m dir name verbose fs none).st.fs dir name = some (zip3 m.sig bs) := by
  obtain ⟨s', h1, h2⟩ := save_load_ok cfg m.sig m.tnames dir name (verbose && cfg.tqdm) (init m fs none) bs rfl hsig hinit hmpf
  unfold runSave
  rw [h1]
  exact ⟨rfl, h2 _ rfl rfl⟩

example : ∃ (m : Model) (fs : FS) (bs : List Bytes), m.sig.length = m.cv.length ∧ bs.length = 3 ∧
    All2 (InitOK (joinPath "" ("m" ++ ".data")) fs m.heap) m.cv bs ∧ destHits (joinPath "" "m") m.heap m.cv = [] :=
  ⟨{ sig := [("a", false), ("e", true), ("a2", false)], cv := [some 0, some 1, some 0],
     heap := [.mem [1, 2, 3] true, .ext "w.bin" 1 2 true] },
   [("w.bin", .data [9, 8, 7])], [[1, 2, 3], [8, 7], [1, 2, 3]], rfl, rfl,
   .cons ⟨0, _, rfl, rfl, rfl⟩ (.cons ⟨1, _, rfl, rfl, ⟨rfl, by decide, by decide⟩⟩ (.cons ⟨0, _, rfl, rfl, rfl⟩ .nil)),
   by decide⟩

/-- **A fault is never swallowed** (both branches — with and without the progress bar — and every guard configuration):
if the call planned to fail (`k = some n`) was reached, i.e. at least `n + 1` file-system calls were made, the function does
not return normally.  Contrapositive form: a normal return means the planned fault was never reached, so the run *is* a
fault-free run.  (The seeded `contextlib.suppress(OSError)` around `ir.save`, C20-6, breaks exactly this.) -/
theorem fault_never_swallowed (cfg : Cfg) (m : Model) (dir name : String) (verbose : Bool) (fs : FS) (n : Nat)
    (hok : (runSave cfg m dir name verbose fs (some n)).res = .ok ()) :
    (runSave cfg m dir name verbose fs (some n)).st.calls ≤ n := by
  have hns := ns_save cfg m.sig m.tnames dir name (verbose && cfg.tqdm) (init m fs (some n))
    (by rintro ⟨n', _, h2⟩; exact absurd h2 (Nat.not_lt_zero _))
  have hinv := inv_save cfg m.sig m.tnames dir name (verbose && cfg.tqdm)
    (stable_untouched fs (some n) (joinPath dir (name ++ ".data")) (joinPath dir name)) (init m fs (some n))
    ⟨rfl, rfl, Or.inl ⟨rfl, rfl⟩⟩
  unfold runSave at hok ⊢
  cases hs : save cfg m.sig m.tnames dir name (verbose && cfg.tqdm) (init m fs (some n)) with
  | mk r s' =>
    rw [hs] at hok hinv
    simp only [] at hok ⊢
    subst hok
    have hnf := hns () s' hs
    rcases Nat.lt_or_ge n s'.calls with h | h
    · exact absurd ⟨n, hinv.1, h⟩ hnf
    · exact h

/-- Both sides occur: on this model call 3 exists, so planning a fault there makes the save fail; a fault planned at call
100 is never reached and the save succeeds. -/
example :
    let m : Model := { sig := [("b", false)], cv := [some 0], heap := [.mem (List.replicate 300 9) true] }
    (runSave {} m "" "m" true [] (some 3)).res = .error .osError ∧ (runSave {} m "" "m" true [] (some 3)).st.calls > 3 ∧
    (runSave {} m "" "m" true [] (some 100)).res = .ok () ∧ (runSave {} m "" "m" true [] (some 100)).st.calls ≤ 100 := by
  decide +kernel

/-- **A run that returns normally is the fault-free run**: for every fault plan `k`, if the save returns normally then the
run without any fault plan returns normally too and ends in the same state (files, tensor objects, `const_value`s, trace,
call count, callback log, names) — only the plan itself differs. -/
theorem ok_run_is_fault_free (cfg : Cfg) (m : Model) (dir name : String) (verbose : Bool) (fs : FS) (k : Option Nat)
    (hok : (runSave cfg m dir name verbose fs k).res = .ok ()) :
    (runSave cfg m dir name verbose fs none).res = .ok () ∧
    (runSave cfg m dir name verbose fs none).st = { (runSave cfg m dir name verbose fs k).st with k := none } := by
  have hsim := sim_save (ek := true) (ecb := false) cfg m.sig m.tnames dir name (verbose && cfg.tqdm) (verbose && cfg.tqdm)
    (Or.inl ⟨rfl, rfl⟩)
    (init m fs k)
  unfold runSave at hok ⊢
  cases hs : save cfg m.sig m.tnames dir name (verbose && cfg.tqdm) (init m fs k) with
  | mk r s' =>
    rw [hs] at hok
    simp only [] at hok
    subst hok
    have h := hsim () s' hs
    have hinit : er true false (init m fs k) = init m fs none := rfl
    rw [hinit] at h
    rw [h]
    exact ⟨rfl, rfl⟩

/-- On success `load(path) = model`, for every fault plan and any guard configuration — the round trip of
`roundtrip_outside_destination` holds whenever the call
returns normally, whatever fault had been planned (it was then never reached, `fault_never_swallowed`). -/
theorem roundtrip_on_success_outside_destination (cfg : Cfg) (m : Model) (dir name : String) (verbose : Bool) (fs : FS) (bs : List Bytes)
    (k : Option Nat) (hsig : m.sig.length = m.cv.length)
    (hinit : All2 (InitOK (joinPath dir (name ++ ".data")) fs m.heap) m.cv bs)
    (hmpf : cfg.refuseModel = false ∨ destHits (joinPath dir name) m.heap m.cv = [])
    (hok : (runSave cfg m dir name verbose fs k).res = .ok ()) :
    load (runSave cfg m dir name verbose fs k).st.fs dir name = some (zip3 m.sig bs) := by
  obtain ⟨_, h2⟩ := ok_run_is_fault_free cfg m dir name verbose fs k hok
  have hr := (roundtrip_outside_destination cfg m dir name verbose fs bs hsig hinit hmpf).2
  rw [h2] at hr
  exact hr

/-- With the second guard, a normal return shows that no initializer was stored in the destination data file. -/
theorem usable_of_ok (cfg : Cfg) (hr : cfg.refuse = true) (m : Model) (dir name : String) (verbose : Bool) (fs : FS)
    (bs : List Bytes) (k : Option Nat) (hinit : All2 (InitR fs m.heap) m.cv bs)
    (hok : (runSave cfg m dir name verbose fs k).res = .ok ()) :
    All2 (InitOK (joinPath dir (name ++ ".data")) fs m.heap) m.cv bs := by
  apply initOK_of_readable _ _ _ hinit
  by_cases hd : (destHits (joinPath dir (name ++ ".data")) m.heap m.cv).isEmpty = true
  · exact List.isEmpty_iff.mp hd
  · have hd' : (destHits (joinPath dir (name ++ ".data")) (init m fs k).heap (init m fs k).cv).isEmpty = false := by
      simpa [init] using hd
    obtain ⟨h1, _⟩ := save_guard2 cfg m.sig m.tnames dir name (verbose && cfg.tqdm) (init m fs k) hr hd'
    unfold runSave at hok
    cases hs : save cfg m.sig m.tnames dir name (verbose && cfg.tqdm) (init m fs k) with
    | mk r s' =>
      rw [hs] at hok h1
      simp only [] at hok h1
      rw [hok] at h1
      cases h1

/-- **A tensor stored in the model file itself is refused** (3d20cf2, finding C20-D5; `cfg.refuseModel = true` is the code as
it is): whenever some initializer's tensor is an `ExternalTensor` stored in the file at `dir/name` — the file `onnx.save` is
about to overwrite — the call raises `ValueError`, for every fault plan, threshold and verbosity, and the whole state (0
file-system calls, files, tensor objects, pointers, names) is the initial one. -/
theorem model_file_tensor_refused (cfg : Cfg) (hrm : cfg.refuseModel = true) (m : Model) (dir name : String) (verbose : Bool)
    (fs : FS) (k : Option Nat) (h : destHits (joinPath dir name) m.heap m.cv ≠ []) :
    (runSave cfg m dir name verbose fs k).res = .error .valueError ∧
    (runSave cfg m dir name verbose fs k).st = init m fs k := by
  have hd' : (destHits (joinPath dir name) (init m fs k).heap (init m fs k).cv).isEmpty = false := by
    cases hl : destHits (joinPath dir name) m.heap m.cv with
    | nil => exact absurd hl h
    | cons a as => simp [init, hl]
  obtain ⟨h1, h2⟩ := save_guard3 cfg m.sig m.tnames dir name (verbose && cfg.tqdm) (init m fs k) hrm hd'
  unfold runSave
  cases hs : save cfg m.sig m.tnames dir name (verbose && cfg.tqdm) (init m fs k) with
  | mk r s' => rw [hs] at h1 h2; exact ⟨h1, h2⟩

/-- The C20-D5 witness on the code as it is: refused, nothing touched, the tensor still reads its bytes. -/
example :
    let m : Model := { sig := [("e", false)], cv := [some 0], heap := [.ext "w.bin" 0 300 true] }
    let fs : FS := [("w.bin", .data (List.replicate 300 7))]
    let r := runSave {} m "" "w.bin" false fs none
    destHits (joinPath "" "w.bin") m.heap m.cv ≠ [] ∧ r.res = .error .valueError ∧ r.st.calls = 0 ∧ r.st.fs = fs ∧
    bytesOf r.st.fs (.ext "w.bin" 0 300 true) = some (List.replicate 300 7) := by
  decide +kernel

/-- A normal return shows that the model-file half of the guard had nothing to refuse. -/
theorem model_file_free_of_ok (cfg : Cfg) (m : Model) (dir name : String) (verbose : Bool) (fs : FS) (k : Option Nat)
    (hok : (runSave cfg m dir name verbose fs k).res = .ok ()) :
    cfg.refuseModel = false ∨ destHits (joinPath dir name) m.heap m.cv = [] := by
  cases hrm : cfg.refuseModel with
  | false => exact Or.inl rfl
  | true =>
    right
    by_cases hd : destHits (joinPath dir name) m.heap m.cv = []
    · exact hd
    · have := (model_file_tensor_refused cfg hrm m dir name verbose fs k hd).1
      rw [hok] at this
      cases this

/-- **Round trip — the code as it is** (second guard present), fault-free run, *no condition on where external tensors
live*.  Hypotheses: as many `const_value` slots as initializers; `All2 (InitR fs heap) cv bs`: every initializer is
initialized with an in-memory tensor or a valid external tensor readable on `fs`, denoting `bs[i]`.  Then exactly one of:
* the call succeeds and `load` of what it wrote returns every initializer's name, level and bytes in the original order;
* some initializer is stored in the destination data file — or (guard of 3d20cf2) in the model file `dir/name` itself —,
  the call raises `ValueError`, and the whole state (files, tensor objects, pointers, call count 0) is the initial one. -/
theorem roundtrip (cfg : Cfg) (hr : cfg.refuse = true) (m : Model) (dir name : String) (verbose : Bool) (fs : FS)
    (bs : List Bytes) (hsig : m.sig.length = m.cv.length) (hinit : All2 (InitR fs m.heap) m.cv bs) :
    ((runSave cfg m dir name verbose fs none).res = .ok () ∧
      load (runSave cfg m dir name verbose fs none).st.fs dir name = some (zip3 m.sig bs)) ∨
    ((destHits (joinPath dir (name ++ ".data")) m.heap m.cv ≠ [] ∨
        (cfg.refuseModel = true ∧ destHits (joinPath dir name) m.heap m.cv ≠ [])) ∧
      (runSave cfg m dir name verbose fs none).res = .error .valueError ∧
      (runSave cfg m dir name verbose fs none).st = init m fs none) := by
  by_cases hd : (destHits (joinPath dir (name ++ ".data")) m.heap m.cv).isEmpty = true
  · by_cases hm : cfg.refuseModel = false ∨ destHits (joinPath dir name) m.heap m.cv = []
    · left
      exact roundtrip_outside_destination cfg m dir name verbose fs bs hsig
        (initOK_of_readable _ _ _ hinit (List.isEmpty_iff.mp hd)) hm
    · right
      have hrm : cfg.refuseModel = true := by
        cases h : cfg.refuseModel with
        | false => exact absurd (Or.inl h) hm
        | true => rfl
      have hne : destHits (joinPath dir name) m.heap m.cv ≠ [] := fun h => hm (Or.inr h)
      exact ⟨Or.inr ⟨hrm, hne⟩, model_file_tensor_refused cfg hrm m dir name verbose fs none hne⟩
  · right
    have hd' : (destHits (joinPath dir (name ++ ".data")) (init m fs none).heap (init m fs none).cv).isEmpty = false := by
      simpa [init] using hd
    obtain ⟨h1, h2⟩ := save_guard2 cfg m.sig m.tnames dir name (verbose && cfg.tqdm) (init m fs none) hr hd'
    refine ⟨Or.inl (fun h => hd (by rw [h]; rfl)), ?_, ?_⟩
    · unfold runSave
      cases hs : save cfg m.sig m.tnames dir name (verbose && cfg.tqdm) (init m fs none) with
      | mk r s' => rw [hs] at h1; exact h1
    · unfold runSave
      cases hs : save cfg m.sig m.tnames dir name (verbose && cfg.tqdm) (init m fs none) with
      | mk r s' => rw [hs] at h2; exact h2

/-- **On success `load(path) = model`, for every fault plan, the code as it is**: readable initializers (wherever they
live), a normal return under any plan `k` ⇒ `load` returns every initializer's name, level and bytes in order. -/
theorem roundtrip_on_success (cfg : Cfg) (hr : cfg.refuse = true) (m : Model) (dir name : String) (verbose : Bool)
    (fs : FS) (bs : List Bytes) (k : Option Nat) (hsig : m.sig.length = m.cv.length)
    (hinit : All2 (InitR fs m.heap) m.cv bs)
    (hok : (runSave cfg m dir name verbose fs k).res = .ok ()) :
    load (runSave cfg m dir name verbose fs k).st.fs dir name = some (zip3 m.sig bs) :=
  roundtrip_on_success_outside_destination cfg m dir name verbose fs bs k hsig
    (usable_of_ok cfg hr m dir name verbose fs bs k hinit hok) (model_file_free_of_ok cfg m dir name verbose fs k hok) hok

/-- Both cases of `roundtrip` occur (default configuration = the code as it is): a model with an external tensor in
another file round-trips; the same tensor stored in the destination data file is refused with nothing touched. -/
example :
    let fs : FS := [("w.bin", .data [9, 8, 7]), ("m.data", .data [5, 6])]
    let m1 : Model := { sig := [("a", false), ("e", true)], cv := [some 0, some 1],
                        heap := [.mem [1, 2, 3] true, .ext "w.bin" 1 2 true] }
    let m2 : Model := { sig := [("a", false), ("e", true)], cv := [some 0, some 1],
                        heap := [.mem [1, 2, 3] true, .ext "m.data" 0 2 true] }
    load (runSave {} m1 "" "m" false fs none).st.fs "" "m" = some [("a", false, [1, 2, 3]), ("e", true, [8, 7])] ∧
    (runSave {} m2 "" "m" false fs none).res = .error .valueError ∧ (runSave {} m2 "" "m" false fs none).st.fs = fs := by
  decide +kernel

/-- **The verbose/tqdm branch and the plain branch differ only in the progress callback — two-sided.**  For every model,
file system, path, guard configuration and **every fault plan `k`**, whether the calls succeed or fail: the plain call
ends with the *same outcome* as the verbose one (normal return, or the same exception) and in the same state — files,
tensor objects, `const_value`s, names, trace, call count — once the callback log of the verbose run is erased.  (The
callback makes no file-system call and cannot change what the save does or reports.) -/
theorem verbose_only_feeds_callback (cfg : Cfg) (m : Model) (dir name : String) (fs : FS) (k : Option Nat) :
    (runSave cfg m dir name false fs k).res = (runSave cfg m dir name true fs k).res ∧
    (runSave cfg m dir name false fs k).st = { (runSave cfg m dir name true fs k).st with cb := [], cbTotal := none } := by
  have h := simF_save cfg m.sig m.tnames dir name (true && cfg.tqdm) (init m fs k)
  have hinit : erc (init m fs k) = init m fs k := rfl
  rw [hinit] at h
  unfold runSave
  simp only [Bool.false_and]
  rw [h]
  cases hs : save cfg m.sig m.tnames dir name (true && cfg.tqdm) (init m fs k) with
  | mk r s' => exact ⟨rfl, rfl⟩

/-- A failing pair: with a fault planned at call 2 both calls raise `OSError` after the same number of calls. -/
example :
    let m : Model := { sig := [("b", false)], cv := [some 0], heap := [.mem (List.replicate 300 9) true], tnames := ["b"] }
    (runSave {} m "" "m" true [] (some 2)).res = .error .osError ∧ (runSave {} m "" "m" false [] (some 2)).res = .error .osError ∧
    (runSave {} m "" "m" true [] (some 2)).st.calls = (runSave {} m "" "m" false [] (some 2)).st.calls ∧
    (runSave {} m "" "m" true [] (some 2)).st.cb ≠ [] ∧ (runSave {} m "" "m" false [] (some 2)).st.cb = [] := by
  decide +kernel

/-- Without `tqdm` installed the verbose call *is* the plain call (`use_tqdm = verbose and find_spec("tqdm") is not None`). -/
theorem tqdm_absent_is_plain (cfg : Cfg) (h : cfg.tqdm = false) (m : Model) (dir name : String) (fs : FS) (k : Option Nat) :
    runSave cfg m dir name true fs k = runSave cfg m dir name false fs k := by
  unfold runSave
  simp only [h, Bool.and_false]

/-- The callback log is what distinguishes them. -/
example :
    let m : Model := { sig := [("b", false)], cv := [some 0], heap := [.mem (List.replicate 300 9) true], tnames := ["b"] }
    (runSave {} m "" "m" true [] none).st.cb = [("b", 0)] ∧ (runSave {} m "" "m" false [] none).st.cb = [] := by
  decide +kernel

/-! ## Naming of the data file, and saves that follow one another -/

/-- **`data_path` is injective in the destination name** (`data_path = f"{destination_path.name}.data"`, joined with the
model's directory): two destinations in one directory share their data file only if they are the same destination.
(The seeded `with_suffix('.onnx.data')` variants, C20-3/C20-5, break exactly this.) -/
theorem data_path_injective (dir n1 n2 : String)
    (h : joinPath dir (n1 ++ ".data") = joinPath dir (n2 ++ ".data")) : n1 = n2 :=
  append_right_cancel _ _ _ (joinPath_inj dir _ _ h)

/-- The data file is never the model file. -/
theorem data_path_ne_model_path (dir name : String) : joinPath dir (name ++ ".data") ≠ joinPath dir name :=
  joinPath_ne dir name

/-- Two destinations of one directory use four pairwise distinct files unless one destination is literally named like
the other's data file. -/
theorem sibling_paths_disjoint (dir n1 n2 : String) (h12 : n1 ≠ n2) (h1 : n2 ≠ n1 ++ ".data") (h2 : n1 ≠ n2 ++ ".data") :
    joinPath dir n1 ≠ joinPath dir n2 ∧ joinPath dir n1 ≠ joinPath dir (n2 ++ ".data") ∧
    joinPath dir (n1 ++ ".data") ≠ joinPath dir n2 ∧ joinPath dir (n1 ++ ".data") ≠ joinPath dir (n2 ++ ".data") :=
  ⟨fun h => h12 (joinPath_inj dir _ _ h), fun h => h2 (joinPath_inj dir _ _ h),
   fun h => h1 (joinPath_inj dir _ _ h).symm, fun h => h12 (data_path_injective dir _ _ h)⟩

/-- **Two-operation history: a later save never damages an earlier one.**  Save `m₁` (fault-free, readable initializers, the
call returned normally) under `dir₁/name₁`; then run *any* second save — any model, configuration, verbosity, **any fault plan** — under
a destination whose two files differ from the first one's two files.  Loading `dir₁/name₁` afterwards still returns
every initializer of `m₁` with its bytes in order.  (State carried between the calls is the file system only.) -/
theorem later_save_keeps_roundtrip (cfg : Cfg) (hr : cfg.refuse = true) (m1 : Model) (dir1 name1 : String) (v1 : Bool)
    (fs : FS) (bs : List Bytes) (hsig : m1.sig.length = m1.cv.length)
    (hinitR : All2 (InitR fs m1.heap) m1.cv bs)
    (hok1 : (runSave cfg m1 dir1 name1 v1 fs none).res = .ok ())
    (cfg2 : Cfg) (m2 : Model) (dir2 name2 : String) (v2 : Bool) (k2 : Option Nat)
    (hmm : joinPath dir1 name1 ≠ joinPath dir2 name2)
    (hmd : joinPath dir1 name1 ≠ joinPath dir2 (name2 ++ ".data"))
    (hdm : joinPath dir1 (name1 ++ ".data") ≠ joinPath dir2 name2)
    (hdd : joinPath dir1 (name1 ++ ".data") ≠ joinPath dir2 (name2 ++ ".data")) :
    let fs1 := (runSave cfg m1 dir1 name1 v1 fs none).st.fs
    load (runSave cfg2 m2 dir2 name2 v2 fs1 k2).st.fs dir1 name1 = some (zip3 m1.sig bs) := by
  intro fs1
  have hinit := usable_of_ok cfg hr m1 dir1 name1 v1 fs bs none hinitR hok1
  obtain ⟨s', h1, h2⟩ := save_load_ok cfg m1.sig m1.tnames dir1 name1 (v1 && cfg.tqdm) (init m1 fs none) bs rfl hsig hinit
    (model_file_free_of_ok cfg m1 dir1 name1 v1 fs none hok1)
  have hfs1 : fs1 = s'.fs := by
    show (runSave cfg m1 dir1 name1 v1 fs none).st.fs = _
    unfold runSave
    rw [h1]
  apply h2
  · rw [← hfs1]; exact fs_frame cfg2 m2 dir2 name2 v2 fs1 k2 _ hmd hmm
  · rw [← hfs1]; exact fs_frame cfg2 m2 dir2 name2 v2 fs1 k2 _ hdd hdm

/-- Same directory, by names: siblings `name₁ ≠ name₂` neither of which is named like the other's data file. -/
theorem sibling_save_keeps_roundtrip (cfg : Cfg) (hr : cfg.refuse = true) (m1 : Model) (dir name1 : String) (v1 : Bool)
    (fs : FS) (bs : List Bytes) (hsig : m1.sig.length = m1.cv.length)
    (hinitR : All2 (InitR fs m1.heap) m1.cv bs)
    (hok1 : (runSave cfg m1 dir name1 v1 fs none).res = .ok ())
    (cfg2 : Cfg) (m2 : Model) (name2 : String) (v2 : Bool) (k2 : Option Nat)
    (h12 : name1 ≠ name2) (h1 : name2 ≠ name1 ++ ".data") (h2 : name1 ≠ name2 ++ ".data") :
    load (runSave cfg2 m2 dir name2 v2 (runSave cfg m1 dir name1 v1 fs none).st.fs k2).st.fs dir name1
      = some (zip3 m1.sig bs) := by
  obtain ⟨a, b, c, d⟩ := sibling_paths_disjoint dir name1 name2 h12 h1 h2
  exact later_save_keeps_roundtrip cfg hr m1 dir name1 v1 fs bs hsig hinitR hok1 cfg2 m2 dir name2 v2 k2 a b c d

/-- The side condition is needed: saving a second model under the name of the first one's data file destroys the first. -/
example :
    let m1 : Model := { sig := [("b", false)], cv := [some 0], heap := [.mem (List.replicate 300 9) false] }
    let m2 : Model := { sig := [], cv := [], heap := [] }
    let fs1 := (runSave {} m1 "" "m" false [] none).st.fs
    load fs1 "" "m" = some [("b", false, List.replicate 300 9)] ∧
    load (runSave {} m2 "" "m.data" false fs1 none).st.fs "" "m" = none := by
  decide +kernel

/-- **What a fault leaves on disk — the statement that can honestly be made.**  For every fault plan `k`: either the
file system after the call *is* the file system before it, or the trace contains an open-for-write call `openW f` at an
index `i` that is not the faulted call (`k ≠ some i`) — i.e. some `open(…, "wb")` really succeeded.  The first
open-for-write of the sequence is the data file's (trace validated by the tie), so **a fault at or before the
`open(<name>.data, "wb")` call leaves every file untouched**.  This is a deliberately weak disjunction: once some
open-for-write has succeeded, the theorem says NOTHING about the content of `dir/name.data` and `dir/name` (truncated, half
written, old model file beside a new data file — all possible; nothing is atomic in the real code); what is still claimed then
is only `fs_frame` (every other file untouched) and the in-memory theorems.  After a *normal return* the content is fixed by
`roundtrip_on_success`. -/
theorem fs_unchanged_unless_opened (cfg : Cfg) (m : Model) (dir name : String) (verbose : Bool) (fs : FS) (k : Option Nat) :
    (runSave cfg m dir name verbose fs k).st.fs = fs ∨
    ∃ i f, (runSave cfg m dir name verbose fs k).st.trace[i]? = some (Op.openW f) ∧ k ≠ some i := by
  have hinv := inv_save cfg m.sig m.tnames dir name (verbose && cfg.tqdm)
    (stable_untouched fs k (joinPath dir (name ++ ".data")) (joinPath dir name)) (init m fs k)
    ⟨rfl, rfl, Or.inl ⟨rfl, rfl⟩⟩
  unfold runSave
  cases hs : save cfg m.sig m.tnames dir name (verbose && cfg.tqdm) (init m fs k) with
  | mk r s' =>
    rw [hs] at hinv
    obtain ⟨_, _, h⟩ := hinv
    rcases h with ⟨h, _⟩ | h
    · exact Or.inl h
    · exact Or.inr h

/-- Corollary in the "fault before the first write" form: if every open-for-write call in the trace is the faulted
call itself (in particular if there is none), nothing on the file system changed. -/
theorem fault_before_first_write_leaves_fs (cfg : Cfg) (m : Model) (dir name : String) (verbose : Bool) (fs : FS)
    (k : Option Nat)
    (h : ∀ i f, (runSave cfg m dir name verbose fs k).st.trace[i]? = some (Op.openW f) → k = some i) :
    (runSave cfg m dir name verbose fs k).st.fs = fs := by
  rcases fs_unchanged_unless_opened cfg m dir name verbose fs k with h1 | ⟨i, f, h2, h3⟩
  · exact h1
  · exact absurd (h i f h2) h3

/-- Non-vacuity of both sides on the same model: a fault at call 0 (the data file's open) leaves the pre-existing files
alone; a fault at call 1 does not. -/
example :
    let m : Model := { sig := [("b", false)], cv := [some 0], heap := [.mem (List.replicate 300 9) false] }
    let fs : FS := [("m.data", .data [1, 2, 3]), ("m", .data [4])]
    (runSave { deep := false } m "" "m" false fs (some 0)).st.fs = fs ∧ (runSave { deep := false } m "" "m" false fs (some 1)).st.fs ≠ fs := by
  decide +kernel

/-- (Function before 56a0c3c, `refuse := false`.) A complete concrete round trip through the whole model (guard, classification with the 256-byte threshold, an
already-external tensor living in the destination file, sort, write, swap, serialize, load): every initializer loads
back with its bytes.  (An instance inside the region the current code refuses, checked by evaluation — the ∀-statement for the whole
pipeline is `roundtrip` / `roundtrip_outside_destination`, which are proved.) -/
theorem roundtrip_instance :
    let m : Model := { sig := [("s", false), ("d", false), ("b", true)], cv := [some 0, some 1, some 2],
                       heap := [.mem [1, 2, 3] true, .ext "m.data" 0 300 true, .mem (List.replicate 260 9) false] }
    let fs : FS := [("m.data", .data (List.replicate 300 7))]
    let r := runSave { refuse := false } m "" "m" true fs none
    r.res = .ok () ∧
    load r.st.fs "" "m" = some [("s", false, [1, 2, 3]), ("d", false, List.replicate 300 7), ("b", true, List.replicate 260 9)] := by
  decide +kernel

/-! ## Histories: several calls on the same in-memory model (`OV.Model.C20Hist`) -/

/-- **Any history of saves leaves the model and the data behind it intact** (invariant by induction over the history).
The function with its second guard (`cfg.refuse = true`, the code as it is); a model all of whose tensor objects belong to an
initializer (`howned`, inherited from `model_unchanged`: heaps without unowned objects) with `All2 (InitR …)`: each initializer readable and denoting `bs[i]`.  Run *any* list of calls on this same model object — any
destinations, verbosities and **any fault plan per call** (calls that succeed, calls refused by a guard, calls dying at their
`k`-th file-system call, in any order).  **For the code as it is (`cfg.refuseModel = true`, guard of 3d20cf2) there is no further
hypothesis**: a call whose *model file* `dir/name` is a file some tensor is stored in is refused and touches nothing.  For the
guard before 3d20cf2 the statement needs "no call's model file is a file some tensor is stored in" (second disjunct of `hmp`;
forced there: `backing_model_path_refuted`, finding C20-D5).  Then after the whole history the model is the model it
was (pointers, every tensor object) and every initializer still denotes its original bytes on the file system the history
left behind.  State carried from call to call: the model object and the file system, nothing else. -/
theorem history_keeps_model_and_data (cfg : Cfg) (hr : cfg.refuse = true) (m : Model) (bs : List Bytes)
    (howned : ∀ id, id < m.heap.length → some id ∈ m.cv)
    (calls : List Call) (hmp : cfg.refuseModel = true ∨ ∀ c ∈ calls, NoExtIn m.heap (joinPath c.dir c.name)) :
    ∀ (fs : FS), All2 (InitR fs m.heap) m.cv bs →
      (runHistory cfg calls m fs).1 = m ∧ All2 (InitR (runHistory cfg calls m fs).2 m.heap) m.cv bs := by
  induction calls with
  | nil => intro fs h; exact ⟨rfl, h⟩
  | cons c cs ih =>
    intro fs h
    have hm := model_unchanged cfg hr m c.dir c.name c.verbose fs c.k howned
    have hi := initR_after_save cfg hr m c.dir c.name c.verbose fs c.k bs
      (hmp.imp id (fun hmp => hmp c (List.mem_cons_self ..))) h
    simp only [runHistory]
    rw [hm]
    exact ih (hmp.imp id (fun hmp c' hc' => hmp c' (List.mem_cons_of_mem _ hc'))) _ hi

/-- Hypotheses are satisfiable by a model with an in-memory and an external tensor and a history with a faulted call, a
successful call and a call to another destination. -/
example : ∃ (m : Model) (bs : List Bytes) (calls : List Call) (fs : FS),
    (∀ id, id < m.heap.length → some id ∈ m.cv) ∧ calls.length = 3 ∧
    (∀ c ∈ calls, NoExtIn m.heap (joinPath c.dir c.name)) ∧ All2 (InitR fs m.heap) m.cv bs :=
  ⟨{ sig := [("a", false), ("e", true)], cv := [some 0, some 1], heap := [.mem [1, 2, 3] true, .ext "w.bin" 1 2 true] },
   [[1, 2, 3], [8, 7]],
   [{ dir := "", name := "m", k := some 2 }, { dir := "", name := "m" }, { dir := "d", name := "n", verbose := true, k := some 0 }],
   [("w.bin", .data [9, 8, 7])],
   by intro id h
      match id, h with
      | 0, _ => simp
      | 1, _ => simp
      | n + 2, h => simp at h; omega,
   rfl,
   by intro c hc id f o l v h
      match id, h with
      | 0, h => simp at h
      | 1, h =>
        simp at h; obtain ⟨rfl, _⟩ := h
        simp only [List.mem_cons, List.not_mem_nil, or_false] at hc
        rcases hc with rfl | rfl | rfl <;> decide
      | n + 2, h => simp at h,
   .cons ⟨0, _, rfl, rfl, rfl⟩ (.cons ⟨1, _, rfl, rfl, ⟨rfl, by decide⟩⟩ .nil)⟩

/-- **After any history, a save still round-trips** (`history_keeps_model_and_data` ∘ `roundtrip`).  Same hypotheses; after
the history run one more, fault-free, save of the same model object to any destination `dir/name`: either it succeeds and
`load` returns every initializer's name, level and *original* bytes in order, or some initializer is stored in that
destination's data file (or model file) and the call is refused with the state untouched.  In particular a save that died at any
file-system call can simply be retried (`retry_after_fault_roundtrips`), and saving twice is as good as saving once. -/
theorem save_after_history_roundtrips (cfg : Cfg) (hr : cfg.refuse = true) (m : Model) (bs : List Bytes)
    (hsig : m.sig.length = m.cv.length) (howned : ∀ id, id < m.heap.length → some id ∈ m.cv)
    (calls : List Call) (hmp : cfg.refuseModel = true ∨ ∀ c ∈ calls, NoExtIn m.heap (joinPath c.dir c.name))
    (fs : FS) (hinit : All2 (InitR fs m.heap) m.cv bs) (dir name : String) (verbose : Bool) :
    let h := runHistory cfg calls m fs
    ((runSave cfg h.1 dir name verbose h.2 none).res = .ok () ∧
      load (runSave cfg h.1 dir name verbose h.2 none).st.fs dir name = some (zip3 m.sig bs)) ∨
    ((destHits (joinPath dir (name ++ ".data")) m.heap m.cv ≠ [] ∨
        (cfg.refuseModel = true ∧ destHits (joinPath dir name) m.heap m.cv ≠ [])) ∧
      (runSave cfg h.1 dir name verbose h.2 none).res = .error .valueError ∧
      (runSave cfg h.1 dir name verbose h.2 none).st = init m h.2 none) := by
  intro h
  obtain ⟨h1, h2⟩ := history_keeps_model_and_data cfg hr m bs howned calls hmp fs hinit
  show (((runSave cfg (runHistory cfg calls m fs).1 dir name verbose (runHistory cfg calls m fs).2 none).res = .ok () ∧ _) ∨ _)
  rw [h1]
  exact roundtrip cfg hr m dir name verbose (runHistory cfg calls m fs).2 bs hsig h2

/-- **Whenever a call of a history returns normally, what it wrote loads back the original model** (`roundtrip_on_success` after
`history_keeps_model_and_data`): after any history as above, a further call with **any fault plan** `k` that returns normally
leaves files from which `load` returns every initializer's name, level and original bytes in order.  Applied to every prefix of
a history: each successful call of a history — the first, a retry, a re-save — is a complete round trip. -/
theorem ok_call_after_history_roundtrips (cfg : Cfg) (hr : cfg.refuse = true) (m : Model) (bs : List Bytes)
    (hsig : m.sig.length = m.cv.length) (howned : ∀ id, id < m.heap.length → some id ∈ m.cv)
    (calls : List Call) (hmp : cfg.refuseModel = true ∨ ∀ c ∈ calls, NoExtIn m.heap (joinPath c.dir c.name))
    (fs : FS) (hinit : All2 (InitR fs m.heap) m.cv bs) (dir name : String) (verbose : Bool) (k : Option Nat)
    (hok : (runSave cfg (runHistory cfg calls m fs).1 dir name verbose (runHistory cfg calls m fs).2 k).res = .ok ()) :
    load (runSave cfg (runHistory cfg calls m fs).1 dir name verbose (runHistory cfg calls m fs).2 k).st.fs dir name
      = some (zip3 m.sig bs) := by
  obtain ⟨h1, h2⟩ := history_keeps_model_and_data cfg hr m bs howned calls hmp fs hinit
  rw [h1] at hok ⊢
  exact roundtrip_on_success cfg hr m dir name verbose (runHistory cfg calls m fs).2 bs k hsig h2 hok

/-- Instance: after a save that died at call 3, a retry *planned* to fail at call 100 (never reached) returns normally. -/
example :
    let m : Model := { sig := [("b", false)], cv := [some 0], heap := [.mem (List.replicate 300 9) false] }
    (runSave {} (runHistory {} [{ dir := "", name := "m", k := some 3 }] m []).1 "" "m" false
      (runHistory {} [{ dir := "", name := "m", k := some 3 }] m []).2 (some 100)).res = .ok () := by
  decide +kernel

/-- **A failed save can be retried.**  The save of `m` to `dir/name` fails at *any* file-system call `k₁` (or succeeds, or is
refused); the model object is then unchanged, and a second, fault-free call with the same destination — over whatever the
first call left on disk (a truncated data file, the old or an empty model file) — succeeds with a complete round trip of the
original bytes, or is the guard's refusal that touches nothing. -/
theorem retry_after_fault_roundtrips (cfg : Cfg) (hr : cfg.refuse = true) (m : Model) (dir name : String) (v1 v2 : Bool)
    (fs : FS) (bs : List Bytes) (k1 : Option Nat)
    (hsig : m.sig.length = m.cv.length) (howned : ∀ id, id < m.heap.length → some id ∈ m.cv)
    (hmp : cfg.refuseModel = true ∨ NoExtIn m.heap (joinPath dir name)) (hinit : All2 (InitR fs m.heap) m.cv bs) :
    let r1 := runSave cfg m dir name v1 fs k1
    r1.model m = m ∧
    (((runSave cfg (r1.model m) dir name v2 r1.st.fs none).res = .ok () ∧
      load (runSave cfg (r1.model m) dir name v2 r1.st.fs none).st.fs dir name = some (zip3 m.sig bs)) ∨
     ((destHits (joinPath dir (name ++ ".data")) m.heap m.cv ≠ [] ∨
        (cfg.refuseModel = true ∧ destHits (joinPath dir name) m.heap m.cv ≠ [])) ∧
      (runSave cfg (r1.model m) dir name v2 r1.st.fs none).res = .error .valueError ∧
      (runSave cfg (r1.model m) dir name v2 r1.st.fs none).st = init m r1.st.fs none)) := by
  intro r1
  refine ⟨model_unchanged cfg hr m dir name v1 fs k1 howned, ?_⟩
  exact save_after_history_roundtrips cfg hr m bs hsig howned [{ dir := dir, name := name, verbose := v1, k := k1 }]
    (hmp.imp id (fun hmp c hc => by simp only [List.mem_cons, List.not_mem_nil, or_false] at hc; subst hc; exact hmp))
    fs hinit dir name v2

/-- Evaluated instance: the first call dies at its 4th file-system call leaving a truncated data file and no model file; the
retry over those leftovers loads back both tensors; so does a third save. -/
example :
    let m : Model := { sig := [("b", false), ("e", true)], cv := [some 0, some 1],
                       heap := [.mem (List.replicate 300 9) false, .ext "w.bin" 1 2 true] }
    let fs : FS := [("w.bin", .data [9, 8, 7])]
    let r1 := runSave {} m "" "m" true fs (some 3)
    r1.res = .error .osError ∧ r1.st.fs ≠ fs ∧ FS.get? r1.st.fs "m" = none ∧
    load (runSave {} (r1.model m) "" "m" false r1.st.fs none).st.fs "" "m"
      = some [("b", false, List.replicate 300 9), ("e", true, [8, 7])] ∧
    historyResults {} [{ dir := "", name := "m", k := some 3 }, { dir := "", name := "m" }, { dir := "", name := "m" }] m fs
      = [.error .osError, .ok (), .ok ()] := by
  decide +kernel

/-- **Regression statement about the guard before 3d20cf2** (`refuseModel := false`; finding C20-D5, replayed on the real code
at 3d20cf2~1; on the code as it is the same input is refused: `model_file_tensor_refused` and the example beside it).  A model
whose initializer is an external tensor stored in `w.bin`, saved *to* `w.bin`: the call succeeded, the saved model loaded back
correctly, the tensor object was untouched — and the file behind it then held the serialized model: the in-memory tensor no
longer denoted its bytes (`valid()` stayed `True`, `numpy()` returned protobuf garbage).  This is why the history theorems
need their `NoExtIn` disjunct when `cfg.refuseModel = false`. -/
theorem backing_model_path_refuted :
    let m : Model := { sig := [("e", false)], cv := [some 0], heap := [.ext "w.bin" 0 300 true] }
    let fs : FS := [("w.bin", .data (List.replicate 300 7))]
    let r := runSave { refuseModel := false } m "" "w.bin" false fs none
    r.res = .ok () ∧ r.model m = m ∧
    load r.st.fs "" "w.bin" = some [("e", false, List.replicate 300 7)] ∧
    bytesOf fs (.ext "w.bin" 0 300 true) = some (List.replicate 300 7) ∧
    bytesOf r.st.fs (.ext "w.bin" 0 300 true) = none := by
  decide +kernel

end OV.Props.C20
