import OV.Gen.C10Registry
import OV.Model.C10VersionConv
import OV.Model.C10Fallback
import OV.Lemmas.C10
/-!
# C10 — theorems over the table regenerated from `/repo` on every run

`OV.Gen.C10Registry` holds the adapter registry (`registry.op_adapters` keys) and the constants
`SUPPORTED_MIN/MAX_ONNX_OPSET`, `_BIG_TENSOR_SIZE_LIMIT` as the source states them *now*.
-/
namespace OV.Props.C10Table
open OV.C10

/-- The constants of the model are the constants of the source. -/
theorem constants_pinned :
    OV.Gen.C10.supportedMin = supportedMin ∧ OV.Gen.C10.supportedMax = supportedMax ∧
    OV.Gen.C10.bigTensorSizeLimit = Fallback.limit := by decide

/-- The operator name a modelled operator form is registered under. -/
def opName : Op → Option String
  | .dft .. => some "DFT"
  | .gridSample .. => some "GridSample"
  | .groupNorm .. => some "GroupNormalization"
  | _ => none

/-- **The model's adapter lookup is the registry**: for every operator form and every version, the model looks an
adapter up (`adapt ≠ noAdapter`) exactly when the real registry has an up-conversion entry for that
(default domain, operator, version). -/
theorem adapt_fires_iff_registered (op : Op) (v : Nat) :
    adapt op v ≠ .noAdapter ↔ ∃ n, opName op = some n ∧ ("", n, v, true) ∈ OV.Gen.C10.registry := by
  cases op with
  | plain n => simp [adapt, opName]
  | const a b => simp [adapt, opName]
  | call f => simp [adapt, opName]
  | gridSample m a p =>
    by_cases h : v = 19
    · subst h
      simp only [adapt, if_true, opName, OV.Gen.C10.registry]
      refine ⟨fun _ => ⟨_, rfl, by decide⟩, fun _ => ?_⟩
      simp only [gridsample_19_20]; split <;> (try split) <;> simp
    · simp [adapt, h, opName, OV.Gen.C10.registry]
  | dft a i o l ai r =>
    by_cases h : v = 19
    · subst h
      simp only [adapt, if_true, opName, OV.Gen.C10.registry]
      exact ⟨fun _ => ⟨_, rfl, by decide⟩, fun _ => by simp [dft_19_20]⟩
    · simp [adapt, h, opName, OV.Gen.C10.registry]
  | groupNorm n =>
    by_cases h : v = 20
    · subst h
      simp only [adapt, if_true, opName, OV.Gen.C10.registry]
      exact ⟨fun _ => ⟨_, rfl, by decide⟩, fun _ => gn_ne_noAdapter n⟩
    · simp [adapt, h, opName, OV.Gen.C10.registry]

/-- The equivalence law a registry entry comes with (`False` for an entry the model does not know). -/
def lawFor : String × String × Nat × Bool → Prop
  | ("", "DFT", 19, true) => ∀ axis inv one hasLen rank, Good Op.meaning (.dft axis inv one hasLen none rank) 19
  | ("", "GridSample", 19, true) => ∀ mode align pad, (Op.meaning (.gridSample mode align pad) 19).isSome →
      Good Op.meaning (.gridSample mode align pad) 19
  | ("", "GroupNormalization", 20, true) => ∀ n, (Op.meaning (.groupNorm n) 20).isSome → Good Op.meaning (.groupNorm n) 20
  | _ => False

/-- **Every adapter in the table has its equivalence law** (a newly registered adapter without a model and a law
makes this theorem — regenerated from the source on every run — fail). -/
theorem every_adapter_has_law : ∀ r ∈ OV.Gen.C10.registry, lawFor r := by
  intro r hr
  simp only [OV.Gen.C10.registry, List.mem_cons, List.mem_nil_iff, or_false] at hr
  rcases hr with rfl | rfl | rfl
  · exact fun axis inv one hasLen rank => good_dft axis inv one hasLen rank
  · exact fun mode align pad h => good_gs mode align pad h
  · exact fun n h => good_gn n h

end OV.Props.C10Table
