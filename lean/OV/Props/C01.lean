import OV.Lemmas.C01Live
import OV.Lemmas.C01Names
import OV.Lemmas.C01Sim
import OV.Lemmas.C01SimIf
import OV.Lemmas.C01SimFor
/-!
# C01 — script functions mean the same eagerly, as an ONNX graph, and as plain Python

Property theorems only.  Models: `OV.Model.C01Script` (source language + analysis.py), `C01Sem` (the source
read as plain Python over tensors), `C01Graph` (emitted graph + `evalGraph`), `C01Convert` (converter.py).

The property itself is the refinement

    convert f = .ok g → ∀ S fuel args vs, evalFunc S fuel f args = some vs → ∃ fuel', evalGraph S fuel' g args = some vs

(`convert_correct`).  It is proved for straight-line functions incl. parallel assignment
(`convert_correct_partial`) and for assignments with `if`/`else` nested to any depth
(`convert_correct_ite_partial`); with loops it is still **false for the code as it is**:
`loop_variable_not_rebound_witness` (C01-D31), `second_return_adds_output_witness` (C01-D33),
`while_break_drops_condition_witness` (C01-D27), `castable_lost_at_if_witness` (C01-D24).  (C01-D23 and C01-D25
were fixed in /repo by 4304e8f / 87ad64d; the model follows, their witnesses are regression examples.)
What *is* proved, for all inputs and all operator meanings:

* `exprs_read_only_used_vars`   — `_used_vars` is sound for expression evaluation;
* `liveness_sound`              — the liveness equations of analysis.py (as fixed by 4304e8f) are sound for every
                                   statement, loops and trailing breaks included (the analysis decides which
                                   variables an `If` exports and which a `Loop` carries: an unsound live set
                                   silently drops an output); `liveness_sound_loopfree` is the unconditional
                                   special case;
* the refutations above, each from a concrete program that is replayed on the real converter
  (harness/corpus_c01.jsonl).
For loops (`for` / `while`) the equivalence of source and emitted graph on the generated stream is *tested*
(eager vs onnxruntime vs NumPy interpreter), not proved.
-/
namespace OV.Props.C01
open OV.C01

/-- **`_used_vars` is sound.**  Evaluating an expression reads the store only at the names
`analysis._used_vars` reports: two stores that agree there give the same value (or both fail), for every
meaning of the operators. -/
theorem exprs_read_only_used_vars {V : Type} (S : Sem V) (ρ1 ρ2 : Store V) (e : Expr)
    (h : Agree (usedVars e) ρ1 ρ2) : evalExpr S ρ1 e = evalExpr S ρ2 e :=
  evalExpr_agree S ρ1 ρ2 e h

/-- **Liveness is sound on loop-free code.**  For every statement without `for`/`while` (straight-line code,
tuple and parallel assignment, `if`/`else` nested to any depth, `return`), every live-out set `lo`, and
every operator meaning: two stores that agree on `live_in` as computed by `do_liveness_analysis` lead to
runs that agree on `lo` — both fail, or both return the same values, or both fall through with stores
equal on every variable of `lo`. -/
theorem liveness_sound_loopfree {V : Type} (S : Sem V) (fuel : Nat) (st : Stmt) (lo : VSet)
    (ρ1 ρ2 : Store V) (hlf : loopFree st = true) (h : Agree (liveInStmt st lo) ρ1 ρ2) :
    OutRel lo (evalStmt S fuel st ρ1) (evalStmt S fuel st ρ2) :=
  liveStmt_sound S fuel st lo ρ1 ρ2 hlf h

/-- **Liveness is sound, loops included** (the equations as fixed by commit 4304e8f).  For every statement —
straight-line code, `if`/`else`, `for`, `while`, trailing `if b: break`, nested to any depth — every live-out
set `lo` and every operator meaning: two stores that agree on `live_in` as computed by
`do_liveness_analysis` lead to runs that agree on `lo`: both fail (or diverge within the fuel), or both
return the same values, or both fall through — or both leave through a `break` — with stores equal on every
variable of `lo`.  Hypotheses: `break` occurs only where the converter accepts it (`noBrkS`: as the last
statement of a loop body), and the model's fuel-bounded fixpoint iterations have converged (`stableStmt`,
a decidable check the harness evaluates on every generated program; the real code iterates until stable). -/
theorem liveness_sound {V : Type} (S : Sem V) (fuel : Nat) (st : Stmt) (lo : VSet)
    (ρ1 ρ2 : Store V) (hbrk : noBrkS st = true) (hstable : stableStmt st lo = true)
    (h : Agree (liveInStmt st lo) ρ1 ρ2) :
    OutRelB lo (evalStmt S fuel st ρ1) (evalStmt S fuel st ρ2) :=
  liveStmtB S fuel st lo ρ1 ρ2 hbrk hstable h

/-- Non-vacuity: a `for` loop whose body overwrites `x` and ends in `if b: break`, with `x` live afterwards:
the hypotheses hold and `x`, the bound `n` and the captured `y` are all live before the loop. -/
example :
    let st : Stmt := .for_ "i" true (.var "n") [.assign "x" (.var "y"), .assign "b" (.var "y"), .brk (.var "b")]
    noBrkS st = true ∧ stableStmt st ["x"] = true ∧ liveInStmt st ["x"] = ["n", "x", "y"] := by decide

/-- Non-vacuity: an `if` that assigns `x` in one branch only; `x`, `c` and `A` are live before it. -/
example : loopFree (.ite (.var "c") [.assign "x" (.var "A")] []) = true
    ∧ liveInStmt (.ite (.var "c") [.assign "x" (.var "A")] []) ["x"] = ["A", "c", "x"] := by decide

/-! ### The refinement, first stage: straight-line functions -/

/-- **`convert_correct`, stage 1 (straight-line code).**  For every function whose body is a sequence of
assignments `x = <expr>` or parallel assignments `x, y = <expr>, <expr>` (any expression of the subset: names, literals, `op.X(...)` calls with attributes,
calls of other script functions, Python binary / unary / comparison operators incl. `!=`, negated literals,
`%` with a float) followed by `return e1, …, en`, whose parameters are all tensors with distinct names:
whenever the model converter accepts it and reading the source as plain Python over tensors — literals
staying Python scalars until an operator consumes and promotes them (`Constant` + `CastLike` to the sibling
sharing the type variable) — yields outputs `vs`, the emitted graph evaluates to exactly `vs`, for **every**
input and **every** meaning of the operators.  Two named assumptions about operators: `Constant` of a
literal always evaluates (`hConst`), and `Identity` is the identity (`hId`; the converter copies returned
inputs and duplicate outputs through `Identity`).
`_partial`: `if` / `for` / `while` / tuple assignment and attribute parameters are not covered; for `while`
with a trailing break and for literals crossing an `if` the statement is false for the code as it is (below). -/
theorem convert_correct_partial {V : Type} (S : Sem V)
    (hConst : ∀ l, ∃ c, constOf S l = some c)
    (hId : ∀ v, S.op "" "Identity" [some v] [] = some [v])
    (f : Func) (g : Graph) (hsl : straightLine f.body = true) (hten : AllTensorParams f.params)
    (hnames : (f.params.map Param.name).Nodup) (h : convert f = .ok g)
    (fuel : Nat) (args vs : List V) (he : evalFunc S fuel f args = some vs) :
    evalGraph S fuel g args = some vs :=
  convert_correct_sl S hConst hId hsl hten hnames h he

/-- Non-vacuity: `x = A + 1; y = x != B; return y, A` is straight-line, accepted, and evaluates under a
concrete operator meaning. -/
def slDemo : Func :=
  { name := "f", params := [.tensor "A", .tensor "B"], retCount := none,
    body := [
      .assign "x" (.binop "Add" (.var "A") (.lit (.int 1))),
      .assign "y" (.cmp "NotEq" (.var "x") (.var "B")),
      .ret [.var "y", .var "A"] false] }

def Sdemo : Sem Int where
  op := fun _ name ins attrs =>
    match name, ins with
    | "Constant", [] => (match attrs with | [(_, .const "i:1")] => some [1] | _ => some [0])
    | "CastLike", [some a, some _] => some [a]
    | "Add", [some a, some b] => some [a + b]
    | "Equal", [some a, some b] => some [if a = b then 1 else 0]
    | "Not", [some a] => some [if a = 0 then 1 else 0]
    | "Identity", [some a] => some [a]
    | _, _ => none
  truth := fun v => some (v ≠ 0)
  natOf := fun v => some v.toNat
  ofNat := fun n => Int.ofNat n
  ofBool := fun b => if b then 1 else 0

example : straightLine slDemo.body = true ∧ (convert slDemo).toOption.isSome = true
    ∧ evalFunc Sdemo 0 slDemo [4, 5] = some [0, 4] := by
  refine ⟨by decide, by decide +kernel, by decide +kernel⟩

/-! ### The refinement, second stage: nested `if`/`else` -/

/-- **`convert_correct`, stage 2 (straight-line code with `if`/`else` nested to any depth).**  For every
function whose body consists of assignments and parallel assignments of tensor-valued expressions (anything
but a bare or negated literal), docstrings, and `if <expr>: … else: …` over such statements — branches may
assign a variable in one branch only, define new variables, alias outer values, nest further `if`s — followed
by `return e1, …, en`, with tensor parameters of distinct names: whenever the model converter accepts it and
reading the source as plain Python over tensors yields outputs `vs`, the emitted graph — `If` nodes with
subgraphs, their outputs `assigned ∩ live_out`, `Identity` copies of outer values — evaluates to exactly `vs`,
for **every** input and **every** meaning of the operators (`Constant` total, `Identity` the identity).
The proof is a forward simulation whose invariant relates only the *live* Python variables to ONNX values
(`OV.C01.Inv`); it uses `liveness` pass-through, the freshness and scoping theorems of C02, and the castable
bookkeeping of the un-executed branch.
`_partial`: loops are not covered (for `while` with a trailing break and for a loop variable used after the
loop the statement is false for the code as it is: C01-D27, C01-D31), nor tuple assignment and attribute
parameters; a bare literal may not be *assigned* (it would lose its polymorphism at the `If` boundary: C01-D24). -/
theorem convert_correct_ite_partial {V : Type} (S : Sem V)
    (hConst : ∀ l, ∃ c, constOf S l = some c)
    (hId : ∀ v, S.op "" "Identity" [some v] [] = some [v])
    (f : Func) (g : Graph) (hil : ifLine f.body = true) (hten : AllTensorParams f.params)
    (hnames : (f.params.map Param.name).Nodup) (h : convert f = .ok g)
    (fuel : Nat) (args vs : List V) (he : evalFunc S fuel f args = some vs) :
    evalGraph S fuel g args = some vs :=
  convert_correct_if S hConst hId hil hten hnames h he

/-- Non-vacuity: `x = A + 1; if c: y = x != B  else: (if d: y = x  else: x = B; y = x + 1); return y, x` —
`y` defined in both branches, `x` re-assigned in one inner branch only, an outer value aliased in a branch. -/
def ifDemo : Func :=
  { name := "f", params := [.tensor "A", .tensor "B", .tensor "c", .tensor "d"], retCount := none,
    body := [
      .assign "x" (.binop "Add" (.var "A") (.lit (.int 1))),
      .ite (.var "c")
        [.assign "y" (.cmp "NotEq" (.var "x") (.var "B"))]
        [.ite (.var "d")
          [.assign "y" (.var "x")]
          [.assign "x" (.var "B"), .assign "y" (.binop "Add" (.var "x") (.lit (.int 1)))]],
      .ret [.var "y", .var "x"] false] }

example : ifLine ifDemo.body = true ∧ (convert ifDemo).toOption.isSome = true
    ∧ evalFunc Sdemo 0 ifDemo [4, 7, 0, 0] = some [8, 7]
    ∧ evalFunc Sdemo 0 ifDemo [4, 7, 0, 1] = some [5, 5]
    ∧ evalFunc Sdemo 0 ifDemo [4, 5, 1, 0] = some [0, 5] := by
  refine ⟨by decide, by decide +kernel, by decide +kernel, by decide +kernel, by decide +kernel⟩

/-! ### The refinement, third stage: `for i in range(n)` -/

/-- **`convert_correct`, stage 3 (assignments, nested `if`/`else`, and `for i in range(n)` loops).**  For every
function whose body consists of statements of the `if` fragment (see `convert_correct_ite_partial`) and
top-level loops `for i in range(<expr>): <if-fragment body>` — the body may re-assign outer variables
(loop-carried state), read outer values it never assigns (captured), branch on them, and run zero times —
followed by `return e1, …, en`: whenever the model converter accepts it and reading the source as plain
Python yields `vs`, the emitted graph — a `Loop` node whose body graph takes `(i, cond_in, state…)`, re-emits
`cond_out = Identity(cond_in)`, and whose state is `assigned ∩ (exposed uses ∪ live_out)` in sorted order —
evaluates to exactly `vs` at some fuel (hence at every larger one: `evalNodes_mono`), for **every** input,
trip count and operator meaning (`Constant` total, `Identity` the identity, `true` is truthy).
The proof is a simulation by induction on the remaining trip count with the invariant of stage 2
(`OV.C01.Inv`) re-established at the head of every iteration (`OV.C01.for_step`).
Side conditions (`forOK`), each needed for the code as it is: the loop variable is not read after the loop
(C01-D31: the converter leaves it bound to the body-local name, the statement is false without this) and not
assigned in the body; the liveness iteration reached its fixpoint (`stableStmt`; the real analysis iterates
until it does).
`_partial`: no `break` (C01-D27 refutes `while`+`break`; `for`+`break` is untested by proof), no `while`, no loop
nested in a loop or in a branch, no tuple assignment, no attribute parameters. -/
theorem convert_correct_for_partial {V : Type} (S : Sem V)
    (hConst : ∀ l, ∃ c, constOf S l = some c)
    (hId : ∀ v, S.op "" "Identity" [some v] [] = some [v])
    (hT : S.truth (S.ofBool true) = some true)
    (f : Func) (g : Graph) (hfl : forLine f.body = true) (hten : AllTensorParams f.params)
    (hnames : (f.params.map Param.name).Nodup) (h : convert f = .ok g)
    (fuel : Nat) (args vs : List V) (he : evalFunc S fuel f args = some vs) :
    ∃ fuel', evalGraph S fuel' g args = some vs :=
  convert_correct_for S hConst hId hT hfl hten hnames h he

/-- Graph evaluation is monotone in the fuel, so "some fuel" above means "every large enough fuel". -/
theorem evalGraph_fuel_mono {V : Type} (S : Sem V) (g : Graph) (args vs : List V) (f f' : Nat) (hle : f ≤ f')
    (h : evalGraph S f g args = some vs) : evalGraph S f' g args = some vs := by
  unfold evalGraph at h ⊢
  by_cases hl : args.length = g.inputs.length
  · simp only [hl, if_true] at h ⊢
    cases he : evalNodes S f (Env.setMany (fun _ => none) g.inputs args) g.nodes with
    | none => simp [he] at h
    | some r =>
      rw [evalNodes_mono S g.nodes f f' _ r hle he]
      simpa [he] using h
  · simp [hl] at h

/-- Non-vacuity: `acc = A; t = B; for i in range(n): (if c: acc = acc + t  else: t = acc + i); return acc, t` —
two loop-carried variables each re-assigned in one branch only, a captured outer value `c`, the loop
variable read in the body; run with three trips on either branch and with zero trips. -/
def forDemo : Func :=
  { name := "f", params := [.tensor "A", .tensor "B", .tensor "n", .tensor "c"], retCount := none,
    body := [
      .assign "acc" (.var "A"),
      .assign "t" (.var "B"),
      .for_ "i" true (.var "n")
        [.ite (.var "c")
          [.assign "acc" (.binop "Add" (.var "acc") (.var "t"))]
          [.assign "t" (.binop "Add" (.var "acc") (.var "i"))]],
      .ret [.var "acc", .var "t"] false] }

example : forLine forDemo.body = true ∧ (convert forDemo).toOption.isSome = true
    ∧ evalFunc Sdemo 0 forDemo [1, 10, 3, 1] = some [31, 10]
    ∧ evalFunc Sdemo 0 forDemo [1, 10, 3, 0] = some [1, 3]
    ∧ evalFunc Sdemo 0 forDemo [1, 10, 0, 1] = some [1, 10]
    ∧ (match convert forDemo with
       | .ok g => evalGraph Sdemo 6 g [1, 10, 3, 0] == some [1, 3]
       | .error _ => false) = true := by
  refine ⟨by decide +kernel, by decide +kernel, by decide +kernel, by decide +kernel, by decide +kernel,
    by decide +kernel⟩

/-! ### Regression witnesses of the two fixed findings C01-D23 (4304e8f) and C01-D25 (87ad64d) -/

/-- A concrete meaning of operators over `Int` (only what the witnesses use). -/
def S0 : Sem Int where
  op := fun _ name ins _ =>
    match name, ins with
    | "Neg", [some a] => some [-a]
    | "Abs", [some a] => some [Int.ofNat a.natAbs]
    | "Sub", [some a, some b] => some [a - b]
    | "Add", [some a, some b] => some [a + b]
    | "Identity", [some a] => some [a]
    | _, _ => none
  truth := fun v => some (v ≠ 0)
  natOf := fun v => some v.toNat
  ofNat := fun n => Int.ofNat n
  ofBool := fun b => if b then 1 else 0

/-- `for i in range(n): x = y` with `x` live afterwards: before fix 4304e8f the analysis reported
`live_in = {y}` (the zero-trip path and the loop bound were missing, finding C01-D23); now `n`, `x`, `y`. -/
def zeroTrip : Stmt := .for_ "i" true (.var "n") [.assign "x" (.var "y")]

example : liveInStmt zeroTrip ["x"] = ["n", "x", "y"] := by decide

def tsig : Sig := { known := true, variadic := false, homog := true, tvs := [some "T"] }
def tsig2 : Sig := { known := true, variadic := false, homog := true, tvs := [some "T", some "T"] }

/-- `x = Neg(A); y = Abs(B); x, y = y, x; return Sub(x, y)` — before fix 87ad64d the graph computed
`Sub(y, y)` (finding C01-D25).  It is straight-line, so `convert_correct_partial` covers it; concretely, on
`A = 1, B = 10` source and graph both give `11`. -/
def swapProg : Func :=
  { name := "f", params := [.tensor "A", .tensor "B"], retCount := none,
    body := [
      .assign "x" (.call "" "Neg" tsig [.var "A"] []),
      .assign "y" (.call "" "Abs" tsig [.var "B"] []),
      .par ["x", "y"] [.var "y", .var "x"],
      .ret [.call "" "Sub" tsig2 [.var "x", .var "y"] []] false] }

example : straightLine swapProg.body = true ∧ evalFunc S0 0 swapProg [1, 10] = some [11]
    ∧ (match convert swapProg with
       | .ok g => evalGraph S0 0 g [1, 10] == some [11]
       | .error _ => false) = true := by
  refine ⟨by decide, by decide +kernel, by decide +kernel⟩

/-! ### Two more divergences with semantic witnesses (findings C01-D31, C01-D33) -/

/-- `x = Identity(A); i = Add(A, A); for i in range(n): x = Add(x, A); return x, i` -/
def loopVarProg : Func :=
  { name := "f", params := [.tensor "A", .tensor "n"], retCount := none,
    body := [
      .assign "x" (.call "" "Identity" tsig [.var "A"] []),
      .assign "i" (.call "" "Add" tsig2 [.var "A", .var "A"] []),
      .for_ "i" true (.var "n") [.assign "x" (.call "" "Add" tsig2 [.var "x", .var "A"] [])],
      .ret [.var "x", .var "i"] false] }

/-- Finding C01-D31: the loop variable is bound only inside the body's scope, so after the loop the name `i`
still denotes the pre-loop value in the graph (`A + A = 2`), while Python leaves the last index in it (`1`). -/
theorem loop_variable_not_rebound_witness :
    evalFunc S0 5 loopVarProg [1, 2] = some [3, 1]
    ∧ (match convert loopVarProg with
       | .ok g => evalGraph S0 5 g [1, 2] == some [3, 2]
       | .error _ => false) = true := by
  constructor <;> decide +kernel

/-- `x = Neg(A); return x; return Abs(A)` -/
def twoReturns : Func :=
  { name := "f", params := [.tensor "A"], retCount := none,
    body := [
      .assign "x" (.call "" "Neg" tsig [.var "A"] []),
      .ret [.var "x"] false,
      .ret [.call "" "Abs" tsig [.var "A"] []] false] }

/-- Finding C01-D33: every top-level `return` appends to the graph outputs; Python returns at the first one. -/
theorem second_return_adds_output_witness :
    evalFunc S0 0 twoReturns [5] = some [-5]
    ∧ (match convert twoReturns with
       | .ok g => evalGraph S0 0 g [5] == some [-5, 5]
       | .error _ => false) = true := by
  constructor <;> decide +kernel

/-! ### Structural witnesses of two more divergences (findings C01-D27, C01-D24) -/

def bsig : Sig := { known := true, variadic := false, homog := true, tvs := [some "T", some "T"] }

/-- `while c: x = Add(x, x); c = Less(x, lim); b = Greater(x, big); if b: break` -/
def whileBreak : Func :=
  { name := "f", params := [.tensor "x0", .tensor "lim", .tensor "big", .tensor "c0"], retCount := none,
    body := [
      .assign "x" (.call "" "Identity" tsig [.var "x0"] []),
      .assign "c" (.call "" "Identity" tsig [.var "c0"] []),
      .while_ (.var "c") [
        .assign "x" (.call "" "Add" bsig [.var "x", .var "x"] []),
        .assign "c" (.call "" "Less" bsig [.var "x", .var "lim"] []),
        .assign "b" (.call "" "Greater" bsig [.var "x", .var "big"] []),
        .brk (.var "b")],
      .ret [.var "x"] false] }

/-- The node computing a Loop body's first output (the continuation condition). -/
def condNodeOfFirstLoop : List Node → Option Node
  | .loop _ _ _ _ _ bn (co :: _) :: _ => bn.find? (fun n => n.outs.contains co)
  | _ :: rest => condNodeOfFirstLoop rest
  | [] => none

/-- Finding C01-D27: with a trailing `if b: break` the Loop body's continuation condition is `Not(b)` alone — the
re-computed `while` condition `c` does not reach it. -/
theorem while_break_drops_condition_witness :
    (match convert whileBreak with
     | .ok g =>
       (match condNodeOfFirstLoop g.nodes with
        | some (.op _ "Not" [some b] _ _) => b == "b"
        | _ => false)
     | .error _ => false) = true := by decide +kernel

/-- `if c: x = 1 else: x = 2; y = A + x` -/
def castLost : Func :=
  { name := "f", params := [.tensor "A", .tensor "c"], retCount := none,
    body := [
      .ite (.var "c") [.assign "x" (.lit (.int 1))] [.assign "x" (.lit (.int 2))],
      .assign "y" (.binop "Add" (.var "A") (.var "x")),
      .ret [.var "y"] false] }

def hasOp (name : String) : List Node → Bool
  | [] => false
  | .op _ n _ _ _ :: rest => n == name || hasOp name rest
  | _ :: rest => hasOp name rest

/-- Finding C01-D24: the literal assigned in the branches comes out of the `If` as an ordinary (int64) value; the
following `Add(A, x)` gets no `CastLike`, whereas beside a literal operand it does (`A + 1`). -/
theorem castable_lost_at_if_witness :
    (match convert castLost with
     | .ok g => !hasOp "CastLike" g.nodes && hasOp "Add" g.nodes
     | .error _ => false) = true
    ∧ (match convert { castLost with body := [.assign "y" (.binop "Add" (.var "A") (.lit (.int 1))), .ret [.var "y"] false] } with
       | .ok g => hasOp "CastLike" g.nodes
       | .error _ => false) = true := by
  constructor <;> decide +kernel

end OV.Props.C01
