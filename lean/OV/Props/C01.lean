import OV.Lemmas.C01Live
import OV.Lemmas.C01Names
import OV.Lemmas.C01Sim
/-!
# C01 — script functions mean the same eagerly, as an ONNX graph, and as plain Python

Property theorems only.  Models: `OV.Model.C01Script` (source language + analysis.py), `C01Sem` (the source
read as plain Python over tensors), `C01Graph` (emitted graph + `evalGraph`), `C01Convert` (converter.py).

The property itself is the refinement

    convert f = .ok g → ∀ S fuel args vs, evalFunc S fuel f args = some vs → ∃ fuel', evalGraph S fuel' g args = some vs

(`convert_correct`).  It is proved for the first stage only — straight-line functions
(`convert_correct_partial`) — and it is **false in general for the code as it is**:
`convert_correct_full_refuted` (parallel assignment, finding C01-D25), `liveness_sound_loops_refuted`
(zero-trip loops, C01-D23), `while_break_drops_condition_witness` (C01-D27), `castable_lost_at_if_witness` (C01-D24).
What *is* proved, for all inputs and all operator meanings:

* `exprs_read_only_used_vars`   — `_used_vars` is sound for expression evaluation;
* `liveness_sound_loopfree`     — the liveness equations of analysis.py are sound for every loop-free
                                   statement at any nesting depth of `if` (the analysis decides which
                                   variables an `If` exports: an unsound live set silently drops an output);
* the refutations above, each from a concrete program that is replayed on the real converter
  (harness/corpus_c01.jsonl).
Beyond straight-line code (if / for / while) the equivalence of source and emitted graph on the generated
stream is *tested* (eager vs onnxruntime vs NumPy interpreter), not proved.
-/
namespace OV.Props.C01
open OV.C01

/-- **`_used_vars` is sound.**  Evaluating an expression reads the store only at the names
`analysis._used_vars` reports: two stores that agree there give the same value (or both fail), for every
meaning of the operators. -/
theorem exprs_read_only_used_vars {V : Type} (S : Sem V) (ρ1 ρ2 : Store V) (e : Expr)
    (h : Agree (usedVars e) ρ1 ρ2) : evalExpr S ρ1 e = evalExpr S ρ2 e :=
  evalExpr_agree S ρ1 ρ2 e h

/-- **Liveness is sound on loop-free code.**  For every statement without `for`/`while` (straight-line code,
tuple and parallel assignment, `if`/`else` nested to any depth, `return`), every live-out set `lo`, and
every operator meaning: two stores that agree on `live_in` as computed by `do_liveness_analysis` lead to
runs that agree on `lo` — both fail, or both return the same values, or both fall through with stores
equal on every variable of `lo`. -/
theorem liveness_sound_loopfree {V : Type} (S : Sem V) (fuel : Nat) (st : Stmt) (lo : VSet)
    (ρ1 ρ2 : Store V) (hlf : loopFree st = true) (h : Agree (liveInStmt st lo) ρ1 ρ2) :
    OutRel lo (evalStmt S fuel st ρ1) (evalStmt S fuel st ρ2) :=
  liveStmt_sound S fuel st lo ρ1 ρ2 hlf h

/-- Non-vacuity: an `if` that assigns `x` in one branch only; `x`, `c` and `A` are live before it. -/
example : loopFree (.ite (.var "c") [.assign "x" (.var "A")] []) = true
    ∧ liveInStmt (.ite (.var "c") [.assign "x" (.var "A")] []) ["x"] = ["A", "c", "x"] := by decide

/-! ### The refinement, first stage: straight-line functions -/

/-- **`convert_correct`, stage 1 (straight-line code).**  For every function whose body is a sequence of
assignments `x = <expr>` (any expression of the subset: names, literals, `op.X(...)` calls with attributes,
calls of other script functions, Python binary / unary / comparison operators incl. `!=`, negated literals,
`%` with a float) followed by `return e1, …, en`, whose parameters are all tensors with distinct names:
whenever the model converter accepts it and reading the source as plain Python over tensors — literals
staying Python scalars until an operator consumes and promotes them (`Constant` + `CastLike` to the sibling
sharing the type variable) — yields outputs `vs`, the emitted graph evaluates to exactly `vs`, for **every**
input and **every** meaning of the operators.  Two named assumptions about operators: `Constant` of a
literal always evaluates (`hConst`), and `Identity` is the identity (`hId`; the converter copies returned
inputs and duplicate outputs through `Identity`).
`_partial`: `if` / `for` / `while` / tuple and parallel assignment and attribute parameters are not covered;
for parallel assignment and loops the statement is in fact false for the code as it is (below). -/
theorem convert_correct_partial {V : Type} (S : Sem V)
    (hConst : ∀ l, ∃ c, constOf S l = some c)
    (hId : ∀ v, S.op "" "Identity" [some v] [] = some [v])
    (f : Func) (g : Graph) (hsl : straightLine f.body = true) (hten : AllTensorParams f.params)
    (hnames : (f.params.map Param.name).Nodup) (h : convert f = .ok g)
    (fuel : Nat) (args vs : List V) (he : evalFunc S fuel f args = some vs) :
    evalGraph S fuel g args = some vs :=
  convert_correct_sl S hConst hId hsl hten hnames h he

/-- Non-vacuity: `x = A + 1; y = x != B; return y, A` is straight-line, accepted, and evaluates under a
concrete operator meaning. -/
def slDemo : Func :=
  { name := "f", params := [.tensor "A", .tensor "B"], retCount := none,
    body := [
      .assign "x" (.binop "Add" (.var "A") (.lit (.int 1))),
      .assign "y" (.cmp "NotEq" (.var "x") (.var "B")),
      .ret [.var "y", .var "A"] false] }

def Sdemo : Sem Int where
  op := fun _ name ins attrs =>
    match name, ins with
    | "Constant", [] => (match attrs with | [(_, .const "i:1")] => some [1] | _ => some [0])
    | "CastLike", [some a, some _] => some [a]
    | "Add", [some a, some b] => some [a + b]
    | "Equal", [some a, some b] => some [if a = b then 1 else 0]
    | "Not", [some a] => some [if a = 0 then 1 else 0]
    | "Identity", [some a] => some [a]
    | _, _ => none
  truth := fun v => some (v ≠ 0)
  natOf := fun v => some v.toNat
  ofNat := fun n => Int.ofNat n
  ofBool := fun b => if b then 1 else 0

example : straightLine slDemo.body = true ∧ (convert slDemo).toOption.isSome = true
    ∧ evalFunc Sdemo 0 slDemo [4, 5] = some [0, 4] := by
  refine ⟨by decide, by decide +kernel, by decide +kernel⟩

/-! ### The same statement with loops is false (finding C01-D23) -/

/-- A concrete meaning of operators over `Int` (only what the witnesses use). -/
def S0 : Sem Int where
  op := fun _ name ins _ =>
    match name, ins with
    | "Neg", [some a] => some [-a]
    | "Abs", [some a] => some [Int.ofNat a.natAbs]
    | "Sub", [some a, some b] => some [a - b]
    | "Add", [some a, some b] => some [a + b]
    | "Identity", [some a] => some [a]
    | _, _ => none
  truth := fun v => some (v ≠ 0)
  natOf := fun v => some v.toNat
  ofNat := fun n => Int.ofNat n
  ofBool := fun b => if b then 1 else 0

def zeroTrip : Stmt := .for_ "i" true (.var "n") [.assign "x" (.var "y")]

def st1 : Store Int := fun v =>
  if v = "n" then some (.t 0) else if v = "x" then some (.t 1) else if v = "y" then some (.t 5) else none
def st2 : Store Int := fun v =>
  if v = "n" then some (.t 0) else if v = "x" then some (.t 2) else if v = "y" then some (.t 5) else none

/-- **The liveness equations for loops are unsound** (analysis.py `do_visit`, `For`/`While`: the zero-trip
path and the loop bound are missing).  For `for i in range(n): x = y` with `x` live afterwards the analysis
reports `live_in = {y}`; two stores that agree on `y` but differ on `x` give, for `n = 0`, results that
differ on `x`. -/
theorem liveness_sound_loops_refuted :
    ¬ (∀ (S : Sem Int) (fuel : Nat) (st : Stmt) (lo : VSet) (ρ1 ρ2 : Store Int),
        Agree (liveInStmt st lo) ρ1 ρ2 → OutRel lo (evalStmt S fuel st ρ1) (evalStmt S fuel st ρ2)) := by
  intro h
  have hl : liveInStmt zeroTrip ["x"] = ["y"] := by decide
  have hag : Agree (liveInStmt zeroTrip ["x"]) st1 st2 := by
    rw [hl]
    intro v hv
    simp only [List.mem_singleton] at hv
    subst hv
    rfl
  have hr := h S0 1 zeroTrip ["x"] st1 st2 hag
  have e1 : evalStmt S0 1 zeroTrip st1 = some (.normal st1) := by
    simp [zeroTrip, evalStmt, evalExpr, st1, natPV, S0, iterFor]
  have e2 : evalStmt S0 1 zeroTrip st2 = some (.normal st2) := by
    simp [zeroTrip, evalStmt, evalExpr, st2, natPV, S0, iterFor]
  rw [e1, e2] at hr
  have := hr "x" (by simp)
  simp [st1, st2] at this

/-! ### The refinement itself is false for the code as it is (finding C01-D25) -/

def tsig : Sig := { known := true, variadic := false, homog := true, tvs := [some "T"] }
def tsig2 : Sig := { known := true, variadic := false, homog := true, tvs := [some "T", some "T"] }

/-- `x = Neg(A); y = Abs(B); x, y = y, x; return Sub(x, y)` -/
def swapProg : Func :=
  { name := "f", params := [.tensor "A", .tensor "B"], retCount := none,
    body := [
      .assign "x" (.call "" "Neg" tsig [.var "A"] []),
      .assign "y" (.call "" "Abs" tsig [.var "B"] []),
      .par ["x", "y"] [.var "y", .var "x"],
      .ret [.call "" "Sub" tsig2 [.var "x", .var "y"] []] false] }

/-- **`convert_correct`, the property, does not hold for the converter as it is** (finding C01-D25):
the parallel assignment `x, y = y, x` is translated pair by pair.  On `A = 1, B = 10` plain Python (and
eager mode) return `Sub(10, -1) = 11`; the emitted graph computes `Sub(y, y) = 0` for every fuel. -/
theorem convert_correct_full_refuted :
    ¬ (∀ (f : Func) (g : Graph) (S : Sem Int) (fuel : Nat) (args vs : List Int),
        convert f = .ok g → evalFunc S fuel f args = some vs →
        ∃ fuel', evalGraph S fuel' g args = some vs) := by
  intro h
  have key : (match convert swapProg with
      | .ok g => opsOnly g.nodes && (evalGraph S0 0 g [1, 10] == some [0])
      | .error _ => false) = true := by decide +kernel
  have hpy : evalFunc S0 0 swapProg [1, 10] = some [11] := by decide +kernel
  cases hc : convert swapProg with
  | error e => rw [hc] at key; cases key
  | ok g =>
    rw [hc] at key
    simp only [Bool.and_eq_true, beq_iff_eq] at key
    obtain ⟨fuel', hg⟩ := h swapProg g S0 0 [1, 10] [11] hc hpy
    have : evalGraph S0 fuel' g [1, 10] = evalGraph S0 0 g [1, 10] := by
      unfold evalGraph
      rw [evalNodes_opsOnly_fuel S0 fuel' 0 _ _ key.1]
    rw [this, key.2] at hg
    cases hg

/-! ### Structural witnesses of two more divergences (findings C01-D27, C01-D24) -/

def bsig : Sig := { known := true, variadic := false, homog := true, tvs := [some "T", some "T"] }

/-- `while c: x = Add(x, x); c = Less(x, lim); b = Greater(x, big); if b: break` -/
def whileBreak : Func :=
  { name := "f", params := [.tensor "x0", .tensor "lim", .tensor "big", .tensor "c0"], retCount := none,
    body := [
      .assign "x" (.call "" "Identity" tsig [.var "x0"] []),
      .assign "c" (.call "" "Identity" tsig [.var "c0"] []),
      .while_ (.var "c") [
        .assign "x" (.call "" "Add" bsig [.var "x", .var "x"] []),
        .assign "c" (.call "" "Less" bsig [.var "x", .var "lim"] []),
        .assign "b" (.call "" "Greater" bsig [.var "x", .var "big"] []),
        .brk (.var "b")],
      .ret [.var "x"] false] }

/-- The node computing a Loop body's first output (the continuation condition). -/
def condNodeOfFirstLoop : List Node → Option Node
  | .loop _ _ _ _ _ bn (co :: _) :: _ => bn.find? (fun n => n.outs.contains co)
  | _ :: rest => condNodeOfFirstLoop rest
  | [] => none

/-- Finding C01-D27: with a trailing `if b: break` the Loop body's continuation condition is `Not(b)` alone — the
re-computed `while` condition `c` does not reach it. -/
theorem while_break_drops_condition_witness :
    (match convert whileBreak with
     | .ok g =>
       (match condNodeOfFirstLoop g.nodes with
        | some (.op _ "Not" [some b] _ _) => b == "b"
        | _ => false)
     | .error _ => false) = true := by decide +kernel

/-- `if c: x = 1 else: x = 2; y = A + x` -/
def castLost : Func :=
  { name := "f", params := [.tensor "A", .tensor "c"], retCount := none,
    body := [
      .ite (.var "c") [.assign "x" (.lit (.int 1))] [.assign "x" (.lit (.int 2))],
      .assign "y" (.binop "Add" (.var "A") (.var "x")),
      .ret [.var "y"] false] }

def hasOp (name : String) : List Node → Bool
  | [] => false
  | .op _ n _ _ _ :: rest => n == name || hasOp name rest
  | _ :: rest => hasOp name rest

/-- Finding C01-D24: the literal assigned in the branches comes out of the `If` as an ordinary (int64) value; the
following `Add(A, x)` gets no `CastLike`, whereas beside a literal operand it does (`A + 1`). -/
theorem castable_lost_at_if_witness :
    (match convert castLost with
     | .ok g => !hasOp "CastLike" g.nodes && hasOp "Add" g.nodes
     | .error _ => false) = true
    ∧ (match convert { castLost with body := [.assign "y" (.binop "Add" (.var "A") (.lit (.int 1))), .ret [.var "y"] false] } with
       | .ok g => hasOp "CastLike" g.nodes
       | .error _ => false) = true := by
  constructor <;> decide +kernel

end OV.Props.C01
