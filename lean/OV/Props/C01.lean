import OV.Lemmas.C01Live
import OV.Lemmas.C01Names
import OV.Lemmas.C01Sim
import OV.Lemmas.C01SimIf
import OV.Lemmas.C01SimFor
import OV.Lemmas.C01SimNest
import OV.Lemmas.C01SimSLT
import OV.Model.C01Env
import OV.Lemmas.C01ExportSem
import OV.Lemmas.C01Eager
import OV.Lemmas.C01EagerRefuse
import OV.Lemmas.C01EagerEntry
import OV.Lemmas.C01Separate
import OV.Lemmas.C01SeparateVar
/-!
# C01 — script functions mean the same eagerly, as an ONNX graph, and as plain Python

Property theorems only.  Models: `OV.Model.C01Script` (source language + analysis.py), `C01Sem` (the source
read as plain Python over tensors), `C01Graph` (emitted graph + `evalGraph`), `C01Convert` (converter.py).

The property itself is the refinement

    convert f = .ok g → ∀ S fuel args vs, evalFunc S fuel f args = some vs → ∃ fuel', evalGraph S fuel' g args = some vs

(`convert_correct`).  It is proved for straight-line functions incl. parallel assignment
(`convert_correct_partial`), for assignments with `if`/`else` nested to any depth
(`convert_correct_ite_partial`), and for those plus top-level `for i in range(n)` and `while t` loops with or
without a trailing `if b: break` (`convert_correct_for_partial`: loop-carried state, captured outer values, zero
trips; by induction on the trip count resp. the fuel), and for loops nested in loops and branches to any depth
(`convert_correct_nested_partial`).  In general it is still **false for the code as it is**: `castable_lost_at_if_witness` (C01-D24).
Fixed in /repo, the model follows: C01-D23 / D25 (4304e8f / 87ad64d; regression examples), C01-D31 (9b326d7:
`loop_variable_live_after_loop_refused`), C01-D33 (9f69276: `non_last_return_refused`), C01-D27 (ddfea30:
`while_break_keeps_condition_witness`), C01-D39 (0fa00ae: `while_does_not_capture_infinite_loop_witness`).
What *is* proved, for all inputs and every operator meaning `S` (the refinement theorems assume of `S`: `Constant` total
and `Identity` the identity, for control flow also `hTL hT hNat hNot hAnd`; operators are otherwise uninterpreted):

* `exprs_read_only_used_vars`   — `_used_vars` is sound for expression evaluation;
* `liveness_sound`              — the liveness equations of analysis.py (as fixed by 4304e8f) are sound for every
                                   statement kind, loops and trailing breaks included, under two hypotheses: `noBrkS`
                                   (`break` only where the converter accepts it) and `stableStmt` (the model's
                                   fuel-bounded fixpoints converged; decided per program by the driver)
                                   (the analysis decides which
                                   variables an `If` exports and which a `Loop` carries: an unsound live set
                                   silently drops an output); `liveness_sound_loopfree` is the unconditional
                                   special case;
* the refutation and the regression witnesses above, each from a concrete program that is replayed on the real
  converter (harness/corpus_c01.jsonl);
* one-guard restatements of model definitions, listed for reference, not as results: `static_if_never_on_a_local_name`,
  `static_if_takes_the_outer_value`, `env_lookup_closure_first`, `env_lookup_global_otherwise`,
  `assigned_name_never_resolved` (what carries weight there is the tie of `envLookup` / `foldStmt` to `script()`); helper:
  `evalGraph_fuel_mono`;
* the eager calling convention and `separate_input_attributes_from_arguments` (section "Eager" below), each theorem with
  its scope in its doc-comment: `eager_is_python` (calls CPython accepts, `sigMatch`, distinct names),
  `eager_arrays_entry_is_evalFunc_entry` (all-tensor signature, positional arrays only), `separate_*` (non-variadic resp.
  one variadic input; required parameters given; no unknown keyword; `fill_defaults=False`).
For loops with `break` below the top level (and for literal-valued variables / attribute parameters that are re-bound under
control flow: C01-D24) the equivalence of source and emitted graph on the generated stream is *tested* (eager vs onnxruntime vs NumPy interpreter), not proved.
-/
namespace OV.Props.C01
open OV.C01

/-- **`_used_vars` is sound.**  Evaluating an expression reads the store only at the names
`analysis._used_vars` reports: two stores that agree there give the same value (or both fail), for every
meaning of the operators. -/
theorem exprs_read_only_used_vars {V : Type} (S : Sem V) (ρ1 ρ2 : Store V) (e : Expr)
    (h : Agree (usedVars e) ρ1 ρ2) : evalExpr S ρ1 e = evalExpr S ρ2 e :=
  evalExpr_agree S ρ1 ρ2 e h

/-- **Liveness is sound on loop-free code.**  For every statement without `for`/`while` (straight-line code,
tuple and parallel assignment, `if`/`else` nested to any depth, `return`), every live-out set `lo`, and
every operator meaning: two stores that agree on `live_in` as computed by `do_liveness_analysis` lead to
runs that agree on `lo` — both fail, or both return the same values, or both fall through with stores
equal on every variable of `lo`. -/
theorem liveness_sound_loopfree {V : Type} (S : Sem V) (fuel : Nat) (st : Stmt) (lo : VSet)
    (ρ1 ρ2 : Store V) (hlf : loopFree st = true) (h : Agree (liveInStmt st lo) ρ1 ρ2) :
    OutRel lo (evalStmt S fuel st ρ1) (evalStmt S fuel st ρ2) :=
  liveStmt_sound S fuel st lo ρ1 ρ2 hlf h

/-- **Liveness is sound, loops included** (the equations as fixed by commit 4304e8f).  For every statement —
straight-line code, `if`/`else`, `for`, `while`, trailing `if b: break`, nested to any depth — every live-out
set `lo` and every operator meaning: two stores that agree on `live_in` as computed by
`do_liveness_analysis` lead to runs that agree on `lo`: both fail (or diverge within the fuel), or both
return the same values, or both fall through — or both leave through a `break` — with stores equal on every
variable of `lo`.  Hypotheses: `break` occurs only where the converter accepts it (`noBrkS`: as the last
statement of a loop body), and the model's fuel-bounded fixpoint iterations have converged (`stableStmt`,
a decidable check the harness evaluates on every generated program; the real code iterates until stable). -/
theorem liveness_sound {V : Type} (S : Sem V) (fuel : Nat) (st : Stmt) (lo : VSet)
    (ρ1 ρ2 : Store V) (hbrk : noBrkS st = true) (hstable : stableStmt st lo = true)
    (h : Agree (liveInStmt st lo) ρ1 ρ2) :
    OutRelB lo (evalStmt S fuel st ρ1) (evalStmt S fuel st ρ2) :=
  liveStmtB S fuel st lo ρ1 ρ2 hbrk hstable h

/-- Non-vacuity: a `for` loop whose body overwrites `x` and ends in `if b: break`, with `x` live afterwards:
the hypotheses hold and `x`, the bound `n` and the captured `y` are all live before the loop. -/
example :
    let st : Stmt := .for_ "i" true (.var "n") [.assign "x" (.var "y"), .assign "b" (.var "y"), .brk (.var "b")]
    noBrkS st = true ∧ stableStmt st ["x"] = true ∧ liveInStmt st ["x"] = ["n", "x", "y"] := by decide

/-- Non-vacuity: an `if` that assigns `x` in one branch only; `x`, `c` and `A` are live before it. -/
example : loopFree (.ite (.var "c") [.assign "x" (.var "A")] []) = true
    ∧ liveInStmt (.ite (.var "c") [.assign "x" (.var "A")] []) ["x"] = ["A", "c", "x"] := by decide

/-! ### The refinement, first stage: straight-line functions -/

/-- **`convert_correct`, stage 1 (straight-line code).**  For every function whose body is a sequence of
assignments `x = <expr>`, parallel assignments `x, y = <expr>, <expr>` or tuple assignments `x, y = op.Foo(…)` from a
multi-output operator (any expression of the subset: names, literals, `op.X(...)` calls with attributes,
calls of other script functions, Python binary / unary / comparison operators incl. `!=`, negated literals,
`%` with a float) followed by `return e1, …, en`, whose parameters have distinct names:
whenever the model converter accepts it and reading the source as plain Python over tensors — literals
staying Python scalars until an operator consumes and promotes them (`Constant` + `CastLike` to the sibling
sharing the type variable) — yields outputs `vs`, the emitted graph evaluates to exactly `vs`, for **every**
input and **every** meaning of the operators.  Two named assumptions about operators: `Constant` of a
literal always evaluates (`hConst`), and `Identity` is the identity (`hId`; the converter copies returned
inputs and duplicate outputs through `Identity`).
Attribute parameters may be forwarded to operators as attributes (`op.Foo(x, alpha=alpha)`: the node carries the
reference `@alpha`, both sides read it through `S`) and read as values (`x * alpha`): `S.attrLit alpha` is the Python
value the function is run with — a Python scalar that has not met an operator yet, like a literal — and `hσ` says
that `S` reads `Constant(value_float=@alpha)` (for a `bool`: followed by `Cast` to BOOL), which is what
`_to_onnx_var` emits, as the `Constant` of that value (`AttrVal`); `ht`: a name with such a value is not assigned
and not read as a bare right-hand side (`y = alpha`).
`_partial`: `if` / `for` / `while` are not covered here (stages 2-4); for `while`
with a trailing break and for literals crossing an `if` the statement is false for the code as it is (below). -/
theorem convert_correct_partial {V : Type} (S : Sem V)
    (hConst : ∀ l, ∃ c, constOf S l = some c)
    (hId : ∀ v, S.op "" "Identity" [some v] [] = some [v])
    (f : Func) (g : Graph) (hsl : straightLineT f.body = true)
    (hσ : ∀ x l, S.attrLit x = some l → ∃ ty, Param.attr x ty ∈ f.params ∧ AttrVal S x ty l)
    (ht : ∀ x, x ∈ targetsBlock f.body → S.attrLit x = none)
    (hnames : (f.params.map Param.name).Nodup) (h : convert f = .ok g)
    (fuel : Nat) (args vs : List V) (he : evalFunc S fuel f args = some vs) :
    evalGraph S fuel g args = some vs :=
  convert_correct_slT S hConst hId hsl hσ ht hnames h he

/-- Non-vacuity: `x = A + 1; y = x != B; return y, A` is straight-line, accepted, and evaluates under a
concrete operator meaning. -/
def slDemo : Func :=
  { name := "f", params := [.tensor "A", .tensor "B"], retCount := none,
    body := [
      .assign "x" (.binop "Add" (.var "A") (.lit (.int 1))),
      .assign "y" (.cmp "NotEq" (.var "x") (.var "B")),
      .ret [.var "y", .var "A"] false] }

def Sdemo : Sem Int where
  op := fun _ name ins attrs =>
    match name, ins with
    | "Constant", [] => (match attrs with | [(_, .const "i:1")] => some [1] | _ => some [0])
    | "CastLike", [some a, some _] => some [a]
    | "Add", [some a, some b] => some [a + b]
    | "Equal", [some a, some b] => some [if a = b then 1 else 0]
    | "Not", [some a] => some [if a = 0 then 1 else 0]
    | "Identity", [some a] => some [a]
    | _, _ => none
  truth := fun v => some (v ≠ 0)
  natOf := fun v => some v.toNat
  ofNat := fun n => Int.ofNat n
  ofBool := fun b => if b then 1 else 0

example : straightLine slDemo.body = true ∧ (convert slDemo).toOption.isSome = true
    ∧ evalFunc Sdemo 0 slDemo [4, 5] = some [0, 4] := by
  refine ⟨by decide, by decide +kernel, by decide +kernel⟩

/-- Non-vacuity of the tuple part of stage 1: `two = 2; x, y = Dup(A); z = x + y; return z, A` (a literal-valued
variable next to a tuple assignment). -/
def slTupleDemo : Func :=
  { name := "f", params := [.tensor "A"], retCount := none,
    body := [
      .assign "two" (.lit (.int 2)),
      .tuple ["x", "y"] (.call "" "Dup" { known := false, variadic := false, homog := false, tvs := [] } [.var "A"] []),
      .assign "z" (.binop "Add" (.var "x") (.var "y")),
      .ret [.var "z", .var "A"] false] }

def SdemoDup : Sem Int where
  op := fun _ name ins _ =>
    match name, ins with
    | "Constant", [] => some [2]
    | "Dup", [some a] => some [a, a + 1]
    | "Add", [some a, some b] => some [a + b]
    | "Identity", [some a] => some [a]
    | _, _ => none
  truth := fun v => some (v ≠ 0)
  natOf := fun v => some v.toNat
  ofNat := fun n => Int.ofNat n
  ofBool := fun b => if b then 1 else 0

example : straightLineT slTupleDemo.body = true ∧ straightLine slTupleDemo.body = false
    ∧ forLine slTupleDemo.body = false
    ∧ evalFunc SdemoDup 0 slTupleDemo [4] = some [9, 4]
    ∧ (match convert slTupleDemo with
       | .ok g => evalGraph SdemoDup 0 g [4] == some [9, 4]
       | .error _ => false) = true := by
  refine ⟨by decide +kernel, by decide +kernel, by decide +kernel, by decide +kernel, by decide +kernel⟩

/-! ### The refinement, second stage: nested `if`/`else` -/

/-- **`convert_correct`, stage 2 (straight-line code with `if`/`else` nested to any depth).**  For every
function whose body consists of assignments and parallel assignments of tensor-valued expressions (anything
but a bare or negated literal), docstrings, and `if <expr>: … else: …` over such statements — branches may
assign a variable in one branch only, define new variables, alias outer values, nest further `if`s — followed
by `return e1, …, en`, with parameters of distinct names: whenever the model converter accepts it and
reading the source as plain Python over tensors yields outputs `vs`, the emitted graph — `If` nodes with
subgraphs, their outputs `assigned ∩ live_out`, `Identity` copies of outer values — evaluates to exactly `vs`,
for **every** input and **every** meaning of the operators (`Constant` total, `Identity` the identity).
The proof is a forward simulation whose invariant relates only the *live* Python variables to ONNX values
(`OV.C01.Inv`); it uses `liveness` pass-through, the freshness and scoping theorems of C02, and the castable
bookkeeping of the un-executed branch.
Attribute parameters: as in stage 1 (`hσ`), provided none is assigned, read as a bare right-hand side or used as a
loop condition anywhere in the body (`hattr`, over `targetsBlock`; a re-bound one would have to leave an `If` as a
value in one branch and as an attribute in the other).  The condition of an `if` may be a Python value (`if flag:` on a
`bool` attribute parameter): `hTL` — the constant of a Python value is as true as Python finds the value.  `hPy`: the
names `S.pyVars` sets aside as holding Python scalars (see stage 4; may be empty) are not bound here.
`_partial`: loops are not covered here (see `convert_correct_for_partial`), nor tuple assignment; a bare literal may
not be *assigned* here (stage 4 allows it at top level; under control flow it would lose its polymorphism at the `If`
boundary: C01-D24). -/
theorem convert_correct_ite_partial {V : Type} (S : Sem V)
    (hConst : ∀ l, ∃ c, constOf S l = some c)
    (hId : ∀ v, S.op "" "Identity" [some v] [] = some [v])
    (hTL : ∀ l c b, constOf S l = some c → truthPV S (.py l) = some b → S.truth c = some b)
    (f : Func) (g : Graph) (hil : ifLine f.body = true)
    (hattr : ∀ p, p ∈ attrParams f.params → p ∉ targetsBlock f.body)
    (hσ : ∀ x l, S.attrLit x = some l → ∃ ty, Param.attr x ty ∈ f.params ∧ AttrVal S x ty l)
    (hPy : ∀ x, x ∈ S.pyVars → x ∉ targetsBlock f.body)
    (hnames : (f.params.map Param.name).Nodup) (h : convert f = .ok g)
    (fuel : Nat) (args vs : List V) (he : evalFunc S fuel f args = some vs) :
    evalGraph S fuel g args = some vs :=
  convert_correct_if S hConst hId hTL hil hattr hσ hPy hnames h he

/-- Non-vacuity: `x = A + 1; if c: y = x != B  else: (if d: y = x  else: x = B; y = x + 1); return y, x` —
`y` defined in both branches, `x` re-assigned in one inner branch only, an outer value aliased in a branch. -/
def ifDemo : Func :=
  { name := "f", params := [.tensor "A", .tensor "B", .tensor "c", .tensor "d"], retCount := none,
    body := [
      .assign "x" (.binop "Add" (.var "A") (.lit (.int 1))),
      .ite (.var "c")
        [.assign "y" (.cmp "NotEq" (.var "x") (.var "B"))]
        [.ite (.var "d")
          [.assign "y" (.var "x")]
          [.assign "x" (.var "B"), .assign "y" (.binop "Add" (.var "x") (.lit (.int 1)))]],
      .ret [.var "y", .var "x"] false] }

example : ifLine ifDemo.body = true ∧ (convert ifDemo).toOption.isSome = true
    ∧ evalFunc Sdemo 0 ifDemo [4, 7, 0, 0] = some [8, 7]
    ∧ evalFunc Sdemo 0 ifDemo [4, 7, 0, 1] = some [5, 5]
    ∧ evalFunc Sdemo 0 ifDemo [4, 5, 1, 0] = some [0, 5] := by
  refine ⟨by decide, by decide +kernel, by decide +kernel, by decide +kernel, by decide +kernel⟩

/-! ### The refinement, third stage: `for i in range(n)` -/

/-- **`convert_correct`, stage 3 (assignments, nested `if`/`else`, `for i in range(n)` and `while t` loops, with
`break`).**  For every function whose body consists of statements of the `if` fragment (see
`convert_correct_ite_partial`) and top-level loops `for i in range(<expr>): <if-fragment body> [if b: break]` or
`while t: <if-fragment body> [if b: break]` — the body may re-assign outer variables (loop-carried state), read
outer values it never assigns (captured), branch on them, run zero times, and end in `if b: break` — followed
by `return e1, …, en`: whenever the model converter accepts it and reading the source as plain Python yields
`vs`, the emitted graph — a `Loop` node (trip count for `for`, initial condition for `while`) whose body graph
takes `(i, cond_in, state…)`, computes `cond_out` as `Identity(cond_in)` / `Not(b)` for `for` and `Identity(t)` /
`And(t, Not(b))` for `while`, and whose state is `assigned ∩ (exposed uses ∪ live_out)` in sorted order —
evaluates to exactly `vs` at some fuel (hence at every larger one: `evalGraph_fuel_mono`), for **every** input,
trip count and operator meaning (`Constant` total, `Identity` the identity, `true` truthy, `Not` negating truth,
`And` with a false right operand false and with a true one as true as its left operand, and — `hNat` — the constant
of an integer literal `k` read as the trip count `max k 0`, so that the bound may be a literal: `range(3)`).
The proof is a simulation by induction on the remaining trip count (`for`) resp. on the source fuel (`while`)
with the invariant of stage 2 (`OV.C01.Inv`) re-established at the head of every iteration (`OV.C01.for_step`,
`forB_step`, `while_core`, `whileB_core`); after a `break` the ONNX loop stops on the false `cond_out` with the
state of that very iteration, as Python does.
Side conditions: `forOK` — the loop variable is not assigned in the body; `whileOK` — the condition variable is
loop-carried or recomputed in the body before anything reads it; both — the liveness iteration reached its
fixpoint (`stableStmt`; the real analysis iterates until it does).  That a `for` variable is not read after the
loop is not a hypothesis: such loops are refused (`loop_variable_live_after_loop_refused`); that a `while` body
cannot see the iteration counter holds since 0fa00ae (C01-D39).
`_partial`: no loop nested in a loop or in a branch, no tuple assignment, no literal-valued variables (all: stage 4);
attribute parameters as in stage 2 (`hattr`, `hσ`, `hTL`, `hPy`). -/
theorem convert_correct_for_partial {V : Type} (S : Sem V)
    (hConst : ∀ l, ∃ c, constOf S l = some c)
    (hId : ∀ v, S.op "" "Identity" [some v] [] = some [v])
    (hTL : ∀ l c b, constOf S l = some c → truthPV S (.py l) = some b → S.truth c = some b)
    (hT : S.truth (S.ofBool true) = some true)
    (hNat : ∀ k c, constOf S (.int k) = some c → S.natOf c = some k.toNat)
    (hNot : ∀ v b, S.truth v = some b → ∃ w, S.op "" "Not" [some v] [] = some [w] ∧ S.truth w = some (!b))
    (hAnd : ∀ x y yb, S.truth y = some yb → ∃ w, S.op "" "And" [some x, some y] [] = some [w] ∧
      (yb = false → S.truth w = some false) ∧ (yb = true → S.truth w = S.truth x))
    (f : Func) (g : Graph) (hfl : forLine f.body = true)
    (hattr : ∀ p, p ∈ attrParams f.params → p ∉ targetsBlock f.body)
    (hσ : ∀ x l, S.attrLit x = some l → ∃ ty, Param.attr x ty ∈ f.params ∧ AttrVal S x ty l)
    (hPy : ∀ x, x ∈ S.pyVars → x ∉ targetsBlock f.body)
    (hnames : (f.params.map Param.name).Nodup) (h : convert f = .ok g)
    (fuel : Nat) (args vs : List V) (he : evalFunc S fuel f args = some vs) :
    ∃ fuel', evalGraph S fuel' g args = some vs :=
  convert_correct_for S hConst hId hTL hT hNat hNot hAnd hfl hattr hσ hPy hnames h he

/-- Graph evaluation is monotone in the fuel, so "some fuel" above means "every large enough fuel". -/
theorem evalGraph_fuel_mono {V : Type} (S : Sem V) (g : Graph) (args vs : List V) (f f' : Nat) (hle : f ≤ f')
    (h : evalGraph S f g args = some vs) : evalGraph S f' g args = some vs := by
  unfold evalGraph at h ⊢
  by_cases hl : args.length = g.inputs.length
  · simp only [hl, if_true] at h ⊢
    cases he : evalNodes S f (Env.setMany (fun _ => none) g.inputs args) g.nodes with
    | none => simp [he] at h
    | some r =>
      rw [evalNodes_mono S g.nodes f f' _ r hle he]
      simpa [he] using h
  · simp [hl] at h

/-- Non-vacuity: `acc = A; t = B; for i in range(n): (if c: acc = acc + t  else: t = acc + i); return acc, t` —
two loop-carried variables each re-assigned in one branch only, a captured outer value `c`, the loop
variable read in the body; run with three trips on either branch and with zero trips. -/
def forDemo : Func :=
  { name := "f", params := [.tensor "A", .tensor "B", .tensor "n", .tensor "c"], retCount := none,
    body := [
      .assign "acc" (.var "A"),
      .assign "t" (.var "B"),
      .for_ "i" true (.var "n")
        [.ite (.var "c")
          [.assign "acc" (.binop "Add" (.var "acc") (.var "t"))]
          [.assign "t" (.binop "Add" (.var "acc") (.var "i"))]],
      .ret [.var "acc", .var "t"] false] }

example : forLine forDemo.body = true ∧ (convert forDemo).toOption.isSome = true
    ∧ evalFunc Sdemo 0 forDemo [1, 10, 3, 1] = some [31, 10]
    ∧ evalFunc Sdemo 0 forDemo [1, 10, 3, 0] = some [1, 3]
    ∧ evalFunc Sdemo 0 forDemo [1, 10, 0, 1] = some [1, 10]
    ∧ (match convert forDemo with
       | .ok g => evalGraph Sdemo 6 g [1, 10, 3, 0] == some [1, 3]
       | .error _ => false) = true := by
  refine ⟨by decide +kernel, by decide +kernel, by decide +kernel, by decide +kernel, by decide +kernel,
    by decide +kernel⟩

/-- Non-vacuity with `break`: `acc = A; for i in range(n): acc = acc + B; stop = acc == lim; if stop: break;
return acc` — leaves the loop in the third of five trips, runs all five, or none. -/
def forBrkDemo : Func :=
  { name := "f", params := [.tensor "A", .tensor "B", .tensor "n", .tensor "lim"], retCount := none,
    body := [
      .assign "acc" (.var "A"),
      .for_ "i" true (.var "n")
        [.assign "acc" (.binop "Add" (.var "acc") (.var "B")),
         .assign "stop" (.cmp "Eq" (.var "acc") (.var "lim")),
         .brk (.var "stop")],
      .ret [.var "acc"] false] }

example : forLine forBrkDemo.body = true ∧ (convert forBrkDemo).toOption.isSome = true
    ∧ evalFunc Sdemo 0 forBrkDemo [0, 2, 5, 6] = some [6]
    ∧ evalFunc Sdemo 0 forBrkDemo [0, 2, 5, 99] = some [10]
    ∧ evalFunc Sdemo 0 forBrkDemo [0, 2, 0, 6] = some [0]
    ∧ (match convert forBrkDemo with
       | .ok g => evalGraph Sdemo 7 g [0, 2, 5, 6] == some [6]
       | .error _ => false) = true := by
  refine ⟨by decide +kernel, by decide +kernel, by decide +kernel, by decide +kernel, by decide +kernel,
    by decide +kernel⟩

/-! ### The refinement, fourth stage: loops nested in loops and branches -/

/-- **`convert_correct`, stage 4 (loops nested in loops and branches, to any depth).**  For every function whose
body consists of statements of the nested-loop fragment `nestStmt` — assignments and parallel assignments of
tensor-valued expressions, tuple assignments `x, y = op.Foo(…)` from a multi-output operator, `if`/`else`, `for i in range(<expr>)` and `while t` loops, **nested in each other to any
depth** (a loop in a loop body, a loop in a branch, a branch in a loop, …) — or of the stage-3 fragment (top-level
loops over `if`-fragment bodies, where a trailing `if b: break` is allowed), followed by `return e1, …, en`:
whenever the model converter accepts it and reading the source as plain Python yields `vs`, the emitted graph —
`Loop` nodes whose body graphs contain `Loop` and `If` nodes reading values of all enclosing scopes — evaluates to
exactly `vs` at some fuel (hence at every larger one), for every input, all trip counts (zero trips of an inner
loop in a later outer iteration included) and every operator meaning satisfying the hypotheses of stage 3.
Proof: `OV/Lemmas/C01SimNest.lean`.  The simulations of one loop (`for_step`, `while_core`) are parametric in
what they need to know about the loop body (`BodyFacts`: how it runs, that its translation simulates it at every
large enough fuel, castable bookkeeping, no top-level `break`, and three liveness facts relating live-in sets to
the *exposed uses* from which `loop_state_vars` is computed); `nestBlock_sim` establishes these facts for every
block of the fragment by mutual structural recursion, the liveness facts by induction on the analysis' own
fixpoint iterations (`nestStmt_mono`, `nestStmt_toExp`, `nestStmt_ofExp`), for which the fixpoints need to be
reached only at the live-out sets the analysis itself computes.
Side conditions (`nestStmt`), per loop at its own live-out set: those of stage 3 (`for` variable not assigned in
the body, `while` condition variable loop-carried or recomputed before any read, liveness fixpoint reached), and —
listed explicitly although acceptance implies it (`loop_variable_live_after_loop_refused`) — the `for` variable
not live after its loop.
Variables holding Python scalars: a top-level `x = <literal>` is part of the fragment.  The invariant then asks every
variable *except the names in `S.pyVars`* to hold a tensor (`S.pyVars` is a proof device — a list of names carried
by `S` that nothing evaluates); `hLT` puts the literal-assigned names `litTargets f.body` into it, `hPy` and `hattr`
say that no statement other than those top-level assignments binds such a name or an attribute parameter, or reads
it as a bare right-hand side / loop condition (`targetsTop f.body`).  That is the complement of the open finding
C01-D24 (a literal-valued variable re-assigned under control flow, or carried by a loop, loses its polymorphism).
`_partial`: a trailing `break` only in top-level loops over `if`-fragment bodies. -/
theorem convert_correct_nested_partial {V : Type} (S : Sem V)
    (hConst : ∀ l, ∃ c, constOf S l = some c)
    (hId : ∀ v, S.op "" "Identity" [some v] [] = some [v])
    (hTL : ∀ l c b, constOf S l = some c → truthPV S (.py l) = some b → S.truth c = some b)
    (hT : S.truth (S.ofBool true) = some true)
    (hNat : ∀ k c, constOf S (.int k) = some c → S.natOf c = some k.toNat)
    (hNot : ∀ v b, S.truth v = some b → ∃ w, S.op "" "Not" [some v] [] = some [w] ∧ S.truth w = some (!b))
    (hAnd : ∀ x y yb, S.truth y = some yb → ∃ w, S.op "" "And" [some x, some y] [] = some [w] ∧
      (yb = false → S.truth w = some false) ∧ (yb = true → S.truth w = S.truth x))
    (f : Func) (g : Graph) (hnl : nestLine f.body = true)
    (hattr : ∀ p, p ∈ attrParams f.params → p ∉ targetsTop f.body)
    (hσ : ∀ x l, S.attrLit x = some l → ∃ ty, Param.attr x ty ∈ f.params ∧ AttrVal S x ty l)
    (hPy : ∀ x, x ∈ S.pyVars → x ∉ targetsTop f.body)
    (hLT : ∀ x, x ∈ litTargets f.body → S.attrLit x = none ∧ x ∈ S.pyVars)
    (hnames : (f.params.map Param.name).Nodup) (h : convert f = .ok g)
    (fuel : Nat) (args vs : List V) (he : evalFunc S fuel f args = some vs) :
    ∃ fuel', evalGraph S fuel' g args = some vs :=
  convert_correct_nest S hConst hId hTL hT hNat hNot hAnd hnl hattr hσ hPy hLT hnames h he

/-- Non-vacuity: a loop in a loop (the inner trip count `rem` shrinks to zero in later outer iterations, `t` is
only assigned by the inner loop and read after it), an `if` in the inner loop, and a loop in a branch:
`acc = A; t = B; rem = n; for i in range(n): (for j in range(rem): if c: t = acc + j else: t = t + A); acc = acc + t;
rem = rem + m; if c: (for k in range(n): acc = acc + A) else: acc = acc + B; return acc, t` with `m = -1`. -/
def nestDemo : Func :=
  { name := "f", params := [.tensor "A", .tensor "B", .tensor "n", .tensor "c", .tensor "m"], retCount := none,
    body := [
      .assign "acc" (.var "A"),
      .assign "t" (.var "B"),
      .assign "rem" (.var "n"),
      .for_ "i" true (.var "n")
        [.for_ "j" true (.var "rem")
           [.ite (.var "c")
              [.assign "t" (.binop "Add" (.var "acc") (.var "j"))]
              [.assign "t" (.binop "Add" (.var "t") (.var "A"))]],
         .assign "acc" (.binop "Add" (.var "acc") (.var "t")),
         .assign "rem" (.binop "Add" (.var "rem") (.var "m"))],
      .ite (.var "c")
        [.for_ "k" true (.var "n") [.assign "acc" (.binop "Add" (.var "acc") (.var "A"))]]
        [.assign "acc" (.binop "Add" (.var "acc") (.var "B"))],
      .ret [.var "acc", .var "t"] false] }

example : nestLine nestDemo.body = true ∧ forLine nestDemo.body = false
    ∧ (convert nestDemo).toOption.isSome = true
    ∧ (match convert nestDemo, evalFunc Sdemo 0 nestDemo [1, 10, 3, 1, -1],
             evalFunc Sdemo 0 nestDemo [1, 10, 3, 0, -1], evalFunc Sdemo 0 nestDemo [1, 10, 0, 1, -1] with
       | .ok g, some r1, some r2, some r3 =>
         evalGraph Sdemo 12 g [1, 10, 3, 1, -1] == some r1 && evalGraph Sdemo 12 g [1, 10, 3, 0, -1] == some r2
           && evalGraph Sdemo 12 g [1, 10, 0, 1, -1] == some r3
       | _, _, _, _ => false) = true := by
  refine ⟨by decide +kernel, by decide +kernel, by decide +kernel, by decide +kernel⟩

/-- Operators over `Int` with a two-output operator (`Dup a = (a, a + 1)`). -/
def S2 : Sem Int where
  op := fun _ name ins _ =>
    match name, ins with
    | "Dup", [some a] => some [a, a + 1]
    | "Add", [some a, some b] => some [a + b]
    | "Identity", [some a] => some [a]
    | _, _ => none
  truth := fun v => some (v ≠ 0)
  natOf := fun v => some v.toNat
  ofNat := fun n => Int.ofNat n
  ofBool := fun b => if b then 1 else 0

/-- Non-vacuity of the tuple-assignment part: `for i in range(n): x, y = Dup(acc); acc = x + y; return acc`. -/
def tupleDemo : Func :=
  { name := "f", params := [.tensor "A", .tensor "n"], retCount := none,
    body := [
      .assign "acc" (.var "A"),
      .for_ "i" true (.var "n")
        [.tuple ["x", "y"] (.call "" "Dup" { known := false, variadic := false, homog := false, tvs := [] } [.var "acc"] []),
         .assign "acc" (.binop "Add" (.var "x") (.var "y"))],
      .ret [.var "acc"] false] }

example : nestLine tupleDemo.body = true ∧ forLine tupleDemo.body = false
    ∧ evalFunc S2 0 tupleDemo [1, 3] = some [15]
    ∧ (match convert tupleDemo with
       | .ok g => evalGraph S2 8 g [1, 3] == some [15]
       | .error _ => false) = true := by
  refine ⟨by decide +kernel, by decide +kernel, by decide +kernel, by decide +kernel⟩

/-- Non-vacuity of the literal-bound part: `acc = A; for i in range(3): acc = acc + acc; return acc`, under a meaning
that reads the literal's constant as the trip count. -/
def litBoundDemo : Func :=
  { name := "f", params := [.tensor "A"], retCount := none,
    body := [
      .assign "acc" (.var "A"),
      .for_ "i" true (.lit (.int 3)) [.assign "acc" (.binop "Add" (.var "acc") (.var "acc"))],
      .ret [.var "acc"] false] }

def S4 : Sem Int where
  op := fun _ name ins attrs =>
    match name, ins with
    | "Constant", [] => (match attrs with | [(_, .const "i:3")] => some [3] | _ => some [0])
    | "Add", [some a, some b] => some [a + b]
    | "Identity", [some a] => some [a]
    | _, _ => none
  truth := fun v => some (v ≠ 0)
  natOf := fun v => some v.toNat
  ofNat := fun n => Int.ofNat n
  ofBool := fun b => if b then 1 else 0

example : forLine litBoundDemo.body = true ∧ nestLine litBoundDemo.body = true
    ∧ evalFunc S4 0 litBoundDemo [5] = some [40]
    ∧ (match convert litBoundDemo with
       | .ok g => evalGraph S4 6 g [5] == some [40]
       | .error _ => false) = true := by
  refine ⟨by decide +kernel, by decide +kernel, by decide +kernel, by decide +kernel⟩

/-- Operators over `Int` with one that reads an attribute: `Scale(a, alpha=@alpha)` is `3·a` (the meaning `S` closes
over the attribute's value), `Scale(a, alpha=<const>)` is `a`. -/
def S3 : Sem Int where
  op := fun _ name ins attrs =>
    match name, ins with
    | "Scale", [some a] => (match attrs with | [(_, .ref "alpha")] => some [3 * a] | _ => some [a])
    | "Identity", [some a] => some [a]
    | _, _ => none
  truth := fun v => some (v ≠ 0)
  natOf := fun v => some v.toNat
  ofNat := fun n => Int.ofNat n
  ofBool := fun b => if b then 1 else 0

/-- Non-vacuity of the attribute-parameter part: `def f(A, n, alpha: float, unused: int): acc = A;
for i in range(n): acc = op.Scale(acc, alpha=alpha); return acc` — an attribute parameter forwarded to an operator
inside a loop and one that is never used; `hattr` holds (neither is assigned). -/
def attrDemo : Func :=
  { name := "f", params := [.tensor "A", .tensor "n", .attr "alpha" .float, .attr "unused" .int], retCount := none,
    body := [
      .assign "acc" (.var "A"),
      .for_ "i" true (.var "n")
        [.assign "acc" (.call "" "Scale" { known := false, variadic := false, homog := false, tvs := [] }
          [.var "acc"] [("alpha", .ref "alpha")])],
      .ret [.var "acc"] false] }

example : nestLine attrDemo.body = true
    ∧ (attrParams attrDemo.params).all (fun p => !(targetsBlock attrDemo.body).contains p) = true
    ∧ evalFunc S3 0 attrDemo [2, 3] = some [54]
    ∧ (match convert attrDemo with
       | .ok g => evalGraph S3 8 g [2, 3] == some [54]
       | .error _ => false) = true := by
  refine ⟨by decide +kernel, by decide +kernel, by decide +kernel, by decide +kernel⟩

/-- Non-vacuity of the literal-variable part of stage 4: `two = 2; acc = A; for i in range(n): acc = acc + two;
return acc + two` — a variable holding a Python scalar, read inside a loop and after it.  `S6` sets it aside
(`pyVars`), which is all `hPy` / `hLT` ask. -/
def litVarDemo : Func :=
  { name := "f", params := [.tensor "A", .tensor "n"], retCount := none,
    body := [
      .assign "two" (.lit (.int 2)),
      .assign "acc" (.var "A"),
      .for_ "i" true (.var "n") [.assign "acc" (.binop "Add" (.var "acc") (.var "two"))],
      .ret [.binop "Add" (.var "acc") (.var "two")] false] }

def S6 : Sem Int where
  op := fun _ name ins attrs =>
    match name, ins with
    | "Constant", [] => (match attrs with | [(_, .const "i:2")] => some [2] | _ => some [0])
    | "CastLike", [some a, some _] => some [a]
    | "Add", [some a, some b] => some [a + b]
    | "Identity", [some a] => some [a]
    | _, _ => none
  truth := fun v => some (v ≠ 0)
  natOf := fun v => some v.toNat
  ofNat := fun n => Int.ofNat n
  ofBool := fun b => if b then 1 else 0
  pyVars := ["two"]

example : nestLine litVarDemo.body = true ∧ litTargets litVarDemo.body = ["two"]
    ∧ (S6.pyVars.all (fun x => !(targetsTop litVarDemo.body).contains x)) = true
    ∧ evalFunc S6 0 litVarDemo [1, 3] = some [9]
    ∧ (match convert litVarDemo with
       | .ok g => evalGraph S6 8 g [1, 3] == some [9]
       | .error _ => false) = true := by
  refine ⟨by decide +kernel, by decide +kernel, by decide +kernel, by decide +kernel, by decide +kernel⟩

/-- Operators over `Int` where the attribute parameter `alpha` has the Python value `7`: `Constant(value_int=@alpha)`
is `7`, like the `Constant` of the literal `7`. -/
def S5 : Sem Int where
  op := fun _ name ins attrs =>
    match name, ins with
    | "Constant", [] =>
      (match attrs with
       | [(_, .const "i:7")] => some [7]
       | [(_, .ref "alpha")] => some [7]
       | _ => some [0])
    | "CastLike", [some a, some _] => some [a]
    | "Add", [some a, some b] => some [a + b]
    | "Mul", [some a, some b] => some [a * b]
    | "Identity", [some a] => some [a]
    | _, _ => none
  truth := fun v => some (v ≠ 0)
  natOf := fun v => some v.toNat
  ofNat := fun n => Int.ofNat n
  ofBool := fun b => if b then 1 else 0
  attrLit := fun x => if x = "alpha" then some (.int 7) else none

/-- Non-vacuity of "attribute parameters read as values": `def f(A, n, alpha: int): acc = A;
for i in range(n): acc = acc * alpha + A; return acc + alpha` — the attribute is an operand inside the loop and in
the returned expression; source and graph agree under `S5`. -/
def attrValDemo : Func :=
  { name := "f", params := [.tensor "A", .tensor "n", .attr "alpha" .int], retCount := none,
    body := [
      .assign "acc" (.var "A"),
      .for_ "i" true (.var "n")
        [.assign "acc" (.binop "Add" (.binop "Mult" (.var "acc") (.var "alpha")) (.var "A"))],
      .ret [.binop "Add" (.var "acc") (.var "alpha")] false] }

example : nestLine attrValDemo.body = true
    ∧ (attrParams attrValDemo.params).all (fun p => !(targetsBlock attrValDemo.body).contains p) = true
    ∧ evalFunc S5 0 attrValDemo [1, 2] = some [64]
    ∧ (match convert attrValDemo with
       | .ok g => evalGraph S5 8 g [1, 2] == some [64]
       | .error _ => false) = true := by
  refine ⟨by decide +kernel, by decide +kernel, by decide +kernel, by decide +kernel⟩

/-- … and `S5` satisfies the hypothesis `hσ` of the theorems for that function. -/
example : ∀ x l, S5.attrLit x = some l →
    ∃ ty, Param.attr x ty ∈ attrValDemo.params ∧ AttrVal S5 x ty l := by
  intro x l h
  by_cases hx : x = "alpha"
  · subst hx
    simp only [S5, if_true] at h
    cases h
    refine ⟨.int, by simp [attrValDemo], ?_⟩
    intro c hc
    have h7 : constOf S5 (.int 7) = some 7 := by decide +kernel
    have hc7 : c = 7 := by rw [h7] at hc; cases hc; rfl
    subst hc7
    rw [if_neg (by decide)]
    exact ⟨"value_int", rfl, rfl⟩
  · simp [S5, hx] at h

/-! ### Static `if` on a name of the surroundings -/

/-- **A parameter (or any local name) is never a static condition** (C01-D45, fixed by 11e898c): whatever the
closure and the module bind, `if p:` on a parameter or on a name the function assigns keeps both branches.  Before
the fix a module global named like the parameter decided the branch and the graph ignored the input. -/
theorem static_if_never_on_a_local_name (nonlocals globals : List (Name × Lit)) (f : Func) (x : Name)
    (t e : List Stmt) (hx : x ∈ resolveBound f) :
    foldStmt (envLookup nonlocals globals) (resolveBound f) (.ite (.var x) t e)
      = [.ite (.var x) (foldBlock (envLookup nonlocals globals) (resolveBound f) t)
          (foldBlock (envLookup nonlocals globals) (resolveBound f) e)] := by
  simp [foldStmt, hx]

/-- … and on a name that is not local and that the surroundings bind to a constant, exactly the branch Python's
`bool(value)` selects is kept (closure variables first: `env_lookup_closure_first`). -/
theorem static_if_takes_the_outer_value (nonlocals globals : List (Name × Lit)) (bound : VSet) (x : Name) (l : Lit)
    (t e : List Stmt) (hx : x ∉ bound) (hl : envLookup nonlocals globals x = some l) :
    foldStmt (envLookup nonlocals globals) bound (.ite (.var x) t e)
      = foldBlock (envLookup nonlocals globals) bound (if litTruth l then t else e) := by
  cases hb : litTruth l <;> simp [foldStmt, hx, hl, hb]

/-! ### `to_model_proto`: the exported model means the function at its attribute defaults -/

/-- **`exported_model_means_function_at_defaults`.**  For every graph `g`, every list `ds` of attribute parameters
with their defaults, every operator meaning `S`, fuel and inputs: the main graph `to_model_proto` builds from `g`
(3382c7a: every reference `@p`, at any depth of `If`/`Loop` bodies, replaced by the default of `p`) evaluates to
exactly what `g` evaluates to when every operator resolves `@p` to that default (`S.atDefaults ds`).  Before
3382c7a the references stayed in the main graph, where nothing gives them a value (C01-D41). -/
theorem exported_model_means_function_at_defaults {V : Type} (S : Sem V) (ds : List (Name × Option String))
    (g g' : Graph) (h : exportModel ds g = .ok g') (fuel : Nat) (args : List V) :
    evalGraph S fuel g' args = evalGraph (S.atDefaults ds) fuel g args :=
  exportModel_eval S h fuel args

/-- **The exported model refines the source function** (stage 4 composed with the export): for a function of the
nested-loop fragment that forwards attribute parameters to operators, the model `to_model_proto` builds evaluates
to what the source yields as plain Python when those attribute parameters have their default values.  The
hypotheses on the operator meaning are those of `convert_correct_nested_partial`, stated for `S` itself (they do
not mention attribute references). -/
theorem exported_model_correct_nested_partial {V : Type} (S : Sem V)
    (hConst : ∀ l, ∃ c, constOf S l = some c)
    (hId : ∀ v, S.op "" "Identity" [some v] [] = some [v])
    (hTL : ∀ l c b, constOf S l = some c → truthPV S (.py l) = some b → S.truth c = some b)
    (hT : S.truth (S.ofBool true) = some true)
    (hNat : ∀ k c, constOf S (.int k) = some c → S.natOf c = some k.toNat)
    (hNot : ∀ v b, S.truth v = some b → ∃ w, S.op "" "Not" [some v] [] = some [w] ∧ S.truth w = some (!b))
    (hAnd : ∀ x y yb, S.truth y = some yb → ∃ w, S.op "" "And" [some x, some y] [] = some [w] ∧
      (yb = false → S.truth w = some false) ∧ (yb = true → S.truth w = S.truth x))
    (ds : List (Name × Option String))
    (f : Func) (g g' : Graph) (hnl : nestLine f.body = true)
    (hattr : ∀ p, p ∈ attrParams f.params → p ∉ targetsTop f.body)
    (hσ : ∀ x l, (S.atDefaults ds).attrLit x = some l →
      ∃ ty, Param.attr x ty ∈ f.params ∧ AttrVal (S.atDefaults ds) x ty l)
    (hPy : ∀ x, x ∈ S.pyVars → x ∉ targetsTop f.body)
    (hLT : ∀ x, x ∈ litTargets f.body → S.attrLit x = none ∧ x ∈ S.pyVars)
    (hnames : (f.params.map Param.name).Nodup) (h : convert f = .ok g) (hx : exportModel ds g = .ok g')
    (fuel : Nat) (args vs : List V) (he : evalFunc (S.atDefaults ds) fuel f args = some vs) :
    ∃ fuel', evalGraph S fuel' g' args = some vs := by
  have hc : ∀ l, constOf (S.atDefaults ds) l = constOf S l := fun l => by
    simp [constOf, Sem.atDefaults, exportAttr]
  obtain ⟨G, hG⟩ := convert_correct_nest (S.atDefaults ds)
    (fun l => by rw [hc]; exact hConst l)
    (fun v => by simpa [Sem.atDefaults] using hId v)
    (fun l c b hcl hb => by
      rw [hc] at hcl
      have hb' : truthPV S (.py l) = some b := by cases l <;> simpa [truthPV] using hb
      simpa [Sem.atDefaults] using hTL l c b hcl hb')
    (by simpa [Sem.atDefaults] using hT)
    (fun k c hk => by rw [hc] at hk; simpa [Sem.atDefaults] using hNat k c hk)
    (fun v b hv => by simpa [Sem.atDefaults] using hNot v b hv)
    (fun x y yb hy => by simpa [Sem.atDefaults] using hAnd x y yb hy)
    hnl hattr hσ hPy hLT hnames h he
  exact ⟨G, by rw [exportModel_eval S hx]; exact hG⟩

/-- Non-vacuity: `attrDemo` exported with `alpha = 0.5`, `unused = 1` — the exported graph has no reference left and,
under `S3` (where `Scale` with a constant `alpha` is the identity and with `@alpha` triples), evaluates to what the
source yields with the attribute at its default. -/
example : (match convert attrDemo with
       | .ok g =>
         (match exportModel [("alpha", some "f:0.5"), ("unused", some "i:1")] g with
          | .ok g' => (attrRefs g'.nodes).isEmpty && (evalGraph S3 8 g' [2, 3] == some [2])
          | .error _ => false)
       | .error _ => false) = true
    ∧ evalFunc (S3.atDefaults [("alpha", some "f:0.5"), ("unused", some "i:1")]) 0 attrDemo [2, 3] = some [2] := by
  refine ⟨by decide +kernel, by decide +kernel⟩

/-! ### The names a script function reads from its surroundings (`script()`: closure variables, then module globals) -/

/-- **`env_lookup_closure_first`.**  `script()` hands the converter `env = module.__dict__` updated with
`inspect.getclosurevars(f).nonlocals`: a variable of an enclosing function wins over a module global of the same
name, as in Python (and hence in eager execution). -/
theorem env_lookup_closure_first (nonlocals globals : List (Name × Lit)) (x : Name) (l : Lit)
    (h : alookup nonlocals x = some l) : envLookup nonlocals globals x = some l := by
  simp [envLookup, h]

/-- … and a name that no enclosing function binds is read from the module globals. -/
theorem env_lookup_global_otherwise (nonlocals globals : List (Name × Lit)) (x : Name)
    (h : alookup nonlocals x = none) : envLookup nonlocals globals x = alookup globals x := by
  simp [envLookup, h]

/-- **A name assigned anywhere in the function is local to it** (C01-D42, fixed by c2aeb08): whatever the closure
and the module bind, a parameter or a name the function assigns somewhere is never read from the surroundings —
also on a path that has not assigned it yet (there the converter reports `Unbound name`, as Python raises
`UnboundLocalError`).  Before the fix `_lookup` fell back to a module global of the same name. -/
theorem assigned_name_never_resolved (nonlocals globals : List (Name × Lit)) (f : Func) (d : VSet) (x : Name)
    (hd : assignedBlock f.body = some d) (hx : x ∈ d ∨ x ∈ f.params.map Param.name) :
    substExpr (envLookup nonlocals globals) (resolveBound f) (.var x) = .var x := by
  have hb : x ∈ resolveBound f := by
    unfold resolveBound
    rw [hd]
    rcases hx with h | h
    · exact mem_vunion.mpr (Or.inr h)
    · exact mem_vunion.mpr (Or.inl (mem_vofList.mpr h))
  simp only [substExpr, List.contains_iff_mem]
  rw [if_pos hb]

/-- The right operand of the returned product, if it is a float literal. -/
def retFactor : List Stmt → Option String
  | [.ret [.binop _ _ (.lit (.flt false m))] _] => some m
  | _ => none

/-- Non-vacuity: `def make(gain): @script() def f(A): return A * gain` called with `3.0` in a module whose global
`gain` is `10.0`: the converter sees `A * 3.0`; with no enclosing binding it sees `A * 10.0`; a name that is a
parameter of the function is never resolved from the surroundings. -/
example :
    let f : Func := { name := "f", params := [.tensor "A"], retCount := none,
                      body := [.ret [.binop "Mult" (.var "A") (.var "gain")] false] }
    retFactor (resolveEnv [("gain", .flt false "3.0")] [("gain", .flt false "10.0")] f).body = some "3.0"
    ∧ retFactor (resolveEnv [] [("gain", .flt false "10.0")] f).body = some "10.0"
    ∧ retFactor (resolveEnv [("A", .flt false "3.0")] [] f).body = none := by
  refine ⟨by decide, by decide, by decide⟩

/-! ### Regression witnesses of the two fixed findings C01-D23 (4304e8f) and C01-D25 (87ad64d) -/

/-- A concrete meaning of operators over `Int` (only what the witnesses use). -/
def S0 : Sem Int where
  op := fun _ name ins _ =>
    match name, ins with
    | "Neg", [some a] => some [-a]
    | "Abs", [some a] => some [Int.ofNat a.natAbs]
    | "Sub", [some a, some b] => some [a - b]
    | "Add", [some a, some b] => some [a + b]
    | "Identity", [some a] => some [a]
    | _, _ => none
  truth := fun v => some (v ≠ 0)
  natOf := fun v => some v.toNat
  ofNat := fun n => Int.ofNat n
  ofBool := fun b => if b then 1 else 0

/-- `for i in range(n): x = y` with `x` live afterwards: before fix 4304e8f the analysis reported
`live_in = {y}` (the zero-trip path and the loop bound were missing, finding C01-D23); now `n`, `x`, `y`. -/
def zeroTrip : Stmt := .for_ "i" true (.var "n") [.assign "x" (.var "y")]

example : liveInStmt zeroTrip ["x"] = ["n", "x", "y"] := by decide

def tsig : Sig := { known := true, variadic := false, homog := true, tvs := [some "T"] }
def tsig2 : Sig := { known := true, variadic := false, homog := true, tvs := [some "T", some "T"] }

/-- `x = Neg(A); y = Abs(B); x, y = y, x; return Sub(x, y)` — before fix 87ad64d the graph computed
`Sub(y, y)` (finding C01-D25).  It is straight-line, so `convert_correct_partial` covers it; concretely, on
`A = 1, B = 10` source and graph both give `11`. -/
def swapProg : Func :=
  { name := "f", params := [.tensor "A", .tensor "B"], retCount := none,
    body := [
      .assign "x" (.call "" "Neg" tsig [.var "A"] []),
      .assign "y" (.call "" "Abs" tsig [.var "B"] []),
      .par ["x", "y"] [.var "y", .var "x"],
      .ret [.call "" "Sub" tsig2 [.var "x", .var "y"] []] false] }

example : straightLine swapProg.body = true ∧ evalFunc S0 0 swapProg [1, 10] = some [11]
    ∧ (match convert swapProg with
       | .ok g => evalGraph S0 0 g [1, 10] == some [11]
       | .error _ => false) = true := by
  refine ⟨by decide, by decide +kernel, by decide +kernel⟩

/-! ### The refusals and the repair added by 9b326d7 (C01-D31), 9f69276 (C01-D33), ddfea30 (C01-D27) -/

/-- `x = Identity(A); i = Add(A, A); for i in range(n): x = Add(x, A); return x, i` -/
def loopVarProg : Func :=
  { name := "f", params := [.tensor "A", .tensor "n"], retCount := none,
    body := [
      .assign "x" (.call "" "Identity" tsig [.var "A"] []),
      .assign "i" (.call "" "Add" tsig2 [.var "A", .var "A"] []),
      .for_ "i" true (.var "n") [.assign "x" (.call "" "Add" tsig2 [.var "x", .var "A"] [])],
      .ret [.var "x", .var "i"] false] }

/-- **A `for` loop whose loop variable is read after the loop is refused** (C01-D31, fixed by 9b326d7).  Python
leaves the last index in the loop variable; the translation binds it only inside the loop body, so before the fix
the graph silently used the value from before the loop (`loopVarProg`: Python `[3, 1]`, graph `[3, 2]`).  Now,
whatever the scope, bound, body and converter state, `convStmt` fails when `i ∈ live_out`.  This is what lets
`convert_correct_for_partial` go without a side condition on the uses of the loop variable. -/
theorem loop_variable_live_after_loop_refused (L : Locals) (i : Name) (ok : Bool) (b : Expr) (body : List Stmt)
    (lo : VSet) (hi : i ∈ lo) (s : St) (r : (Locals × List Node) × St) :
    convStmt L (.for_ i ok b body) lo s ≠ .ok r :=
  for_live_target_refused L i ok b body lo hi s r

/-- Regression witness of C01-D31: the program is refused with a TranslationError; with the second returned
value dropped it is accepted and agrees with Python. -/
example : (match convert loopVarProg with | .error .translation => true | _ => false) = true
    ∧ evalFunc S0 5 { loopVarProg with body := loopVarProg.body.dropLast ++ [.ret [.var "x"] false] } [1, 2] = some [3]
    ∧ (match convert { loopVarProg with body := loopVarProg.body.dropLast ++ [.ret [.var "x"] false] } with
       | .ok g => evalGraph S0 5 g [1, 2] == some [3]
       | .error _ => false) = true := by
  refine ⟨by decide +kernel, by decide +kernel, by decide +kernel⟩

/-- `x = Neg(A); return x; return Abs(A)` -/
def twoReturns : Func :=
  { name := "f", params := [.tensor "A"], retCount := none,
    body := [
      .assign "x" (.call "" "Neg" tsig [.var "A"] []),
      .ret [.var "x"] false,
      .ret [.call "" "Abs" tsig [.var "A"] []] false] }

/-- **A `return` that is not the last statement of the function body is refused** (C01-D33, fixed by 9f69276).
Before the fix every top-level `return` appended to the graph outputs (`twoReturns`: Python one value, graph
two). -/
theorem non_last_return_refused (inputs : List Name) (rc : Option Nat) (L : Locals) (es : List Expr) (bare : Bool)
    (st : Stmt) (ss : List Stmt) (outs : List Name) (s : St) (r : (List Node × List Name) × St) :
    convTop inputs rc L (.ret es bare :: st :: ss) outs s ≠ .ok r :=
  OV.C01.non_last_return_refused inputs rc L es bare st ss outs s r

example : (match convert twoReturns with | .error .translation => true | _ => false) = true := by decide +kernel

/-! ### `while` with a trailing break (C01-D27, fixed by ddfea30), and C01-D24 -/

def bsig : Sig := { known := true, variadic := false, homog := true, tvs := [some "T", some "T"] }

/-- `while c: x = Add(x, x); c = Less(x, lim); b = Greater(x, big); if b: break` -/
def whileBreak : Func :=
  { name := "f", params := [.tensor "x0", .tensor "lim", .tensor "big", .tensor "c0"], retCount := none,
    body := [
      .assign "x" (.call "" "Identity" tsig [.var "x0"] []),
      .assign "c" (.call "" "Identity" tsig [.var "c0"] []),
      .while_ (.var "c") [
        .assign "x" (.call "" "Add" bsig [.var "x", .var "x"] []),
        .assign "c" (.call "" "Less" bsig [.var "x", .var "lim"] []),
        .assign "b" (.call "" "Greater" bsig [.var "x", .var "big"] []),
        .brk (.var "b")],
      .ret [.var "x"] false] }

/-- The node computing a Loop body's first output (the continuation condition). -/
def condNodeOfFirstLoop : List Node → Option Node
  | .loop _ _ _ _ _ bn (co :: _) :: _ => bn.find? (fun n => n.outs.contains co)
  | _ :: rest => condNodeOfFirstLoop rest
  | [] => none

/-- Operators over `Int` for the `while` witness (booleans as 0/1). -/
def S1 : Sem Int where
  op := fun _ name ins _ =>
    match name, ins with
    | "Add", [some a, some b] => some [a + b]
    | "Less", [some a, some b] => some [if a < b then 1 else 0]
    | "Greater", [some a, some b] => some [if a > b then 1 else 0]
    | "Not", [some a] => some [if a = 0 then 1 else 0]
    | "And", [some a, some b] => some [if a ≠ 0 ∧ b ≠ 0 then 1 else 0]
    | "Identity", [some a] => some [a]
    | _, _ => none
  truth := fun v => some (v ≠ 0)
  natOf := fun v => some v.toNat
  ofNat := fun n => Int.ofNat n
  ofBool := fun b => if b then 1 else 0

/-- Regression witness of C01-D27 (fixed by ddfea30).  Before the fix the continuation condition of the Loop body
was `Not(b)` alone, so the re-computed `while` condition `c` was ignored after the first iteration (this input:
Python `16`, graph `128`).  Now it is `And(c, Not(b))`, and source and graph agree when the loop ends through `c`
(lim = 10) as well as through the `break` (big = 7).  The program is in the fragment of
`convert_correct_for_partial` (non-vacuity of its `while` + `break` part). -/
theorem while_break_keeps_condition_witness :
    forLine whileBreak.body = true ∧
    (match convert whileBreak with
     | .ok g =>
       (match condNodeOfFirstLoop g.nodes with
        | some (.op _ "And" [some _, some _] _ _) => true
        | _ => false)
       && evalGraph S1 12 g [1, 10, 100, 1] == some [16] && evalGraph S1 12 g [1, 100, 7, 1] == some [8]
     | .error _ => false) = true
    ∧ evalFunc S1 12 whileBreak [1, 10, 100, 1] = some [16]
    ∧ evalFunc S1 12 whileBreak [1, 100, 7, 1] = some [8] := by
  refine ⟨by decide +kernel, by decide +kernel, by decide +kernel, by decide +kernel⟩

/-- `il = Add(x0, x0); x = Identity(x0); c = Identity(c0); while c: x = Add(x, infinite_loop); c = Less(x, lim)` with
the user variable `il` spelled `infinite_loop`. -/
def capProg : Func :=
  { name := "f", params := [.tensor "x0", .tensor "lim", .tensor "c0"], retCount := none,
    body := [
      .assign "infinite_loop" (.call "" "Add" bsig [.var "x0", .var "x0"] []),
      .assign "x" (.call "" "Identity" tsig [.var "x0"] []),
      .assign "c" (.call "" "Identity" tsig [.var "c0"] []),
      .while_ (.var "c") [
        .assign "x" (.call "" "Add" bsig [.var "x", .var "infinite_loop"] []),
        .assign "c" (.call "" "Less" bsig [.var "x", .var "lim"] [])],
      .ret [.var "x"] false] }

def firstLoopBody : List Node → Option (List Name × List Node)
  | .loop _ _ _ _ bi bn _ :: _ => some (bi, bn)
  | _ :: rest => firstLoopBody rest
  | [] => none

/-- Regression witness of C01-D39 (fixed by 0fa00ae).  `_translate_loop_stmt` used to bind the placeholder name
`infinite_loop` to the iteration-number input of a `while` loop's body graph, so a user variable of that name was
captured inside the body (the `Add` read the iteration counter: `1, 2, 4, 7, 11` where Python has `1, 3, 5, 7, 9`).
Now the body reads the outer value, source and graph agree, and the program is in the fragment of
`convert_correct_for_partial`. -/
theorem while_does_not_capture_infinite_loop_witness :
    forLine capProg.body = true ∧
    (match convert capProg with
     | .ok g =>
       (match firstLoopBody g.nodes with
        | some (iv :: _, .op _ "Add" [_, some y] _ _ :: _) => y != iv
        | _ => false)
       && evalGraph S1 12 g [1, 8, 1] == some [9]
     | .error _ => false) = true
    ∧ evalFunc S1 12 capProg [1, 8, 1] = some [9] := by
  refine ⟨by decide +kernel, by decide +kernel, by decide +kernel⟩

/-- `if c: x = 1 else: x = 2; y = A + x` -/
def castLost : Func :=
  { name := "f", params := [.tensor "A", .tensor "c"], retCount := none,
    body := [
      .ite (.var "c") [.assign "x" (.lit (.int 1))] [.assign "x" (.lit (.int 2))],
      .assign "y" (.binop "Add" (.var "A") (.var "x")),
      .ret [.var "y"] false] }

def hasOp (name : String) : List Node → Bool
  | [] => false
  | .op _ n _ _ _ :: rest => n == name || hasOp name rest
  | _ :: rest => hasOp name rest

/-- Finding C01-D24: the literal assigned in the branches comes out of the `If` as an ordinary (int64) value; the
following `Add(A, x)` gets no `CastLike`, whereas beside a literal operand it does (`A + 1`). -/
theorem castable_lost_at_if_witness :
    (match convert castLost with
     | .ok g => !hasOp "CastLike" g.nodes && hasOp "Add" g.nodes
     | .error _ => false) = true
    ∧ (match convert { castLost with body := [.assign "y" (.binop "Add" (.var "A") (.lit (.int 1))), .ret [.var "y"] false] } with
       | .ok g => hasOp "CastLike" g.nodes
       | .error _ => false) = true := by
  constructor <;> decide +kernel

/-! ## The eager calling convention (`OnnxFunction.__call__` → `eval_function`; model: `OV/Model/C01Eager.lean`)

`pyBind` is what CPython does when the *underlying Python function* is called with the caller's positional and
keyword arguments (the plain-Python reading of a call); `eagerCall` is `tag_arguments_with_signature` +
the two `_adapt_to_eager_mode` loops of `eval_function` + CPython's binding of `function(*adapted_args,
**adapted_kwargs)`.  `sigMatch ps qs`: the `op_signature` `script()` derived and `inspect.signature` of the
Python function describe the same `def` (decided by the driver on every real signature of the tie stream). -/
section Eager
open OV.C01.Eager

/-- `tag_arguments_with_signature(sig, args, kwargs, fill_defaults=False)` on **every** call CPython itself would
accept (any number of positionals ≤ the arity, any keywords naming the other parameters, defaults): it raises
nothing and pairs each value with exactly the parameter CPython would bind it to — the positional ones in order,
the keyword ones in *parameter* order, omitted defaulted parameters left to CPython.  (Since 29a1f68 the function
checks `param.name in kwargs` for positionally given parameters, so distinct parameter names are needed here too.) -/
theorem eager_tagging_is_python_binding {A} (allowExtra : Bool) (d : SigParam → A) (ps : List SigParam)
    (qs : List (PyParam A)) (args : List A) (kw env : List (Name × A))
    (h : sigMatch ps qs = true) (hnd : nodupP ps = true) (hpy : pyBind qs args kw = .ok env) :
    tagArguments false allowExtra d ps args kw = .ok (tagSpec kw args ps) :=
  tagArguments_spec allowExtra d ps qs args kw env h hnd hpy

/-- **`eager_is_python`** (DESIGN §5): for every signature (any mix of tensor and attribute parameters, with or
without defaults), every call — positional, keyword, in any order, defaults omitted — that is defined as a plain
Python call (`pyBind … = ok env`), every kind of argument value (arrays, Tensors, Python scalars, `None`, nested
lists / tuples, foreign objects) and either setting of `_ignore_unknown_function_kwargs`: the body of the script
function starts from exactly the environment CPython would have built, with the value of every *tensor*
parameter promoted by `_adapt_to_eager_mode` and every attribute value untouched; it raises exactly when one
of those promotions raises (same exception, the first in parameter order); and `has_array` is "some tensor
parameter's value contains a numpy array". -/
theorem eager_is_python {V} (mk : Mk V) (allowExtra : Bool) (ps : List SigParam) (qs : List (PyParam (Arg V)))
    (args : List (Arg V)) (kw env : List (Name × Arg V))
    (h : sigMatch ps qs = true) (hnd : nodupP ps = true) (hpy : pyBind qs args kw = .ok env) :
    eagerCall mk allowExtra ps qs args kw =
      match adaptEnv mk ps env with
      | .error e => .error e
      | .ok env' => .ok (env', flagEnv ps env) :=
  eagerCall_python mk allowExtra ps qs args kw env h hnd hpy

/-- `def f(A, B, alpha: float = 2.0, k: int = 1)` as `script()` and as CPython see it -/
def eagerSig : List SigParam :=
  [⟨"A", true, false, true, false⟩, ⟨"B", true, false, true, false⟩,
   ⟨"alpha", false, false, false, true⟩, ⟨"k", false, false, false, true⟩]
def eagerPy : List (PyParam (Arg Nat)) :=
  [⟨"A", none⟩, ⟨"B", none⟩, ⟨"alpha", some (.flt "2.0")⟩, ⟨"k", some (.int 1)⟩]
def mkN : Mk Nat := ⟨fun b => if b then 1001 else 1000, fun _ => 2000, fun i => 3000 + i.toNat⟩

/-- non-vacuity of `eager_is_python`: `f(a7, k=5, B=[a8, 3])` — a keyword call out of order with a nested list;
the hypotheses hold and the body starts from `A = Tensor(7), B = [Tensor(8), Tensor(int64 3)], alpha = 2.0, k = 5` -/
example : sigMatch eagerSig eagerPy = true ∧ nodupP eagerSig = true
    ∧ pyBind eagerPy [Arg.arr 7] [("k", .int 5), ("B", .list [.arr 8, .int 3])]
        = .ok [("A", .arr 7), ("B", .list [.arr 8, .int 3]), ("alpha", .flt "2.0"), ("k", .int 5)]
    ∧ eagerCall mkN false eagerSig eagerPy [Arg.arr 7] [("k", .int 5), ("B", .list [.arr 8, .int 3])]
        = .ok ([("A", .ten 7), ("B", .list [.ten 8, .ten 3003]), ("alpha", .flt "2.0"), ("k", .int 5)], true) :=
  ⟨rfl, rfl, rfl, rfl⟩

/-- The result side of `eval_function`: a value made of arrays, `None`, lists and tuples survives the round trip
`_adapt_to_user_mode ∘ _adapt_to_eager_mode` unchanged (what a function that returns its argument hands back
when `has_array` is set), for every nesting depth. -/
theorem eager_result_roundtrip {V} (mk : Mk V) (x : Arg V) (hx : userVal x = true) :
    ∃ y, adapt mk x = .ok y ∧ toUser y = .ok x :=
  toUser_adapt mk x hx

example : userVal (Arg.tuple [.arr 1, .none, .list [.arr 2]] : Arg Nat) = true := rfl

/-- Regression witness of the fixed finding C01-D49 (29a1f68): `f(A, B, 3.0, 2, C)` — a fifth positional argument
for four parameters — and `f(A, B, A=C)` — a keyword repeating a positional parameter — are `TypeError`s for the
Python function, and `tag_arguments_with_signature` now raises for both ("Too many positional arguments" / "Got
multiple values for argument"); before the fix it dropped the surplus value and ran the body on `[1, 2, 3.0, 2]`
resp. `[1, 2, 2.0, 1]`. -/
theorem eager_surplus_and_duplicate_refused_witness :
    pyBind eagerPy [Arg.arr 1, .arr 2, .flt "3.0", .int 2, .arr 3] [] = .error .tooMany
    ∧ eagerCall mkN false eagerSig eagerPy [Arg.arr 1, .arr 2, .flt "3.0", .int 2, .arr 3] [] = .error .tooMany
    ∧ pyBind eagerPy [Arg.arr 1, .arr 2] [("A", .arr 3)] = .error .badKw
    ∧ eagerCall mkN false eagerSig eagerPy [Arg.arr 1, .arr 2] [("A", .arr 3)] = .error .badKw
    ∧ eagerCall mkN true eagerSig eagerPy [Arg.arr 1, .arr 2] [("A", .arr 3)] = .error .badKw :=
  ⟨rfl, rfl, rfl, rfl, rfl⟩

/-- **`eager_defined_only_where_python_is`** — the converse of `eager_is_python`, now without a side condition on the call
(hypothesis `sigMatch`; stated for `_ignore_unknown_function_kwargs` off) (it was
`…_partial` with the hypotheses "no surplus positionals" and "no keyword repeats a positional" while C01-D49 was
open; 29a1f68 made `tag_arguments_with_signature` refuse both): with `_ignore_unknown_function_kwargs` off, for every
signature, every positional / keyword call and every kind of value, if eager mode reaches the body of the script
function then the call is one CPython accepts for the Python function.  Missing arguments, unknown keywords, surplus
positionals and repeated parameters are all refused, by `tag_arguments_with_signature` or by CPython's own binding
of the adapted arguments.  (With the option on, unknown keywords are dropped by design: `eager_refusals_witness`.) -/
theorem eager_defined_only_where_python_is {V} (mk : Mk V) (ps : List SigParam)
    (qs : List (PyParam (Arg V))) (args : List (Arg V)) (kw : List (Name × Arg V))
    (h : sigMatch ps qs = true)
    (hok : ∃ r, eagerCall mk false ps qs args kw = .ok r) : ∃ env, pyBind qs args kw = .ok env :=
  eagerCall_ok_python mk ps qs args kw h hok

/-- non-vacuity: `f(a7, k=5, B=[a8, 3])` reaches the body -/
example : sigMatch eagerSig eagerPy = true
    ∧ ∃ r, eagerCall mkN false eagerSig eagerPy [Arg.arr 7] [("k", .int 5), ("B", .list [.arr 8, .int 3])] = .ok r :=
  ⟨rfl, _, rfl⟩

/-- what eager mode does refuse, on the demo signature: a missing tensor argument, an unknown keyword (with
`_ignore_unknown_function_kwargs` it is dropped before CPython sees it), a `str` / numpy scalar for a tensor parameter — and it does not look at
attribute values at all (`alpha="x"` reaches the body). -/
theorem eager_refusals_witness :
    eagerCall mkN false eagerSig eagerPy [Arg.arr 1] [] = .error .missing
    ∧ eagerCall mkN false eagerSig eagerPy [Arg.arr 1, .arr 2] [("zeta", .int 1)] = .error .unexpectedKw
    ∧ eagerCall mkN true eagerSig eagerPy [Arg.arr 1, .arr 2] [("zeta", .int 1)]
        = .ok ([("A", .ten 1), ("B", .ten 2), ("alpha", .flt "2.0"), ("k", .int 1)], true)
    ∧ eagerCall mkN false eagerSig eagerPy [Arg.arr 1, .other "str"] [] = .error .badInput
    ∧ eagerCall mkN false eagerSig eagerPy [Arg.arr 1, .tuple [.arr 2, .other "float32"]] [] = .error .badInput
    ∧ eagerCall mkN false eagerSig eagerPy [Arg.ten 1, .int 2] [("alpha", .other "str")]
        = .ok ([("A", .ten 1), ("B", .ten 3002), ("alpha", .other "str"), ("k", .int 1)], false) :=
  ⟨rfl, rfl, rfl, rfl, rfl, rfl⟩

/-- **Eager entry = the entry of the source semantics** (`evalFunc`): a function whose parameters are all tensors,
called eagerly with one array per parameter.  `eval_function` reaches the body with an environment that, read as a
store, is exactly the store `evalFunc S fuel f vs` starts from (`Store.setMany ∅ (tensorParams f.params) (vs.map PV.t)`),
and `has_array` is set (results come back as arrays) unless there are no parameters.  Together with the
refinement theorems (`convert_correct_*_partial`: `evalFunc … = some out → evalGraph … = some out`) this is the chain
eager call → plain-Python meaning of the source → exported graph, all three on the same `vs`. -/
theorem eager_arrays_entry_is_evalFunc_entry {V} (mk : Mk V) (allowExtra : Bool) (f : Func) (vs : List V)
    (hall : ∀ p ∈ f.params, ∃ x, p = Param.tensor x) (hnd : (tensorParams f.params).Nodup)
    (hlen : vs.length = (tensorParams f.params).length) :
    ∃ env, eagerCall mk allowExtra (f.params.map paramSig) (f.params.map paramPy) (vs.map Arg.arr) []
        = .ok (env, !vs.isEmpty)
      ∧ ∀ x, Store.setMany (fun _ => none) (tensorParams f.params) (vs.map PV.t) x =
          match lk x env with
          | some (.ten v) => some (PV.t v)
          | _ => none := by
  obtain ⟨h1, h2⟩ := params_all_tensor (V := V) f.params hall
  refine ⟨(tensorParams f.params).zip (vs.map Arg.ten), ?_, ?_⟩
  · rw [h1, h2]; exact eagerCall_arrays mk allowExtra _ vs hnd hlen
  · intro x; exact setMany_eq_lk _ vs _ x hnd hlen

/-- non-vacuity: `def f(A, B)` called as `f(a1, a2)` -/
example : (∀ p ∈ [Param.tensor "A", Param.tensor "B"], ∃ x, p = Param.tensor x)
    ∧ (tensorParams [Param.tensor "A", Param.tensor "B"]).Nodup
    ∧ eagerCall mkN false ([Param.tensor "A", Param.tensor "B"].map paramSig)
        ([Param.tensor "A", Param.tensor "B"].map paramPy) ([1, 2].map Arg.arr) []
        = .ok ([("A", .ten 1), ("B", .ten 2)], true) :=
  ⟨by intro p hp; simp at hp; rcases hp with rfl | rfl <;> exact ⟨_, rfl⟩, by decide, rfl⟩

/-! ### `separate_input_attributes_from_arguments` (inputs and attributes of `op.Foo(a, b, k=…)` in `_translate_call_expr`) -/

/-- For every signature without a variadic parameter, every positional / keyword call in which the required
parameters are given (a required attribute may have a default) and no keyword is unknown (or unknown keywords
are allowed), `separate_input_attributes_from_arguments(sig, args, kwargs, fill_defaults=False)` returns: one slot
per input parameter **in signature order** holding the value given positionally or by keyword, `None` for an
omitted optional input, with the `None`s at the end removed — and the given attributes in signature order.
(The loop with its `trailing_placeholders` counter = the closed form `trimNone ∘ inputSlots`.) -/
theorem separate_inputs_attributes_spec {A} (allowExtraKw : Bool) (d : SigParam → A) (ps : List SigParam)
    (args : List A) (kw : List (Name × A)) (hv : noVariadic ps = true) (hr : requiredGiven kw args 0 ps = true)
    (hk : kw.any (fun e => !(ps.any (fun p => p.name = e.1))) = false ∨ allowExtraKw = true) :
    separate false allowExtraKw true d ps args kw
      = .ok (trimNone (inputSlots kw args 0 ps), attrSlots kw args 0 ps) :=
  separate_spec allowExtraKw d ps args kw hv hr hk

/-- **An input keeps the position of its parameter** (the ∀ form of the C01-D43 fix b7afd5e): under the hypotheses
above, if the `j`-th input parameter is given the value `v` (positionally or by keyword), the `j`-th ONNX input of the
call is `v` — however many optional inputs before it are omitted. -/
theorem separate_keeps_positions {A} (allowExtraKw : Bool) (d : SigParam → A) (ps : List SigParam)
    (args : List A) (kw : List (Name × A)) (hv : noVariadic ps = true) (hr : requiredGiven kw args 0 ps = true)
    (hk : kw.any (fun e => !(ps.any (fun p => p.name = e.1))) = false ∨ allowExtraKw = true)
    (j : Nat) (v : A) (hj : (inputSlots kw args 0 ps)[j]? = some (some v)) :
    ∃ ins attrs, separate false allowExtraKw true d ps args kw = .ok (ins, attrs) ∧ ins[j]? = some (some v) :=
  ⟨_, _, separate_spec allowExtraKw d ps args kw hv hr hk, trimNone_get _ j v hj⟩

/-- **Variadic signatures** (`Sum`, `Max`, `Concat`, …: one variadic input `p` between a non-variadic prefix `pre` and a
non-variadic rest `post`): the variadic parameter takes every positional argument from its own index on, the
parameters after it can only be given by keyword, and the result is again the closed form — the slots of `pre`, the
variadic values, the slots of `post`, trailing placeholders dropped; for either value of `allow_extra_args`. -/
theorem separate_variadic_spec {A} (allowExtraKw allowExtraArgs : Bool) (d : SigParam → A) (pre post : List SigParam)
    (p : SigParam) (args : List A) (kw : List (Name × A)) (hp : (p.isInput && p.variadic) = true)
    (hpre : noVariadic pre = true) (hpost : noVariadic post = true)
    (hr1 : requiredGiven kw args 0 pre = true) (hr2 : requiredGiven kw [] (pre.length + 1) post = true)
    (hk : kw.any (fun e => !((pre ++ p :: post).any (fun q => q.name = e.1))) = false ∨ allowExtraKw = true) :
    separate false allowExtraKw allowExtraArgs d (pre ++ p :: post) args kw =
      .ok (trimNone (inputSlots kw args 0 pre ++ (args.drop pre.length).map some
              ++ inputSlots kw [] (pre.length + 1) post),
           attrSlots kw args 0 pre ++ attrSlots kw [] (pre.length + 1) post) :=
  separate_variadic allowExtraKw allowExtraArgs d pre post p args kw hp hpre hpost hr1 hr2 hk

/-- non-vacuity: `op.Concat(a, b, axis=1)` (`Concat(inputs…, axis)`) -/
example : let p : SigParam := ⟨"inputs", true, true, true, false⟩
    let post : List SigParam := [⟨"axis", false, false, true, false⟩]
    (p.isInput && p.variadic) = true ∧ noVariadic post = true ∧ requiredGiven [("axis", "1")] ([] : List String) 1 post = true
    ∧ separate false false false (fun _ => "") ([] ++ p :: post) ["a", "b"] [("axis", "1")]
        = .ok ([some "a", some "b"], [("axis", "1")]) :=
  ⟨rfl, rfl, rfl, rfl⟩

/-- `Clip(input, min?, max?)` and `Sum(data_0, …)` as signatures -/
def clipSig : List SigParam :=
  [⟨"input", true, false, true, false⟩, ⟨"min", true, false, false, false⟩, ⟨"max", true, false, false, false⟩]
def sumSig : List SigParam := [⟨"data_0", true, true, true, false⟩]

/-- non-vacuity and regression witnesses: `op.Clip(x, max=hi)` is `Clip(x, None, hi)` (C01-D43), `op.Clip(x)` and
`op.Clip(x, min=lo)` drop the trailing placeholders, a variadic parameter takes all remaining positionals, a missing
required input and an unknown keyword are `TypeError`s, surplus positionals are dropped unless `allow_extra_args=False`. -/
theorem separate_witnesses :
    noVariadic clipSig = true ∧ requiredGiven [("max", "hi")] ["x"] 0 clipSig = true
    ∧ separate false false true (fun _ => "") clipSig ["x"] [("max", "hi")] = .ok ([some "x", none, some "hi"], [])
    ∧ separate false false true (fun _ => "") clipSig ["x"] [] = .ok ([some "x"], [])
    ∧ separate false false true (fun _ => "") clipSig ["x"] [("min", "lo")] = .ok ([some "x", some "lo"], [])
    ∧ separate false false true (fun _ => "") sumSig ["a", "b", "c"] [] = .ok ([some "a", some "b", some "c"], [])
    ∧ separate false false true (fun _ => "") clipSig [] [("max", "hi")] = .error .missing
    ∧ separate false false true (fun _ => "") clipSig ["x"] [("mx", "hi")] = .error .unexpectedKw
    ∧ separate false false true (fun _ => "") clipSig ["x", "lo", "hi", "extra"] [] = .ok ([some "x", some "lo", some "hi"], [])
    ∧ separate false false false (fun _ => "") clipSig ["x", "lo", "hi", "extra"] [] = .error .tooMany := by
  refine ⟨rfl, rfl, rfl, rfl, rfl, rfl, rfl, rfl, rfl, rfl⟩

end Eager

end OV.Props.C01
