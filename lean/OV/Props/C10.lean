import OV.Model.C10VersionConv
import OV.Lemmas.C10
import OV.Lemmas.C10Eval
import OV.Lemmas.C10Fallback
import OV.Lemmas.C10Names
import OV.Lemmas.C10Imports
import OV.Lemmas.C10Meta
import OV.Lemmas.C10History
/-!
# C10 — opset version conversion yields a valid, equivalent model at the target version

Property theorems only.  Model: `OV.Model.C10VersionConv` (`convertVersionApi` transcribes
`version_converter.convert_version` for the `ir.Model` and the `ModelProto` entry, `nativeConvert` the
inner `_version_converter.convert_version`).  Vocabulary (defined in the model file):

* `Op.meaning op v` — what a node computes when read at opset `v` (`none`: not a valid form at `v`);
* `Good μ op v` — the conversion step `v → v+1` on `op` does not raise and preserves the reading `μ`;
  for `μ = fun _ _ => ()` this is exactly "the adapter does not raise" (`good_unit_iff`);
* `SelfConsistent μ s m` — the inputs of the property: a model declaring `s` whose default-domain nodes
  (subgraphs included) are written for `s`, carry no reference attribute, and whose steps are `Good`;
* `AllAt t ns` — every default-domain node of `ns` (subgraphs included) is written for `t`;
* `pmNodes μ d ns` — the readings of the non-auxiliary nodes in order, each at the opset it is written for.
-/
namespace OV.Props.C10
open OV.C10

/-! ## Adapters -/

/-- With the trivial reading, `Good` says only that the adapter does not raise (`AdaptersTotal`). -/
theorem good_unit_iff (op : Op) (v : Nat) : Good (fun _ _ => ()) op v ↔ adapt op v ≠ .raised := by
  unfold Good
  cases h : adapt op v with
  | replaced news => simp [replaced_one_principal h]
  | _ => simp

/-- Steps for which no adapter is registered never change what a node means (the operator forms of
GridSample change only at 19→20, of DFT at 19→20, of GroupNormalization at 20→21). -/
theorem meaning_mono : Mono Op.meaning := meaning_mono_lemma

/-- **`gridsample_19_20`.**  For every GridSample that is valid at opset 19 (every `mode`, `align_corners`,
`padding_mode`), the step 19→20 preserves its meaning: `bilinear ↦ linear`, `bicubic ↦ cubic`, the other
attributes are carried over with their defaults, any other valid mode is left alone. -/
theorem gridsample_mode_rename (mode : Option String) (align : Option Int) (pad : Option String)
    (hvalid : (Op.meaning (.gridSample mode align pad) 19).isSome) :
    Good Op.meaning (.gridSample mode align pad) 19 := by
  unfold Good
  simp only [adapt, if_true, gridsample_19_20]
  cases mode with
  | none => simp [Op.meaning, gsInterp, Option.getD]
  | some m =>
    simp only [Option.getD]
    by_cases h1 : m = "bilinear"
    · subst h1; simp [Op.meaning, gsInterp, pmOps, Op.isAux, Option.getD]
    · by_cases h2 : m = "bicubic"
      · subst h2; simp [Op.meaning, gsInterp, pmOps, Op.isAux, Option.getD]
      · simp only [beq_iff_eq, h1, h2, if_false]
        simp only [Op.meaning, gsInterp, beq_iff_eq, h1, h2, if_false, Nat.le_refl, if_true] at hvalid ⊢
        by_cases h3 : m = "nearest"
        · simp [h3]
        · simp [h3] at hvalid

/-- The two renames, spelled out. -/
theorem gridsample_rename_explicit (align : Option Int) (pad : Option String) :
    adapt (.gridSample (some "bilinear") align pad) 19
      = .replaced [.gridSample (some "linear") (some (align.getD 0)) (some (pad.getD "zeros"))] ∧
    adapt (.gridSample (some "bicubic") align pad) 19
      = .replaced [.gridSample (some "cubic") (some (align.getD 0)) (some (pad.getD "zeros"))] := by
  constructor <;> simp [adapt, gridsample_19_20]

/-- **`dft_19_20`, explicit axis.**  For every axis value, rank, `inverse`, `onesided`, with or without
`dft_length`: the `axis` attribute becomes a constant `axis` input with the same value; the node means the same. -/
theorem dft_axis_attr_eq_input (a : Int) (inv one : Option Int) (hasLen : Bool) (rank : Nat) :
    adapt (.dft (some a) inv one hasLen none rank) 19
      = .replaced [.const true [a], .dft none (some (inv.getD 0)) (some (one.getD 0)) hasLen (some a) rank] ∧
    Good Op.meaning (.dft (some a) inv one hasLen none rank) 19 := by
  refine ⟨by simp [adapt, dft_19_20], ?_⟩
  unfold Good
  simp [adapt, dft_19_20, pmOps, Op.isAux, Op.meaning]

/-- **`dft_19_20`, for every DFT valid at opset 19** (with or without an `axis` attribute, every rank,
`inverse`, `onesided`, `dft_length`): the step 19→20 preserves the meaning.  Without the attribute the
opset-19 default (1) is written into the new `axis` input, so the opset-20 default (-2) never applies.
Full statement — holds since 765f1d4 (finding C10-DFT-AXIS, fixed). -/
theorem dft_default_axis (axis inv one : Option Int) (hasLen : Bool) (rank : Nat) :
    Good Op.meaning (.dft axis inv one hasLen none rank) 19 := by
  unfold Good
  cases axis <;> simp [adapt, dft_19_20, pmOps, Op.isAux, Op.meaning]

/-- The adapter as it was before 765f1d4 did nothing without an `axis` attribute; for rank 4 the untouched
node reads as axis 1 at opset 19 and as axis 2 at opset 20.  (Regression witness, replayed on the real code.) -/
theorem dft_default_axis_prefix_refuted :
    dft_19_20_prefix (.dft none none none false none 4) = .retNone ∧
    Op.meaning (.dft none none none false none 4) 20 ≠ Op.meaning (.dft none none none false none 4) 19 := by
  decide

/-- **Scale rewrite of `groupnormalization_20_21`, tensor level.**  For *every* number of groups `g`,
every group size `k = C/g` and every per-group vector `s` of length `g`:
`Reshape[-1,1] ; Expand[1,k] ; Reshape[-1]` yields a vector of length `g·k` whose entry `a·k + j` is `s[a]`
— channel `a·k+j` belongs to group `a`, so the per-channel vector of opset 21 applies to each channel what
the per-group vector of opset 20 applied to its group. -/
theorem groupnorm_scale_expand {α} (k : Nat) (s : List α) :
    (expandScale k s).length = s.length * k ∧
    ∀ a j, a < s.length → j < k → (expandScale k s)[a * k + j]? = s[a]? := by
  induction s with
  | nil => simp [expandScale, flattenRows, expandRows, reshapeCol]
  | cons x xs ih =>
    have hcons : expandScale k (x :: xs) = List.replicate k x ++ expandScale k xs := by
      simp [expandScale, flattenRows, expandRows, reshapeCol]
    rw [hcons]
    refine ⟨by simp [ih.1, Nat.add_mul, Nat.add_comm], ?_⟩
    intro a j ha hj
    cases a with
    | zero =>
      simp only [Nat.zero_mul, Nat.zero_add]
      rw [List.getElem?_append_left (by simpa using hj)]
      simp [hj]
    | succ a =>
      have hlen : (List.replicate k x).length = k := by simp
      rw [List.getElem?_append_right (by rw [hlen, Nat.succ_mul]; omega)]
      rw [hlen, show (a + 1) * k + j - k = a * k + j by rw [Nat.succ_mul]; omega]
      simpa using ih.2 a j (by simpa using ha) hj

/-- The same, indexed by channel: entry `i` of the expanded vector is `s[i / k]`, for all `i < g·k`. -/
theorem groupnorm_scale_expand_div {α} (k : Nat) (s : List α) (i : Nat) (hi : i < s.length * k) :
    (expandScale k s)[i]? = s[i / k]? := by
  have hk : 0 < k := by
    cases k with
    | zero => simp at hi
    | succ k => omega
  have h1 : i / k < s.length := (Nat.div_lt_iff_lt_mul hk).mpr hi
  have h2 : i % k < k := Nat.mod_lt _ hk
  have := (groupnorm_scale_expand k s).2 (i / k) (i % k) h1 h2
  rwa [Nat.div_add_mod' i k] at this

/-- `GroupNormalization(x:[N,4,…], s:[2], b:[2], num_groups=2)`, every shape static. -/
def gnStatic : GN :=
  { hasX := true, hasScale := true, hasBias := true, groups := some 2, eps := none, c := 4, sLen := 2, bLen := 2,
    xVis := .known, sVis := .known, bVis := .known }

/-- **`groupnormalization_20_21`, full statement (since 090a933).**  For *every* GroupNormalization that is a
valid opset-20 form (inputs present, `num_groups` dividing the channel count, per-group scale and bias) —
whatever its shape annotations show, whatever `epsilon` — the step 20→21 preserves the node's meaning: the
static rewrite when every shape is known, the run-time-ratio rewrite (`Shape`/`Div`/`Concat`) when not,
nothing when `num_groups = C`. -/
theorem groupnorm_good (n : GN) (hvalid : (Op.meaning (.groupNorm n) 20).isSome) :
    Good Op.meaning (.groupNorm n) 20 := good_gn n hvalid

/-- **`groupnorm_none_cases` (since 090a933).**  The adapter returns `None` only when every shape is static and
the static facts say that nothing is to be done; it raises only for an invalid node (a missing input or
`num_groups`); otherwise it rewrites. -/
theorem groupnorm_none_cases (n : GN) (g : Nat) (hg : n.groups = some g)
    (hin : n.hasX = true ∧ n.hasScale = true ∧ n.hasBias = true) :
    (groupnormalization_20_21 (.groupNorm n) = .retNone ↔
      (n.xVis = .known ∧ n.sVis = .known ∧ n.bVis = .known ∧ ¬ (g ≠ n.c ∧ g = n.sLen ∧ g = n.bLen))) ∧
    groupnormalization_20_21 (.groupNorm n) ≠ .raised := by
  obtain ⟨hx, hs, hb⟩ := hin
  simp only [groupnormalization_20_21, hx, hs, hb, hg]
  cases n.xVis <;> cases n.sVis <;> cases n.bVis <;> simp <;> (try (split <;> simp_all)) <;> (try omega)

/-- Before 090a933 (regression witnesses, replayed on the real code): with `x` lacking a shape the adapter raised —
the error was caught and the node stayed in opset-20 form in a model declaring 21 (D13a); with a symbolic
channel dimension it returned `None` although the rewrite was needed, and the stamped node is not a valid
opset-21 form (D13b). -/
theorem groupnorm_prefix_refuted :
    groupnormalization_20_21_prefix (.groupNorm { gnStatic with xVis := .missing }) = .raised ∧
    groupnormalization_20_21_prefix (.groupNorm { gnStatic with xVis := .symbolic }) = .retNone ∧
    Op.meaning (.groupNorm { gnStatic with xVis := .symbolic }) 21 = none ∧
    (Op.meaning (.groupNorm { gnStatic with xVis := .symbolic }) 20).isSome := by decide

/-- **Epsilon preserved.**  Whatever `epsilon` attribute the node carries (or none), the rewritten
GroupNormalization carries the same one.  Holds since 71fb858 (finding C10-GN-EPS, fixed). -/
theorem groupnorm_epsilon_preserved (n : GN) (g : Nat) :
    ∃ n', (gnReplacement n g).getLast? = some (.groupNorm n') ∧ n'.eps = n.eps ∧ n'.groups = n.groups ∧ n'.c = n.c := by
  exact ⟨_, rfl, rfl, rfl, rfl⟩

/-- Before 71fb858 the rewritten node lost `epsilon`: `GroupNormalization(num_groups=2, epsilon=0.5)` on 4
channels then read differently at 21 than the source at 20.  (Regression witness, replayed on the real code.) -/
theorem groupnorm_epsilon_prefix_refuted :
    Op.meaning (gnRewrittenPrefix { gnStatic with eps := some "0.5" } 2) 21
      ≠ Op.meaning (.groupNorm { gnStatic with eps := some "0.5" }) 20 ∧
    Op.meaning ((gnReplacement { gnStatic with eps := some "0.5" } 2).getLast?.getD (.plain "")) 21
      = Op.meaning (.groupNorm { gnStatic with eps := some "0.5" }) 20 := by
  decide

/-! ## The whole conversion -/

/-- **`convert_consistent`, `ir.Model` entry.**  `m` is the model after the inline pass; it is
self-consistent at `s` and no adapter raises on it (`SelfConsistent (fun _ _ => ()) s m`, see
`good_unit_iff`).  Then for every target, every `fallback` value and every behaviour of the C API:
either no exception escapes, the model declares `t` (and only under the `""` key), has no functions, and
every default-domain node — subgraphs of every nesting depth `d` included — is written for `t`; or the model is
exactly what it was. -/
theorem convert_consistent_ir (s t : Nat) (fb : Fallback) {d : Nat} (capi : CApi (NodeD d)) (m0 m : Model (NodeD d))
    (hin : inlineModel m0 = .ok m) (h : SelfConsistent (fun _ _ => ()) s m) :
    ((convertVersionApi .ir fb t capi m0).2 = none ∧
      (convertVersionApi .ir fb t capi m0).1.declared = some t ∧
      (convertVersionApi .ir fb t capi m0).1.aionnx = none ∧
      (convertVersionApi .ir fb t capi m0).1.funcs = [] ∧
      AllAt t (convertVersionApi .ir fb t capi m0).1.nodes)
    ∨ (convertVersionApi .ir fb t capi m0).1 = m := by
  simp only [convertVersionApi, hin]
  rcases requiresInline_spec (fun _ _ => ()) (fun _ _ _ => rfl) s t fb capi m h with ⟨a, b, c, d, e, _⟩ | hm
  · exact Or.inl ⟨a, b, c, d, e⟩
  · exact Or.inr hm

/-- **`convert_consistent`, `ModelProto` entry** (holds since commit 4aa0d5c; before it `declared` stayed
stale — finding D9, fixed).  Either an exception propagates or the conversion is refused and the caller's
proto is exactly what it was (`eraseVersions m0`: a proto has no node versions; the refused/no-op case
returns the inlined model `eraseVersions m` — i.e. "unchanged" there means: graph replaced by the inlined graph, functions
removed, nothing else), or the proto now declares `t`.  Unlike `convert_consistent_ir` the conclusion has NO per-node
conjunct (`AllAt t`): a proto carries no node versions, so "every node is written for `t`" is not stated here. -/
theorem convert_consistent_proto (s t : Nat) (fb : Fallback) {d : Nat} (capi : CApi (NodeD d)) (m0 m : Model (NodeD d))
    (hin : inlineModel (eraseVersions m0) = .ok m) (h : SelfConsistent (fun _ _ => ()) s m) :
    ((convertVersionApi .proto fb t capi m0).2 = none ∧
      (convertVersionApi .proto fb t capi m0).1.declared = some t ∧
      (convertVersionApi .proto fb t capi m0).1.aionnx = none ∧
      (convertVersionApi .proto fb t capi m0).1.funcs = [])
    ∨ (convertVersionApi .proto fb t capi m0).1 = eraseVersions m0
    ∨ (convertVersionApi .proto fb t capi m0).1 = eraseVersions m := by
  simp only [convertVersionApi, hin]
  rcases requiresInline_spec (fun _ _ => ()) (fun _ _ _ => rfl) s t fb capi m h with ⟨a, b, c, d, _, _⟩ | hm
  · rcases hr : requiresInlineCall fb t capi m with ⟨m2, e⟩
    rw [hr] at a b c d
    simp only at a b c d
    subst a
    exact Or.inl ⟨rfl, by simp [eraseVersions, b], by simp [eraseVersions, c], by simp [eraseVersions, d]⟩
  · rcases hr : requiresInlineCall fb t capi m with ⟨m2, e⟩
    rw [hr] at hm
    simp only at hm
    subst hm
    cases e with
    | some e => exact Or.inr (Or.inl rfl)
    | none => exact Or.inr (Or.inr rfl)

/-- **`convert_equivalent`, general form** (hypothesis `Good Op.meaning` on every step; `convert_equivalent_ir`
below discharges it from validity of the source).  Native path, `ir.Model` entry: after a
successful conversion every non-auxiliary node, read at the opset it is now written for, means what the
corresponding source node meant at `s` — in order, subgraphs included — and inputs and initializers are
untouched; on the C-API path the model is the recovered C-API result (contract). -/
theorem convert_equivalent_ir_of_good (s t : Nat) (fb : Fallback) {d : Nat} (capi : CApi (NodeD d)) (m0 m : Model (NodeD d))
    (hin : inlineModel m0 = .ok m) (h : SelfConsistent Op.meaning s m) :
    ((convertVersionApi .ir fb t capi m0).2 = none ∧
      (convertVersionApi .ir fb t capi m0).1.declared = some t ∧
      AllAt t (convertVersionApi .ir fb t capi m0).1.nodes ∧
      ((pmNodes Op.meaning t (convertVersionApi .ir fb t capi m0).1.nodes = pmNodes Op.meaning s m.nodes ∧
        (convertVersionApi .ir fb t capi m0).1.inputs = m.inputs ∧
        (convertVersionApi .ir fb t capi m0).1.inits = m.inits) ∨
       (∃ ns, capi m t = some ns ∧ (convertVersionApi .ir fb t capi m0).1 = recoverFallback m t ns)))
    ∨ (convertVersionApi .ir fb t capi m0).1 = m := by
  simp only [convertVersionApi, hin]
  rcases requiresInline_spec Op.meaning meaning_mono s t fb capi m h with ⟨a, b, _, _, e, f⟩ | hm
  · exact Or.inl ⟨a, b, e, f⟩
  · exact Or.inr hm

/-- **`convert_equivalent`, full statement (since 090a933): no hypothesis on the adapters.**  For every *valid*
self-consistent model at `s` (`ValidModel`: every node a valid operator form at the opset it is written for,
no reference attributes, control-flow nodes own the subgraphs; any nesting depth), every target, `fallback`
value and C-API behaviour: either the model is exactly what it was, or no exception escapes, it declares `t`,
every default-domain node is written for `t`, and (native path) every non-auxiliary node reads at `t` as the
corresponding source node read at `s`, inputs and initializers untouched.  NOT covered: on the path through a successful
ONNX C-API call (second inner disjunct: fallback on and not `18 ≤ s ≤ t ≤ 25` — in particular every downgrade that
converts anything) there is no meaning claim at all, only `= recoverFallback m t ns` for whatever nodes `ns` the C API
returned.  `m` is the model after the inline pass (`hin`). -/
theorem convert_equivalent_ir (s t : Nat) (fb : Fallback) {d : Nat} (capi : CApi (NodeD d)) (m0 m : Model (NodeD d))
    (hin : inlineModel m0 = .ok m) (h : ValidModel s m) :
    ((convertVersionApi .ir fb t capi m0).2 = none ∧
      (convertVersionApi .ir fb t capi m0).1.declared = some t ∧
      AllAt t (convertVersionApi .ir fb t capi m0).1.nodes ∧
      ((pmNodes Op.meaning t (convertVersionApi .ir fb t capi m0).1.nodes = pmNodes Op.meaning s m.nodes ∧
        (convertVersionApi .ir fb t capi m0).1.inputs = m.inputs ∧
        (convertVersionApi .ir fb t capi m0).1.inits = m.inits) ∨
       (∃ ns, capi m t = some ns ∧ (convertVersionApi .ir fb t capi m0).1 = recoverFallback m t ns)))
    ∨ (convertVersionApi .ir fb t capi m0).1 = m :=
  convert_equivalent_ir_of_good s t fb capi m0 m hin h.selfConsistent

/-- **`never_half_converted`, full statement (holds since 090a933).**  A valid model at `s` is either converted
into valid forms at `t` only — every reading is `some`, the model declares `t`, every default-domain node at
every nesting depth is written for `t` — or it is exactly what it was.  No hypothesis on the adapters.  This is a statement
about `nativeConvert` (`_version_converter.convert_version`) only: the public entry reaches it with fallback off, or with
fallback on when `18 ≤ s ≤ t ≤ 25`; the C-API route (every successful downgrade) is outside this theorem. -/
theorem never_half_converted (s t : Nat) {d : Nat} (m : Model (NodeD d)) (h : ValidModel s m) :
    ((nativeConvert t m).2 = none ∧ (nativeConvert t m).1.declared = some t ∧
      AllAt t (nativeConvert t m).1.nodes ∧
      pmNodes Op.meaning t (nativeConvert t m).1.nodes = pmNodes Op.meaning s m.nodes ∧
      ∀ x ∈ pmNodes Op.meaning t (nativeConvert t m).1.nodes, x.isSome)
    ∨ (nativeConvert t m).1 = m := by
  rcases nativeConvert_spec Op.meaning meaning_mono s t m h.selfConsistent with ⟨a, b, _, _, e, f, _, _⟩ | hm
  · exact Or.inl ⟨a, b, e, f, fun x hx => h.readings_valid x (by rw [← f]; exact hx)⟩
  · exact Or.inr hm

/-- The D13a witness: opset 20, `GroupNormalization(x, s:[2], b:[2], num_groups=2)` on 4 channels where `x`
carries no shape annotation. -/
def d13aModel : Model (NodeD 0) :=
  { declared := some 20, aionnx := none, funcs := [], inputs := ["x"], inits := ["s", "b"],
    nodes := [{ leaf := { dflt := true, version := none, refAttr := false,
                          op := .groupNorm { gnStatic with xVis := .missing } },
                bodies := [] }] }

/-- The witness that refuted `never_half_converted` before 090a933 is now converted: 17 nodes written for 21
(the run-time-ratio rewrite), the GroupNormalization reads at 21 as the source read at 20. -/
theorem d13a_fixed :
    ValidModel 20 d13aModel ∧
    (nativeConvert 21 d13aModel).2 = none ∧ (nativeConvert 21 d13aModel).1.declared = some 21 ∧
    (nativeConvert 21 d13aModel).1.nodes.length = 17 ∧
    pmNodes Op.meaning 21 (nativeConvert 21 d13aModel).1.nodes = pmNodes Op.meaning 20 d13aModel.nodes := by
  refine ⟨⟨rfl, rfl, rfl, ?_⟩, by decide⟩
  intro n hn
  rw [List.mem_singleton.mp hn]
  exact ⟨⟨fun _ => rfl, fun _ => rfl, by decide⟩, fun h => absurd rfl h, by simp [d13aModel], by simp [d13aModel]⟩

/-- **When an adapter raises.**  Exactly for a GroupNormalization at the step 20→21 that lacks one of its three
inputs or its `num_groups` attribute — nothing else, no other operator, no other step. -/
theorem adapter_raises_iff (op : Op) (v : Nat) :
    adapt op v = .raised ↔
      ∃ n, op = .groupNorm n ∧ v = 20 ∧ ((n.hasX && n.hasScale && n.hasBias) = false ∨ n.groups = none) :=
  adapt_raised_iff op v

/-- **`convert_consistent`, `ir.Model` entry, structural hypothesis only.**  "No adapter raises" is replaced by what it
amounts to: every GroupNormalization node of the model has its three inputs and `num_groups` (`WellFormedGN`; the rest
of `ShapeModel` says the model is written for `s`, has no reference attributes, control-flow nodes own the subgraphs).
For every such model, target, `fallback` and C-API behaviour the conclusion of `convert_consistent_ir` holds. -/
theorem convert_consistent_ir_wf (s t : Nat) (fb : Fallback) {d : Nat} (capi : CApi (NodeD d)) (m0 m : Model (NodeD d))
    (hin : inlineModel m0 = .ok m) (h : ShapeModel WellFormedGN s m) :
    ((convertVersionApi .ir fb t capi m0).2 = none ∧
      (convertVersionApi .ir fb t capi m0).1.declared = some t ∧
      (convertVersionApi .ir fb t capi m0).1.aionnx = none ∧
      (convertVersionApi .ir fb t capi m0).1.funcs = [] ∧
      AllAt t (convertVersionApi .ir fb t capi m0).1.nodes)
    ∨ (convertVersionApi .ir fb t capi m0).1 = m :=
  convert_consistent_ir s t fb capi m0 m hin h.selfConsistent

/-- The same for the `ModelProto` entry (same restrictions as `convert_consistent_proto`: no `AllAt t` conjunct; the
"unchanged" alternatives are `eraseVersions m0` and the inlined `eraseVersions m`). -/
theorem convert_consistent_proto_wf (s t : Nat) (fb : Fallback) {d : Nat} (capi : CApi (NodeD d)) (m0 m : Model (NodeD d))
    (hin : inlineModel (eraseVersions m0) = .ok m) (h : ShapeModel WellFormedGN s m) :
    ((convertVersionApi .proto fb t capi m0).2 = none ∧
      (convertVersionApi .proto fb t capi m0).1.declared = some t ∧
      (convertVersionApi .proto fb t capi m0).1.aionnx = none ∧
      (convertVersionApi .proto fb t capi m0).1.funcs = [])
    ∨ (convertVersionApi .proto fb t capi m0).1 = eraseVersions m0
    ∨ (convertVersionApi .proto fb t capi m0).1 = eraseVersions m :=
  convert_consistent_proto s t fb capi m0 m hin h.selfConsistent

/-- opset 18: `GroupNormalization(x, scale)` — the required `bias` input is missing -/
def gnNoBiasModel : Model (NodeD 0) :=
  { declared := some 18, aionnx := none, funcs := [], inputs := ["x", "s"], inits := [],
    nodes := [{ leaf := { dflt := true, version := none, refAttr := false,
                          op := .groupNorm { gnStatic with hasBias := false } },
                bodies := [] }] }

/-- **The remaining hypothesis is forced.**  A GroupNormalization without `bias` (not a valid ONNX node) converted
18→21: the adapter raises at step 20→21, the error is caught, no exception escapes, the model declares 21 and the node
is left stamped 20 — the behaviour `test_version_groupnorm_no_bias` of the unedited suite pins. -/
theorem convert_consistent_invalid_gn_refuted :
    (nativeConvert 21 gnNoBiasModel).2 = none ∧ (nativeConvert 21 gnNoBiasModel).1.declared = some 21 ∧
    (nativeConvert 21 gnNoBiasModel).1.nodes.map (·.leaf.version) = [some 20] ∧
    ¬ AllAt 21 (nativeConvert 21 gnNoBiasModel).1.nodes ∧ (nativeConvert 21 gnNoBiasModel).1 ≠ gnNoBiasModel := by
  refine ⟨by decide, by decide, by decide, ?_, by decide⟩
  unfold AllAt
  decide

/-- (non-vacuity) the D13a witness model is a `ShapeModel WellFormedGN`. -/
example : ShapeModel WellFormedGN 20 d13aModel := by
  refine ⟨rfl, rfl, rfl, ?_⟩
  intro n hn
  rw [List.mem_singleton.mp hn]
  refine ⟨⟨fun _ => rfl, fun _ => rfl, fun _ => ?_⟩, fun h => absurd rfl h, by simp, by simp⟩
  intro g hg
  injection hg with hg
  subst hg
  exact ⟨⟨rfl, rfl, rfl⟩, by simp [gnStatic]⟩

/-! ## Evaluation level (straight-line graphs) -/

/-- **`convert_evalGraph`** (no hypothesis on the adapters since 090a933: validity of the source suffices).  Restricting
hypotheses (none dischargeable inside the model): `hl : Laws sem chan`, `ht : AllTruthful …`, straight-line graphs of
single-output nodes (`ENode`; no subgraphs, no functions), every node `n.ver = s`, names below `b`, valid at `s`.
For *every* operator semantics `sem` — an uninterpreted function of (operator with attributes, opset version,
inputs) — that satisfies the adapter laws `Laws sem` (hypotheses about the run time: GridSample is determined by
its interpolation/align/padding, DFT-20 with a constant axis input = DFT-17 with that attribute,
GroupNormalization-21 on the `C/g`-fold repeated scale/bias = GroupNormalization-18 on the per-group ones, and an
operator form that reads the same at two opsets behaves the same), for every straight-line graph `ns` written for
`s` over the names `< b`, every environment (inputs and initializers) and every target: evaluating the converted
graph — the rewrites *with their wiring*, `Constant`/`Reshape`/`Expand` interpreted from the ONNX specification —
gives every name of the source graph the value the source graph gives it.  `AllTruthful`: shape facts of
GroupNormalization nodes are true of the values they are evaluated on (A-shape), and where the adapter must look
at run-time shapes `x` is a tensor with `chan x = C` channels (`Laws.shape`: `Shape(x,1,2) = [chan x]`). -/
theorem convert_evalGraph {D E : Type} (sem : OpSem D E) (chan : D → Nat) (hl : Laws sem chan) (s t : Nat) (ns : List ENode)
    (b f : Nat) (env : Env D E) (hbf : b ≤ f)
    (hn : ∀ n ∈ ns, n.ver = s ∧ n.Below b ∧ (n.op.meaning s).isSome)
    (ht : AllTruthful sem chan env ns) :
    ∀ m, m < b → evalNodes sem env (convGraphE s t ns f).1 m = evalNodes sem env ns m := by
  intro m hm
  have := mapFresh_eval sem chan hl b (t - s) s ns f env env hbf (agree_refl b env)
    (fun n hn' => ⟨(hn n hn').1, (hn n hn').2.1, fun v' h1 _ => good_of_valid n.op s v' (hn n hn').2.2 h1,
      (hn n hn').2.2⟩) ht
  exact (this m hm).symm

/-- The graph-level conversion is the node-level model's conversion with wiring added: it leaves exactly the
operators `leafSteps` leaves (the model that the correspondence stream compares with the real converter). -/
theorem convGraphE_refines (s t : Nat) (ns : List ENode) (f : Nat) :
    (convGraphE s t ns f).1.map (·.op)
      = (ns.flatMap (fun n => leafSteps (t - s) s (newLeaf n.op s))).map (·.op) := by
  unfold convGraphE
  rw [mapFresh_ops (stepsE (t - s) s) (fun o => (leafSteps (t - s) s (newLeaf o s)).map (·.op))
    (fun m f => stepsE_ops (t - s) s m f (newLeaf m.op s) rfl) ns f, List.map_flatMap]

/-- **The Reshape/Expand wiring of the GroupNormalization rewrite, on the index level.**  In any environment
where `src` holds a vector `vs` and `cA, cB, cC` hold the constants `[-1,1]`, `[-1]`, `[1,k]`, the three wired
nodes `Reshape(src,cA)→o1 ; Expand(o1,cC)→o2 ; Reshape(o2,cB)→o3` leave at `o3` a vector of length `|vs|·k` whose
entry `i` is `vs[i / k]`, and change no other name. -/
theorem groupnorm_wiring_index {D E : Type} (sem : OpSem D E) (e : Env D E) (src cA cB cC o1 o2 o3 w k : Nat)
    (vs : List E) (h1 : e src = some (.vec vs)) (hA : e cA = some (.ints [-1, 1])) (hB : e cB = some (.ints [-1]))
    (hC : e cC = some (.ints [1, (k : Int)])) (d1 : cC ≠ o1) (d2 : cB ≠ o1) (d3 : cB ≠ o2) :
    ∃ s' : List E,
      (evalNodes sem e [{ op := .plain "Reshape", ver := w, ins := [some src, some cA], out := o1 },
                        { op := .plain "Expand", ver := w, ins := [some o1, some cC], out := o2 },
                        { op := .plain "Reshape", ver := w, ins := [some o2, some cB], out := o3 }]) o3 = some (.vec s') ∧
      s'.length = vs.length * k ∧ ∀ i, i < vs.length * k → s'[i]? = vs[i / k]? :=
  ⟨expandScale k vs, (chain_eval sem e src cA cB cC o1 o2 o3 w k vs h1 hA hB hC d1 d2 d3).1,
    (groupnorm_scale_expand k vs).1, fun i hi => groupnorm_scale_expand_div k vs i hi⟩

/-- (Hypotheses: `Laws sem chan`, `Truthful chan env n`, `n.ver = 20`, the node valid at 20, straight-line single-output
node.)  The whole rewritten block of one GroupNormalization node (10 wired nodes for the static rewrite, 17 for the
run-time-ratio rewrite with `Shape`/`Div`/`Concat` interpreted) evaluates, on every name of the
source graph, to what the opset-20 node evaluated to. -/
theorem groupnorm_rewrite_evalGraph {D E : Type} (sem : OpSem D E) (chan : D → Nat) (hl : Laws sem chan) (env : Env D E) (n : ENode)
    (f b : Nat) (gn : GN) (news : List Op) (hop : n.op = .groupNorm gn) (hA : adapt n.op 20 = .replaced news)
    (hver : n.ver = 20) (hb : n.Below b) (hbf : b ≤ f) (hvalid : (n.op.meaning 20).isSome) (ht : Truthful chan env n) :
    ∃ news' f', rewriteE n 20 f = some (news', f') ∧ news'.map (·.op) = news ∧
      ∀ m, m < b → evalNodes sem env news' m = evalNode sem env n m := by
  obtain ⟨news', f', h1, _, h3, _, h5⟩ := rewrite_eval_gn sem chan hl env n 20 f b news gn hop hA hver hb hbf hvalid ht
  exact ⟨news', f', h1, h3, h5⟩

/-! ## Histories: the same object converted again and again -/

/-- **The step loop composes.**  For every node, every start version and all step counts `a`, `b`: running the
`for from_version in range(...)` loop for `a + b` steps from `v` is running it for `a` steps from `v` and then, on
every node that is left (the node itself or whatever the adapters put in its place), for `b` steps from `v + a`.
So converting `s → u` and then `u → t` rewrites a node exactly as converting `s → t` does — whatever the adapters
do on the way (replace, return `None`, raise). -/
theorem step_loop_composes (a b v : Nat) (l : Leaf) :
    leafSteps (a + b) v l = (leafSteps a v l).flatMap (leafSteps b (v + a)) :=
  leafSteps_compose_lemma a b v l

/-- **Valid models are closed under conversion.**  Converting a valid self-consistent model at `s` (any nesting
depth) to any target with `nativeConvert` (native route only; not the C-API route) either leaves it exactly as it was or yields a model that is again valid and self-consistent
— now at `t` — with the same readings, inputs and initializers.  Hence every theorem about *one* conversion of a
valid model applies to the result of a previous conversion. -/
theorem convert_closed (s t : Nat) {d : Nat} (m : Model (NodeD d)) (h : ValidModel s m) :
    (nativeConvert t m).1 = m ∨
    (ValidModel t (nativeConvert t m).1 ∧
      pmNodes Op.meaning t (nativeConvert t m).1.nodes = pmNodes Op.meaning s m.nodes ∧
      (nativeConvert t m).1.inputs = m.inputs ∧ (nativeConvert t m).1.inits = m.inits) :=
  nativeConvert_closed s t m h

/-- **Converting an already converted model is a no-op.**  A valid model that declares `t` is returned exactly as
it is — no exception, nothing touched — by the public entry, for every `fallback` value and every behaviour of
the C API (the inline pass finds no function, the pass takes the `== target_version` exit). -/
theorem convert_again_noop (t : Nat) (fb : Fallback) {d : Nat} (capi : CApi (NodeD d)) (m : Model (NodeD d))
    (h : ValidModel t m) : convertVersionApi .ir fb t capi m = (m, none) := by
  simp only [convertVersionApi, inlineModel_valid h, requiresInlineCall, h.declared, if_true]

/-- **`convert_equivalent` over histories.**  Take a valid self-consistent model at `s` and *any* sequence of calls
`convert_version(model, t_i, fallback_i)` on the same `ir.Model` — any length, targets in any order (up, repeated,
down, out of range), any `fallback` values — during which the ONNX C API never succeeds (in particular: every
history with fallback off).  After the whole history the model is a valid self-consistent model at some `s'` that is
`s` or one of the requested targets; every non-auxiliary node reads at `s'` as the corresponding node of the
original read at `s`, in order, subgraphs of every depth included; inputs and initializers are the original ones.
Calls that raise (downgrade, unsupported target) leave the state as it was.  Invariant by induction over the
history (`convert_closed` for the step). -/
theorem history_equivalent (s : Nat) {d : Nat} (hist : List (Fallback × Nat)) (m : Model (NodeD d))
    (h : ValidModel s m) :
    ∃ s', (s' = s ∨ s' ∈ hist.map (·.2)) ∧
      ValidModel s' (convertHistory .ir (hist.map (fun c => (c.1, c.2, capiFails))) m).1 ∧
      pmNodes Op.meaning s' (convertHistory .ir (hist.map (fun c => (c.1, c.2, capiFails))) m).1.nodes
        = pmNodes Op.meaning s m.nodes ∧
      (convertHistory .ir (hist.map (fun c => (c.1, c.2, capiFails))) m).1.inputs = m.inputs ∧
      (convertHistory .ir (hist.map (fun c => (c.1, c.2, capiFails))) m).1.inits = m.inits := by
  induction hist generalizing s m with
  | nil => exact ⟨s, Or.inl rfl, h, rfl, rfl, rfl⟩
  | cons c rest ih =>
    obtain ⟨fb, t⟩ := c
    simp only [List.map_cons, convertHistory]
    have hstep : convertVersionApi .ir fb t capiFails m = requiresInlineCall fb t capiFails m := by
      simp only [convertVersionApi, inlineModel_valid h]
    rw [hstep]
    rcases requiresInline_closed s t fb capiFails m h rfl with hm | ⟨hv, hpm, hin, hini⟩
    · rw [hm]
      obtain ⟨s', hs', a, b, c, e⟩ := ih s m h
      refine ⟨s', ?_, a, b, c, e⟩
      rcases hs' with h1 | h1
      · exact Or.inl h1
      · exact Or.inr (List.mem_cons_of_mem _ h1)
    · obtain ⟨s', hs', a, b, c, e⟩ := ih t _ hv
      refine ⟨s', ?_, a, b.trans hpm, c.trans hin, e.trans hini⟩
      rcases hs' with h1 | h1
      · exact Or.inr (by rw [h1]; exact List.mem_cons_self ..)
      · exact Or.inr (List.mem_cons_of_mem _ h1)

/-- (non-vacuity) the D13a model (a `ValidModel 20`, see `d13a_fixed`) through the history
21, 21 again, 23, back to 18 with fallback on (the C API fails), 26: it ends at 23 with the source's reading, and the
calls to 18 and 26 raise nothing / a `ValueError` and change nothing. -/
example :
    let r := convertHistory .ir [(.none, 21, capiFails), (.yes, 21, capiFails), (.no, 23, capiFails),
                                 (.yes, 18, capiFails), (.none, 26, capiFails)] d13aModel
    r.1.declared = some 23 ∧ r.2 = [none, none, none, none, some .badTarget] ∧
    pmNodes Op.meaning 23 r.1.nodes = pmNodes Op.meaning 20 d13aModel.nodes ∧
    r.1 = (nativeConvert 23 d13aModel).1 := by decide

/-- **The same over histories of the `ModelProto` entry.**  Every call re-reads the proto (`ir.from_proto`: no version
stamps), converts and writes graph and opset imports back; a call that raises leaves the proto as it was.  For every
valid self-consistent model, every history of calls on the same `ModelProto` (any length, targets, `fallback` values;
the C API never succeeds): the proto ends as a valid self-consistent model at `s` or at one of the requested targets,
reads as the original, same inputs and initializers. -/
theorem history_equivalent_proto (s : Nat) {d : Nat} (hist : List (Fallback × Nat)) (m : Model (NodeD d))
    (h : ValidModel s m) :
    ∃ s', (s' = s ∨ s' ∈ hist.map (·.2)) ∧
      ValidModel s' (convertHistory .proto (hist.map (fun c => (c.1, c.2, capiFails))) m).1 ∧
      pmNodes Op.meaning s' (convertHistory .proto (hist.map (fun c => (c.1, c.2, capiFails))) m).1.nodes
        = pmNodes Op.meaning s m.nodes ∧
      (convertHistory .proto (hist.map (fun c => (c.1, c.2, capiFails))) m).1.inputs = m.inputs ∧
      (convertHistory .proto (hist.map (fun c => (c.1, c.2, capiFails))) m).1.inits = m.inits := by
  induction hist generalizing s m with
  | nil => exact ⟨s, Or.inl rfl, h, rfl, rfl, rfl⟩
  | cons c rest ih =>
    obtain ⟨fb, t⟩ := c
    simp only [List.map_cons, convertHistory]
    obtain ⟨s1, hs1, hv, hpm, hin, hini⟩ := protoCall_closed s t fb m h
    obtain ⟨s', hs', a, b, c, e⟩ := ih s1 _ hv
    refine ⟨s', ?_, a, b.trans hpm, c.trans hin, e.trans hini⟩
    rcases hs' with h1 | h1
    · rcases hs1 with h2 | h2
      · exact Or.inl (h1.trans h2)
      · exact Or.inr (by rw [h1, h2]; exact List.mem_cons_self ..)
    · exact Or.inr (List.mem_cons_of_mem _ h1)

/-- (non-vacuity) the D13a model through a `ModelProto` history 21, 23, 20 (refused: downgrade), 23. -/
example :
    let r := convertHistory .proto [(.none, 21, capiFails), (.no, 23, capiFails), (.none, 20, capiFails),
                                    (.yes, 23, capiFails)] d13aModel
    r.1.declared = some 23 ∧ r.2 = [none, none, some .downgrade, none] ∧
    pmNodes Op.meaning 23 r.1.nodes = pmNodes Op.meaning 20 d13aModel.nodes := by decide

/-- **Two calls = one call, node by node (exact, not only up to meaning).**  A default-domain node without subgraphs
that is written for `s` and carries no reference attribute, with `s ≤ u ≤ t` and no adapter raising on the way to
`u`: the visit of a conversion to `u` followed — on every node it left, now under the declared opset `u` — by the
visit of a conversion to `t` produces exactly the node list (operators, attributes, version stamps) that the single
conversion to `t` produces, and none of the three visits raises.  So `18 → 20 → 22` and `18 → 22` cannot differ on
such a node, whatever the adapters insert.  All six hypotheses are needed as stated (`hd hv hr h1 h2 hg`); the statement is about
`visitLeaf` only — nodes that own subgraphs, custom-domain nodes and the entry logic around the visit are not covered. -/
theorem two_calls_eq_one_call (s u t : Nat) (l : Leaf) (hd : l.dflt = true) (hv : l.eff s = s)
    (hr : l.refAttr = false) (h1 : s ≤ u) (h2 : u ≤ t) (hg : ∀ v', s ≤ v' → v' < u → adapt l.op v' ≠ .raised) :
    (visitLeaf (some s) u l).1.flatMap (fun l' => (visitLeaf (some u) t l').1) = (visitLeaf (some s) t l).1 ∧
    (visitLeaf (some s) u l).2 = none ∧ (visitLeaf (some s) t l).2 = none ∧
    ∀ l' ∈ (visitLeaf (some s) u l).1, (visitLeaf (some u) t l').2 = none :=
  two_visits_leaf s u t l hd hv hr h1 h2 hg

/-- (non-vacuity) the hypotheses hold for the static GroupNormalization written for 18 with `u = 20`, `t = 22`; the
rewrite (10 nodes) happens in the second call. -/
example :
    let l : Leaf := { dflt := true, op := .groupNorm gnStatic, version := none, refAttr := false }
    l.eff 18 = 18 ∧ (∀ v', 18 ≤ v' → v' < 20 → adapt l.op v' ≠ .raised) ∧
    (visitLeaf (some 18) 20 l).1.length = 1 ∧ (visitLeaf (some 18) 22 l).1.length = 10 := by
  refine ⟨rfl, fun v' _ h2 => ?_, by decide, by decide⟩
  have : v' ≠ 20 := by omega
  simp [adapt, this]

/-- (non-vacuity of `step_loop_composes`) GroupNormalization 18 → 20 → 22 = 18 → 22: ten nodes either way. -/
example : leafSteps (2 + 2) 18 (newLeaf (.groupNorm gnStatic) 18)
      = (leafSteps 2 18 (newLeaf (.groupNorm gnStatic) 18)).flatMap (leafSteps 2 20) ∧
    (leafSteps 4 18 (newLeaf (.groupNorm gnStatic) 18)).length = 10 := by decide

/-! ## Signature and initializers -/

/-- **`signature_kept`** (definitional: unfolds `recoverFallback`; its content is the model's `take`, tied by the `fallback` stream).  On every path that converts (native, or C API followed by the input truncation
`inputs[:len(model.graph.inputs)]`) the graph inputs are the original ones, in order — for every
initializer list and whatever the C API returned. -/
theorem signature_kept {α} [Inner α] (m : Model α) (t : Nat) (ns : List (Node α)) :
    (recoverFallback m t ns).inputs = m.inputs := by
  simp [recoverFallback, capiInputs]

/-- **`initializers_kept`.**  The recovery loop after the C-API call registers exactly the original
initializers (as a set of names): those that were graph inputs already and those that `call_onnx_api` had
turned into extra inputs — none is lost, nothing else is registered. -/
theorem initializers_kept {α} [Inner α] (m : Model α) (t : Nat) (ns : List (Node α)) (x : String) :
    x ∈ (recoverFallback m t ns).inits ↔ x ∈ m.inits := by
  simp only [recoverFallback, capiInputs, List.mem_filter, List.mem_append, List.contains_iff_mem,
    Bool.not_eq_true']
  constructor
  · intro h; exact h.2
  · intro h
    refine ⟨?_, h⟩
    by_cases hx : x ∈ m.inputs
    · exact Or.inl hx
    · exact Or.inr ⟨h, by simpa using hx⟩

/-! ### The fallback route in detail (`call_onnx_api`, recovery loop) -/

open OV.C10.Fallback in
/-- **`initializers_kept`, fallback route, values included.**  For every graph (any inputs, any initializers of
any sizes — below or above the 1000-element limit of `call_onnx_api`, listed among the graph inputs or not) whose
initializer names are distinct, and every C-API result that returns inputs and initializers as given: after the
recovery loop and the truncation the initializer dict holds exactly the original (name, size, value) entries —
none lost, none added, every stripped value restored — and the graph inputs are the original ones, in order. -/
theorem fallback_initializers_kept (orig conv : Fallback.G) (hinj : NameInj orig.inits)
    (hc : CapiKeeps (prepare orig) conv) :
    (∀ i, i ∈ (afterSuccess orig conv).inits ↔ i ∈ orig.inits) ∧ (afterSuccess orig conv).inputs = orig.inputs := by
  obtain ⟨hci, hcn⟩ := hc
  have hsub : Sub conv.inits orig.inits := by
    intro x hx; rw [hcn] at hx; exact (List.mem_filter.mp hx).1
  obtain ⟨a, _, c⟩ := regNames_spec orig.inits hinj conv.inputs conv.inits hsub
  refine ⟨fun i => ⟨fun h => a i h, fun h => c i h ?_⟩, ?_⟩
  · rw [hci]; exact name_in_prepared_inputs orig h
  · simp [afterSuccess, hci, prepare]

open OV.C10.Fallback in
/-- **Failure of the C API leaves the model as it was**: `finally` re-registers every original initializer with its
value (the stripped ones re-enter the dict at its end — a dict has no meaningful order) and cuts the inputs back. -/
theorem fallback_failure_restores (orig : Fallback.G) (hinj : NameInj orig.inits) :
    (∀ i, i ∈ (afterCall orig).inits ↔ i ∈ orig.inits) ∧ (afterCall orig).inputs = orig.inputs := by
  have hsub : Sub (during orig).inits orig.inits := fun x hx => (List.mem_filter.mp hx).1
  obtain ⟨a, b, _⟩ := registerAll_spec orig.inits hinj orig.inits (during orig).inits hsub (fun x hx => hx)
  exact ⟨fun i => ⟨fun h => a i h, fun h => b i h⟩, by simp [afterCall, restore, during, prepare]⟩

/-- graph inputs `x, w`; initializer `w` with 1200 elements (an overridable default above the stripping limit) -/
def fallbackWitness : Fallback.G := { inputs := ["x", "w"], inits := [{ name := "w", size := 1200, val := 7 }] }

open OV.C10.Fallback in
/-- **The distinct-names assumption is an invariant of the data structure.**  Every initializer dict that dict
assignments can build from the empty dict — any sequence of registrations, repeated names included — has pairwise
different keys. -/
theorem dict_keys_distinct (l : List Init) : NameInj (registerAll [] l) :=
  (registerAll_distinct l Distinct.nil).nameInj

open OV.C10.Fallback in
/-- **`initializers_kept` on the fallback route, no assumption on names**: for every graph whose initializer dict was
built by registrations (every dict is), success and failure of the C API both leave exactly the original
(name, size, value) entries and the original inputs. -/
theorem fallback_initializers_kept_any (inputs : List String) (l : List Init) (conv : Fallback.G)
    (hc : CapiKeeps (prepare { inputs := inputs, inits := registerAll [] l }) conv) :
    ((∀ i, i ∈ (afterSuccess { inputs := inputs, inits := registerAll [] l } conv).inits ↔ i ∈ registerAll [] l) ∧
      (afterSuccess { inputs := inputs, inits := registerAll [] l } conv).inputs = inputs) ∧
    ((∀ i, i ∈ (afterCall { inputs := inputs, inits := registerAll [] l }).inits ↔ i ∈ registerAll [] l) ∧
      (afterCall { inputs := inputs, inits := registerAll [] l }).inputs = inputs) :=
  ⟨fallback_initializers_kept _ conv (dict_keys_distinct l) hc, fallback_failure_restores _ (dict_keys_distinct l)⟩

/-- (non-vacuity) the witness graph has distinct initializer names -/
example : Fallback.NameInj fallbackWitness.inits := by
  intro i j hi hj _
  simp [fallbackWitness] at hi hj; rw [hi, hj]

open OV.C10.Fallback in
/-- Why the recovery loop must scan *all* inputs of the converted graph: scanning only the inputs that
`call_onnx_api` appended (seeded change C10-5) loses a big initializer that is itself a graph input. -/
theorem fallback_appended_only_refuted :
    CapiKeeps (prepare fallbackWitness) (prepare fallbackWitness) ∧
    recoverLoopAppendedOnly fallbackWitness (prepare fallbackWitness) = [] ∧
    recoverLoop fallbackWitness.inits (prepare fallbackWitness) = fallbackWitness.inits :=
  ⟨⟨rfl, rfl⟩, by decide, by decide⟩

/-! ### `_restore_metadata` on the fallback route: frame theorems -/

open OV.C10.Meta in
/-- **Matched node.**  If the converted node is named `nm`, exactly one original node carries that name (`lookupNode`)
and it has the same operator and domain, then after `_restore_metadata` the node keeps name, operator and domain, every
metadata key reads as the C API left it if it left one and otherwise as in the original node (so no original entry is
lost and nothing the C API kept is overwritten), and an empty doc string is filled from the original. -/
theorem restore_node_matched (orig : List N) (n o : N) (nm : String) (hn : n.name = some nm)
    (hl : lookupNode orig nm = some o) (hop : o.op = n.op ∧ o.domain = n.domain) :
    (restoreNode orig n).name = n.name ∧ (restoreNode orig n).op = n.op ∧ (restoreNode orig n).domain = n.domain ∧
    (∀ k, (restoreNode orig n).props.get k = (n.props.get k).or (o.props.get k)) ∧
    (restoreNode orig n).doc = mergeDoc n.doc o.doc := by
  simp only [restoreNode, hn, hl, hop.1, hop.2, beq_self_eq_true, Bool.and_self, if_true]
  exact ⟨trivial, trivial, trivial, fun k => merge_get _ _ _, trivial⟩

open OV.C10.Meta in
/-- **What is not restored, exactly.**  A converted node without a name, or whose name no original node carries, or
whose name two or more original nodes carry, or whose unique namesake has another operator or domain (the C API
created or rewrote it) is left exactly as the C API returned it. -/
theorem restore_node_unmatched (orig : List N) (n : N)
    (h : n.name = none ∨ ∃ nm, n.name = some nm ∧
      (lookupNode orig nm = none ∨ ∃ o, lookupNode orig nm = some o ∧ ¬ (o.op = n.op ∧ o.domain = n.domain))) :
    restoreNode orig n = n := by
  rcases h with h | ⟨nm, hn, h⟩
  · simp [restoreNode, h]
  · rcases h with h | ⟨o, ho, hne⟩
    · simp [restoreNode, hn, h]
    · simp only [restoreNode, hn, ho]
      have : (o.op == n.op && o.domain == n.domain) = false := by
        cases hq : (o.op == n.op && o.domain == n.domain) with
        | false => rfl
        | true => simp at hq; exact absurd hq hne
      simp [this]

open OV.C10.Meta in
/-- `lookupNode` finds a node exactly when one original node, and no second one, carries the name. -/
theorem lookupNode_some_iff (orig : List N) (nm : String) (o : N) :
    lookupNode orig nm = some o ↔ orig.filter (fun x => x.name == some nm) = [o] := by
  unfold lookupNode
  constructor
  · intro h
    split at h
    · injection h with h; subst h; assumption
    · cases h
  · intro h; rw [h]

open OV.C10.Meta in
/-- **Values** are matched by name alone (the last original definition of the name): metadata and doc string follow
the same law; a value whose name the original graph does not define is untouched. -/
theorem restore_value_frame (orig : List V) (v : V) :
    (∀ o, lookupValue orig v.name = some o →
      (restoreValue orig v).name = v.name ∧ (∀ k, (restoreValue orig v).props.get k = (v.props.get k).or (o.props.get k)) ∧
      (restoreValue orig v).doc = mergeDoc v.doc o.doc) ∧
    (lookupValue orig v.name = none → restoreValue orig v = v) := by
  refine ⟨fun o ho => ?_, fun h => by simp [restoreValue, h]⟩
  simp only [restoreValue, ho]
  exact ⟨trivial, fun k => merge_get _ _ _, trivial⟩

open OV.C10.Meta in
/-- **Graph level** (definitional except for `merge_get`): the same law for `graph.metadata_props` and `graph.doc_string`; node and value lists keep their
length and order (every entry is the restored image of the entry at the same position).  Metadata of nested subgraph
objects themselves is not part of `_restore_metadata` and is not restored. -/
theorem restore_graph_frame (orig conv : Gr) :
    (∀ k, (restore orig conv).props.get k = (conv.props.get k).or (orig.props.get k)) ∧
    (restore orig conv).doc = mergeDoc conv.doc orig.doc ∧
    (restore orig conv).nodes = conv.nodes.map (restoreNode orig.nodes) ∧
    (restore orig conv).values = conv.values.map (restoreValue orig.values) :=
  ⟨fun k => merge_get _ _ _, rfl, rfl, rfl⟩

open OV.C10.Meta in
/-- (non-vacuity and the C15-FALLBACK witness in the model) the C API returned `relu0` without metadata: it gets the
original entry back; a node it created (`cast1`) and a node whose name was used twice stay as returned. -/
example :
    let orig : List N := [{ name := some "relu0", op := "Relu", domain := "", doc := "", props := [("nk", "nv")] },
                          { name := some "dup", op := "Neg", domain := "", doc := "", props := [("a", "1")] },
                          { name := some "dup", op := "Neg", domain := "", doc := "", props := [("a", "2")] }]
    (restoreNode orig { name := some "relu0", op := "Relu", domain := "", doc := "", props := [] }).props = [("nk", "nv")] ∧
    (restoreNode orig { name := some "cast1", op := "Cast", domain := "", doc := "", props := [] }).props = [] ∧
    (restoreNode orig { name := some "dup", op := "Neg", domain := "", doc := "", props := [] }).props = [] := by decide

/-! ### Names of adapter-created values (`_collect_value_names`, `_name_new_values`) -/

open OV.C10.Names in
/-- The naming loop always terminates: among `|used| + 1` consecutive counters one is unused — and it returns the
*first* unused counter at or above the current one. -/
theorem fresh_name_exists (used : List VName) (c : Nat) :
    ∃ k, firstFresh used (used.length + 1) c = some k ∧ c ≤ k ∧ VName.val k ∉ used ∧
      ∀ j, c ≤ j → j < k → VName.val j ∈ used := by
  obtain ⟨k, hk⟩ := firstFresh_total used c
  exact ⟨k, hk, firstFresh_spec used _ c k hk⟩

open OV.C10.Names in
/-- **Every adapter-created name is defined once, over all scopes.**  For every set `used` of collected names, every
counter and every sequence of replacements (any sizes, any number, wherever in the graph or its subgraphs they
happen): naming succeeds, the visible new names `val_k` are strictly increasing in creation order (so pairwise
distinct across all replacements, whatever scopes they land in) and none of them is in `used`.  With `used` ⊇ the
names the source model defines in any scope — what `_collect_value_names` computes — a source in which every name
is defined once is converted into a model in which every name is defined once. -/
theorem adapter_names_defined_once (sizes : List Nat) (st : St) :
    ∃ vis, nameAll sizes st = some vis ∧ vis.length = sizes.length ∧
      List.Pairwise (· < ·) vis.flatten ∧ ∀ k ∈ vis.flatten, st.ctr ≤ k ∧ VName.val k ∉ st.used :=
  nameAll_spec sizes st

open OV.C10.Names in
/-- The witness of seeded change C10-6 in the model: with the body outputs `val_0`, `val_1` collected the DFT
rewrite (2 new nodes) gets `val_2`; had they not been collected it would get `val_0` again. -/
example : nameAll [2] { used := [.val 0, .val 1, .other "x"], ctr := 0 } = some [[2]] ∧
    nameAll [2] { used := [.other "x"], ctr := 0 } = some [[0]] := by decide

/-! ### Opset imports on the ModelProto entry -/

open OV.C10.Imports in
/-- **Every used domain is declared after the conversion (ModelProto entry).**  For every model whose main graph and
whose called functions import the domains they use (any number of functions, any private domains), every target
and whatever the proto listed before: after inlining, clean-up, the default-domain bump and the rebuild of
`opset_import` from the converted IR model, the proto imports every domain some node of the (inlined) main graph
uses, and imports the default domain at the target. -/
theorem proto_imports_cover (m : M) (hv : Valid m) (target : Nat) (proto : Dict) :
    (∀ d ∈ usedAfter m, (protoRebuild proto (converted m target)).has d = true) ∧
    (protoRebuild proto (converted m target)).get "" = some target := by
  refine ⟨fun d hd => ?_, get_set _ _ _⟩
  unfold protoRebuild converted
  refine set_keeps (removeUnused_keeps ?_ hd)
  rcases List.mem_append.mp hd with h | h
  · exact foldl_addMissing_mono _ _ (hv.main d h)
  · obtain ⟨u, hu, hdu⟩ := List.mem_flatten.mp h
    obtain ⟨f, hf, rfl⟩ := List.mem_map.mp hu
    exact foldl_addMissing_adds _ _ f.1 (List.mem_map_of_mem hf) (hv.funcs f hf d hdu)

/-- main graph: `Relu`, call of a function that imports and uses the private domain `priv` -/
def importsWitness : Imports.M :=
  { imports := [("", 18), ("fn", 1)], usedMain := [""], funcs := [([("", 18), ("priv", 1)], ["", "priv"])] }

open OV.C10.Imports in
/-- Updating the proto's existing entries in place instead (seeded change C10-4) leaves a domain that only enters
the main graph through inlining undeclared; the rebuild declares it. -/
theorem proto_in_place_refuted :
    Valid importsWitness ∧
    (protoInPlace importsWitness.imports (converted importsWitness 21)).has "priv" = false ∧
    (protoRebuild importsWitness.imports (converted importsWitness 21)) = [("", 21), ("priv", 1)] := by
  refine ⟨⟨by decide, by decide⟩, by decide, by decide⟩

/-- **`functions_kept_or_inlined`** (definitional: reads the fields `inlineModel` writes; `InlinePass` itself is a contract).  The pass inlines first: whenever the inline pass succeeds no
function is left (their behaviour is preserved by the `InlinePass` contract, A-ir), and the default-domain
import is held under the `""` key only. -/
theorem functions_kept_or_inlined {α} [Inner α] (m0 m : Model α) (h : inlineModel m0 = .ok m) : m.funcs = [] ∧ m.aionnx = none := by
  unfold inlineModel at h
  split at h
  · cases h
  · injection h with h; subst h; exact ⟨rfl, rfl⟩

/-! ## Non-vacuity -/

/-- A self-consistent opset-18 model satisfying every hypothesis of `convert_equivalent_ir_of_good`:
GridSample(bilinear) and an `If` whose branches hold DFT(axis=1) and GroupNormalization(num_groups=2, C=4). -/
def demoModel : Model (NodeD 0) :=
  { declared := some 18, aionnx := none, funcs := [], inputs := ["x"], inits := ["s", "b"],
    nodes := [
      { leaf := { dflt := true, version := none, refAttr := false, op := .gridSample (some "bilinear") none none }, bodies := [] },
      { leaf := { dflt := true, version := none, refAttr := false, op := .plain "If" },
        bodies := [[{ dflt := true, version := none, refAttr := false, op := .dft (some 1) none none false none 3 }],
                   [{ dflt := true, version := some 18, refAttr := false, op := .groupNorm gnStatic }]] }] }

example : (nativeConvert 21 demoModel).2 = none ∧ (nativeConvert 21 demoModel).1.declared = some 21 ∧
    pmNodes Op.meaning 21 (nativeConvert 21 demoModel).1.nodes = pmNodes Op.meaning 18 demoModel.nodes ∧
    (nativeConvert 21 demoModel).1.nodes ≠ demoModel.nodes := by decide

/-- `demoModel` satisfies the hypothesis of `convert_equivalent_ir_of_good` (`SelfConsistent Op.meaning`)
(so those theorems are not vacuous), and the inline pass is the identity on it. -/
example : SelfConsistent Op.meaning 18 demoModel ∧ inlineModel demoModel = .ok demoModel := by
  have hgs : ∀ v', Good Op.meaning (.gridSample (some "bilinear") none none) v' := fun v' => by
    by_cases h : v' = 19
    · subst h; exact gridsample_mode_rename _ _ _ (by decide)
    · exact good_of_quiet _ (by simp [adapt, h])
  have hdft : ∀ v', Good Op.meaning (.dft (some 1) none none false none 3) v' := fun v' => by
    by_cases h : v' = 19
    · subst h; exact (dft_axis_attr_eq_input 1 none none false 3).2
    · exact good_of_quiet _ (by simp [adapt, h])
  have hgn : ∀ v', Good Op.meaning (.groupNorm gnStatic) v' := fun v' => by
    by_cases h : v' = 20
    · subst h
      exact good_gn gnStatic (by decide)
    · exact good_of_quiet _ (by simp [adapt, h])
  have hif : ∀ v', Good Op.meaning (.plain "If") v' := fun v' => good_of_quiet _ rfl
  refine ⟨⟨rfl, rfl, rfl, ?_⟩, rfl⟩
  intro n hn
  simp only [demoModel, List.mem_cons, List.mem_nil_iff, or_false] at hn
  rcases hn with rfl | rfl
  · exact ⟨⟨fun _ => rfl, fun _ => rfl, fun _ v' _ => hgs v'⟩, fun h => absurd rfl h, by simp, by simp⟩
  · refine ⟨⟨fun _ => rfl, fun _ => rfl, fun _ v' _ => hif v'⟩, fun _ => ⟨"If", rfl⟩, ?_, by simp⟩
    intro b hb l hl
    simp only [List.mem_cons, List.mem_nil_iff, or_false] at hb
    rcases hb with rfl | rfl
    · rw [List.mem_singleton.mp hl]
      exact ⟨fun _ => rfl, fun _ => rfl, fun _ v' _ => hdft v'⟩
    · rw [List.mem_singleton.mp hl]
      exact ⟨fun _ => rfl, fun _ => rfl, fun _ v' _ => hgn v'⟩

/-- A semantics that knows only `Shape` of an opaque tensor (4 channels). -/
def demoSem : OpSem Unit Nat := fun op _ ins =>
  match op, ins with
  | .plain "Shape", [some (.data _)] => some (.ints [4])
  | _, _ => none

/-- The laws are satisfiable … -/
example : Laws demoSem (fun _ => 4) where
  sameMeaning := by intros; rfl
  shape := by intros; rfl
  gridSample := by intros; rfl
  dft := by intros; rfl
  groupNorm := by intros; rfl

def demoEnv : Env Unit Nat := fun m =>
  if m = 0 then some (.data ()) else if m = 1 then some (.vec [10, 20]) else if m = 2 then some (.vec [1, 2]) else none

def demoGNNode : ENode := { op := .groupNorm gnStatic, ver := 20, ins := [some 0, some 1, some 2], out := 3 }
def demoGNNodeDyn : ENode :=
  { op := .groupNorm { gnStatic with xVis := .symbolic }, ver := 20, ins := [some 0, some 1, some 2], out := 3 }

/-- … and the wiring computes: the block emitted for `GroupNormalization(num_groups=2)` on 4 channels turns the
per-group scale `[10,20]` at name 1 into `[10,10,20,20]` and the bias `[1,2]` at name 2 into `[1,1,2,2]` — by the
static rewrite (names `f+5`, `f+8`) and by the run-time-ratio rewrite, which reads `C = 4` off `x` (names `f+9`, `f+15`). -/
example :
    (match rewriteE demoGNNode 20 4, rewriteE demoGNNodeDyn 20 4 with
     | some (news, _), some (dyn, _) =>
       (match evalNodes demoSem demoEnv news 9, evalNodes demoSem demoEnv news 12,
              evalNodes demoSem demoEnv dyn 13, evalNodes demoSem demoEnv dyn 19 with
        | some (.vec a), some (.vec b), some (.vec a'), some (.vec b') =>
          a == [10, 10, 20, 20] && b == [1, 1, 2, 2] && a' == [10, 10, 20, 20] && b' == [1, 1, 2, 2] && dyn.length == 17
        | _, _, _, _ => false)
     | _, _ => false) = true := by decide

/-- The hypotheses of `convert_evalGraph` hold for a concrete graph (GridSample(bilinear) then DFT(axis=1)
written for opset 19), for every semantics and environment. -/
example {D E : Type} (sem : OpSem D E) (chan : D → Nat) (env : Env D E) :
    let ns : List ENode := [{ op := .gridSample (some "bilinear") none none, ver := 19, ins := [some 0, some 1], out := 2 },
                            { op := .dft (some 1) none none false none 3, ver := 19, ins := [some 2], out := 3 }]
    (∀ n ∈ ns, n.ver = 19 ∧ n.Below 4 ∧ (n.op.meaning 19).isSome) ∧
    AllTruthful sem chan env ns := by
  intro ns
  refine ⟨?_, ⟨trivial, ⟨by simp [Truthful], trivial⟩⟩⟩
  intro n hn
  simp only [ns, List.mem_cons, List.mem_nil_iff, or_false] at hn
  rcases hn with rfl | rfl
  · exact ⟨rfl, ⟨by decide, by intro i hi m hm; simp at hi; rcases hi with rfl | rfl <;> (injection hm with hm; omega)⟩, by decide⟩
  · exact ⟨rfl, ⟨by decide, by intro i hi m hm; simp at hi; subst hi; injection hm with hm; omega⟩, by decide⟩

/-- Instances of the adapter laws' hypotheses. -/
example : (Op.meaning (.gridSample (some "bicubic") (some 1) none) 19).isSome := by decide
example : groupnormalization_20_21 (.groupNorm { gnStatic with xVis := .symbolic })
    = .replaced (gnDynReplacement { gnStatic with xVis := .symbolic }) := by decide

/-- Nesting depth 2: `If { If { GridSample(bilinear) ; DFT(axis=1) } }` at opset 18.  The converter recurses
(`visit_attribute → visit_graph_or_function`), so does the model: the innermost nodes are rewritten and stamped. -/
def demoDeep : Model (NodeD 1) :=
  { declared := some 18, aionnx := none, funcs := [], inputs := ["x"], inits := [],
    nodes := [
      { leaf := { dflt := true, version := none, refAttr := false, op := .plain "If" },
        bodies := [[
          ({ leaf := { dflt := true, version := none, refAttr := false, op := .plain "If" },
             bodies := [[({ dflt := true, version := none, refAttr := false, op := .gridSample (some "bilinear") none none } : Leaf),
                         ({ dflt := true, version := none, refAttr := false, op := .dft (some 1) none none false none 3 } : Leaf)]] }
            : Node Leaf)]] }] }

example : (nativeConvert 21 demoDeep).2 = none ∧ (nativeConvert 21 demoDeep).1.declared = some 21 ∧
    pmNodes Op.meaning 21 (nativeConvert 21 demoDeep).1.nodes = pmNodes Op.meaning 18 demoDeep.nodes ∧
    ((nativeConvert 21 demoDeep).1.nodes.flatMap Node.leaves).length = 5 ∧
    ∀ l ∈ (nativeConvert 21 demoDeep).1.nodes.flatMap Node.leaves, l.version = some 21 := by decide

example : (expandScale 2 [10, 20, 30] : List Nat) = [10, 10, 20, 20, 30, 30] := by decide

end OV.Props.C10
