import OV.Lemmas.C16Bind
import OV.Gen.C16Registry
/-!
# C16 — every registered torch_lib overload binds correctly to its ATen schema

Property theorems only.  Model: `OV.Model.C16Bind`; lemmas: `OV.Lemmas.C16Bind`; the table
`OV.Gen.C16.registry` is regenerated on every run by `harness/extract_registry.py` from
`get_torchlib_ops()` of `/repo` and the operator schemas of the installed PyTorch.
-/
namespace OV.Props.C16
open OV.C16

/-! ## The general binding theorem -/

/-- What it means for a binding `b` of a call `c` to be right (the property's four clauses, plus
exactness: parameters receive nothing but arguments of the call). -/
structure BoundRight (m : Mode) (a : AtenSchema) (s : OsSig) (c : Call) (b : Binding) : Prop where
  length_eq : b.length = s.length
  /-- every supplied positional argument lands on the parameter at its position, that parameter
  accepts it (a tensor only an input), and no *other* parameter carries the argument's name — or the
  argument is dropped and is one of the droppable ones -/
  positional : ∀ (i : Nat) (arg : AArg), a.positional[i]? = some arg → i < c.npos →
    (∃ p : OParam, s[i]? = some p ∧ b[i]? = some (some (Src.pos i)) ∧ accepts m p arg = true ∧
        (arg.base = .tensor → p.isInput = true) ∧
        (∀ (j : Nat) (q : OParam), s[j]? = some q → q.name = arg.name → j = i))
    ∨ ((∀ j : Nat, b[j]? ≠ some (some (Src.pos i))) ∧ droppable arg.name = true)
  /-- every supplied keyword-only argument lands on the parameter of its name, which accepts it — or is
  dropped and is droppable -/
  keyword : ∀ arg : AArg, arg ∈ a.kwonly → arg.name ∈ c.kws →
    (∃ (j : Nat) (p : OParam), s[j]? = some p ∧ p.name = arg.name ∧ b[j]? = some (some (Src.kw arg.name)) ∧
        accepts m p arg = true ∧ (arg.base = .tensor → p.isInput = true))
    ∨ ((∀ j : Nat, b[j]? ≠ some (some (Src.kw arg.name))) ∧ droppable arg.name = true)
  /-- no required parameter is left unbound -/
  required : ∀ (j : Nat) (p : OParam), s[j]? = some p → p.required = true → ∃ src, b[j]? = some (some src)
  /-- a parameter holds only an argument the call supplied, at its own position / of its own name -/
  exact : ∀ (j : Nat) (src : Src), b[j]? = some (some src) →
    (src = Src.pos j ∧ j < c.npos) ∨ (∃ p : OParam, s[j]? = some p ∧ src = Src.kw p.name ∧ p.name ∈ c.kws)

theorem slots_boundRight (m : Mode) (a : AtenSchema) (s : OsSig)
    (h : bindsOk m a s = true) (c : Call) (hc : Conforms a c) :
    BoundRight m a s c (slots c.npos c.kws 0 s) := by
  have hget : ∀ j, (slots c.npos c.kws 0 s)[j]? = (s[j]?).map (slot c.npos c.kws j) := by
    intro j
    have := slots_getElem? c.npos c.kws 0 s j
    simpa using this
  refine ⟨slots_length _ _ _ _, ?_, ?_, ?_, ?_⟩
  · -- positional
    intro i arg hi hlt
    have hmem : (arg, i) ∈ a.positional.zipIdx := List.mem_zipIdx_iff_getElem?.mpr hi
    cases hs : s[i]? with
    | some p =>
      left
      refine ⟨p, rfl, ?_, ?_, ?_, ?_⟩
      · rw [hget, hs]; simp [slot, hlt]
      · have hcl := bindsOk_clause h .posAccepts
        simp only [clauseOk] at hcl
        rw [List.all_eq_true] at hcl
        have := hcl (arg, i) hmem
        simpa [hs] using this
      · intro hb
        have hcl := bindsOk_clause h .posAccepts
        simp only [clauseOk] at hcl
        rw [List.all_eq_true] at hcl
        have := hcl (arg, i) hmem
        simp only [hs, accepts, hb] at this
        exact this
      · intro j q hq hn
        have hcl := bindsOk_clause h .posNames
        simp only [clauseOk] at hcl
        rw [List.all_eq_true] at hcl
        have h1 := hcl (arg, i) hmem
        rw [List.all_eq_true] at h1
        have h2 := h1 (q, j) (List.mem_zipIdx_iff_getElem?.mpr hq)
        simpa [hn] using h2
    | none =>
      right
      have hcl := bindsOk_clause h .posFits
      simp only [clauseOk] at hcl
      rw [List.all_eq_true] at hcl
      have h1 := hcl (arg, i) hmem
      have hge : ¬ i < s.length := by
        intro hl
        have := List.getElem?_eq_some_iff.mpr ⟨hl, rfl⟩
        rw [hs] at this
        cases this
      simp only [hge, decide_false, Bool.false_or, Bool.and_eq_true] at h1
      refine ⟨?_, h1.2⟩
      intro j hj
      rw [hget] at hj
      cases hq : s[j]? with
      | none => simp [hq] at hj
      | some q =>
        simp only [hq, Option.map_some, Option.some.injEq, slot] at hj
        by_cases c1 : j < c.npos
        · simp only [c1, if_true, Option.some.injEq, Src.pos.injEq] at hj
          subst hj
          rw [hs] at hq
          cases hq
        · simp only [c1, if_false] at hj
          split at hj <;> simp at hj
  · -- keyword
    intro arg harg hkw
    by_cases hdecl : s.any (fun q => q.name == arg.name) = true
    · left
      rw [List.any_eq_true] at hdecl
      obtain ⟨q, hq, hqn⟩ := hdecl
      have hqn' : q.name = arg.name := by simpa using hqn
      obtain ⟨j, hj⟩ := List.mem_iff_getElem?.mp hq
      have hcl := bindsOk_clause h .kwPlaced
      simp only [clauseOk] at hcl
      rw [List.all_eq_true] at hcl
      have h1 := hcl arg harg
      rw [List.all_eq_true] at h1
      have h2 := h1 (q, j) (List.mem_zipIdx_iff_getElem?.mpr hj)
      simp only [hqn', bne_self_eq_false, Bool.false_or, Bool.and_eq_true, decide_eq_true_eq] at h2
      have hnp : ¬ j < c.npos := by have := hc.npos_le; omega
      have hcont : c.kws.contains arg.name = true := List.contains_iff_mem.mpr hkw
      refine ⟨j, q, hj, hqn', ?_, h2.2, ?_⟩
      · rw [hget, hj]
        simp only [Option.map_some, slot, hnp, if_false, hcont, if_true, hqn']
      · intro hb
        have := h2.2
        simp only [accepts, hb] at this
        exact this
    · right
      have hcl := bindsOk_clause h .kwBound
      simp only [clauseOk] at hcl
      rw [List.all_eq_true] at hcl
      have h1 := hcl arg harg
      simp only [hdecl, Bool.false_or, Bool.and_eq_true] at h1
      refine ⟨?_, h1.2⟩
      intro j hj
      rw [hget] at hj
      cases hq : s[j]? with
      | none => simp [hq] at hj
      | some q =>
        simp only [hq, Option.map_some, Option.some.injEq, slot] at hj
        by_cases c1 : j < c.npos
        · simp [c1] at hj
        · simp only [c1, if_false] at hj
          split at hj
          · simp only [Option.some.injEq, Src.kw.injEq] at hj
            apply hdecl
            rw [List.any_eq_true]
            exact ⟨q, List.mem_iff_getElem?.mpr ⟨j, hq⟩, by simp [hj]⟩
          · simp at hj
  · -- required
    intro j p hp hr
    have := required_slot_some h hc hp hr
    rw [hget, hp]
    cases hsl : slot c.npos c.kws j p with
    | none => simp [hsl] at this
    | some src => exact ⟨src, by simp [hsl]⟩
  · -- exact
    intro j src hj
    rw [hget] at hj
    cases hq : s[j]? with
    | none => simp [hq] at hj
    | some q =>
      simp only [hq, Option.map_some, Option.some.injEq, slot] at hj
      by_cases c1 : j < c.npos
      · left
        simp only [c1, if_true, Option.some.injEq] at hj
        exact ⟨hj.symm, c1⟩
      · right
        simp only [c1, if_false] at hj
        split at hj
        · rename_i hc2
          simp only [Option.some.injEq] at hj
          exact ⟨q, rfl, hj.symm, List.contains_iff_mem.mp hc2⟩
        · simp at hj

/-- **`bind_ok_sound`.**  If the decidable rule `bindsOk` accepts (schema `a`, signature `s`) for the
function's binding path `m`, then for *every* call conforming to `a` — any admissible number of
positional arguments, any admissible set of keywords — the exporter's binder (`bind`: the transcription of
`_construct_named_inputs_and_attrs` for scripted functions, of the Python call for trace-only ones)
raises nothing and produces a binding in which every tensor argument sits on an input parameter, every
other argument on a parameter accepting it, no required parameter is unbound, and only droppable
arguments are dropped. -/
theorem bind_ok_sound (m : Mode) (a : AtenSchema) (s : OsSig) (h : bindsOk m a s = true)
    (c : Call) (hc : Conforms a c) :
    ∃ b, bind m s c = .ok b ∧ BoundRight m a s c b := by
  refine ⟨slots c.npos c.kws 0 s, ?_, slots_boundRight m a s h c hc⟩
  have hreq : ∀ j p, s[j]? = some p → p.required = true → (slot c.npos c.kws j p).isSome = true :=
    fun j p hp hr => required_slot_some h hc hp hr
  cases m with
  | scripted =>
    simp only [OV.C16.bind]
    apply bindS_eq_slots
    intro j p hp hr
    simpa using hreq j p hp hr
  | traced =>
    simp only [OV.C16.bind, bindT]
    -- no surplus positional
    have g1 : ¬ s.length < c.npos := by
      intro hlt
      have hl : s.length < a.positional.length := Nat.lt_of_lt_of_le hlt hc.npos_le
      have hi : a.positional[s.length]? = some a.positional[s.length] := List.getElem?_eq_getElem hl
      have hcl := bindsOk_clause h .posFits
      simp only [clauseOk] at hcl
      rw [List.all_eq_true] at hcl
      have := hcl (_, s.length) (List.mem_zipIdx_iff_getElem?.mpr hi)
      simp [Mode.dropsUnknown] at this
    -- every keyword is a parameter name
    have g2 : ¬ (c.kws.any (fun n => !(s.any (fun q => q.name == n))) = true) := by
      intro hany
      rw [List.any_eq_true] at hany
      obtain ⟨n, hn, hnot⟩ := hany
      obtain ⟨arg, harg, han⟩ := hc.kws_known n hn
      have hcl := bindsOk_clause h .kwBound
      simp only [clauseOk] at hcl
      rw [List.all_eq_true] at hcl
      have := hcl arg harg
      simp only [Mode.dropsUnknown, Bool.false_and, Bool.or_false, han] at this
      simp [this] at hnot
    -- no keyword collides with a positional
    have g3 : ¬ (c.kws.any (fun n => s.zipIdx.any (fun qj => qj.1.name == n && decide (qj.2 < c.npos))) = true) := by
      intro hany
      rw [List.any_eq_true] at hany
      obtain ⟨n, hn, hex⟩ := hany
      rw [List.any_eq_true] at hex
      obtain ⟨⟨q, j⟩, hqj, hcond⟩ := hex
      simp only [Bool.and_eq_true, beq_iff_eq, decide_eq_true_eq] at hcond
      obtain ⟨arg, harg, han⟩ := hc.kws_known n hn
      have hcl := bindsOk_clause h .kwPlaced
      simp only [clauseOk] at hcl
      rw [List.all_eq_true] at hcl
      have h1 := hcl arg harg
      rw [List.all_eq_true] at h1
      have h2 := h1 (q, j) hqj
      simp only [hcond.1, han, bne_self_eq_false, Bool.false_or, Bool.and_eq_true, decide_eq_true_eq] at h2
      have := hc.npos_le
      omega
    -- no required parameter missing
    have g4 : ¬ (s.zipIdx.any (fun pj => pj.1.required && (slot c.npos c.kws pj.2 pj.1).isNone) = true) := by
      intro hany
      rw [List.any_eq_true] at hany
      obtain ⟨⟨p, j⟩, hpj, hcond⟩ := hany
      simp only [Bool.and_eq_true] at hcond
      have := hreq j p (List.mem_zipIdx_iff_getElem?.mp hpj) hcond.1
      cases hsl : slot c.npos c.kws j p <;> simp [hsl] at this hcond
    rw [if_neg g1, if_neg g2, if_neg g3, if_neg g4]

/-- Non-vacuity: `aten::add.Tensor(Tensor self, Tensor other, *, Scalar alpha=1)` against
`aten_add(self, other, alpha: float = 1.0)`; both admissible calls conform. -/
example :
    let a : AtenSchema := ⟨[⟨"self", .tensor, false, false, false⟩, ⟨"other", .tensor, false, false, false⟩],
                           [⟨"alpha", .scalar, false, false, true⟩]⟩
    let s : OsSig := [⟨"self", true, .none, true, false, true⟩, ⟨"other", true, .none, true, false, true⟩,
                      ⟨"alpha", false, .float, false, false, true⟩]
    bindsOk .traced a s = true ∧ bindsOk .scripted a s = true ∧
    bind .traced s ⟨2, ["alpha"]⟩ = .ok [some (.pos 0), some (.pos 1), some (.kw "alpha")] ∧
    bind .scripted s ⟨2, []⟩ = .ok [some (.pos 0), some (.pos 1), none] ∧
    Conforms a ⟨2, ["alpha"]⟩ := by
  refine ⟨by decide, by decide, by decide, by decide, ?_⟩
  refine ⟨by decide, ?_, ?_, ?_⟩
  · intro i arg hi hd
    match i with
    | 0 => decide
    | 1 => decide
    | (k + 2) => simp at hi
  · intro n hn
    simp only [List.mem_singleton] at hn
    subst hn
    exact ⟨_, List.mem_singleton.mpr rfl, rfl⟩
  · intro arg harg hd
    simp only [List.mem_singleton] at harg
    subst harg
    simp at hd

/-- The rule is not vacuous in the other direction: it rejects `aten::amax(Tensor self, int[1] dim=[],
bool keepdim=False)` against `aten_amax(self, dim: INT64, keepdim: bool = False)` (required `dim` may be
omitted), and the binder indeed raises on the conforming call `amax(x)`. -/
theorem bindsOk_rejects_amax :
    let a : AtenSchema := ⟨[⟨"self", .tensor, false, false, false⟩, ⟨"dim", .int, true, false, true⟩,
                            ⟨"keepdim", .bool, false, false, true⟩], []⟩
    let s : OsSig := [⟨"self", true, .none, true, false, true⟩, ⟨"dim", true, .none, true, false, true⟩,
                      ⟨"keepdim", false, .int, false, false, true⟩]
    failing .scripted a s = [.requiredBound] ∧ bind .scripted s ⟨1, []⟩ = .error .missing := by
  decide

/-! ## Names -/

/-- **`name_regex_ok`** (soundness of the transcription of `_QUALIFIED_OPERATOR_NAME_REGEX`): a name the
model accepts has the shape `ns::name` or `ns::name.overload` with non-empty `[a-zA-Z0-9_]` namespace and
name and a non-empty `[a-zA-Z0-9._]` overload. -/
theorem name_regex_ok (cs : List Nat) (h : matchName cs = true) :
    ∃ ns nm ov, cs = ns ++ (58 :: 58 :: (nm ++ ov)) ∧
      ns ≠ [] ∧ (∀ c ∈ ns, isWord c = true) ∧ nm ≠ [] ∧ (∀ c ∈ nm, isWord c = true) ∧
      (ov = [] ∨ ∃ t, ov = 46 :: t ∧ t ≠ [] ∧ ∀ c ∈ t, isOvl c = true) := by
  unfold matchName at h
  have hsplit := List.takeWhile_append_dropWhile (p := isWord) (l := cs)
  split at h
  · rename_i r2 hr
    have hsplit2 := List.takeWhile_append_dropWhile (p := isWord) (l := r2)
    simp only [Bool.and_eq_true, Bool.not_eq_true', List.isEmpty_eq_false_iff] at h
    obtain ⟨⟨hns, hnm⟩, hov⟩ := h
    refine ⟨cs.takeWhile isWord, r2.takeWhile isWord, r2.dropWhile isWord, ?_, hns,
      takeWhile_all _ _, hnm, takeWhile_all _ _, ?_⟩
    · rw [hsplit2, ← hr, hsplit]
    · split at hov
      · left; assumption
      · rename_i ov hovr
        right
        simp only [Bool.and_eq_true, Bool.not_eq_true', List.isEmpty_eq_false_iff, List.all_eq_true] at hov
        exact ⟨ov, hovr, hov.1, hov.2⟩
      · simp at hov
  · simp at h

/-- **`no_default_suffix`**: a name accepted by `_check_and_normalize_names` never ends in `.default` —
default overloads are spelled without it. -/
theorem no_default_suffix (cs : List Nat) (h : nameOkCodes cs = true) :
    ¬ ∃ pre, cs = pre ++ [46, 100, 101, 102, 97, 117, 108, 116] := by
  intro ⟨pre, hp⟩
  unfold nameOkCodes at h
  simp only [Bool.and_eq_true, Bool.not_eq_true'] at h
  have : dotDefault.isSuffixOf cs = true := by
    rw [List.isSuffixOf_iff_suffix]
    exact ⟨pre, by rw [hp]; rfl⟩
  rw [this] at h
  exact absurd h.1 (by decide)

example : nameOk "aten::add.Tensor" = true ∧ nameOk "aten::add" = true ∧ nameOk "aten::add.default" = false ∧
    nameOk "aten:add" = false ∧ nameOk "aten::add." = false ∧ nameOk "::add" = false ∧
    nameOk "aten::a-b" = false := by decide

/-! ## Registry: first registration wins, one function per (name, kind) -/

/-- **`unique_per_kind`**: after *any* history of `Registry.register` calls every record holds at most one
real and at most one complex function, and record names are pairwise distinct — so each
(name, real/complex) pair resolves to at most one function. -/
theorem unique_per_kind (rs : List Registration) :
    AtMostOne (runRegs rs) ∧ ((runRegs rs).map (·.name)).Nodup := by
  unfold runRegs
  suffices H : ∀ r : Reg, AtMostOne r ∧ (r.map (·.name)).Nodup →
      AtMostOne (rs.foldl register r) ∧ ((rs.foldl register r).map (·.name)).Nodup by
    exact H [] ⟨(by intro o ho; cases ho), (by simp)⟩
  induction rs with
  | nil => intro r h; exact h
  | cons x xs ih =>
    intro r h
    exact ih (register r x) ⟨register_atMostOne r x h.1, register_nodup r x h.2⟩

/-- **`register_first_wins`**: registering under a (name, kind) that already holds a function changes
nothing (the code only warns). -/
theorem register_first_wins (r : Reg) (x : Registration) (o : Overloaded) (ho : o ∈ r)
    (hn : o.name = x.name) (hnodup : (r.map (·.name)).Nodup)
    (hfull : (if x.isComplex then o.complex else o.overloads) ≠ []) :
    register r x = r := by
  induction r with
  | nil => cases ho
  | cons q qs ih =>
    simp only [register]
    by_cases e : (q.name == x.name) = true
    · have e' : q.name = x.name := by simpa using e
      have hq : o = q := by
        rcases List.mem_cons.mp ho with h | h
        · exact h
        · exfalso
          simp only [List.map_cons, List.nodup_cons, List.mem_map, not_exists, not_and] at hnodup
          exact hnodup.1 o h (by rw [hn, e'])
      subst hq
      simp only [e, if_true, List.cons.injEq, and_true]
      unfold addTo
      cases hx : x.isComplex
      · simp only [hx] at hfull
        have : o.overloads.isEmpty = false := by
          cases hov : o.overloads with
          | nil => exact absurd hov hfull
          | cons _ _ => rfl
        simp [this]
      · simp only [hx, if_true] at hfull
        have : o.complex.isEmpty = false := by
          cases hov : o.complex with
          | nil => exact absurd hov hfull
          | cons _ _ => rfl
        simp [this]
    · have e' : ¬ q.name = x.name := by simpa using e
      rw [if_neg e]
      have ho' : o ∈ qs := by
        rcases List.mem_cons.mp ho with h | h
        · exact absurd (h ▸ hn) e'
        · exact h
      simp only [List.map_cons, List.nodup_cons] at hnodup
      rw [ih ho' hnodup.2]

example : runRegs [⟨1, "aten::add", false⟩, ⟨2, "aten::add", false⟩, ⟨3, "aten::add", true⟩, ⟨4, "internal::x", false⟩]
    = [⟨"aten::add", [1], [3]⟩, ⟨"internal::x", [4], []⟩] ∧
    torchlibOps (runRegs [⟨1, "aten::add", false⟩, ⟨2, "aten::add", false⟩, ⟨3, "aten::add", true⟩, ⟨4, "internal::x", false⟩])
    = [("aten::add", 1, false), ("aten::add", 3, true)] := by decide

/-! ## The table -/

open OV.Gen.C16

/-- Open findings on the unchanged tree (reproduced on the real code, `known_findings.d/C16.json`): for
each listed name, exactly the defects it is known to have.  Anything else — another defect on a listed
row, any defect on an unlisted row — falsifies `registry_binds_partial`. -/
def waived : String → List Defect
  -- C16-undefined-overload: PyTorch defines no such overload
  | "aten::getitem" => [.undefinedOp]
  | "quantized_decomposed::quantize_per_channel.tensor" => [.undefinedOp]
  | "quantized_decomposed::quantize_per_channel.tensor2" => [.undefinedOp]
  | "quantized_decomposed::dequantize_per_channel.tensor" => [.undefinedOp]
  | "quantized_decomposed::dequantize_per_channel.tensor2" => [.undefinedOp]
  -- C16-required-unbound: a required parameter the schema lets the caller omit
  | "aten::amax" => [.clause .requiredBound]
  | "aten::amin" => [.clause .requiredBound]
  | "prims::var" => [.clause .posAccepts, .clause .requiredBound]
  -- C16-kw-rejected: trace-only function does not declare a keyword-only schema argument (TypeError)
  | "aten::bernoulli" => [.clause .kwBound]
  | "aten::multinomial" => [.clause .kwBound]
  | "aten::normal_functional" => [.clause .kwBound]
  | "aten::normal.float_float" => [.clause .kwBound]
  | "aten::normal.float_Tensor" => [.clause .kwBound]
  | "aten::normal.Tensor_float" => [.clause .kwBound, .clause .requiredBound]
  | "aten::normal.Tensor_Tensor" => [.clause .kwBound]
  | "aten::tensor.bool" => [.clause .kwBound, .clause .requiredBound]
  | "aten::tensor.float" => [.clause .kwBound, .clause .requiredBound]
  | "aten::tensor.int" => [.clause .kwBound, .clause .requiredBound]
  -- C16-repeat-interleave-self: schema `repeats` lands on parameter `self` (body compensates)
  | "aten::repeat_interleave.Tensor" => [.clause .posNames]
  -- C16-positional-surplus: the schema has more positional arguments than the function
  | "torchvision::roi_pool" => [.clause .posFits, .clause .posAccepts, .clause .posNames]
  | _ => []

def rowWithin (e : Entry) : Bool := e.defects.all (fun d => (waived e.qualified).contains d)

/- The full statement `∀ e ∈ registry, e.ok = true` is false on the unchanged tree (see `waived`); it is
kept as `registry_binds_full_refuted_snapshot` below on a literal copy of one failing row. -/

theorem registry_chunk0 : ∀ e ∈ chunk0, rowWithin e = true := by decide +kernel
theorem registry_chunk1 : ∀ e ∈ chunk1, rowWithin e = true := by decide +kernel
theorem registry_chunk2 : ∀ e ∈ chunk2, rowWithin e = true := by decide +kernel
theorem registry_chunk3 : ∀ e ∈ chunk3, rowWithin e = true := by decide +kernel
theorem registry_chunk4 : ∀ e ∈ chunk4, rowWithin e = true := by decide +kernel
theorem registry_chunk5 : ∀ e ∈ chunk5, rowWithin e = true := by decide +kernel
theorem registry_chunk6 : ∀ e ∈ chunk6, rowWithin e = true := by decide +kernel
theorem registry_chunk7 : ∀ e ∈ chunk7, rowWithin e = true := by decide +kernel

theorem registry_within : ∀ e ∈ registry, rowWithin e = true := by
  intro e he
  simp only [registry, List.mem_append] at he
  rcases he with ((((((h | h) | h) | h) | h) | h) | h) | h
  · exact registry_chunk0 e h
  · exact registry_chunk1 e h
  · exact registry_chunk2 e h
  · exact registry_chunk3 e h
  · exact registry_chunk4 e h
  · exact registry_chunk5 e h
  · exact registry_chunk6 e h
  · exact registry_chunk7 e h

/-- **`registry_binds_partial`** (table theorem over the registry as it is *now*): every row outside the
listed open findings has a well-formed name, an operator PyTorch defines (or a library that is not
installed), and `bindsOk`. -/
theorem registry_binds_partial : ∀ e ∈ registry, waived e.qualified = [] →
    nameOkCodes e.qcodes = true ∧ e.res ≠ .undefined ∧
    (e.res ≠ .lib_absent → bindsOk e.mode e.aten e.sig = true) := by
  intro e he hw
  have h := registry_within e he
  unfold rowWithin at h
  rw [hw] at h
  have hd : e.defects = [] := by
    cases hdef : e.defects with
    | nil => rfl
    | cons d ds => rw [hdef] at h; simp at h
  unfold Entry.defects at hd
  rw [List.append_eq_nil_iff] at hd
  obtain ⟨h1, h2⟩ := hd
  refine ⟨?_, ?_, ?_⟩
  · cases hn : nameOkCodes e.qcodes
    · simp [hn] at h1
    · rfl
  · intro hr; simp [hr] at h2
  · intro hla
    cases hr : e.res <;> simp only [hr] at h2 hla
    · exact (failing_nil_iff _ _ _).mp (List.map_eq_nil_iff.mp h2)
    · exact (failing_nil_iff _ _ _).mp (List.map_eq_nil_iff.mp h2)
    · exact absurd rfl hla
    · simp at h2

/-- **`registry_binds`** = table ∘ general theorem: for every registered overload outside the open
findings whose operator resolves, *every* conforming call binds right through the exporter's binder. -/
theorem registry_binds : ∀ e ∈ registry, waived e.qualified = [] → e.res ≠ .lib_absent →
    ∀ c, Conforms e.aten c → ∃ b, bind e.mode e.sig c = .ok b ∧ BoundRight e.mode e.aten e.sig c b := by
  intro e he hw hla c hc
  exact bind_ok_sound _ _ _ ((registry_binds_partial e he hw).2.2 hla) c hc

/-- **`registry_unique`**: each (qualified name, real/complex) pair occurs once in what
`get_torchlib_ops()` returns. -/
theorem registry_unique : (registry.map Entry.key).Nodup :=
  nodup_of_nodupN_natKey _ (by decide +kernel)

/-- `registrySize` rows were extracted (guards against a truncated table). -/
theorem registry_size : registry.length = registrySize := by decide +kernel

/-- The full statement is refuted on a literal copy of the `aten::amax` row of the unchanged tree
(replayed on the real exporter: `torch.onnx.export` of `torch.amax(x)` raises). -/
theorem registry_binds_full_refuted_snapshot :
    let e : Entry := ⟨[97, 116, 101, 110, 58, 58, 97, 109, 97, 120], false, .scripted, .resolved,
      ⟨[⟨"self", .tensor, false, false, false⟩, ⟨"dim", .int, true, false, true⟩,
        ⟨"keepdim", .bool, false, false, true⟩], []⟩,
      [⟨"self", true, .none, true, false, true⟩, ⟨"dim", true, .none, true, false, true⟩,
       ⟨"keepdim", false, .int, false, false, true⟩]⟩
    e.ok = false ∧ bind e.mode e.sig ⟨1, []⟩ = .error .missing := by
  decide

end OV.Props.C16
