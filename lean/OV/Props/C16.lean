import OV.Lemmas.C16Bind
import OV.Gen.C16Registry
/-!
# C16 — every registered torch_lib overload binds correctly to its ATen schema

Property theorems only.  Model: `OV.Model.C16Bind`; lemmas: `OV.Lemmas.C16Bind`; the table
`OV.Gen.C16.registry` is regenerated on every run by `harness/extract_registry.py` from
`get_torchlib_ops()` of `/repo` and the operator schemas of the installed PyTorch.

Not covered by any theorem here: the property's clause "every scripted function's FunctionProto passes the ONNX checker"
(per-run oracle `onnx.checker.check_function` in `harness/c16.py`), and that the names `waived` marks `.undefinedOp` are
really undefined (per-run `_get_overload`); table theorems bound a row's defects from above only.
-/
namespace OV.Props.C16
open OV.C16

/-! ## The general binding theorem -/

/-- What it means for a binding `b` of a call `c` to be right (the property's four clauses, plus
exactness: parameters receive nothing but arguments of the call). -/
structure BoundRight (m : Mode) (a : AtenSchema) (s : OsSig) (c : Call) (b : Binding) : Prop where
  length_eq : b.length = s.length
  /-- every supplied positional argument lands on the parameter at its position, that parameter
  accepts it (a tensor only an input), and no *other* parameter carries the argument's name — or the
  argument has no parameter at its position, is dropped, and is one of the droppable ones -/
  positional : ∀ (i : Nat) (arg : AArg), a.positional[i]? = some arg → i < c.npos →
    (∃ p : OParam, s[i]? = some p ∧ b[i]? = some (some (Src.pos i)) ∧ accepts m p arg = true ∧
        (arg.base = .tensor → p.isInput = true) ∧
        (∀ (j : Nat) (q : OParam), s[j]? = some q → q.name = arg.name → j = i))
    ∨ (s[i]? = none ∧ (∀ j : Nat, b[j]? ≠ some (some (Src.pos i))) ∧ droppable arg.name = true)
  /-- every supplied keyword-only argument lands on the parameter of its name, which accepts it — or no
  parameter carries its name, it is dropped, and it is droppable -/
  keyword : ∀ arg : AArg, arg ∈ a.kwonly → arg.name ∈ c.kws →
    (∃ (j : Nat) (p : OParam), s[j]? = some p ∧ p.name = arg.name ∧ b[j]? = some (some (Src.kw arg.name)) ∧
        accepts m p arg = true ∧ (arg.base = .tensor → p.isInput = true))
    ∨ ((∀ q : OParam, q ∈ s → q.name ≠ arg.name) ∧
        (∀ j : Nat, b[j]? ≠ some (some (Src.kw arg.name))) ∧ droppable arg.name = true)
  /-- no required parameter is left unbound -/
  required : ∀ (j : Nat) (p : OParam), s[j]? = some p → p.required = true → ∃ src, b[j]? = some (some src)
  /-- a parameter holds only an argument the call supplied, at its own position / of its own name -/
  exact : ∀ (j : Nat) (src : Src), b[j]? = some (some src) →
    (src = Src.pos j ∧ j < c.npos) ∨ (∃ p : OParam, s[j]? = some p ∧ src = Src.kw p.name ∧ p.name ∈ c.kws)

theorem slots_boundRight_core (m : Mode) (a : AtenSchema) (s : OsSig)
    (h : bindsOk m a s = true) (c : Call) (hle : c.npos ≤ a.positional.length)
    (hreq : ∀ j p, s[j]? = some p → p.required = true → (slot c.npos c.kws j p).isSome = true) :
    BoundRight m a s c (slots c.npos c.kws 0 s) := by
  have hget : ∀ j, (slots c.npos c.kws 0 s)[j]? = (s[j]?).map (slot c.npos c.kws j) := by
    intro j
    have := slots_getElem? c.npos c.kws 0 s j
    simpa using this
  refine ⟨slots_length _ _ _ _, ?_, ?_, ?_, ?_⟩
  · -- positional
    intro i arg hi hlt
    have hmem : (arg, i) ∈ a.positional.zipIdx := List.mem_zipIdx_iff_getElem?.mpr hi
    cases hs : s[i]? with
    | some p =>
      left
      refine ⟨p, rfl, ?_, ?_, ?_, ?_⟩
      · rw [hget, hs]; simp [slot, hlt]
      · have hcl := bindsOk_clause h .posAccepts
        simp only [clauseOk] at hcl
        rw [List.all_eq_true] at hcl
        have := hcl (arg, i) hmem
        simpa [hs] using this
      · intro hb
        have hcl := bindsOk_clause h .posAccepts
        simp only [clauseOk] at hcl
        rw [List.all_eq_true] at hcl
        have := hcl (arg, i) hmem
        simp only [hs, accepts, hb] at this
        exact this
      · intro j q hq hn
        have hcl := bindsOk_clause h .posNames
        simp only [clauseOk] at hcl
        rw [List.all_eq_true] at hcl
        have h1 := hcl (arg, i) hmem
        have hlt' : i < s.length := (List.getElem?_eq_some_iff.mp hs).1
        have hnle : ¬ s.length ≤ i := by omega
        simp only [hnle, decide_false, Bool.false_or] at h1
        rw [List.all_eq_true] at h1
        have h2 := h1 (q, j) (List.mem_zipIdx_iff_getElem?.mpr hq)
        simpa [hn] using h2
    | none =>
      right
      have hcl := bindsOk_clause h .posFits
      simp only [clauseOk] at hcl
      rw [List.all_eq_true] at hcl
      have h1 := hcl (arg, i) hmem
      have hge : ¬ i < s.length := by
        intro hl
        have := List.getElem?_eq_some_iff.mpr ⟨hl, rfl⟩
        rw [hs] at this
        cases this
      simp only [hge, decide_false, Bool.false_or, Bool.and_eq_true] at h1
      refine ⟨rfl, ?_, h1.2⟩
      intro j hj
      rw [hget] at hj
      cases hq : s[j]? with
      | none => simp [hq] at hj
      | some q =>
        simp only [hq, Option.map_some, Option.some.injEq, slot] at hj
        by_cases c1 : j < c.npos
        · simp only [c1, if_true, Option.some.injEq, Src.pos.injEq] at hj
          subst hj
          rw [hs] at hq
          cases hq
        · simp only [c1, if_false] at hj
          split at hj <;> simp at hj
  · -- keyword
    intro arg harg hkw
    by_cases hdecl : s.any (fun q => q.name == arg.name) = true
    · left
      rw [List.any_eq_true] at hdecl
      obtain ⟨q, hq, hqn⟩ := hdecl
      have hqn' : q.name = arg.name := by simpa using hqn
      obtain ⟨j, hj⟩ := List.mem_iff_getElem?.mp hq
      have hcl := bindsOk_clause h .kwPlaced
      simp only [clauseOk] at hcl
      rw [List.all_eq_true] at hcl
      have h1 := hcl arg harg
      rw [List.all_eq_true] at h1
      have h2 := h1 (q, j) (List.mem_zipIdx_iff_getElem?.mpr hj)
      simp only [hqn', bne_self_eq_false, Bool.false_or, Bool.and_eq_true, decide_eq_true_eq] at h2
      have hnp : ¬ j < c.npos := by omega
      have hcont : c.kws.contains arg.name = true := List.contains_iff_mem.mpr hkw
      refine ⟨j, q, hj, hqn', ?_, h2.2, ?_⟩
      · rw [hget, hj]
        simp only [Option.map_some, slot, hnp, if_false, hcont, if_true, hqn']
      · intro hb
        have := h2.2
        simp only [accepts, hb] at this
        exact this
    · right
      have hcl := bindsOk_clause h .kwBound
      simp only [clauseOk] at hcl
      rw [List.all_eq_true] at hcl
      have h1 := hcl arg harg
      simp only [hdecl, Bool.false_or, Bool.and_eq_true] at h1
      refine ⟨?_, ?_, h1.2⟩
      · intro q hq hqn
        apply hdecl
        rw [List.any_eq_true]
        exact ⟨q, hq, by simp [hqn]⟩
      intro j hj
      rw [hget] at hj
      cases hq : s[j]? with
      | none => simp [hq] at hj
      | some q =>
        simp only [hq, Option.map_some, Option.some.injEq, slot] at hj
        by_cases c1 : j < c.npos
        · simp [c1] at hj
        · simp only [c1, if_false] at hj
          split at hj
          · simp only [Option.some.injEq, Src.kw.injEq] at hj
            apply hdecl
            rw [List.any_eq_true]
            exact ⟨q, List.mem_iff_getElem?.mpr ⟨j, hq⟩, by simp [hj]⟩
          · simp at hj
  · -- required
    intro j p hp hr
    have := hreq j p hp hr
    rw [hget, hp]
    cases hsl : slot c.npos c.kws j p with
    | none => simp [hsl] at this
    | some src => exact ⟨src, by simp [hsl]⟩
  · -- exact
    intro j src hj
    rw [hget] at hj
    cases hq : s[j]? with
    | none => simp [hq] at hj
    | some q =>
      simp only [hq, Option.map_some, Option.some.injEq, slot] at hj
      by_cases c1 : j < c.npos
      · left
        simp only [c1, if_true, Option.some.injEq] at hj
        exact ⟨hj.symm, c1⟩
      · right
        simp only [c1, if_false] at hj
        split at hj
        · rename_i hc2
          simp only [Option.some.injEq] at hj
          exact ⟨q, rfl, hj.symm, List.contains_iff_mem.mp hc2⟩
        · simp at hj

/-- The closed form is what the binder returns, under what the two call models have in common. -/
theorem bind_ok_core (m : Mode) (a : AtenSchema) (s : OsSig) (h : bindsOk m a s = true)
    (c : Call) (hle : c.npos ≤ a.positional.length)
    (hreq : ∀ j p, s[j]? = some p → p.required = true → (slot c.npos c.kws j p).isSome = true)
    (hdecl : m = .traced → ∀ n, n ∈ c.kws → s.any (fun q => q.name == n) = true)
    (hfree : m = .traced → ∀ n, n ∈ c.kws → ∀ (q : OParam) (j : Nat), s[j]? = some q → q.name = n → c.npos ≤ j) :
    bind m s c = .ok (slots c.npos c.kws 0 s) := by
  cases m with
  | scripted =>
    simp only [OV.C16.bind]
    apply bindS_eq_slots
    intro j p hp hr
    simpa using hreq j p hp hr
  | traced =>
    simp only [OV.C16.bind, bindT]
    -- no surplus positional
    have g1 : ¬ s.length < c.npos := by
      intro hlt
      have hl : s.length < a.positional.length := Nat.lt_of_lt_of_le hlt hle
      have hi : a.positional[s.length]? = some a.positional[s.length] := List.getElem?_eq_getElem hl
      have hcl := bindsOk_clause h .posFits
      simp only [clauseOk] at hcl
      rw [List.all_eq_true] at hcl
      have := hcl (_, s.length) (List.mem_zipIdx_iff_getElem?.mpr hi)
      simp [Mode.dropsUnknown] at this
    -- every keyword is a parameter name
    have g2 : ¬ (c.kws.any (fun n => !(s.any (fun q => q.name == n))) = true) := by
      intro hany
      rw [List.any_eq_true] at hany
      obtain ⟨n, hn, hnot⟩ := hany
      simp [hdecl rfl n hn] at hnot
    -- no keyword collides with a positional
    have g3 : ¬ (c.kws.any (fun n => s.zipIdx.any (fun qj => qj.1.name == n && decide (qj.2 < c.npos))) = true) := by
      intro hany
      rw [List.any_eq_true] at hany
      obtain ⟨n, hn, hex⟩ := hany
      rw [List.any_eq_true] at hex
      obtain ⟨⟨q, j⟩, hqj, hcond⟩ := hex
      simp only [Bool.and_eq_true, beq_iff_eq, decide_eq_true_eq] at hcond
      have := hfree rfl n hn q j (List.mem_zipIdx_iff_getElem?.mp hqj) hcond.1
      omega
    -- no required parameter missing
    have g4 : ¬ (s.zipIdx.any (fun pj => pj.1.required && (slot c.npos c.kws pj.2 pj.1).isNone) = true) := by
      intro hany
      rw [List.any_eq_true] at hany
      obtain ⟨⟨p, j⟩, hpj, hcond⟩ := hany
      simp only [Bool.and_eq_true] at hcond
      have := hreq j p (List.mem_zipIdx_iff_getElem?.mp hpj) hcond.1
      cases hsl : slot c.npos c.kws j p <;> simp [hsl] at this hcond
    rw [if_neg g1, if_neg g2, if_neg g3, if_neg g4]

theorem slots_boundRight (m : Mode) (a : AtenSchema) (s : OsSig)
    (h : bindsOk m a s = true) (c : Call) (hc : Conforms a c) :
    BoundRight m a s c (slots c.npos c.kws 0 s) :=
  slots_boundRight_core m a s h c hc.npos_le (fun _ _ hp hr => required_slot_some h hc hp hr)

/-- **`bind_ok_sound`.**  If the decidable rule `bindsOk` accepts (schema `a`, signature `s`) for the
function's binding path `m`, then for *every* call conforming to `a` — any admissible number of
positional arguments, any admissible set of keywords — the exporter's binder (`bind`: the transcription of
`_construct_named_inputs_and_attrs` for scripted functions, of the Python call for trace-only ones)
raises nothing and produces a binding in which every tensor argument sits on an input parameter, every
other argument on a parameter accepting it, no required parameter is unbound, and only droppable
arguments are dropped. -/
theorem bind_ok_sound (m : Mode) (a : AtenSchema) (s : OsSig) (h : bindsOk m a s = true)
    (c : Call) (hc : Conforms a c) :
    ∃ b, bind m s c = .ok b ∧ BoundRight m a s c b := by
  refine ⟨slots c.npos c.kws 0 s, ?_, slots_boundRight m a s h c hc⟩
  apply bind_ok_core m a s h c hc.npos_le (fun _ _ hp hr => required_slot_some h hc hp hr)
  · -- every keyword is a parameter name
    intro hm n hn
    subst hm
    obtain ⟨arg, harg, han⟩ := hc.kws_known n hn
    have hcl := bindsOk_clause h .kwBound
    simp only [clauseOk] at hcl
    rw [List.all_eq_true] at hcl
    have := hcl arg harg
    simpa [Mode.dropsUnknown, han] using this
  · -- no keyword collides with a positional
    intro hm n hn q j hq hqn
    obtain ⟨arg, harg, han⟩ := hc.kws_known n hn
    have hcl := bindsOk_clause h .kwPlaced
    simp only [clauseOk] at hcl
    rw [List.all_eq_true] at hcl
    have h1 := hcl arg harg
    rw [List.all_eq_true] at h1
    have h2 := h1 (q, j) (List.mem_zipIdx_iff_getElem?.mpr hq)
    simp only [hqn, han, bne_self_eq_false, Bool.false_or, Bool.and_eq_true, decide_eq_true_eq] at h2
    have := hc.npos_le
    omega


/-- **`bindS_is_stack_loop`** (fidelity of the transcription): the counter form `bindS` used in the proofs is
the literal stack loop of `_construct_named_inputs_and_attrs` (`reversed_args_stack` = the positional
indices `k, k+1, …, npos-1`, popped one per parameter). -/
theorem bindS_is_stack_loop (npos : Nat) (kws : List String) (k : Nat) (ps : List OParam) :
    bindStk kws (List.range' k (npos - k)) ps = bindS npos kws k ps := by
  induction ps generalizing k with
  | nil => cases h : List.range' k (npos - k) <;> simp [bindStk, bindS]
  | cons p ps ih =>
    by_cases c1 : k < npos
    · have hr : List.range' k (npos - k) = k :: List.range' (k + 1) (npos - (k + 1)) := by
        have : npos - k = (npos - (k + 1)) + 1 := by omega
        rw [this, List.range'_succ]
      rw [hr]
      simp only [bindStk, bindS, c1, if_true]
      rw [ih (k + 1)]
    · have h0 : npos - k = 0 := by omega
      have h1 : npos - (k + 1) = 0 := by omega
      have ih' := ih (k + 1)
      rw [h1] at ih'
      simp only [List.range'_zero] at ih'
      rw [h0]
      simp only [List.range'_zero, bindStk, bindS, c1, if_false, ih']

example : bindStk ["alpha"] [0, 1] [⟨"self", true, .none, true, false, true, .otherPlain, false⟩,
      ⟨"other", true, .none, true, false, true, .otherPlain, false⟩,
      ⟨"alpha", false, .float, false, false, true, .base .float, true⟩] =
    .ok [some (.pos 0), some (.pos 1), some (.kw "alpha")] := by decide

/-- Non-vacuity: `aten::add.Tensor(Tensor self, Tensor other, *, Scalar alpha=1)` against
`aten_add(self, other, alpha: float = 1.0)`; both admissible calls conform. -/
example :
    let a : AtenSchema := ⟨[⟨"self", .tensor, false, false, false, false⟩, ⟨"other", .tensor, false, false, false, false⟩],
                           [⟨"alpha", .scalar, false, false, true, false⟩]⟩
    let s : OsSig := [⟨"self", true, .none, true, false, true, .otherPlain, false⟩, ⟨"other", true, .none, true, false, true, .otherPlain, false⟩,
                      ⟨"alpha", false, .float, false, false, true, .base .float, true⟩]
    bindsOk .traced a s = true ∧ bindsOk .scripted a s = true ∧
    bind .traced s ⟨2, ["alpha"]⟩ = .ok [some (.pos 0), some (.pos 1), some (.kw "alpha")] ∧
    bind .scripted s ⟨2, []⟩ = .ok [some (.pos 0), some (.pos 1), none] ∧
    Conforms a ⟨2, ["alpha"]⟩ := by
  refine ⟨by decide, by decide, by decide, by decide, ?_⟩
  refine ⟨by decide, ?_, ?_, ?_⟩
  · intro i arg hi hd
    match i with
    | 0 => decide
    | 1 => decide
    | (k + 2) => simp at hi
  · intro n hn
    simp only [List.mem_singleton] at hn
    subst hn
    exact ⟨_, List.mem_singleton.mpr rfl, rfl⟩
  · intro arg harg hd
    simp only [List.mem_singleton] at harg
    subst harg
    simp at hd

/-- The rule is not vacuous in the other direction: it rejects `aten::amax(Tensor self, int[1] dim=[],
bool keepdim=False)` against `aten_amax(self, dim: INT64, keepdim: bool = False)` (required `dim` may be
omitted; the row as it was before `/repo` d441e93), and the binder indeed raises on the conforming call
`amax(x)`. -/
theorem bindsOk_rejects_amax :
    let a : AtenSchema := ⟨[⟨"self", .tensor, false, false, false, false⟩, ⟨"dim", .int, true, false, true, false⟩,
                            ⟨"keepdim", .bool, false, false, true, false⟩], []⟩
    let s : OsSig := [⟨"self", true, .none, true, false, true, .otherPlain, false⟩, ⟨"dim", true, .none, true, false, true, .otherPlain, false⟩,
                      ⟨"keepdim", false, .int, false, false, true, .base .int, true⟩]
    failing .scripted a s = [.requiredBound] ∧ bind .scripted s ⟨1, []⟩ = .error .missing := by
  decide



/-! ## Positional schema arguments passed by keyword -/

/-- The wider call model of what FX graphs really contain: positional schema arguments from index `npos`
on may also be passed by keyword (python decompositions do that). -/
structure ConformsK (a : AtenSchema) (c : Call) : Prop where
  npos_le : c.npos ≤ a.positional.length
  kws_known : ∀ n, n ∈ c.kws →
    (∃ (i : Nat) (arg : AArg), a.positional[i]? = some arg ∧ arg.name = n ∧ c.npos ≤ i) ∨
    (∃ arg, arg ∈ a.kwonly ∧ arg.name = n)
  required_pos : ∀ (i : Nat) (arg : AArg), a.positional[i]? = some arg → arg.hasDefault = false →
    i < c.npos ∨ arg.name ∈ c.kws
  required_kw : ∀ arg, arg ∈ a.kwonly → arg.hasDefault = false → arg.name ∈ c.kws

/-- `BoundRight` plus: a positional schema argument passed by keyword lands on the parameter at its own
position (which carries its name and accepts it), or has no parameter at all, is dropped and droppable. -/
structure BoundRightK (m : Mode) (a : AtenSchema) (s : OsSig) (c : Call) (b : Binding) : Prop where
  base : BoundRight m a s c b
  byKeyword : ∀ (i : Nat) (arg : AArg), a.positional[i]? = some arg → c.npos ≤ i → arg.name ∈ c.kws →
    (∃ p : OParam, s[i]? = some p ∧ p.name = arg.name ∧ b[i]? = some (some (Src.kw arg.name)) ∧
        accepts m p arg = true ∧ (arg.base = .tensor → p.isInput = true))
    ∨ (s[i]? = none ∧ (∀ q : OParam, q ∈ s → q.name ≠ arg.name) ∧
        (∀ j : Nat, b[j]? ≠ some (some (Src.kw arg.name))) ∧ droppable arg.name = true)

/-- Every call in the narrow model is one in the wide model. -/
theorem conformsK_of_conforms (a : AtenSchema) (c : Call) (h : Conforms a c) : ConformsK a c :=
  ⟨h.npos_le, fun n hn => Or.inr (h.kws_known n hn),
   fun i arg hi hd => Or.inl (h.required_pos i arg hi hd), h.required_kw⟩

/-- **`bind_ok_sound_by_keyword`** — `bind_ok_sound` for the wide call model: under `bindsOkK` (= `bindsOk`,
positional parameters named like their schema arguments, required parameters under arguments without
default, distinct names on both sides) every call that passes any of its positional schema arguments by
keyword is still bound right by the exporter's binder. -/
theorem bind_ok_sound_by_keyword (m : Mode) (a : AtenSchema) (s : OsSig) (h : bindsOkK m a s = true)
    (c : Call) (hc : ConformsK a c) :
    ∃ b, bind m s c = .ok b ∧ BoundRightK m a s c b := by
  unfold bindsOkK at h
  simp only [Bool.and_eq_true] at h
  obtain ⟨⟨⟨⟨hb, hpn⟩, hro⟩, hsn⟩, han⟩ := h
  have hsn := nodupS_sound _ hsn
  have han := nodupS_sound _ han
  unfold posNamed at hpn
  rw [List.all_eq_true] at hpn
  have named : ∀ (i : Nat) (arg : AArg) (p : OParam), a.positional[i]? = some arg → s[i]? = some p → p.name = arg.name := by
    intro i arg p hi hp
    have := hpn (arg, i) (List.mem_zipIdx_iff_getElem?.mpr hi)
    simpa [hp] using this
  have fits : ∀ (i : Nat) (arg : AArg), a.positional[i]? = some arg → s[i]? = none →
      m.dropsUnknown = true ∧ droppable arg.name = true := by
    intro i arg hi hn
    have hcl := bindsOk_clause hb .posFits
    simp only [clauseOk] at hcl
    rw [List.all_eq_true] at hcl
    have h1 := hcl (arg, i) (List.mem_zipIdx_iff_getElem?.mpr hi)
    have hge : ¬ i < s.length := by have := List.getElem?_eq_none_iff.mp hn; omega
    simpa [hge] using h1
  have hget : ∀ j, (slots c.npos c.kws 0 s)[j]? = (s[j]?).map (slot c.npos c.kws j) := by
    intro j
    have := slots_getElem? c.npos c.kws 0 s j
    simpa using this
  -- required parameters are always supplied
  have hreq : ∀ j p, s[j]? = some p → p.required = true → (slot c.npos c.kws j p).isSome = true := by
    intro j p hp hr
    have hcl := bindsOk_clause hb .requiredBound
    simp only [clauseOk] at hcl
    rw [List.all_eq_true] at hcl
    have hmem : (p, j) ∈ s.zipIdx := List.mem_zipIdx_iff_getElem?.mpr hp
    have := hcl (p, j) hmem
    simp only [hr, Bool.not_true, Bool.false_or, Bool.or_eq_true, Bool.and_eq_true, decide_eq_true_eq,
      List.any_eq_true, beq_iff_eq, Bool.not_eq_true'] at this
    unfold slot
    rcases this with hms | ⟨_, x, hx, hxn⟩
    · -- a positional argument sits above the parameter; by `requiredOwn` it has no default
      have hjP : j < a.positional.length := by
        unfold mustSupply at hms
        rw [List.any_eq_true] at hms
        obtain ⟨y, hy, _⟩ := hms
        have : (a.positional.drop j) ≠ [] := List.ne_nil_of_mem hy
        by_cases hlt : j < a.positional.length
        · exact hlt
        · exact absurd (List.drop_eq_nil_of_le (by omega)) this
      have hj : a.positional[j]? = some a.positional[j] := List.getElem?_eq_getElem hjP
      unfold requiredOwn at hro
      rw [List.all_eq_true] at hro
      have h2 := hro (p, j) hmem
      simp only [hr, Bool.not_true, Bool.false_or, hj, Bool.not_eq_true'] at h2
      have hname := named j _ p hj hp
      rcases hc.required_pos j _ hj h2 with hlt | hk
      · simp [hlt]
      · by_cases c1 : j < c.npos
        · simp [c1]
        · rw [← hname] at hk; simp [c1, hk]
    · by_cases c1 : j < c.npos
      · simp [c1]
      · have hk := hc.required_kw x hx hxn.2
        rw [hxn.1] at hk
        simp [c1, hk]
  -- a keyword naming a positional schema argument names the parameter at that position
  have kwpos : ∀ n, n ∈ c.kws → ∀ (i : Nat) (arg : AArg), a.positional[i]? = some arg → arg.name = n → c.npos ≤ i →
      m = .traced → ∃ p, s[i]? = some p ∧ p.name = n := by
    intro n _ i arg hi han' _ hm
    cases hs : s[i]? with
    | some p => exact ⟨p, rfl, by rw [named i arg p hi hs, han']⟩
    | none =>
      have := (fits i arg hi hs).1
      subst hm
      simp [Mode.dropsUnknown] at this
  refine ⟨slots c.npos c.kws 0 s, ?_, slots_boundRight_core m a s hb c hc.npos_le hreq, ?_⟩
  · apply bind_ok_core m a s hb c hc.npos_le hreq
    · intro hm n hn
      rcases hc.kws_known n hn with ⟨i, arg, hi, han', hle⟩ | ⟨arg, harg, han'⟩
      · obtain ⟨p, hp, hpn'⟩ := kwpos n hn i arg hi han' hle hm
        rw [List.any_eq_true]
        exact ⟨p, List.mem_iff_getElem?.mpr ⟨i, hp⟩, by simp [hpn']⟩
      · subst hm
        have hcl := bindsOk_clause hb .kwBound
        simp only [clauseOk] at hcl
        rw [List.all_eq_true] at hcl
        have := hcl arg harg
        simpa [Mode.dropsUnknown, han'] using this
    · intro hm n hn q j hq hqn
      rcases hc.kws_known n hn with ⟨i, arg, hi, han', hle⟩ | ⟨arg, harg, han'⟩
      · obtain ⟨p, hp, hpn'⟩ := kwpos n hn i arg hi han' hle hm
        have : j = i := index_of_name hsn hq hp (by rw [hqn, hpn'])
        omega
      · have hcl := bindsOk_clause hb .kwPlaced
        simp only [clauseOk] at hcl
        rw [List.all_eq_true] at hcl
        have h1 := hcl arg harg
        rw [List.all_eq_true] at h1
        have h2 := h1 (q, j) (List.mem_zipIdx_iff_getElem?.mpr hq)
        simp only [hqn, han', bne_self_eq_false, Bool.false_or, Bool.and_eq_true, decide_eq_true_eq] at h2
        have := hc.npos_le
        omega
  · -- positional arguments passed by keyword
    intro i arg hi hle hk
    have hmem : (arg, i) ∈ a.positional.zipIdx := List.mem_zipIdx_iff_getElem?.mpr hi
    have hnlt : ¬ i < c.npos := by omega
    cases hs : s[i]? with
    | some p =>
      left
      have hname := named i arg p hi hs
      have hacc : accepts m p arg = true := by
        have hcl := bindsOk_clause hb .posAccepts
        simp only [clauseOk] at hcl
        rw [List.all_eq_true] at hcl
        have := hcl (arg, i) hmem
        simpa [hs] using this
      refine ⟨p, rfl, hname, ?_, hacc, ?_⟩
      · rw [hget, hs]
        have hcon : c.kws.contains arg.name = true := List.contains_iff_mem.mpr hk
        simp only [Option.map_some, slot, hnlt, if_false, hname, hcon, if_true]
      · intro hbase
        simp only [accepts, hbase] at hacc
        exact hacc
    | none =>
      right
      have hno : ∀ q : OParam, q ∈ s → q.name ≠ arg.name := by
        intro q hq hqn
        obtain ⟨j, hj⟩ := List.mem_iff_getElem?.mp hq
        have hjs : j < s.length := (List.getElem?_eq_some_iff.mp hj).1
        have his : s.length ≤ i := List.getElem?_eq_none_iff.mp hs
        have hiP : i < a.positional.length := (List.getElem?_eq_some_iff.mp hi).1
        have hjP : a.positional[j]? = some a.positional[j] := List.getElem?_eq_getElem (by omega)
        have hnm := named j _ q hjP hj
        have : j = i := pos_index_of_name han hjP hi (by rw [← hnm, hqn])
        omega
      refine ⟨rfl, hno, ?_, (fits i arg hi hs).2⟩
      intro j hj
      rw [hget] at hj
      cases hq : s[j]? with
      | none => simp [hq] at hj
      | some q =>
        simp only [hq, Option.map_some, Option.some.injEq, slot] at hj
        by_cases c1 : j < c.npos
        · simp [c1] at hj
        · simp only [c1, if_false] at hj
          split at hj
          · simp only [Option.some.injEq, Src.kw.injEq] at hj
            exact hno q (List.mem_iff_getElem?.mpr ⟨j, hq⟩) hj
          · simp at hj

/-- Non-vacuity: `prims::convert_element_type(Tensor a, ScalarType dtype)` called as the exporter really
sees it, `convert_element_type(x, dtype=…)`: in the wide model, not in the narrow one. -/
example :
    let a : AtenSchema := ⟨[⟨"a", .tensor, false, false, false, false⟩, ⟨"dtype", .dtype, false, false, false, false⟩], []⟩
    let s : OsSig := [⟨"a", true, .none, true, false, true, .otherPlain, false⟩,
                      ⟨"dtype", false, .int, true, false, true, .base .int, false⟩]
    bindsOkK .traced a s = true ∧ bind .traced s ⟨1, ["dtype"]⟩ = .ok [some (.pos 0), some (.kw "dtype")] ∧
    ConformsK a ⟨1, ["dtype"]⟩ ∧ ¬ Conforms a ⟨1, ["dtype"]⟩ := by
  refine ⟨by decide, by decide, ?_, ?_⟩
  · refine ⟨by decide, ?_, ?_, ?_⟩
    · intro n hn
      simp only [List.mem_singleton] at hn
      subst hn
      exact Or.inl ⟨1, _, rfl, rfl, Nat.le_refl _⟩
    · intro i arg hi _
      match i with
      | 0 => left; decide
      | 1 =>
        right
        simp only [List.getElem?_cons_succ, List.getElem?_cons_zero, Option.some.injEq] at hi
        subst hi
        decide
      | (k + 2) => simp at hi
    · intro arg harg; cases harg
  · intro hc
    have := hc.required_pos 1 _ rfl rfl
    simp at this

/-! ## The rule is exact -/

/-- **`bindsOk_tight`.**  The rule is never too strict: if `bindsOk` rejects (schema, signature) — for a
signature of the modelled shape with pairwise distinct parameter names — then one of the two extreme
conforming calls (everything supplied / only what has no default) is *not* bound right by the exporter's
binder: it raises, or the binding violates `BoundRight`. -/
theorem bindsOk_tight (m : Mode) (a : AtenSchema) (s : OsSig)
    (hpm : clauseOk m a s .paramsModelled = true) (hnd : (s.map (·.name)).Nodup)
    (h : bindsOk m a s = false) :
    ∃ c, Conforms a c ∧ (c = maxCall a ∨ c = minCall a) ∧
      ∀ b, bind m s c = .ok b → ¬ BoundRight m a s c b := by
  have hgetM : ∀ (c : Call) (b : Binding), bind m s c = .ok b →
      ∀ j, b[j]? = (s[j]?).map (slot c.npos c.kws j) := by
    intro c b hb j
    rw [bind_ok_eq_slots m s c b hb]
    have := slots_getElem? c.npos c.kws 0 s j
    simpa using this
  -- the maximal call refutes every clause but `requiredBound`
  by_cases hF0 : clauseOk m a s .posFits = false
  · refine ⟨maxCall a, conforms_maxCall a, Or.inl rfl, ?_⟩
    intro b hb hBR
    have hF' : clauseOk m a s .posFits = false := hF0
    simp only [clauseOk] at hF'
    rw [List.all_eq_false] at hF'
    obtain ⟨⟨arg, i⟩, hmem, hbad⟩ := hF'
    have hi : a.positional[i]? = some arg := List.mem_zipIdx_iff_getElem?.mp hmem
    have hlt : i < (maxCall a).npos := (List.getElem?_eq_some_iff.mp hi).1
    simp only [Bool.or_eq_true, decide_eq_true_eq, Bool.and_eq_true, not_or, not_and] at hbad
    have hnone : s[i]? = none := List.getElem?_eq_none (by omega)
    rcases hBR.positional i arg hi hlt with ⟨p, hp, _⟩ | ⟨_, _, hdrop⟩
    · rw [hnone] at hp; cases hp
    · cases m with
      | scripted => exact hbad.2 rfl hdrop
      | traced =>
        have := (bindT_ok_facts s (maxCall a) b hb).1
        omega
  have hF : clauseOk m a s .posFits = true := by
    cases hv : clauseOk m a s .posFits with
    | false => exact absurd hv hF0
    | true => rfl
  by_cases hA0 : clauseOk m a s .posAccepts = false
  · refine ⟨maxCall a, conforms_maxCall a, Or.inl rfl, ?_⟩
    intro b hb hBR
    have hA' : clauseOk m a s .posAccepts = false := hA0
    simp only [clauseOk] at hA'
    rw [List.all_eq_false] at hA'
    obtain ⟨⟨arg, i⟩, hmem, hbad⟩ := hA'
    have hi : a.positional[i]? = some arg := List.mem_zipIdx_iff_getElem?.mp hmem
    have hlt : i < (maxCall a).npos := (List.getElem?_eq_some_iff.mp hi).1
    cases hs : s[i]? with
    | none => simp [hs] at hbad
    | some p =>
      simp only [hs] at hbad
      rcases hBR.positional i arg hi hlt with ⟨p', hp', _, hacc, _⟩ | ⟨hn, _⟩
      · rw [hs] at hp'; cases hp'; exact hbad hacc
      · rw [hs] at hn; cases hn
  have hA : clauseOk m a s .posAccepts = true := by
    cases hv : clauseOk m a s .posAccepts with
    | false => exact absurd hv hA0
    | true => rfl
  by_cases hN0 : clauseOk m a s .posNames = false
  · refine ⟨maxCall a, conforms_maxCall a, Or.inl rfl, ?_⟩
    intro b hb hBR
    have hN' : clauseOk m a s .posNames = false := hN0
    simp only [clauseOk] at hN'
    rw [List.all_eq_false] at hN'
    obtain ⟨⟨arg, i⟩, hmem, hbad⟩ := hN'
    have hi : a.positional[i]? = some arg := List.mem_zipIdx_iff_getElem?.mp hmem
    have hlt : i < (maxCall a).npos := (List.getElem?_eq_some_iff.mp hi).1
    simp only [Bool.or_eq_true, decide_eq_true_eq, not_or] at hbad
    obtain ⟨hlen, hall⟩ := hbad
    have hall' : (s.zipIdx.all fun qj => qj.1.name != arg.name || qj.2 == i) = false := by simpa using hall
    rw [List.all_eq_false] at hall'
    obtain ⟨⟨q, j⟩, hqj, hq⟩ := hall'
    simp only [Bool.or_eq_true, bne_iff_ne, ne_eq, beq_iff_eq, not_or, Decidable.not_not] at hq
    rcases hBR.positional i arg hi hlt with ⟨_, _, _, _, _, hname⟩ | ⟨hn, _⟩
    · exact hq.2 (hname j q (List.mem_zipIdx_iff_getElem?.mp hqj) hq.1)
    · have := List.getElem?_eq_none_iff.mp hn; omega
  have hN : clauseOk m a s .posNames = true := by
    cases hv : clauseOk m a s .posNames with
    | false => exact absurd hv hN0
    | true => rfl
  by_cases hK0 : clauseOk m a s .kwBound = false
  · refine ⟨maxCall a, conforms_maxCall a, Or.inl rfl, ?_⟩
    intro b hb hBR
    have hK' : clauseOk m a s .kwBound = false := hK0
    simp only [clauseOk] at hK'
    rw [List.all_eq_false] at hK'
    obtain ⟨arg, harg, hbad⟩ := hK'
    simp only [Bool.or_eq_true, Bool.and_eq_true, not_or, not_and] at hbad
    have hkw : arg.name ∈ (maxCall a).kws := by
      simp only [maxCall, List.mem_map]; exact ⟨arg, harg, rfl⟩
    rcases hBR.keyword arg harg hkw with ⟨j, p, hp, hpn, _⟩ | ⟨_, _, hdrop⟩
    · apply hbad.1
      rw [List.any_eq_true]
      exact ⟨p, List.mem_iff_getElem?.mpr ⟨j, hp⟩, by simp [hpn]⟩
    · cases m with
      | scripted => exact hbad.2 rfl hdrop
      | traced =>
        have := (bindT_ok_facts s (maxCall a) b hb).2.1 arg.name hkw
        exact hbad.1 this
  have hK : clauseOk m a s .kwBound = true := by
    cases hv : clauseOk m a s .kwBound with
    | false => exact absurd hv hK0
    | true => rfl
  by_cases hP0 : clauseOk m a s .kwPlaced = false
  · refine ⟨maxCall a, conforms_maxCall a, Or.inl rfl, ?_⟩
    intro b hb hBR
    have hP' : clauseOk m a s .kwPlaced = false := hP0
    simp only [clauseOk] at hP'
    rw [List.all_eq_false] at hP'
    obtain ⟨arg, harg, hbad⟩ := hP'
    have hbad' : (s.zipIdx.all fun qj =>
        qj.1.name != arg.name || (decide (a.positional.length ≤ qj.2) && accepts m qj.1 arg)) = false := by
      simpa using hbad
    rw [List.all_eq_false] at hbad'
    obtain ⟨⟨q, j⟩, hqj, hq⟩ := hbad'
    simp only [Bool.or_eq_true, bne_iff_ne, ne_eq, Bool.and_eq_true, decide_eq_true_eq, not_or,
      Decidable.not_not, not_and] at hq
    have hsj : s[j]? = some q := List.mem_zipIdx_iff_getElem?.mp hqj
    have hkw : arg.name ∈ (maxCall a).kws := by
      simp only [maxCall, List.mem_map]; exact ⟨arg, harg, rfl⟩
    rcases hBR.keyword arg harg hkw with ⟨j', p, hp, hpn, hbj, hacc, _⟩ | ⟨hno, _⟩
    · have hjj : j = j' := index_of_name hnd hsj hp (by rw [hq.1, hpn])
      subst hjj
      rw [hsj] at hp; cases hp
      by_cases hle : a.positional.length ≤ j
      · exact hq.2 hle hacc
      · have hg := hgetM (maxCall a) b hb j
        rw [hsj] at hg
        have hlt : j < (maxCall a).npos := by simp only [maxCall]; omega
        simp only [Option.map_some, slot, hlt, if_true] at hg
        rw [hg] at hbj
        cases hbj
    · exact hno q (List.mem_iff_getElem?.mpr ⟨j, hsj⟩) hq.1
  have hP : clauseOk m a s .kwPlaced = true := by
    cases hv : clauseOk m a s .kwPlaced with
    | false => exact absurd hv hP0
    | true => rfl
  -- only `requiredBound` is left: the minimal call refutes it
  have hR : clauseOk m a s .requiredBound = false := by
    obtain ⟨c, hc⟩ := bindsOk_false_clause h
    cases c
    · rw [hpm] at hc; cases hc
    · rw [hF] at hc; cases hc
    · rw [hA] at hc; cases hc
    · rw [hN] at hc; cases hc
    · rw [hK] at hc; cases hc
    · rw [hP] at hc; cases hc
    · exact hc
  refine ⟨minCall a, conforms_minCall a, Or.inr rfl, ?_⟩
  intro b hb hBR
  simp only [clauseOk] at hR
  rw [List.all_eq_false] at hR
  obtain ⟨⟨p, j⟩, hpj, hbad⟩ := hR
  have hsj : s[j]? = some p := List.mem_zipIdx_iff_getElem?.mp hpj
  simp only [Bool.or_eq_true, Bool.not_eq_true', Bool.and_eq_true, decide_eq_true_eq, not_or,
    Bool.not_eq_false, not_and] at hbad
  obtain ⟨⟨hreq, hms⟩, hkwreq⟩ := hbad
  have hnlt : ¬ j < (minCall a).npos := by
    intro hlt
    apply hms
    exact (mustSupply_iff a.positional j).mpr hlt
  obtain ⟨src, hsrc⟩ := hBR.required j p hsj hreq
  have hg := hgetM (minCall a) b hb j
  rw [hsj] at hg
  simp only [Option.map_some, slot, hnlt, if_false] at hg
  rw [hg] at hsrc
  by_cases hc : (minCall a).kws.contains p.name = true
  · have hmem := List.contains_iff_mem.mp hc
    simp only [minCall, List.mem_map, List.mem_filter] at hmem
    obtain ⟨x, ⟨hx, hxd⟩, hxn⟩ := hmem
    -- by `kwPlaced` the parameter lies behind the positionals
    simp only [clauseOk] at hP
    rw [List.all_eq_true] at hP
    have h1 := hP x hx
    rw [List.all_eq_true] at h1
    have h2 := h1 (p, j) hpj
    simp only [hxn, bne_self_eq_false, Bool.false_or, Bool.and_eq_true, decide_eq_true_eq] at h2
    apply hkwreq h2.1
    rw [List.any_eq_true]
    exact ⟨x, hx, by simp [hxn, hxd]⟩
  · rw [if_neg hc] at hsrc
    cases hsrc

/-- **`bindsOk_iff`** — the decidable rule *is* the property's binding clause: for a signature of the
modelled shape with distinct parameter names, `bindsOk` holds exactly when every conforming call is bound
right by the exporter's binder. -/
theorem bindsOk_iff (m : Mode) (a : AtenSchema) (s : OsSig)
    (hpm : clauseOk m a s .paramsModelled = true) (hnd : (s.map (·.name)).Nodup) :
    bindsOk m a s = true ↔
      ∀ c, Conforms a c → ∃ b, bind m s c = .ok b ∧ BoundRight m a s c b := by
  constructor
  · intro h c hc; exact bind_ok_sound m a s h c hc
  · intro hall
    cases hb : bindsOk m a s with
    | true => rfl
    | false =>
      obtain ⟨c, hc, _, hno⟩ := bindsOk_tight m a s hpm hnd hb
      obtain ⟨b, hbk, hBR⟩ := hall c hc
      exact absurd hBR (hno b hbk)

/-- Non-vacuity of `bindsOk_tight`: the `aten::amax` row as it was before `/repo` d441e93 satisfies the hypotheses, is
rejected, and its minimal call `amax(x)` indeed raises in the binder. -/
example :
    let a : AtenSchema := ⟨[⟨"self", .tensor, false, false, false, false⟩, ⟨"dim", .int, true, false, true, false⟩,
                            ⟨"keepdim", .bool, false, false, true, false⟩], []⟩
    let s : OsSig := [⟨"self", true, .none, true, false, true, .otherPlain, false⟩, ⟨"dim", true, .none, true, false, true, .otherPlain, false⟩,
                      ⟨"keepdim", false, .int, false, false, true, .base .int, true⟩]
    clauseOk .scripted a s .paramsModelled = true ∧ nodupS (s.map (·.name)) = true ∧
    bindsOk .scripted a s = false ∧ minCall a = ⟨1, []⟩ ∧
    bind .scripted s (minCall a) = .error .missing := by decide

/-! ## Names -/

/-- **`name_regex_ok`** (soundness of the transcription of `_QUALIFIED_OPERATOR_NAME_REGEX`): a name the
model accepts has the shape `ns::name` or `ns::name.overload` with non-empty `[a-zA-Z0-9_]` namespace and
name and a non-empty `[a-zA-Z0-9._]` overload. -/
theorem name_regex_ok (cs : List Nat) (h : matchName cs = true) :
    ∃ ns nm ov, cs = ns ++ (58 :: 58 :: (nm ++ ov)) ∧
      ns ≠ [] ∧ (∀ c ∈ ns, isWord c = true) ∧ nm ≠ [] ∧ (∀ c ∈ nm, isWord c = true) ∧
      (ov = [] ∨ ∃ t, ov = 46 :: t ∧ t ≠ [] ∧ ∀ c ∈ t, isOvl c = true) := by
  unfold matchName at h
  have hsplit := List.takeWhile_append_dropWhile (p := isWord) (l := cs)
  split at h
  · rename_i r2 hr
    have hsplit2 := List.takeWhile_append_dropWhile (p := isWord) (l := r2)
    simp only [Bool.and_eq_true, Bool.not_eq_true', List.isEmpty_eq_false_iff] at h
    obtain ⟨⟨hns, hnm⟩, hov⟩ := h
    refine ⟨cs.takeWhile isWord, r2.takeWhile isWord, r2.dropWhile isWord, ?_, hns,
      takeWhile_all _ _, hnm, takeWhile_all _ _, ?_⟩
    · rw [hsplit2, ← hr, hsplit]
    · split at hov
      · left; assumption
      · rename_i ov hovr
        right
        simp only [Bool.and_eq_true, Bool.not_eq_true', List.isEmpty_eq_false_iff, List.all_eq_true] at hov
        exact ⟨ov, hovr, hov.1, hov.2⟩
      · simp at hov
  · simp at h


/-- **`name_regex_complete`** (the converse of `name_regex_ok`): every string of the regex's language is
accepted by the transcription, so `matchName` decides exactly
`[a-zA-Z0-9_]+::[a-zA-Z0-9_]+(\.[a-zA-Z0-9._]+)?`. -/
theorem name_regex_complete (ns nm ov : List Nat)
    (hns0 : ns ≠ []) (hns : ∀ c ∈ ns, isWord c = true) (hnm0 : nm ≠ []) (hnm : ∀ c ∈ nm, isWord c = true)
    (hov : ov = [] ∨ ∃ t, ov = 46 :: t ∧ t ≠ [] ∧ ∀ c ∈ t, isOvl c = true) :
    matchName (ns ++ (58 :: 58 :: (nm ++ ov))) = true := by
  unfold matchName
  rw [dropWhile_append_stop isWord ns _ 58 hns (by decide), takeWhile_append_stop isWord ns _ 58 hns (by decide)]
  have e1 : ns.isEmpty = false := by cases ns with | nil => exact absurd rfl hns0 | cons _ _ => rfl
  have e2 : nm.isEmpty = false := by cases nm with | nil => exact absurd rfl hnm0 | cons _ _ => rfl
  rcases hov with rfl | ⟨t, rfl, ht0, ht⟩
  · have := takeWhile_all_true isWord nm hnm
    simp only [List.append_nil, this.1, this.2, e1, e2, Bool.not_false, Bool.and_self]
  · show (!ns.isEmpty && !(List.takeWhile isWord (nm ++ 46 :: t)).isEmpty &&
        match List.dropWhile isWord (nm ++ 46 :: t) with
        | [] => true
        | 46 :: ov => !ov.isEmpty && ov.all isOvl
        | _ => false) = true
    rw [takeWhile_append_stop isWord nm t 46 hnm (by decide), dropWhile_append_stop isWord nm t 46 hnm (by decide)]
    have e3 : t.isEmpty = false := by cases t with | nil => exact absurd rfl ht0 | cons _ _ => rfl
    have e4 : t.all isOvl = true := List.all_eq_true.mpr ht
    simp only [e1, e2, e3, e4, Bool.not_false, Bool.and_self]

/-- **`no_default_suffix`**: a name accepted by `_check_and_normalize_names` never ends in `.default` —
default overloads are spelled without it. -/
theorem no_default_suffix (cs : List Nat) (h : nameOkCodes cs = true) :
    ¬ ∃ pre, cs = pre ++ [46, 100, 101, 102, 97, 117, 108, 116] := by
  intro ⟨pre, hp⟩
  unfold nameOkCodes at h
  simp only [Bool.and_eq_true, Bool.not_eq_true'] at h
  have : dotDefault.isSuffixOf cs = true := by
    rw [List.isSuffixOf_iff_suffix]
    exact ⟨pre, by rw [hp]; rfl⟩
  rw [this] at h
  exact absurd h.1 (by decide)

example : nameOk "aten::add.Tensor" = true ∧ nameOk "aten::add" = true ∧ nameOk "aten::add.default" = false ∧
    nameOk "aten:add" = false ∧ nameOk "aten::add." = false ∧ nameOk "::add" = false ∧
    nameOk "aten::a-b" = false := by decide


/-- **`resolve_injective`** — why default overloads must be spelled without `.default`: on names accepted by
`_check_and_normalize_names`, the exporter's resolution `_get_overload` (namespace, operator, overload with
`default` filled in) is injective, so two different registered names can never address the same PyTorch
operator overload.  (With `.default` admitted, `aten::t` and `aten::t.default` collide: see the example.) -/
theorem resolve_injective (a b : List Nat) (ha : nameOkCodes a = true) (hb : nameOkCodes b = true)
    (h : resolveKey a = resolveKey b) : a = b := by
  unfold nameOkCodes at ha hb
  simp only [Bool.and_eq_true, Bool.not_eq_true'] at ha hb
  obtain ⟨ns, nm, ov, rfl, _, hns, _, hnm, hov⟩ := name_regex_ok a ha.2
  obtain ⟨ns', nm', ov', rfl, _, hns', _, hnm', hov'⟩ := name_regex_ok b hb.2
  have sfx : ∀ (n m : List Nat), dotDefault.isSuffixOf (n ++ (58 :: 58 :: (m ++ 46 :: defaultCodes))) = true := by
    intro n m
    rw [List.isSuffixOf_iff_suffix]
    refine ⟨n ++ (58 :: 58 :: m), ?_⟩
    simp [dotDefault, defaultCodes]
  rw [resolveKey_shape ns nm ov hns hnm (by rcases hov with h | ⟨t, h, _⟩; exact Or.inl h; exact Or.inr ⟨t, h⟩),
      resolveKey_shape ns' nm' ov' hns' hnm' (by rcases hov' with h | ⟨t, h, _⟩; exact Or.inl h; exact Or.inr ⟨t, h⟩)] at h
  simp only [OpKey.mk.injEq] at h
  obtain ⟨h1, h2, h3⟩ := h
  subst h1 h2
  rcases hov with rfl | ⟨t, rfl, _⟩ <;> rcases hov' with rfl | ⟨t', rfl, _⟩
  · rfl
  · simp only at h3
    subst h3
    have := sfx ns nm
    rw [this] at hb
    exact absurd hb.1 (by decide)
  · simp only at h3
    subst h3
    have := sfx ns nm
    rw [this] at ha
    exact absurd ha.1 (by decide)
  · simp only at h3
    subst h3
    rfl

/-- Without the `.default` refusal the resolution is not injective: `aten::t` and `aten::t.default` match
the regex, differ, and resolve to the same operator overload. -/
example : matchName (codes "aten::t") = true ∧ matchName (codes "aten::t.default") = true ∧
    codes "aten::t" ≠ codes "aten::t.default" ∧
    resolveKey (codes "aten::t") = resolveKey (codes "aten::t.default") ∧
    nameOkCodes (codes "aten::t.default") = false := by decide

/-- `dispatch` returns a decomposition of the node's kind, and the first such. -/
theorem dispatch_first (ds : List Decomp) (cx : Bool) (f : Nat) (h : dispatch ds cx = some f) :
    ∃ pre d post, ds = pre ++ d :: post ∧ d.func = f ∧ d.isComplex = cx ∧
      ∀ x ∈ pre, x.isComplex ≠ cx := by
  unfold dispatch at h
  simp only [Option.map_eq_some_iff] at h
  obtain ⟨d, hd, hf⟩ := h
  have hfind : ds.find? (fun d => d.isComplex == cx) = some d := by
    rw [← List.head?_filter]; exact hd
  rw [List.find?_eq_some_iff_append] at hfind
  obtain ⟨hp, pre, post, hds, hpre⟩ := hfind
  refine ⟨pre, d, post, hds, hf, by simpa using hp, ?_⟩
  intro x hx
  have := hpre x hx
  simpa using this

/-! ## Registry: first registration wins, one function per (name, kind) -/

/-- **`unique_per_kind`**: after *any* history of `Registry.register` calls every record holds at most one
real and at most one complex function, and record names are pairwise distinct — so each
(name, real/complex) pair resolves to at most one function. -/
theorem unique_per_kind (rs : List Registration) :
    AtMostOne (runRegs rs) ∧ ((runRegs rs).map (·.name)).Nodup := by
  unfold runRegs
  suffices H : ∀ r : Reg, AtMostOne r ∧ (r.map (·.name)).Nodup →
      AtMostOne (rs.foldl register r) ∧ ((rs.foldl register r).map (·.name)).Nodup by
    exact H [] ⟨(by intro o ho; cases ho), (by simp)⟩
  induction rs with
  | nil => intro r h; exact h
  | cons x xs ih =>
    intro r h
    exact ih (register r x) ⟨register_atMostOne r x h.1, register_nodup r x h.2⟩

/-- **`register_first_wins`**: registering under a (name, kind) that already holds a function changes
nothing (the code only warns). -/
theorem register_first_wins (r : Reg) (x : Registration) (o : Overloaded) (ho : o ∈ r)
    (hn : o.name = x.name) (hnodup : (r.map (·.name)).Nodup)
    (hfull : (if x.isComplex then o.complex else o.overloads) ≠ []) :
    register r x = r := by
  induction r with
  | nil => cases ho
  | cons q qs ih =>
    simp only [register]
    by_cases e : (q.name == x.name) = true
    · have e' : q.name = x.name := by simpa using e
      have hq : o = q := by
        rcases List.mem_cons.mp ho with h | h
        · exact h
        · exfalso
          simp only [List.map_cons, List.nodup_cons, List.mem_map, not_exists, not_and] at hnodup
          exact hnodup.1 o h (by rw [hn, e'])
      subst hq
      simp only [e, if_true, List.cons.injEq, and_true]
      unfold addTo
      cases hx : x.isComplex
      · simp only [hx] at hfull
        have : o.overloads.isEmpty = false := by
          cases hov : o.overloads with
          | nil => exact absurd hov hfull
          | cons _ _ => rfl
        simp [this]
      · simp only [hx, if_true] at hfull
        have : o.complex.isEmpty = false := by
          cases hov : o.complex with
          | nil => exact absurd hov hfull
          | cons _ _ => rfl
        simp [this]
    · have e' : ¬ q.name = x.name := by simpa using e
      rw [if_neg e]
      have ho' : o ∈ qs := by
        rcases List.mem_cons.mp ho with h | h
        · exact absurd (h ▸ hn) e'
        · exact h
      simp only [List.map_cons, List.nodup_cons] at hnodup
      rw [ih ho' hnodup.2]

example : runRegs [⟨1, "aten::add", false⟩, ⟨2, "aten::add", false⟩, ⟨3, "aten::add", true⟩, ⟨4, "internal::x", false⟩]
    = [⟨"aten::add", [1], [3]⟩, ⟨"internal::x", [4], []⟩] ∧
    torchlibOps (runRegs [⟨1, "aten::add", false⟩, ⟨2, "aten::add", false⟩, ⟨3, "aten::add", true⟩, ⟨4, "internal::x", false⟩])
    = [("aten::add", 1, false), ("aten::add", 3, true)] := by decide


/-- **`first_registration_wins`** (the lookup law of `Registry.register`, for every history): what a
(name, kind) pair resolves to after any sequence of registrations is exactly the *first* function registered
under that pair — later registrations under the same pair are ignored, registrations under other pairs do
not interfere. -/
theorem first_registration_wins (rs : List Registration) (n : String) (cx : Bool) :
    lookup (runRegs rs) n cx =
      ((rs.find? (fun x => x.name == n && x.isComplex == cx)).map (·.func)).toList := by
  unfold runRegs
  suffices H : ∀ r : Reg, lookup (rs.foldl register r) n cx =
      if lookup r n cx = [] then
        ((rs.find? (fun x => x.name == n && x.isComplex == cx)).map (·.func)).toList
      else lookup r n cx by
    have := H []
    simpa [lookup] using this
  induction rs with
  | nil =>
    intro r
    by_cases h : lookup r n cx = [] <;> simp [h]
  | cons x xs ih =>
    intro r
    simp only [List.foldl_cons]
    rw [ih (register r x), lookup_register]
    by_cases hm : x.name = n ∧ x.isComplex = cx
    · by_cases he : lookup r n cx = []
      · have hb : (x.name == n && x.isComplex == cx) = true := by simp [hm.1, hm.2]
        simp [hm.1, hm.2, he, List.find?_cons, hb]
      · have : ¬ (x.name = n ∧ x.isComplex = cx ∧ lookup r n cx = []) := fun h => he h.2.2
        simp [this, he]
    · have hb : (x.name == n && x.isComplex == cx) = false := by
        cases hv : (x.name == n && x.isComplex == cx) with
        | false => rfl
        | true =>
          simp only [Bool.and_eq_true, beq_iff_eq] at hv
          exact absurd hv hm
      have : ¬ (x.name = n ∧ x.isComplex = cx ∧ lookup r n cx = []) := fun h => hm ⟨h.1, h.2.1⟩
      simp [this, List.find?_cons, hb]

/-- **`torchlib_ops_unique`**: for every registration history, `get_torchlib_ops()` returns each
(qualified name, real/complex) pair at most once. -/
theorem torchlib_ops_unique (rs : List Registration) : (opsKeys (runRegs rs)).Nodup :=
  opsKeys_nodup _ (unique_per_kind rs).1 (unique_per_kind rs).2

example : lookup (runRegs [⟨1, "aten::add", false⟩, ⟨2, "aten::add", false⟩, ⟨3, "aten::add", true⟩]) "aten::add" false = [1] ∧
    lookup (runRegs [⟨1, "aten::add", false⟩, ⟨2, "aten::add", false⟩, ⟨3, "aten::add", true⟩]) "aten::add" true = [3] ∧
    opsKeys (runRegs [⟨1, "aten::add", false⟩, ⟨2, "aten::add", false⟩, ⟨3, "aten::add", true⟩]) =
      [("aten::add", false), ("aten::add", true)] := by decide


/-- **`decorated_registry_invariant`**: whatever sequence of `@torch_op(...)` decorators a module executes
(any names, private or not, real or complex), if the import succeeds then the resulting registry contains
only names accepted by `_check_and_normalize_names`, pairwise distinct, each with at most one real and one
complex function — and what `get_torchlib_ops()` returns from it has each (name, kind) pair once. -/
theorem decorated_registry_invariant (ds : List Decl) (r : Reg) (h : runDecls [] ds = some r) :
    (∀ o ∈ r, nameOk o.name = true) ∧ AtMostOne r ∧ (r.map (·.name)).Nodup ∧ (opsKeys r).Nodup := by
  have inv := runDecls_inv ds [] r ⟨(by intro o ho; cases ho), (by simp), (by intro n hn; simp at hn)⟩ h
  refine ⟨?_, inv.1, inv.2.1, opsKeys_nodup r inv.1 inv.2.1⟩
  intro o ho
  exact inv.2.2 o.name (List.mem_map_of_mem ho)

/-- A private function is compiled but never registered; one bad name in a tuple registers nothing. -/
example : runDecls [] [⟨1, ["aten::a", "aten::b"], false, false⟩, ⟨2, ["aten::c"], true, false⟩] =
      some [⟨"aten::a", [1], []⟩, ⟨"aten::b", [1], []⟩] ∧
    runDecls [] [⟨1, ["aten::a", "aten::b.default"], false, false⟩] = none := by decide


/-- **`kind_discipline`** (history theorem behind `registry_kinds_ok`): mark any set of functions as "written
for complex inputs" (`cxNamed`).  If every `@torch_op` declaration of such a function says `complex=True`,
then after *any* sequence of declarations — whatever their order, names, duplicates — no such function sits
in a real slot: every (name, real) pair is owned by a function not written for complex inputs. -/
theorem kind_discipline (cxNamed : Nat → Bool) (ds : List Decl) (r : Reg)
    (hd : ∀ d ∈ ds, cxNamed d.func = true → d.isComplex = true) (h : runDecls [] ds = some r) :
    ∀ n, ∀ g ∈ lookup r n false, cxNamed g = false := by
  have hc := runDecls_realClean cxNamed ds [] r (by intro o ho; cases ho) hd h
  intro n g hg
  unfold lookup at hg
  cases hf : r.find? (fun o => o.name == n) with
  | none => simp [hf] at hg
  | some o =>
    simp only [hf, Bool.false_eq_true, if_false] at hg
    exact hc o (List.mem_of_find?_eq_some hf) g hg

/-- **`kind_discipline_necessary`** (the round-3 seed C16-7 as a theorem): one declaration that forgets
`complex=True` on a complex function placed *before* its real twin hands the real slot to the complex
function for good — the later, correct registration of the twin is discarded (`first_registration_wins`). -/
theorem kind_discipline_necessary (n : String) (fc fr : Nat) (rest : List Registration) :
    lookup (runRegs (⟨fc, n, false⟩ :: ⟨fr, n, false⟩ :: rest)) n false = [fc] := by
  rw [first_registration_wins]
  simp [List.find?_cons]

example :  -- `aten_slice_complex` (7) declared real before `aten_slice` (8): the seed; and the disciplined order
    runDecls [] [⟨7, ["aten::slice.Tensor"], false, false⟩, ⟨8, ["aten::slice.Tensor"], false, false⟩] =
      some [⟨"aten::slice.Tensor", [7], []⟩] ∧
    runDecls [] [⟨7, ["aten::slice.Tensor"], false, true⟩, ⟨8, ["aten::slice.Tensor"], false, false⟩] =
      some [⟨"aten::slice.Tensor", [8], [7]⟩] := by decide

/-! ## Defaults of omitted arguments -/

/-- **`omitted_defaults_agree`**: on a row that satisfies the binding rule and whose paired concrete defaults agree
(`defaultsOk`), for *every* conforming call and the binding the exporter's binder returns: a positional schema argument
the call omits leaves the parameter at its position unbound — `_construct_named_inputs_and_attrs` / CPython then use
the python default — and the python default and the schema default are not two different concrete values; the same for
every keyword-only argument the call omits and each parameter of its name.  So an omitted argument never silently
changes value between ATen and the torch_lib function (`alpha: float = 2.0` under `Scalar alpha=1`). -/
theorem omitted_defaults_agree (m : Mode) (a : AtenSchema) (s : OsSig) (adef pdef : List DVal)
    (h : bindsOk m a s = true) (hd : defaultsOk a s adef pdef = true)
    (c : Call) (hc : Conforms a c) (b : Binding) (hb : bind m s c = .ok b) :
    (∀ (i : Nat) (x : AArg) (p : OParam), a.positional[i]? = some x → c.npos ≤ i → s[i]? = some p →
        b[i]? = some none ∧ pairAgree adef pdef i i = true) ∧
    (∀ (k : Nat) (x : AArg) (j : Nat) (p : OParam), a.kwonly[k]? = some x → x.name ∉ c.kws →
        s[j]? = some p → p.name = x.name →
        b[j]? = some none ∧ pairAgree adef pdef (a.positional.length + k) j = true) := by
  have hbs := bind_ok_eq_slots m s c b hb
  have hget : ∀ j, b[j]? = (s[j]?).map (slot c.npos c.kws j) := by
    intro j
    rw [hbs]
    have := slots_getElem? c.npos c.kws 0 s j
    simpa using this
  unfold defaultsOk at hd
  rw [Bool.and_eq_true, List.all_eq_true, List.all_eq_true] at hd
  have hkp := bindsOk_clause h .kwPlaced
  simp only [clauseOk] at hkp
  rw [List.all_eq_true] at hkp
  constructor
  · intro i x p hx hle hp
    have hil : i < a.positional.length := (List.getElem?_eq_some_iff.mp hx).1
    refine ⟨?_, hd.1 i (List.mem_range.mpr hil)⟩
    rw [hget, hp]
    have hn : ¬ i < c.npos := by omega
    have hnk : c.kws.contains p.name = false := by
      cases hk : c.kws.contains p.name with
      | false => rfl
      | true =>
        exfalso
        obtain ⟨arg, harg, hname⟩ := hc.kws_known p.name (List.contains_iff_mem.mp hk)
        have h1 := hkp arg harg
        rw [List.all_eq_true] at h1
        have h2 := h1 (p, i) (List.mem_zipIdx_iff_getElem?.mpr hp)
        simp only [hname, bne_self_eq_false, Bool.false_or, Bool.and_eq_true, decide_eq_true_eq] at h2
        omega
    simp only [Option.map_some, slot, hn, if_false, hnk, Bool.false_eq_true]
  · intro k x j p hx hnot hp hname
    have hxm : x ∈ a.kwonly := List.mem_iff_getElem?.mpr ⟨k, hx⟩
    have h1 := hkp x hxm
    rw [List.all_eq_true] at h1
    have h2 := h1 (p, j) (List.mem_zipIdx_iff_getElem?.mpr hp)
    simp only [hname, bne_self_eq_false, Bool.false_or, Bool.and_eq_true, decide_eq_true_eq] at h2
    have hnpos := hc.npos_le
    have hn : ¬ j < c.npos := by omega
    have hnk : c.kws.contains p.name = false := by
      cases hk : c.kws.contains p.name with
      | false => rfl
      | true => exact absurd (hname ▸ List.contains_iff_mem.mp hk) hnot
    refine ⟨?_, ?_⟩
    · rw [hget, hp]
      simp only [Option.map_some, slot, hn, if_false, hnk, Bool.false_eq_true]
    · have h3 := hd.2 (x, k) (List.mem_zipIdx_iff_getElem?.mpr hx)
      rw [List.all_eq_true] at h3
      have h4 := h3 (p, j) (List.mem_zipIdx_iff_getElem?.mpr hp)
      simpa [hname] using h4

/-- Non-vacuity, and the rule at work: `aten::add.Tensor(self, other, *, alpha=1)` on `(self, other, alpha: float = 1.0)`
satisfies both hypotheses (`1 == 1.0`); with `alpha: float = 2.0` the binding rule still holds and `defaultsOk` fails at
the pair (argument 2, parameter 2); `None` against a concrete value is not judged. -/
example :
    let a : AtenSchema := ⟨[⟨"self", .tensor, false, false, false, false⟩, ⟨"other", .tensor, false, false, false, false⟩],
      [⟨"alpha", .scalar, false, false, true, false⟩]⟩
    let s : OsSig := [⟨"self", true, .none, true, false, true, .otherPlain, false⟩,
      ⟨"other", true, .none, true, false, true, .otherPlain, false⟩,
      ⟨"alpha", false, .float, false, false, true, .base .float, true⟩]
    bindsOk .traced a s = true ∧
    defaultsOk a s [.absent, .absent, .num 1 1] [.absent, .absent, .num 1 1] = true ∧
    defaultsOk a s [.absent, .absent, .num 1 1] [.absent, .absent, .num 2 1] = false ∧
    defaultsBad a s [.absent, .absent, .num 1 1] [.absent, .absent, .num 2 1] = [(2, 2)] ∧
    defaultsOk a s [.absent, .absent, .none] [.absent, .absent, .num 2 1] = true ∧
    Conforms a ⟨2, []⟩ ∧ bind .traced s ⟨2, []⟩ = .ok [some (.pos 0), some (.pos 1), none] := by
  refine ⟨by decide, by decide, by decide, by decide, by decide, ?_, by decide⟩
  refine ⟨by decide, ?_, by simp, by decide⟩
  intro i arg hi hdf
  match i, hi with
  | 0, _ => decide
  | 1, _ => decide
  | (_ + 2), hi => simp at hi

/-- **`omitted_defaults_agree_by_keyword`** — the same for the wide call model: under `bindsOkK`, in a call that passes
some positional schema arguments by keyword, a positional argument that is neither within the positional prefix nor among
the keywords (so: omitted) leaves the parameter at its position unbound with an agreeing default, and so does every omitted
keyword-only argument. -/
theorem omitted_defaults_agree_by_keyword (m : Mode) (a : AtenSchema) (s : OsSig) (adef pdef : List DVal)
    (h : bindsOkK m a s = true) (hd : defaultsOk a s adef pdef = true)
    (c : Call) (hc : ConformsK a c) (b : Binding) (hb : bind m s c = .ok b) :
    (∀ (i : Nat) (x : AArg) (p : OParam), a.positional[i]? = some x → c.npos ≤ i → x.name ∉ c.kws → s[i]? = some p →
        b[i]? = some none ∧ pairAgree adef pdef i i = true) ∧
    (∀ (k : Nat) (x : AArg) (j : Nat) (p : OParam), a.kwonly[k]? = some x → x.name ∉ c.kws →
        s[j]? = some p → p.name = x.name →
        b[j]? = some none ∧ pairAgree adef pdef (a.positional.length + k) j = true) := by
  unfold bindsOkK at h
  simp only [Bool.and_eq_true] at h
  obtain ⟨⟨⟨⟨hbo, hpn⟩, _⟩, _⟩, _⟩ := h
  unfold posNamed at hpn
  rw [List.all_eq_true] at hpn
  have hbs := bind_ok_eq_slots m s c b hb
  have hget : ∀ j, b[j]? = (s[j]?).map (slot c.npos c.kws j) := by
    intro j
    rw [hbs]
    have := slots_getElem? c.npos c.kws 0 s j
    simpa using this
  unfold defaultsOk at hd
  rw [Bool.and_eq_true, List.all_eq_true, List.all_eq_true] at hd
  have hkp := bindsOk_clause hbo .kwPlaced
  simp only [clauseOk] at hkp
  rw [List.all_eq_true] at hkp
  constructor
  · intro i x p hx hle hnot hp
    have hil : i < a.positional.length := (List.getElem?_eq_some_iff.mp hx).1
    refine ⟨?_, hd.1 i (List.mem_range.mpr hil)⟩
    rw [hget, hp]
    have hn : ¬ i < c.npos := by omega
    have hname : p.name = x.name := by
      have := hpn (x, i) (List.mem_zipIdx_iff_getElem?.mpr hx)
      simpa [hp] using this
    have hnk : c.kws.contains p.name = false := by
      cases hk : c.kws.contains p.name with
      | false => rfl
      | true => exact absurd (hname ▸ List.contains_iff_mem.mp hk) hnot
    simp only [Option.map_some, slot, hn, if_false, hnk, Bool.false_eq_true]
  · intro k x j p hx hnot hp hname
    have hxm : x ∈ a.kwonly := List.mem_iff_getElem?.mpr ⟨k, hx⟩
    have h1 := hkp x hxm
    rw [List.all_eq_true] at h1
    have h2 := h1 (p, j) (List.mem_zipIdx_iff_getElem?.mpr hp)
    simp only [hname, bne_self_eq_false, Bool.false_or, Bool.and_eq_true, decide_eq_true_eq] at h2
    have hnpos := hc.npos_le
    have hn : ¬ j < c.npos := by omega
    have hnk : c.kws.contains p.name = false := by
      cases hk : c.kws.contains p.name with
      | false => rfl
      | true => exact absurd (hname ▸ List.contains_iff_mem.mp hk) hnot
    refine ⟨?_, ?_⟩
    · rw [hget, hp]
      simp only [Option.map_some, slot, hn, if_false, hnk, Bool.false_eq_true]
    · have h3 := hd.2 (x, k) (List.mem_zipIdx_iff_getElem?.mpr hx)
      rw [List.all_eq_true] at h3
      have h4 := h3 (p, j) (List.mem_zipIdx_iff_getElem?.mpr hp)
      simpa [hname] using h4

/-- Non-vacuity: `_softmax(Tensor self, int dim, bool half_to_float=False)`-shaped row called as `f(x, dim=…)`: `dim`
arrives by keyword, `half_to_float` is omitted and its parameter stays on the agreeing default. -/
example :
    let a : AtenSchema := ⟨[⟨"self", .tensor, false, false, false, false⟩, ⟨"dim", .int, false, false, false, false⟩,
      ⟨"half_to_float", .bool, false, false, true, false⟩], []⟩
    let s : OsSig := [⟨"self", true, .none, true, false, true, .otherPlain, false⟩,
      ⟨"dim", false, .int, true, false, true, .base .int, false⟩,
      ⟨"half_to_float", false, .int, false, false, true, .base .bool, true⟩]
    bindsOkK .traced a s = true ∧
    defaultsOk a s [.absent, .absent, .bool false] [.absent, .absent, .bool false] = true ∧
    bind .traced s ⟨1, ["dim"]⟩ = .ok [some (.pos 0), some (.kw "dim"), none] ∧ ConformsK a ⟨1, ["dim"]⟩ := by
  refine ⟨by decide, by decide, by decide, ?_⟩
  refine ⟨by decide, ?_, ?_, ?_⟩
  · intro n hn
    simp only [List.mem_singleton] at hn
    subst hn
    exact Or.inl ⟨1, _, rfl, rfl, Nat.le_refl _⟩
  · intro i arg hi hdf
    match i with
    | 0 => left; decide
    | 1 =>
      right
      simp only [List.getElem?_cons_succ, List.getElem?_cons_zero, Option.some.injEq] at hi
      subst hi
      decide
    | 2 =>
      simp only [List.getElem?_cons_succ, List.getElem?_cons_zero, Option.some.injEq] at hi
      subst hi
      simp at hdf
    | (k + 3) => simp at hi
  · intro arg harg; cases harg

/-- The value ATen computes with for schema argument number `n` (positional arguments first, then keyword-only ones) in
a call whose supplied arguments have the values `val`: the supplied value, else the schema's default. -/
def atenValue (a : AtenSchema) (adef : List DVal) (val : Src → DVal) (c : Call) (n : Nat) : Option DVal :=
  if n < a.positional.length then (if n < c.npos then some (val (.pos n)) else adef[n]?)
  else match a.kwonly[n - a.positional.length]? with
    | some x => if c.kws.contains x.name then some (val (.kw x.name)) else adef[n]?
    | none => none

/-- The value parameter `j` of the torch_lib function computes with under binding `b`: the value of the argument it
received, else the default the binder fills in. -/
def paramValue (pdef : List DVal) (val : Src → DVal) (b : Binding) (j : Nat) : Option DVal :=
  match b[j]? with
  | some (some src) => some (val src)
  | some none => pdef[j]?
  | none => none

/-- **`argument_values_reach_parameters`** (= `bind_ok_sound`'s closed form ∘ `omitted_defaults_agree`): on a row with
`bindsOk` and `defaultsOk`, for every conforming call, every assignment `val` of values to the supplied arguments and the
binding the exporter's binder returns: for each schema argument that has a parameter (positional: the parameter at its
position; keyword-only: each parameter of its name), the value the parameter computes with *is* the supplied value when
the argument is supplied, and otherwise is not a different concrete value from the one ATen computes with. -/
theorem argument_values_reach_parameters (m : Mode) (a : AtenSchema) (s : OsSig) (adef pdef : List DVal)
    (h : bindsOk m a s = true) (hd : defaultsOk a s adef pdef = true) (val : Src → DVal)
    (c : Call) (hc : Conforms a c) (b : Binding) (hb : bind m s c = .ok b) :
    (∀ (i : Nat) (x : AArg) (p : OParam), a.positional[i]? = some x → s[i]? = some p →
      ∀ u v, atenValue a adef val c i = some u → paramValue pdef val b i = some v →
        dvAgree u v = true ∧ (i < c.npos → v = u)) ∧
    (∀ (k : Nat) (x : AArg) (j : Nat) (p : OParam), a.kwonly[k]? = some x → s[j]? = some p → p.name = x.name →
      ∀ u v, atenValue a adef val c (a.positional.length + k) = some u → paramValue pdef val b j = some v →
        dvAgree u v = true ∧ (x.name ∈ c.kws → v = u)) := by
  have hom := omitted_defaults_agree m a s adef pdef h hd c hc b hb
  have hbs := bind_ok_eq_slots m s c b hb
  have hget : ∀ j, b[j]? = (s[j]?).map (slot c.npos c.kws j) := by
    intro j
    rw [hbs]
    have := slots_getElem? c.npos c.kws 0 s j
    simpa using this
  constructor
  · intro i x p hx hp u v hu hv
    have hil : i < a.positional.length := (List.getElem?_eq_some_iff.mp hx).1
    by_cases hlt : i < c.npos
    · have hbi : b[i]? = some (some (.pos i)) := by
        rw [hget, hp]; simp [slot, hlt]
      simp only [atenValue, hil, if_true, hlt, Option.some.injEq] at hu
      simp only [paramValue, hbi, Option.some.injEq] at hv
      subst hu; subst hv
      exact ⟨dvAgree_self _, fun _ => rfl⟩
    · obtain ⟨hbi, hpa⟩ := hom.1 i x p hx (by omega) hp
      simp only [atenValue, hil, if_true, hlt, if_false] at hu
      simp only [paramValue, hbi] at hv
      simp only [pairAgree, hu, hv] at hpa
      exact ⟨hpa, fun h => absurd h hlt⟩
  · intro k x j p hx hp hname u v hu hv
    have hkl : k < a.kwonly.length := (List.getElem?_eq_some_iff.mp hx).1
    have hnl : ¬ a.positional.length + k < a.positional.length := by omega
    have hsub : a.positional.length + k - a.positional.length = k := by omega
    by_cases hin : x.name ∈ c.kws
    · have hcont : c.kws.contains x.name = true := List.contains_iff_mem.mpr hin
      have hxm : x ∈ a.kwonly := List.mem_iff_getElem?.mpr ⟨k, hx⟩
      have hkp := bindsOk_clause h .kwPlaced
      simp only [clauseOk] at hkp
      rw [List.all_eq_true] at hkp
      have h1 := hkp x hxm
      rw [List.all_eq_true] at h1
      have h2 := h1 (p, j) (List.mem_zipIdx_iff_getElem?.mpr hp)
      simp only [hname, bne_self_eq_false, Bool.false_or, Bool.and_eq_true, decide_eq_true_eq] at h2
      have hnpos := hc.npos_le
      have hn : ¬ j < c.npos := by omega
      have hbj : b[j]? = some (some (.kw x.name)) := by
        rw [hget, hp]
        simp only [Option.map_some, slot, hn, if_false, hname, hcont, if_true]
      simp only [atenValue, hnl, if_false, hsub, hx, hcont, if_true, Option.some.injEq] at hu
      simp only [paramValue, hbj, Option.some.injEq] at hv
      subst hu; subst hv
      exact ⟨dvAgree_self _, fun _ => rfl⟩
    · obtain ⟨hbj, hpa⟩ := hom.2 k x j p hx hin hp hname
      have hcont : c.kws.contains x.name = false := by
        cases hk : c.kws.contains x.name with
        | false => rfl
        | true => exact absurd (List.contains_iff_mem.mp hk) hin
      simp only [atenValue, hnl, if_false, hsub, hx, hcont, Bool.false_eq_true] at hu
      simp only [paramValue, hbj] at hv
      simp only [pairAgree, hu, hv] at hpa
      exact ⟨hpa, fun h => absurd h hin⟩


/-- Non-vacuity: `aten::add.Tensor` with `alpha` omitted (both sides compute with 1) and with `alpha` supplied (the
parameter computes with the supplied value). -/
example :
    let a : AtenSchema := ⟨[⟨"self", .tensor, false, false, false, false⟩, ⟨"other", .tensor, false, false, false, false⟩],
      [⟨"alpha", .scalar, false, false, true, false⟩]⟩
    let val : Src → DVal := fun src => match src with | .kw _ => .num 5 1 | .pos _ => .opaque
    atenValue a [.absent, .absent, .num 1 1] val ⟨2, []⟩ 2 = some (.num 1 1) ∧
    paramValue [.absent, .absent, .num 1 1] val [some (.pos 0), some (.pos 1), none] 2 = some (.num 1 1) ∧
    atenValue a [.absent, .absent, .num 1 1] val ⟨2, ["alpha"]⟩ 2 = some (.num 5 1) ∧
    paramValue [.absent, .absent, .num 1 1] val [some (.pos 0), some (.pos 1), some (.kw "alpha")] 2 = some (.num 5 1) ∧
    paramValue [.absent, .absent, .num 2 1] val [some (.pos 0), some (.pos 1), none] 2 = some (.num 2 1) := by
  decide

/-- The fill-in of the two paths: a scripted function's unbound *input* gets `None` whatever its python default says,
its attributes and every parameter of a trace-only function keep the python default. -/
example :
    let s : OsSig := [⟨"w", true, .none, false, false, true, .otherOrigin, true⟩,
      ⟨"eps", false, .float, false, false, true, .base .float, true⟩]
    effDefaults .scripted s [.num 1 1, .num 1 2] = [.none, .num 1 2] ∧
    effDefaults .traced s [.num 1 1, .num 1 2] = [.num 1 1, .num 1 2] := by decide

/-- Agreement is python's `==` on concrete values (`True == 1`, `1 == 1.0` as the fraction 1/1); `None` is never judged. -/
example : dvAgree (.bool true) (.num 1 1) = true ∧ dvAgree (.bool true) (.num 2 1) = false ∧
    dvAgree (.nums [(1, 1)]) (.nums [(1, 1), (1, 1)]) = false ∧ dvAgree .none (.num 2 1) = true ∧
    dvAgree (.str [97]) (.str [97]) = true ∧ dvAgree .opaque (.str [97]) = true := by decide

/-- **`defaultsBad_nil_iff`**: the list of differing pairs reported by the check is empty exactly when `defaultsOk`
holds (what the driver prints is the rule). -/
theorem defaultsBad_nil_iff (a : AtenSchema) (s : OsSig) (adef pdef : List DVal) :
    defaultsBad a s adef pdef = [] ↔ defaultsOk a s adef pdef = true := by
  unfold defaultsBad defaultsOk
  rw [List.append_eq_nil_iff, List.map_eq_nil_iff, List.filter_eq_nil_iff, List.flatMap_eq_nil_iff,
    Bool.and_eq_true, List.all_eq_true, List.all_eq_true]
  constructor
  · rintro ⟨h1, h2⟩
    refine ⟨fun i hi => by simpa using h1 i hi, fun xk hxk => ?_⟩
    have := h2 xk hxk
    rw [List.map_eq_nil_iff, List.filter_eq_nil_iff] at this
    rw [List.all_eq_true]
    intro pj hpj
    have h3 := this pj hpj
    cases hn : (pj.1.name == xk.1.name) <;> simp_all
  · rintro ⟨h1, h2⟩
    refine ⟨fun i hi => by simpa using h1 i hi, fun xk hxk => ?_⟩
    rw [List.map_eq_nil_iff, List.filter_eq_nil_iff]
    intro pj hpj
    have h3 := h2 xk hxk
    rw [List.all_eq_true] at h3
    have h4 := h3 pj hpj
    cases hn : (pj.1.name == xk.1.name) with
    | false => simp
    | true =>
      have hn' : pj.1.name = xk.1.name := by simpa using hn
      simp only [hn', bne_self_eq_false, Bool.false_or] at h4
      simp [h4]

/-! ## The table -/

open OV.Gen.C16

/-- Open findings on the unchanged tree (reproduced on the real code, `known_findings.d/C16.json`): for
each listed name, exactly the defects it is known to have.  Anything else — another defect on a listed
row, any defect on an unlisted row — falsifies `registry_binds_partial`.
NB: the key is the qualified name only, so `"aten::mean"` also covers the *complex* `aten::mean` row (no defect today, fixed
by c40ec0b): 9 rows, not 8, have `waived e.qualified ≠ []` and are outside `registry_binds_partial`, `registry_binds` and
`registry_omitted_defaults`, and a `kwBound` defect on the complex row would be tolerated by `rowWithin`. -/
def waived : String → List Defect
  -- C16-undefined-overload: PyTorch defines no such overload
  | "aten::getitem" => [.undefinedOp]
  | "quantized_decomposed::quantize_per_channel.tensor" => [.undefinedOp]
  | "quantized_decomposed::quantize_per_channel.tensor2" => [.undefinedOp]
  | "quantized_decomposed::dequantize_per_channel.tensor" => [.undefinedOp]
  | "quantized_decomposed::dequantize_per_channel.tensor2" => [.undefinedOp]
  -- C16-mean-dtype-dropped: `dtype` of the real aten::mean is not a parameter (scripted binder drops it)
  | "aten::mean" => [.clause .kwBound]
  -- C16-repeat-interleave-self: schema `repeats` lands on parameter `self` (body compensates)
  | "aten::repeat_interleave.Tensor" => [.clause .posNames]
  -- C16-positional-surplus: the schema has more positional arguments than the function
  | "torchvision::roi_pool" => [.clause .posFits, .clause .posAccepts, .clause .posNames]
  | _ => []

/-- The rows outside the wide call model's theorem, with the reason: `posName` = a positional parameter is
not named like its schema argument (a call passing that argument by keyword would not find it), `ruleFails` =
the row already fails `bindsOk` (open findings / undefined names).  Exact: `registry_outsideK_exact`. -/
def outsideK : String → Bool → List KReason
  | "_operator::abs", _ => [.posName]
  | "_operator::add", _ => [.posName]
  | "aten::atleast_1d.Sequence", _ => [.posName]
  | "aten::atleast_2d.Sequence", _ => [.posName]
  | "aten::atleast_3d.Sequence", _ => [.posName]
  | "_operator::and_", _ => [.posName]
  | "_operator::__lshift__", _ => [.posName]
  | "_operator::or_", _ => [.posName]
  | "_operator::__rshift__", _ => [.posName]
  | "math::ceil", _ => [.posName]
  | "aten::clamp_max", _ => [.posName]
  | "aten::clamp_max.Tensor", _ => [.posName]
  | "aten::clamp_min", _ => [.posName]
  | "aten::clamp_min.Tensor", _ => [.posName]
  | "_operator::truediv", _ => [.posName]
  | "aten::embedding_renorm", _ => [.posName]
  | "aten::eq", _ => [.posName]
  | "_operator::eq", _ => [.posName]
  | "math::floor", _ => [.posName]
  | "_operator::floordiv", _ => [.posName]
  | "_operator::ge", _ => [.posName]
  | "_operator::getitem", _ => [.posName]
  | "aten::getitem", _ => [.ruleFails]
  | "_operator::gt", _ => [.posName]
  | "_operator::le", _ => [.posName]
  | "_operator::lt", _ => [.posName]
  | "aten::mean", false => [.ruleFails]
  | "aten::mul", _ => [.posName]
  | "_operator::mul", _ => [.posName]
  | "aten::ne", _ => [.posName]
  | "_operator::ne", _ => [.posName]
  | "_operator::neg", _ => [.posName]
  | "_operator::pow", _ => [.posName]
  | "_operator::mod", _ => [.posName]
  | "aten::repeat_interleave.Tensor", _ => [.ruleFails, .posName]
  | "aten::split", _ => [.posName]
  | "_operator::sub", _ => [.posName]
  | "aten::tensor.bool", _ => [.posName]
  | "aten::tensor.float", _ => [.posName]
  | "aten::tensor.int", _ => [.posName]
  | "math::trunc", _ => [.posName]
  | "aten::unique_consecutive", _ => [.posName]
  | "aten::det", _ => [.posName]
  | "aten::upsample_bicubic2d.vec", _ => [.posName]
  | "aten::upsample_bilinear2d.vec", _ => [.posName]
  | "aten::upsample_trilinear3d.vec", _ => [.posName]
  | "quantized_decomposed::quantize_per_channel.tensor", _ => [.ruleFails]
  | "quantized_decomposed::quantize_per_channel.tensor2", _ => [.ruleFails]
  | "quantized_decomposed::dequantize_per_channel.tensor", _ => [.ruleFails]
  | "quantized_decomposed::dequantize_per_channel.tensor2", _ => [.ruleFails]
  | "torchvision::nms", _ => [.posName]
  | "torchvision::roi_pool", _ => [.ruleFails, .posName]
  | _, _ => []

def rowWithin (e : Entry) : Bool :=
  e.defects.all (fun d => (waived e.qualified).contains d) && e.shapeOk &&
  decide (kReasons e.mode e.aten e.sig = outsideK e.qualified e.isComplex)

/- The full statement `∀ e ∈ registry, e.ok = true` is false on the unchanged tree (see `waived`); it is
kept as `registry_binds_full_refuted_snapshot` below on a literal copy of one failing row. -/

theorem registry_chunk0 : ∀ e ∈ chunk0, rowWithin e = true := by decide +kernel
theorem registry_chunk1 : ∀ e ∈ chunk1, rowWithin e = true := by decide +kernel
theorem registry_chunk2 : ∀ e ∈ chunk2, rowWithin e = true := by decide +kernel
theorem registry_chunk3 : ∀ e ∈ chunk3, rowWithin e = true := by decide +kernel
theorem registry_chunk4 : ∀ e ∈ chunk4, rowWithin e = true := by decide +kernel
theorem registry_chunk5 : ∀ e ∈ chunk5, rowWithin e = true := by decide +kernel
theorem registry_chunk6 : ∀ e ∈ chunk6, rowWithin e = true := by decide +kernel
theorem registry_chunk7 : ∀ e ∈ chunk7, rowWithin e = true := by decide +kernel

theorem registry_within : ∀ e ∈ registry, rowWithin e = true := by
  intro e he
  simp only [registry, List.mem_append] at he
  rcases he with ((((((h | h) | h) | h) | h) | h) | h) | h
  · exact registry_chunk0 e h
  · exact registry_chunk1 e h
  · exact registry_chunk2 e h
  · exact registry_chunk3 e h
  · exact registry_chunk4 e h
  · exact registry_chunk5 e h
  · exact registry_chunk6 e h
  · exact registry_chunk7 e h

theorem registry_defaults_chunk0 : ∀ e ∈ chunk0, e.defaultsOk = true := by decide +kernel
theorem registry_defaults_chunk1 : ∀ e ∈ chunk1, e.defaultsOk = true := by decide +kernel
theorem registry_defaults_chunk2 : ∀ e ∈ chunk2, e.defaultsOk = true := by decide +kernel
theorem registry_defaults_chunk3 : ∀ e ∈ chunk3, e.defaultsOk = true := by decide +kernel
theorem registry_defaults_chunk4 : ∀ e ∈ chunk4, e.defaultsOk = true := by decide +kernel
theorem registry_defaults_chunk5 : ∀ e ∈ chunk5, e.defaultsOk = true := by decide +kernel
theorem registry_defaults_chunk6 : ∀ e ∈ chunk6, e.defaultsOk = true := by decide +kernel
theorem registry_defaults_chunk7 : ∀ e ∈ chunk7, e.defaultsOk = true := by decide +kernel

/-- **`registry_defaults_agree`** (table theorem over the regenerated rows, no waiver): on every row the default lists
read from `torch._C.Argument.default_value` and `inspect.Parameter.default` have the row's shape, and no schema
argument and parameter that `bind` pairs carry two different concrete defaults. -/
theorem registry_defaults_agree : ∀ e ∈ registry,
    defaultsShapeOk e.aten e.sig e.adef e.pdef = true ∧
    defaultsOk e.aten e.sig e.adef (effDefaults e.mode e.sig e.pdef) = true := by
  intro e he
  have h : e.defaultsOk = true := by
    simp only [registry, List.mem_append] at he
    rcases he with ((((((h | h) | h) | h) | h) | h) | h) | h
    · exact registry_defaults_chunk0 e h
    · exact registry_defaults_chunk1 e h
    · exact registry_defaults_chunk2 e h
    · exact registry_defaults_chunk3 e h
    · exact registry_defaults_chunk4 e h
    · exact registry_defaults_chunk5 e h
    · exact registry_defaults_chunk6 e h
    · exact registry_defaults_chunk7 e h
  unfold Entry.defaultsOk at h
  rw [Bool.and_eq_true] at h
  exact h

/-- **`registry_binds_partial`** (table theorem over the registry as it is *now*): every row outside the
listed open findings has a well-formed name, an operator PyTorch defines (or a library that is not
installed), and `bindsOk`.  Hypotheses: `waived e.qualified = []` (9 rows excluded, see `waived`); the `bindsOk` part also
`e.res ≠ .lib_absent` — vacuous today (no such row), but on a machine without torchvision it would excuse every
`torchvision::*` row from the binding statement without any check. -/
theorem registry_binds_partial : ∀ e ∈ registry, waived e.qualified = [] →
    nameOkCodes e.qcodes = true ∧ e.res ≠ .undefined ∧
    (e.res ≠ .lib_absent → bindsOk e.mode e.aten e.sig = true) := by
  intro e he hw
  have h := registry_within e he
  unfold rowWithin at h
  rw [hw] at h
  simp only [Bool.and_eq_true] at h
  replace h := h.1.1
  have hd : e.defects = [] := by
    cases hdef : e.defects with
    | nil => rfl
    | cons d ds => rw [hdef] at h; simp at h
  unfold Entry.defects at hd
  rw [List.append_eq_nil_iff] at hd
  obtain ⟨h1, h2⟩ := hd
  refine ⟨?_, ?_, ?_⟩
  · cases hn : nameOkCodes e.qcodes
    · simp [hn] at h1
    · rfl
  · intro hr; simp [hr] at h2
  · intro hla
    cases hr : e.res <;> simp only [hr] at h2 hla
    · exact (failing_nil_iff _ _ _).mp (List.map_eq_nil_iff.mp h2)
    · exact (failing_nil_iff _ _ _).mp (List.map_eq_nil_iff.mp h2)
    · exact absurd rfl hla
    · simp at h2

/-- **`registry_binds`** = table ∘ general theorem: for every registered overload outside the open
findings whose operator resolves, *every* conforming call binds right through the exporter's binder.  (Not all rows: the
hypotheses `waived e.qualified = []` and `e.res ≠ .lib_absent` are those of `registry_binds_partial`.) -/
theorem registry_binds : ∀ e ∈ registry, waived e.qualified = [] → e.res ≠ .lib_absent →
    ∀ c, Conforms e.aten c → ∃ b, bind e.mode e.sig c = .ok b ∧ BoundRight e.mode e.aten e.sig c b := by
  intro e he hw hla c hc
  exact bind_ok_sound _ _ _ ((registry_binds_partial e he hw).2.2 hla) c hc


/-- **`registry_omitted_defaults`** = table ∘ `omitted_defaults_agree` ∘ `registry_binds_partial`: for every registered
overload outside the open findings whose operator resolves, every conforming call, and the binding the exporter's binder
returns for it, each omitted schema argument leaves its parameter on the default the binder fills in (`effDefaults`: the python default,
`None` for an input of a scripted function), and that default is not a different concrete value from the schema's. -/
theorem registry_omitted_defaults : ∀ e ∈ registry, waived e.qualified = [] → e.res ≠ .lib_absent →
    ∀ c, Conforms e.aten c → ∀ b, bind e.mode e.sig c = .ok b →
    (∀ (i : Nat) (x : AArg) (p : OParam), e.aten.positional[i]? = some x → c.npos ≤ i → e.sig[i]? = some p →
        b[i]? = some none ∧ pairAgree e.adef (effDefaults e.mode e.sig e.pdef) i i = true) ∧
    (∀ (k : Nat) (x : AArg) (j : Nat) (p : OParam), e.aten.kwonly[k]? = some x → x.name ∉ c.kws →
        e.sig[j]? = some p → p.name = x.name →
        b[j]? = some none ∧
          pairAgree e.adef (effDefaults e.mode e.sig e.pdef) (e.aten.positional.length + k) j = true) := by
  intro e he hw hla c hc b hb
  exact omitted_defaults_agree _ _ _ _ _ ((registry_binds_partial e he hw).2.2 hla) (registry_defaults_agree e he).2 c hc b hb


/-- **`registry_rule_exact`**: on every row of the registry as it is now, the decidable rule coincides with
the property's binding clause — `bindsOk` holds iff every conforming call is bound right by the exporter's
binder (`bindsOk_iff`; the shape hypotheses are table facts). -/
theorem registry_rule_exact : ∀ e ∈ registry,
    (bindsOk e.mode e.aten e.sig = true ↔
      ∀ c, Conforms e.aten c → ∃ b, bind e.mode e.sig c = .ok b ∧ BoundRight e.mode e.aten e.sig c b) := by
  intro e he
  have h := registry_within e he
  unfold rowWithin Entry.shapeOk at h
  simp only [Bool.and_eq_true] at h
  exact bindsOk_iff _ _ _ h.1.2.1 (nodupS_sound _ h.1.2.2)

/-- **`registry_rejected_rows_fail`**: every row the rule rejects (all of them are listed in `waived`) has a
concrete conforming call — the maximal or the minimal one — that the exporter's binder does not bind right.
A rejected row is therefore never an artefact of the rule. -/
theorem registry_rejected_rows_fail : ∀ e ∈ registry, bindsOk e.mode e.aten e.sig = false →
    ∃ c, Conforms e.aten c ∧ (c = maxCall e.aten ∨ c = minCall e.aten) ∧
      ∀ b, bind e.mode e.sig c = .ok b → ¬ BoundRight e.mode e.aten e.sig c b := by
  intro e he hb
  have h := registry_within e he
  unfold rowWithin Entry.shapeOk at h
  simp only [Bool.and_eq_true] at h
  exact bindsOk_tight _ _ _ h.1.2.1 (nodupS_sound _ h.1.2.2) hb


/-- No open finding waives a malformed name. -/
theorem waived_no_badName (q : String) : Defect.badName ∉ waived q := by
  unfold waived
  split <;> decide

/-- **`registry_names_ok`**: every registered name is accepted by the transcribed
`_check_and_normalize_names` (well-formed, no `.default`). -/
theorem registry_names_ok : ∀ e ∈ registry, nameOkCodes e.qcodes = true := by
  intro e he
  have h := registry_within e he
  unfold rowWithin at h
  simp only [Bool.and_eq_true, List.all_eq_true] at h
  cases hn : nameOkCodes e.qcodes with
  | true => rfl
  | false =>
    exfalso
    have hmem : Defect.badName ∈ e.defects := by
      unfold Entry.defects
      simp [hn]
    have := h.1.1 _ hmem
    exact waived_no_badName e.qualified (List.contains_iff_mem.mp this)


/-- No open finding waives a signature-classification defect. -/
theorem waived_no_sigClass (q : String) : Defect.sigClass ∉ waived q := by
  unfold waived
  split <;> decide

/-- **`registry_signatures_faithful`**: for every registered function, the OpSignature the real
`op_signature_from_function` produced is the one its transcription (`classify`: `get_attr_type` + the
input/attribute branch; `required` = no python default; never variadic) yields from the parameter's
annotation category and default, both read independently by the translator. -/
theorem registry_signatures_faithful : ∀ e ∈ registry, sigFaithful e.sig = true := by
  intro e he
  have h := registry_within e he
  unfold rowWithin at h
  simp only [Bool.and_eq_true, List.all_eq_true] at h
  cases hn : sigFaithful e.sig with
  | true => rfl
  | false =>
    exfalso
    have hmem : Defect.sigClass ∈ e.defects := by
      unfold Entry.defects
      simp [hn]
    have := h.1.1 _ hmem
    exact waived_no_sigClass e.qualified (List.contains_iff_mem.mp this)

example : classify (.base .bool) = (false, .int) ∧ classify (.seqOf .int) = (false, .ints) ∧
    classify .otherOrigin = (true, .none) ∧ classify .missing = (true, .none) ∧
    sigFaithful [⟨"dim", false, .ints, true, false, true, .seqOf .int, false⟩] = true ∧
    sigFaithful [⟨"dim", true, .none, true, false, true, .seqOf .int, false⟩] = false := by decide


/-- No open finding waives a kind mix-up or a wrong integer-only mark. -/
theorem waived_no_complexName (q : String) : Defect.complexName ∉ waived q ∧ Defect.schemaFlag ∉ waived q := by
  unfold waived
  split <;> decide

/-- **`registry_kinds_ok`**: no function written for complex inputs (`…_complex`, the operator itself not being
called `…complex`) owns a (name, real) pair, and a `Scalar` is treated as an integer only for the bitwise /
shift operators — for every row of the registry. -/
theorem registry_kinds_ok : ∀ e ∈ registry, e.complexNameOk = true ∧ e.schemaFlagsOk = true := by
  intro e he
  have h := registry_within e he
  unfold rowWithin at h
  simp only [Bool.and_eq_true, List.all_eq_true] at h
  constructor
  · cases hn : e.complexNameOk with
    | true => rfl
    | false =>
      exfalso
      have hmem : Defect.complexName ∈ e.defects := by unfold Entry.defects; simp [hn]
      exact (waived_no_complexName e.qualified).1 (List.contains_iff_mem.mp (h.1.1 _ hmem))
  · cases hn : e.schemaFlagsOk with
    | true => rfl
    | false =>
      exfalso
      have hmem : Defect.schemaFlag ∈ e.defects := by unfold Entry.defects; simp [hn]
      exact (waived_no_complexName e.qualified).2 (List.contains_iff_mem.mp (h.1.1 _ hmem))

/-- A float-capable `Scalar` is not accepted by an INT attribute (`aten::histc(…, Scalar min, Scalar max)` on
`min: int`), an integer-only one is (`aten::bitwise_and.Scalar`). -/
example :
    attrAccepts .int ⟨"min", .scalar, false, false, true, false⟩ = false ∧
    attrAccepts .float ⟨"min", .scalar, false, false, true, false⟩ = true ∧
    attrAccepts .int ⟨"other", .scalar, false, false, false, true⟩ = true ∧
    intOnlyName (codes "aten::bitwise_and.Scalar") = true ∧ intOnlyName (codes "aten::histc") = false := by decide

/-- **`registry_resolves_uniquely`**: two rows whose names the exporter resolves to the same
(namespace, operator, overload) carry the same name — together with `registry_unique`, each PyTorch
overload and kind (real/complex) is served by exactly one registered function. -/
theorem registry_resolves_uniquely : ∀ e₁ ∈ registry, ∀ e₂ ∈ registry,
    resolveKey e₁.qcodes = resolveKey e₂.qcodes → e₁.qcodes = e₂.qcodes := by
  intro e₁ h₁ e₂ h₂ h
  exact resolve_injective _ _ (registry_names_ok e₁ h₁) (registry_names_ok e₂ h₂) h


/-- **`registry_outsideK_exact`**: for every row, the reasons it is outside `bindsOkK` are exactly those listed
in `outsideK` — in particular every row not listed there satisfies `bindsOkK`. -/
theorem registry_outsideK_exact : ∀ e ∈ registry,
    kReasons e.mode e.aten e.sig = outsideK e.qualified e.isComplex := by
  intro e he
  have h := registry_within e he
  unfold rowWithin at h
  simp only [Bool.and_eq_true, decide_eq_true_eq] at h
  exact h.2

/-- **`registry_binds_by_keyword`** = table ∘ `bind_ok_sound_by_keyword`: for every registered overload not
listed in `outsideK` (hypothesis `outsideK … = []`: 505 of 554 rows today), every call of the wide model — positional schema arguments passed
by position or by keyword — is bound right by the exporter's binder. -/
theorem registry_binds_by_keyword : ∀ e ∈ registry, outsideK e.qualified e.isComplex = [] →
    ∀ c, ConformsK e.aten c → ∃ b, bind e.mode e.sig c = .ok b ∧ BoundRightK e.mode e.aten e.sig c b := by
  intro e he ho c hc
  have hk := registry_outsideK_exact e he
  rw [ho] at hk
  exact bind_ok_sound_by_keyword _ _ _ ((kReasons_nil_iff _ _ _).mp hk) c hc

/-- **`registry_omitted_defaults_by_keyword`** = table ∘ `omitted_defaults_agree_by_keyword`: on every row not listed in
`outsideK`, in every call of the wide model each omitted argument's parameter stays unbound on an agreeing default. -/
theorem registry_omitted_defaults_by_keyword : ∀ e ∈ registry, outsideK e.qualified e.isComplex = [] →
    ∀ c, ConformsK e.aten c → ∀ b, bind e.mode e.sig c = .ok b →
    (∀ (i : Nat) (x : AArg) (p : OParam), e.aten.positional[i]? = some x → c.npos ≤ i → x.name ∉ c.kws → e.sig[i]? = some p →
        b[i]? = some none ∧ pairAgree e.adef (effDefaults e.mode e.sig e.pdef) i i = true) ∧
    (∀ (k : Nat) (x : AArg) (j : Nat) (p : OParam), e.aten.kwonly[k]? = some x → x.name ∉ c.kws →
        e.sig[j]? = some p → p.name = x.name →
        b[j]? = some none ∧
          pairAgree e.adef (effDefaults e.mode e.sig e.pdef) (e.aten.positional.length + k) j = true) := by
  intro e he ho c hc b hb
  have hk := registry_outsideK_exact e he
  rw [ho] at hk
  exact omitted_defaults_agree_by_keyword _ _ _ _ _ ((kReasons_nil_iff _ _ _).mp hk) (registry_defaults_agree e he).2 c hc b hb

/-- **`registry_unique`**: each (qualified name, real/complex) pair occurs once in what
`get_torchlib_ops()` returns. -/
theorem registry_unique : (registry.map Entry.key).Nodup :=
  nodup_of_nodupN_natKey _ (by decide +kernel)

/-- `registrySize` rows were extracted (guards against a truncated table).  `registrySize` is itself generated (554 today): the
row count quoted in the notes is not a Lean literal, and neither is the count of judged default pairs (a harness counter). -/
theorem registry_size : registry.length = registrySize := by decide +kernel

/-- The full statement is refuted on a literal copy of the `torchvision::roi_pool` row as it still is in the
tree (the function has the Python wrapper's signature `(input, boxes, output_size, spatial_scale)`, the
operator is `(input, rois, spatial_scale, pooled_height, pooled_width)`): the row is rejected and the binder
raises on the maximal call. -/
theorem registry_binds_full_refuted_snapshot_roi_pool :
    let e : Entry := ⟨[116, 111, 114, 99, 104, 118, 105, 115, 105, 111, 110, 58, 58, 114, 111, 105, 95, 112, 111, 111, 108],
      false, .traced, .resolved,
      ⟨[⟨"input", .tensor, false, false, false, false⟩, ⟨"rois", .tensor, false, false, false, false⟩,
        ⟨"spatial_scale", .float, false, false, false, false⟩, ⟨"pooled_height", .symint, false, false, false, false⟩,
        ⟨"pooled_width", .symint, false, false, false, false⟩], []⟩,
      [⟨"input", true, .none, true, false, true, .missing, false⟩, ⟨"boxes", true, .none, true, false, true, .missing, false⟩,
       ⟨"output_size", false, .ints, true, false, true, .seqOf .int, false⟩,
       ⟨"spatial_scale", false, .float, false, false, true, .base .float, true⟩], [], [], []⟩
    e.ok = false ∧ maxCall e.aten = ⟨5, []⟩ ∧ bind e.mode e.sig (maxCall e.aten) = .error .tooMany := by
  decide

/-- Historical negation witness: the `aten::amax` row as it was before `/repo` d441e93 (replayed then on
the real exporter: `torch.onnx.export` of `torch.amax(x)` raised). -/
theorem registry_binds_full_refuted_snapshot :
    let e : Entry := ⟨[97, 116, 101, 110, 58, 58, 97, 109, 97, 120], false, .scripted, .resolved,
      ⟨[⟨"self", .tensor, false, false, false, false⟩, ⟨"dim", .int, true, false, true, false⟩,
        ⟨"keepdim", .bool, false, false, true, false⟩], []⟩,
      [⟨"self", true, .none, true, false, true, .otherPlain, false⟩, ⟨"dim", true, .none, true, false, true, .otherPlain, false⟩,
       ⟨"keepdim", false, .int, false, false, true, .base .int, true⟩], [], [], []⟩
    e.ok = false ∧ bind e.mode e.sig ⟨1, []⟩ = .error .missing := by
  decide

end OV.Props.C16
