import OV.Lemmas.C07Splice
import OV.Lemmas.C07Eval
import OV.Lemmas.C07Wf
import OV.Lemmas.C07Term
import OV.Lemmas.C07Match
/-!
  C07 — applying a rewrite replaces only the match and leaves a valid, equivalent graph.

  Model: `OV.Model.C07Graph` (graphs with bodies, `evalGraph`), `OV.Model.C07Apply`
  (`applyAt`, `registerInits`, `updOpsets`, `passLoop`/`applyRules`, `applyToModel`, `asFunction`).
  Every theorem is about the model; the model is tied to /repo by `harness/c07.py` on every run.

  SCOPE, said plainly.  The frame, equivalence, validity and single-assignment theorems (`applyAt_frame_*`,
  `applyAt_position`, `applyAt_equiv*`, `applyAt_wf`, `applyAt_defs_once`) are statements about the splice on
  node lists, `g.setNodes (spliceNodes g.nodes root matched repl true)` — `remove_nodes=True`, `repl` given
  with its final names — NOT about the model's whole step `applyAt = renamePassthru ∘ setNodes (spliceNodes
  (retireOld …) … (transferNames …))`.  The link is `applyAt_eq_splice` / `applyAt_equiv_applyAt`
  (`remove_nodes=True`, `NoPassthru`).  About `applyAt` itself: `applyAt_ids`, `applyAt_signature(_fresh)`.
  Nothing semantic is proved about `tryRule`/`tryRules` (instantiate, naming, tagging, as_function): the
  `applyRules_*` theorems ASSUME the per-application step (`hstep`), `passLoop_terminates` ASSUMES `StepShape`.
  The match may be given (`SpliceOK`) or produced by the model's own matcher `matchAt` (section matcher ∘ splice).
-/
namespace OV.Props.C07
open OV.C07

/-! ## Frame: exactly the matched nodes go, the replacement sits after the root, the rest stays -/

/-- `remove_nodes=True`: deleting the replacement nodes from the result gives back the host's
node list minus exactly the matched nodes — same nodes (inputs, attributes, metadata, bodies),
same order, same multiplicities. -/
theorem applyAt_frame_removed (ns new : List Node) (root : Nat) (matched : List Nat)
    (hfresh : ∀ n ∈ ns, ∀ n' ∈ new, n.id ≠ n'.id) :
    (spliceNodes ns root matched new true).filter (fun n => !(new.any (·.id == n.id))) =
      ns.filter (fun n => !(matched.contains n.id)) := by
  unfold spliceNodes
  simp only [if_true]
  rw [List.filter_filter]
  have : (fun n : Node => (!(new.any (·.id == n.id)) && !(matched.contains n.id))) =
      (fun n : Node => (!(matched.contains n.id) && !(new.any (·.id == n.id)))) := by
    funext n; exact Bool.and_comm _ _
  rw [this, ← List.filter_filter]
  rw [insertAfter_filter_old ns new root (fun n => new.any (·.id == n.id))]
  · intro n hn
    apply Bool.eq_false_iff.mpr
    intro h
    obtain ⟨n', hn', he⟩ := List.any_eq_true.mp h
    have he' : n'.id = n.id := by simpa using he
    exact hfresh n hn n' hn' he'.symm
  · intro n hn
    exact List.any_eq_true.mpr ⟨n, hn, by simp⟩

/-- `remove_nodes=False`: nothing of the host is removed. -/
theorem applyAt_frame_kept (ns new : List Node) (root : Nat) (matched : List Nat)
    (hfresh : ∀ n ∈ ns, ∀ n' ∈ new, n.id ≠ n'.id) :
    (spliceNodes ns root matched new false).filter (fun n => !(new.any (·.id == n.id))) = ns := by
  unfold spliceNodes
  simp only [Bool.false_eq_true, if_false]
  rw [insertAfter_filter_old ns new root (fun n => new.any (·.id == n.id))]
  · intro n hn
    apply Bool.eq_false_iff.mpr
    intro h
    obtain ⟨n', hn', he⟩ := List.any_eq_true.mp h
    have he' : n'.id = n.id := by simpa using he
    exact hfresh n hn n' hn' he'.symm
  · intro n hn
    exact List.any_eq_true.mpr ⟨n, hn, by simp⟩

/-- No matched node survives, and every replacement node is present. -/
theorem applyAt_removes_exactly (ns new : List Node) (root : Nat) (matched : List Nat)
    (hroot : ∃ r ∈ ns, r.id = root) (hnew : ∀ n' ∈ new, matched.contains n'.id = false) :
    (∀ n ∈ spliceNodes ns root matched new true, matched.contains n.id = false) ∧
    (∀ n' ∈ new, n' ∈ spliceNodes ns root matched new true) := by
  unfold spliceNodes
  simp only [if_true]
  constructor
  · intro n hn
    have := (List.mem_filter.mp hn).2
    simpa using this
  · intro n' hn'
    apply List.mem_filter.mpr
    exact ⟨mem_insertAfter_new ns new root hroot n' hn', by simpa using hnew n' hn'⟩

/-- Position: the replacement is inserted immediately after the root node (then the matched
nodes are filtered out). -/
theorem applyAt_position (pre post new : List Node) (r : Node) (matched : List Nat) (rm : Bool)
    (hpre : ∀ n ∈ pre, n.id ≠ r.id) (hpost : ∀ n ∈ post, n.id ≠ r.id) :
    spliceNodes (pre ++ r :: post) r.id matched new rm =
      if rm then (pre ++ r :: new ++ post).filter (fun n => !(matched.contains n.id))
      else pre ++ r :: new ++ post := by
  unfold spliceNodes
  rw [insertAfter_split pre post new r hpre hpost]

/-! ## Equivalence: the spliced graph computes what the host computed

`P` marks the matched nodes.  The host's node list is `pre0 ++ root :: post`; `H` are the names
that may differ afterwards: the interior values of the match (gone) and the interior values of
the replacement (new). -/

/-- What a (given) match and its replacement must satisfy at a root:
* `rootMatched`, `postUnmatched`: the root is the last matched node;
* `sorted`: the host list is in definition-before-use, single-assignment order;
* `interior` (**OutputsAtRoot**): matched nodes other than the root only produce interior values —
  every pattern output is an output of the root;
* `unread` (**Removable** ∧ fresh replacement names): no unmatched node — directly or from inside
  one of its bodies (`reads` includes `caps`) — reads a hidden name;
* `outsVisible`: no hidden name is a graph output. -/
structure SpliceOK (P : Node → Bool) (pre0 : List Node) (root : Node) (post : List Node)
    (H outs : List Name) : Prop where
  rootMatched : P root = true
  postUnmatched : ∀ b ∈ post, P b = false
  sorted : List.Pairwise (fun a b => follows a b = true) pre0
  interior : ∀ a ∈ pre0, P a = true → ∀ x ∈ a.outputs, x ∈ H
  unread : ∀ b ∈ pre0 ++ post, P b = false → ∀ x ∈ b.reads, x ∉ H
  outsVisible : ∀ o ∈ outs, o ∉ H

/-- "The replacement computes the same function as the matched nodes": from every environment
both are defined or both undefined, and when defined the environments agree on every name that
is not hidden — matched nodes and replacement write nothing but their own outputs, so this is
agreement on the pattern outputs (which carry the same names after name transfer). -/
def ReplEquiv {V} (sem : Sem V) (sub : Env V → Graph → List (Option V) → Option (List V))
    (H : List Name) (matchedNodes repl : List Node) : Prop :=
  ∀ ρ : Env V, ORel H (evalNodes (evalNode sem sub) ρ matchedNodes) (evalNodes (evalNode sem sub) ρ repl)

theorem disjoint_spec (a b : List Name) (h : disjoint a b = true) : ∀ x ∈ a, x ∉ b := by
  intro x hx hb
  unfold disjoint at h
  have := List.all_eq_true.mp h x hx
  simp [hb] at this

/-- Node-list form: for matches in any node list — a main graph, an `If`/`Loop` body (the
environment `ρ` already holds the outer values), a function body — evaluating the spliced list
agrees with evaluating the host list on every non-hidden name, and fails iff it fails. -/
theorem applyAt_equiv_nodes {V} (sem : Sem V) (sub) (P : Node → Bool) (pre0 post repl : List Node)
    (root : Node) (H outs : List Name) (ok : SpliceOK P pre0 root post H outs)
    (hrepl : ReplEquiv sem sub H (pre0.filter P ++ [root]) repl) (ρ : Env V) :
    ORel H (evalNodes (evalNode sem sub) ρ (pre0 ++ root :: post))
      (evalNodes (evalNode sem sub) ρ (pre0.filter (fun n => !P n) ++ (repl ++ post))) := by
  have hpw : List.Pairwise (fun a b => P a = true → P b = false → Indep a b) pre0 := by
    have hmem : List.Pairwise (fun a b => a ∈ pre0 ∧ b ∈ pre0 ∧ follows a b = true) pre0 := by
      have := List.Pairwise.and_mem.mp ok.sorted
      exact this.imp (fun h => ⟨h.1, h.2.1, h.2.2⟩)
    refine hmem.imp ?_
    intro a b hab ha hb
    obtain ⟨hma, hmb, hf⟩ := hab
    unfold follows at hf
    have hf' := Bool.and_eq_true_iff.mp hf
    refine ⟨?_, disjoint_spec _ _ hf'.1, ?_⟩
    · intro x hx hr
      exact ok.unread b (by simp [hmb]) hb x hr (ok.interior a hma ha x hx)
    · intro x hx hbo
      exact disjoint_spec _ _ hf'.2 x hbo hx
  rw [sink sem sub P pre0 hpw (root :: post) ρ, evalNodes_append, evalNodes_append]
  have e : pre0.filter P ++ root :: post = (pre0.filter P ++ [root]) ++ post := by simp
  cases evalNodes (evalNode sem sub) ρ (pre0.filter fun n => !P n) with
  | none => trivial
  | some ρ1 =>
    simp only [Option.bind_some]
    rw [e, evalNodes_append _ (pre0.filter P ++ [root]) post, evalNodes_append _ repl post]
    exact evalNodes_eqOff sem sub H post
      (fun n hn x hx => ok.unread n (by simp [hn]) (ok.postUnmatched n hn) x hx) _ _ (hrepl ρ1)

/-- the node list `spliceNodes` produces (`remove_nodes=True`) when `matched` holds the ids of the
marked nodes and the replacement's ids are new -/
theorem spliceNodes_eq (pre0 post repl : List Node) (root : Node) (matched : List Nat)
    (hroot : matched.contains root.id = true)
    (hpre : ∀ n ∈ pre0, n.id ≠ root.id) (hpost : ∀ n ∈ post, n.id ≠ root.id)
    (hpostU : ∀ n ∈ post, matched.contains n.id = false)
    (hnew : ∀ n ∈ repl, matched.contains n.id = false) :
    spliceNodes (pre0 ++ root :: post) root.id matched repl true =
      pre0.filter (fun n => !(matched.contains n.id)) ++ (repl ++ post) := by
  rw [applyAt_position pre0 post repl root matched true hpre hpost]
  have h1 : repl.filter (fun n => !(matched.contains n.id)) = repl :=
    List.filter_eq_self.mpr (fun n hn => by rw [hnew n hn]; rfl)
  have h2 : post.filter (fun n => !(matched.contains n.id)) = post :=
    List.filter_eq_self.mpr (fun n hn => by rw [hpostU n hn]; rfl)
  have h0 : [root].filter (fun n => !(matched.contains n.id)) = [] := by
    rw [List.filter_cons, hroot]; rfl
  have e : pre0 ++ root :: repl ++ post = pre0 ++ ([root] ++ (repl ++ post)) := by simp
  rw [if_pos rfl, e, List.filter_append, List.filter_append, List.filter_append, h0, h1, h2]
  rfl

/-- **Equivalence of the splice (node-list form of the step; `remove_nodes=True` only).**  This is about
`g.setNodes (spliceNodes …)` with `repl` given under its final names, under `SpliceOK`, `hnew`, `ReplEquiv`;
for the model's `applyAt` see `applyAt_equiv_applyAt`.  For a host graph (main graph, body or function body) whose
node list is `pre0 ++ root :: post`, a match given by the ids `matched` whose last node is the
root, and a replacement that computes the same function as the matched nodes: the graph with
`spliceNodes … true` as its node list has the same meaning as the host — for every operator
semantics, every outer environment, every argument list, every nesting depth. -/
theorem applyAt_equiv {V} (sem : Sem V) (d : Nat) (outer : Env V) (args : List (Option V))
    (g : Graph) (pre0 post repl : List Node) (root : Node) (matched : List Nat) (H : List Name)
    (hg : g.nodes = pre0 ++ root :: post)
    (hpre : ∀ n ∈ pre0, n.id ≠ root.id) (hpost : ∀ n ∈ post, n.id ≠ root.id)
    (hnew : ∀ n ∈ repl, matched.contains n.id = false)
    (ok : SpliceOK (fun n => matched.contains n.id) pre0 root post H g.outputs)
    (hrepl : ReplEquiv sem (evalGraph sem d) H (pre0.filter (fun n => matched.contains n.id) ++ [root]) repl) :
    evalGraph sem (d + 1) outer (g.setNodes (spliceNodes g.nodes root.id matched repl true)) args =
      evalGraph sem (d + 1) outer g args := by
  rw [hg, spliceNodes_eq pre0 post repl root matched ok.rootMatched hpre hpost ok.postUnmatched hnew]
  have hstart : startEnv sem outer (g.setNodes (pre0.filter (fun n => !(matched.contains n.id)) ++ (repl ++ post))) args =
      startEnv sem outer g args := by cases g; rfl
  have hout : (g.setNodes (pre0.filter (fun n => !(matched.contains n.id)) ++ (repl ++ post))).outputs = g.outputs := by
    cases g; rfl
  have hnodes : (g.setNodes (pre0.filter (fun n => !(matched.contains n.id)) ++ (repl ++ post))).nodes =
      pre0.filter (fun n => !(matched.contains n.id)) ++ (repl ++ post) := by cases g; rfl
  simp only [evalGraph]
  rw [hstart, hout, hnodes, hg]
  cases startEnv sem outer g args with
  | none => rfl
  | some ρ0 =>
    simp only [Option.bind_some]
    have := applyAt_equiv_nodes sem (evalGraph sem d) (fun n => matched.contains n.id) pre0 post repl root H
      g.outputs ok hrepl ρ0
    revert this
    cases evalNodes (evalNode sem (evalGraph sem d)) ρ0 (pre0 ++ root :: post) <;>
      cases evalNodes (evalNode sem (evalGraph sem d)) ρ0
        (pre0.filter (fun n => !(matched.contains n.id)) ++ (repl ++ post)) <;> intro h
    · rfl
    · exact absurd h (by simp [ORel])
    · exact absurd h (by simp [ORel])
    · simp only [Option.bind_some]
      exact (lookupOuts_eqOff H _ _ g.outputs h ok.outsVisible).symm

/-! ### non-vacuity: a concrete instance of `SpliceOK`/`ReplEquiv`, and the theorem applied -/

def exNeg : Node := .mk 1 "Neg" "" "" [some "x"] ["n"] [] [] [] []
def exRelu : Node := .mk 2 "Relu" "" "" [some "n"] ["r"] [] [] [] []
def exAbs : Node := .mk 3 "Abs" "" "" [some "r"] ["z"] [] [] [] []
def exOther : Node := .mk 4 "Exp" "" "" [some "x"] ["w"] [] [] [] []
/-- re-emission of `Relu(Neg(x))` (new node objects 5, 6) -/
def exRepl : List Node := [.mk 5 "Neg" "" "" [some "x"] ["n"] [] [] [] [], .mk 6 "Relu" "" "" [some "n"] ["r"] [] [] [] []]
def exHost : Graph := .mk ["x"] [] [exNeg, exOther, exRelu, exAbs] ["z", "w"]

example : SpliceOK (fun n => [2, 1].contains n.id) [exNeg, exOther] exRelu [exAbs] ["n"] ["z", "w"] := by
  constructor <;> decide

/-- the interleaved, unmatched `Exp` stays; `Relu(Neg x)` is replaced by its re-emission; same
meaning for every operator semantics -/
example {V} (sem : Sem V) (d : Nat) (outer : Env V) (args : List (Option V)) :
    evalGraph sem (d + 1) outer (exHost.setNodes (spliceNodes exHost.nodes 2 [2, 1] exRepl true)) args =
      evalGraph sem (d + 1) outer exHost args :=
  applyAt_equiv sem d outer args exHost [exNeg, exOther] [exAbs] exRepl exRelu [2, 1] ["n"] rfl
    (by decide) (by decide) (by decide) (by constructor <;> decide)
    (fun ρ => by
      show ORel ["n"] (evalNodes _ ρ [exNeg, exRelu]) (evalNodes _ ρ exRepl)
      exact ORel.refl _ _)

/-! ## matcher ∘ splice: `Removable` and "the root is matched" are derived from `matchAt`

`matchAt` is the model's rendering of `RewriteRule._matcher.match` for the pattern classes of the tie
(`SimplePatternMatcher`: structural match, then `_valid_to_replace`, then the condition function).
The theorems above take `SpliceOK` as given; here the part of it that is the *matcher's* duty is
proved from a successful `matchAt`, so that what remains assumed about a match is only
**OutputsAtRoot** (needed: C07-D3 is its failure) and facts about the host (sorted) and the
replacement (fresh interior names). -/

/-- **What a successful match of a node-removing rule guarantees** (every graph, rule, node, ghost
set): the match is rooted at the node offered, that node is among the matched nodes, and every
interior value of the match (an output of a matched node that is not a pattern output) is not a
graph output, is not held by a discarded replacement, and is read by no unmatched node of the graph
— neither directly nor from inside a nested body. -/
theorem matchAt_removable (g : Graph) (r : Rule) (node : Node) (ghost : List Name) (m : Match)
    (h : matchAt g r node ghost = some m) (hrm : r.removeNodes = true) :
    m.root = node.id ∧ m.nodes.contains node.id = true ∧
    ∀ x ∈ interiorOf g m.nodes m.outputs,
      x ∉ g.outputs ∧ x ∉ ghost ∧ ∀ b ∈ g.nodes, m.nodes.contains b.id = false → x ∉ b.reads := by
  obtain ⟨hroot, hv⟩ := matchAt_spec g r node ghost m h
  obtain ⟨hvalid, hghost⟩ := hv hrm
  refine ⟨hroot, matchAt_root_matched g r node ghost m h, ?_⟩
  intro x hx
  obtain ⟨ho, hr⟩ := validToReplace_spec g m.nodes m.outputs hvalid x hx
  exact ⟨ho, hghost x hx, hr⟩

/-- **`SpliceOK` from the matcher.**  Host node list `pre0 ++ root :: post`, `matchAt` succeeded at
`root` for a node-removing rule.  Then `SpliceOK` holds with the hidden names = interior values of
the match ++ `Hn` (interior names of the replacement), given only
* `hpostU`, `hsorted`: the matched nodes precede the root and the host is sorted (host facts),
* `hroot` (**OutputsAtRoot**): matched nodes before the root produce no pattern output,
* `hfresh`: the replacement's interior names are new to the host.
`rootMatched`, `unread` (**Removable**) and `outsVisible` are no longer assumed. -/
theorem spliceOK_of_matchAt (g : Graph) (r : Rule) (ghost : List Name) (m : Match)
    (pre0 post : List Node) (root : Node) (Hn : List Name)
    (hm : matchAt g r root ghost = some m) (hrm : r.removeNodes = true)
    (hg : g.nodes = pre0 ++ root :: post)
    (hpostU : ∀ b ∈ post, m.nodes.contains b.id = false)
    (hsorted : List.Pairwise (fun a b => follows a b = true) pre0)
    (hroot : ∀ a ∈ pre0, m.nodes.contains a.id = true → ∀ x ∈ a.outputs, x ∉ m.outputs)
    (hfresh : ∀ x ∈ Hn, x ∉ g.outputs ∧ ∀ b ∈ g.nodes, x ∉ b.reads) :
    SpliceOK (fun n => m.nodes.contains n.id) pre0 root post (interiorOf g m.nodes m.outputs ++ Hn) g.outputs := by
  obtain ⟨_, hrootM, hint⟩ := matchAt_removable g r root ghost m hm hrm
  refine ⟨hrootM, hpostU, hsorted, ?_, ?_, ?_⟩
  · intro a ha hP x hx
    apply List.mem_append.mpr
    left
    exact mem_interiorOf.mpr ⟨⟨a, by rw [hg]; simp [ha], hP, hx⟩, hroot a ha hP x hx⟩
  · intro b hb hP x hx hH
    have hbg : b ∈ g.nodes := by
      rw [hg]
      rcases List.mem_append.mp hb with h1 | h1
      · simp [h1]
      · simp [h1]
    rcases List.mem_append.mp hH with h1 | h1
    · exact (hint x h1).2.2 b hbg hP hx
    · exact (hfresh x h1).2 b hbg hx
  · intro o ho hH
    rcases List.mem_append.mp hH with h1 | h1
    · exact (hint o h1).1 ho
    · exact (hfresh o h1).1 ho

/-- **End-to-end: matcher, then splice, is meaning-preserving.**  `applyAt_equiv` with the match
produced by `matchAt` instead of a given `SpliceOK`. -/
theorem applyAt_equiv_of_matchAt {V} (sem : Sem V) (d : Nat) (outer : Env V) (args : List (Option V))
    (g : Graph) (r : Rule) (ghost : List Name) (m : Match) (pre0 post repl : List Node) (root : Node)
    (Hn : List Name)
    (hm : matchAt g r root ghost = some m) (hrm : r.removeNodes = true)
    (hg : g.nodes = pre0 ++ root :: post)
    (hpre : ∀ n ∈ pre0, n.id ≠ root.id) (hpost : ∀ n ∈ post, n.id ≠ root.id)
    (hnew : ∀ n ∈ repl, m.nodes.contains n.id = false)
    (hpostU : ∀ b ∈ post, m.nodes.contains b.id = false)
    (hsorted : List.Pairwise (fun a b => follows a b = true) pre0)
    (hroot : ∀ a ∈ pre0, m.nodes.contains a.id = true → ∀ x ∈ a.outputs, x ∉ m.outputs)
    (hfresh : ∀ x ∈ Hn, x ∉ g.outputs ∧ ∀ b ∈ g.nodes, x ∉ b.reads)
    (hrepl : ReplEquiv sem (evalGraph sem d) (interiorOf g m.nodes m.outputs ++ Hn)
      (pre0.filter (fun n => m.nodes.contains n.id) ++ [root]) repl) :
    evalGraph sem (d + 1) outer (g.setNodes (spliceNodes g.nodes m.root m.nodes repl true)) args =
      evalGraph sem (d + 1) outer g args := by
  rw [(matchAt_removable g r root ghost m hm hrm).1]
  exact applyAt_equiv sem d outer args g pre0 post repl root m.nodes _ hg hpre hpost hnew
    (spliceOK_of_matchAt g r ghost m pre0 post root Hn hm hrm hg hpostU hsorted hroot hfresh) hrepl

/-- **OutputsAtRoot from the matcher** (patterns all of whose outputs are outputs of the pattern's
output node — `has_single_output_node`): in a host `pre0 ++ root :: post` whose node ids are distinct
from the root's and whose prefix up to the root is sorted (single assignment), a matched node before
the root produces no output of the match.  For patterns with several output nodes the statement is
false (C07-D3: `applyAt_wf_prefix_refuted`; the code sorts the graph afterwards instead). -/
theorem outputsAtRoot_of_matchAt (g : Graph) (r : Rule) (ghost : List Name) (m : Match)
    (pre0 post : List Node) (root : Node)
    (hm : matchAt g r root ghost = some m)
    (hsingle : ∀ first, (outputNodes r.pat).head? = some first → ∀ o ∈ r.pat.outputs, ∃ j, o = PRef.out first j)
    (hg : g.nodes = pre0 ++ root :: post)
    (hpre : ∀ n ∈ pre0, n.id ≠ root.id) (hpost : ∀ n ∈ post, n.id ≠ root.id)
    (hsorted : List.Pairwise (fun a b => follows a b = true) (pre0 ++ [root])) :
    (∀ x ∈ m.outputs, x ∈ root.outputs) ∧
    ∀ a ∈ pre0, m.nodes.contains a.id = true → ∀ x ∈ a.outputs, x ∉ m.outputs := by
  have huid : ∀ n ∈ g.nodes, n.id = root.id → n.outputs = root.outputs := by
    intro n hn hid
    rw [hg] at hn
    rcases List.mem_append.mp hn with h1 | h1
    · exact absurd hid (hpre n h1)
    · rcases List.mem_cons.mp h1 with rfl | h2
      · rfl
      · exact absurd hid (hpost n h2)
  have hout := matchAt_outputs_at_root g r root ghost m huid hsingle hm
  refine ⟨hout, ?_⟩
  intro a ha _ x hx hxo
  have hfa : follows a root = true :=
    (List.pairwise_append.mp hsorted).2.2 a ha root (List.mem_singleton.mpr rfl)
  unfold follows at hfa
  exact disjoint_spec _ _ (Bool.and_eq_true_iff.mp hfa).2 x (hout x hxo) hx

/-- **End-to-end for single-output-node patterns: neither OutputsAtRoot nor Removable is assumed.**
What is left are facts about the host (ids distinct from the root's, sorted up to the root, the
matched nodes precede the root) and about the replacement (`hnew`, `hfresh`, `ReplEquiv`). -/
theorem applyAt_equiv_of_matchAt_single {V} (sem : Sem V) (d : Nat) (outer : Env V) (args : List (Option V))
    (g : Graph) (r : Rule) (ghost : List Name) (m : Match) (pre0 post repl : List Node) (root : Node)
    (Hn : List Name)
    (hm : matchAt g r root ghost = some m) (hrm : r.removeNodes = true)
    (hsingle : ∀ first, (outputNodes r.pat).head? = some first → ∀ o ∈ r.pat.outputs, ∃ j, o = PRef.out first j)
    (hg : g.nodes = pre0 ++ root :: post)
    (hpre : ∀ n ∈ pre0, n.id ≠ root.id) (hpost : ∀ n ∈ post, n.id ≠ root.id)
    (hnew : ∀ n ∈ repl, m.nodes.contains n.id = false)
    (hpostU : ∀ b ∈ post, m.nodes.contains b.id = false)
    (hsorted : List.Pairwise (fun a b => follows a b = true) (pre0 ++ [root]))
    (hfresh : ∀ x ∈ Hn, x ∉ g.outputs ∧ ∀ b ∈ g.nodes, x ∉ b.reads)
    (hrepl : ReplEquiv sem (evalGraph sem d) (interiorOf g m.nodes m.outputs ++ Hn)
      (pre0.filter (fun n => m.nodes.contains n.id) ++ [root]) repl) :
    evalGraph sem (d + 1) outer (g.setNodes (spliceNodes g.nodes m.root m.nodes repl true)) args =
      evalGraph sem (d + 1) outer g args :=
  applyAt_equiv_of_matchAt sem d outer args g r ghost m pre0 post repl root Hn hm hrm hg hpre hpost hnew hpostU
    (List.pairwise_append.mp hsorted).1
    (outputsAtRoot_of_matchAt g r ghost m pre0 post root hm hsingle hg hpre hpost hsorted).2 hfresh hrepl

/-- `Relu(Neg(v0))` → re-emission -/
def exRule : Rule :=
  { name := "r", removeNodes := true, asFunction := false, guardTag := true,
    pat := { nodes := [⟨"Neg", "", [.var 0], 1, []⟩, ⟨"Relu", "", [.out 0 0], 1, []⟩], root := 1, outputs := [.out 1 0] },
    repl := { inits := [], uniqueInits := false,
              nodes := [⟨"Neg", "", none, [.var 0], 1, []⟩, ⟨"Relu", "", none, [.out 0 0], 1, []⟩],
              outputs := [.out 1 0] } }

def exMatch : Match := { root := 2, nodes := [2, 1], bindings := [(0, some "x")], outputs := ["r"] }

/-- non-vacuity: the matcher succeeds on `exHost` at `Relu` (matched `[2, 1]`, interior `n`), and
the end-to-end theorem applies with the match it returns -/
example : matchAt exHost exRule exRelu = some exMatch ∧
    interiorOf exHost exMatch.nodes exMatch.outputs = ["n"] := by decide

example {V} (sem : Sem V) (d : Nat) (outer : Env V) (args : List (Option V)) :
    evalGraph sem (d + 1) outer (exHost.setNodes (spliceNodes exHost.nodes 2 [2, 1] exRepl true)) args =
      evalGraph sem (d + 1) outer exHost args :=
  applyAt_equiv_of_matchAt sem d outer args exHost exRule [] exMatch [exNeg, exOther] [exAbs] exRepl exRelu []
    (by decide) rfl rfl (by decide) (by decide) (by decide) (by decide) (by decide) (by decide)
    (by simp)
    (fun ρ => by
      show ORel _ (evalNodes _ ρ [exNeg, exRelu]) (evalNodes _ ρ exRepl)
      exact ORel.refl _ _)

example {V} (sem : Sem V) (d : Nat) (outer : Env V) (args : List (Option V)) :
    evalGraph sem (d + 1) outer (exHost.setNodes (spliceNodes exHost.nodes 2 [2, 1] exRepl true)) args =
      evalGraph sem (d + 1) outer exHost args :=
  applyAt_equiv_of_matchAt_single sem d outer args exHost exRule [] exMatch [exNeg, exOther] [exAbs] exRepl exRelu []
    (by decide) rfl
    (by
      intro first hf o ho
      have h1 : (outputNodes exRule.pat).head? = some 1 := by decide
      rw [h1] at hf
      cases hf
      have : o = PRef.out 1 0 := by simpa [exRule] using ho
      exact ⟨0, this⟩)
    rfl (by decide) (by decide) (by decide) (by decide) (by decide)
    (by simp)
    (fun ρ => by
      show ORel _ (evalNodes _ ρ [exNeg, exRelu]) (evalNodes _ ρ exRepl)
      exact ORel.refl _ _)


/-! ## Repeated and overlapping applications in one pass

`passLoop` is the iteration of `_apply_to_graph_or_function` over the mutating node list.  Any
relation between the graph before and after that is reflexive, transitive, kept by each single
application (`tryRules … = applied`) and by writing rewritten bodies back into the visited node
holds between the input and the output of the whole pass — however many applications there were,
and also when a later application consumes nodes an earlier one produced.  With
`R g g' := ∀ d outer args, evalGraph sem d outer g' args = evalGraph sem d outer g args`,
`hstep` is what `applyAt_equiv` is meant to provide for one application — it is an ASSUMPTION here: it is
nowhere discharged for `tryRules`, and no instance with a non-empty rule list is exhibited.  This theorem (and
`applyRules_wf`, `applyRules_equiv`, which instantiate it) is an induction scheme over the pass. -/
theorem applyRules_preserves (rules : List Rule) (kind : Kind)
    (recurse : PassSt → Graph → Except Err (PassSt × Graph))
    (R : Graph → Graph → Prop) (hrefl : ∀ g, R g g) (htrans : ∀ a b c, R a b → R b c → R a c)
    (hstep : ∀ st lo g node st' lo' g' first,
      tryRules kind rules st lo g node = .ok (.applied st' lo' g' first) → R g g')
    (hbody : ∀ st (node : Node) st' subs' g1, recurseBodies recurse st node.subs = .ok (st', subs') →
      R g1 (g1.setNodes (g1.nodes.map fun n => if n.id == node.id then n.setBodies (capsOf BIG subs') subs' else n))) :
    ∀ (fuel : Nat) (st : PassSt) (lo : List (String × Nat)) (g : Graph) (cur : Option Nat) st' lo' g',
      passLoop rules kind recurse fuel st lo g cur = .ok (st', lo', g') → R g g' := by
  intro fuel
  induction fuel with
  | zero => intro st lo g cur st' lo' g' h; simp [passLoop] at h
  | succ f ih =>
    intro st lo g cur st' lo' g' h
    cases cur with
    | none => simp [passLoop] at h; rw [← h.2.2]; exact hrefl g
    | some c =>
      simp only [passLoop] at h
      split at h
      · exact absurd h (by simp)
      · rename_i node hnode
        have hid : node.id = c := by
          unfold nodeById at hnode
          have := List.find?_some hnode
          simpa using this
        split at h
        · exact absurd h (by simp)
        · rename_i step hstepEq
          cases step with
          | applied st1 lo1 g1 first =>
            simp only at h
            split at h
            · exact absurd h (by simp)
            · rename_i st2 subs' hrec
              have h1 : R g g1 := hstep _ _ _ _ _ _ _ _ hstepEq
              have h2 := hbody _ node _ _ g1 hrec
              rw [hid] at h2
              exact htrans _ _ _ h1 (htrans _ _ _ h2 (ih _ _ _ _ _ _ _ h))
          | noMatch st1 lo1 =>
            simp only at h
            split at h
            · exact absurd h (by simp)
            · rename_i st2 subs' hrec
              have h2 := hbody _ node _ _ g hrec
              rw [hid] at h2
              exact htrans _ _ _ h2 (ih _ _ _ _ _ _ _ h)
          | skipped st1 lo1 =>
            simp only at h
            split at h
            · exact absurd h (by simp)
            · rename_i st2 subs' hrec
              have h2 := hbody _ node _ _ g hrec
              rw [hid] at h2
              exact htrans _ _ _ h2 (ih _ _ _ _ _ _ _ h)

/-! ## Validity: the spliced graph is well-formed -/

/-- What a (given) match and its replacement must satisfy for validity.  `H` = hidden names (interior
values of the match, interior values of the replacement).
* `interior` (**OutputsAtRoot**), `clean` (**Removable** ∧ fresh replacement names: unmatched nodes
  neither read — directly or from a body — nor write a hidden name), `rootOuts`/`outsVisible`
  (pattern outputs and graph outputs are not hidden);
* `replWf`: at the insertion point the replacement reads only values that are available once the
  matched nodes are gone (so: no interior matched value — the condition C07-D6 violates), writes
  names not yet available, each node's outputs distinct;
* `replOuts₁/₂`: the replacement defines exactly the root's outputs (name transfer) plus hidden names. -/
structure SpliceWF (outer : List Name) (g : Graph) (P : Node → Bool) (pre0 : List Node) (root : Node)
    (post repl : List Node) (H : List Name) : Prop where
  rootMatched : P root = true
  postUnmatched : ∀ b ∈ post, P b = false
  interior : ∀ a ∈ pre0, P a = true → ∀ o ∈ a.outputs, o ∈ H
  clean : ∀ b ∈ pre0 ++ post, P b = false → (∀ x ∈ b.reads, x ∉ H) ∧ (∀ o ∈ b.outputs, o ∉ H)
  rootOuts : ∀ o ∈ root.outputs, o ∉ H
  outsVisible : ∀ o ∈ g.outputs, o ∉ H
  replWf : wfNodes (outer ++ g.inputs ++ g.initNames ++ (pre0.filter fun n => !P n).flatMap (·.outputs)) repl = true
  replOuts₁ : ∀ x ∈ repl.flatMap (·.outputs), x ∈ root.outputs ∨ x ∈ H
  replOuts₂ : ∀ x ∈ root.outputs, x ∈ repl.flatMap (·.outputs)

/-- **Validity of the splice** (about `g.setNodes (spliceNodes …)`, `remove_nodes=True`, under `SpliceWF`; not
about the whole `applyAt`; one scope level: single assignment, no redefinition of a visible
name, definition before use including the reads of bodies, graph outputs defined): if the host
graph is well-formed in a scope where `outer` is visible, so is the graph with `spliceNodes … true`
as its node list. -/
theorem applyAt_wf (outer : List Name) (g : Graph) (pre0 post repl : List Node) (root : Node)
    (matched : List Nat) (H : List Name) (hg : g.nodes = pre0 ++ root :: post)
    (hpre : ∀ n ∈ pre0, n.id ≠ root.id) (hpost : ∀ n ∈ post, n.id ≠ root.id)
    (hnew : ∀ n ∈ repl, matched.contains n.id = false)
    (ok : SpliceWF outer g (fun n => matched.contains n.id) pre0 root post repl H)
    (hwf : wfGraph outer g = true) :
    wfGraph outer (g.setNodes (spliceNodes g.nodes root.id matched repl true)) = true := by
  rw [hg, spliceNodes_eq pre0 post repl root matched ok.rootMatched hpre hpost ok.postUnmatched hnew]
  have hin : (g.setNodes (pre0.filter (fun n => !(matched.contains n.id)) ++ (repl ++ post))).inputs = g.inputs := by cases g; rfl
  have hini : (g.setNodes (pre0.filter (fun n => !(matched.contains n.id)) ++ (repl ++ post))).initNames = g.initNames := by cases g; rfl
  have hout : (g.setNodes (pre0.filter (fun n => !(matched.contains n.id)) ++ (repl ++ post))).outputs = g.outputs := by cases g; rfl
  have hnodes : (g.setNodes (pre0.filter (fun n => !(matched.contains n.id)) ++ (repl ++ post))).nodes =
      pre0.filter (fun n => !(matched.contains n.id)) ++ (repl ++ post) := by cases g; rfl
  unfold wfGraph at hwf ⊢
  simp only [hin, hini, hout, hnodes]
  rw [hg] at hwf
  obtain ⟨hw, ho⟩ := Bool.and_eq_true_iff.mp hwf
  rw [wfNodes_append] at hw
  obtain ⟨hw1, hw2⟩ := Bool.and_eq_true_iff.mp hw
  obtain ⟨_, _, _, hw3⟩ := (wfNodes_cons _ root post).mp hw2
  -- the unmatched prefix
  obtain ⟨w1, i1⟩ := wfNodes_filter H (fun n => matched.contains n.id) pre0
    (fun n hn hp => ok.clean n (by simp [hn]) hp) (fun n hn hp => ok.interior n hn hp)
    _ _ ⟨fun x hx => Or.inl hx, fun x hx _ => hx⟩ hw1
  -- the replacement takes the root's place
  have i2 := i1.ext root.outputs (repl.flatMap (·.outputs)) ok.replOuts₁ (fun x hx _ => ok.replOuts₂ x hx)
  -- the tail
  obtain ⟨w3, i3⟩ := wfNodes_filter H (fun _ => false) post
    (fun n hn _ => ok.clean n (by simp [hn]) (ok.postUnmatched n hn)) (fun _ _ hp => by simp at hp)
    _ _ i2 hw3
  have hfp : (post.filter fun n => !(fun _ => false) n) = post := by simp
  rw [hfp] at w3 i3
  apply Bool.and_eq_true_iff.mpr
  constructor
  · rw [wfNodes_append, wfNodes_append]
    simp only [Bool.and_eq_true]
    exact ⟨w1, ok.replWf, w3⟩
  · apply List.all_eq_true.mpr
    intro o hoo
    have hmem : o ∈ outer ++ g.inputs ++ g.initNames ++ (pre0 ++ root :: post).flatMap (·.outputs) := by
      simpa using List.all_eq_true.mp ho o hoo
    have hA : o ∈ outer ++ g.inputs ++ g.initNames ++ pre0.flatMap (·.outputs) ++ root.outputs ++ post.flatMap (·.outputs) := by
      simpa [List.flatMap_append, List.flatMap_cons, List.append_assoc] using hmem
    have hB := i3.2 o hA (ok.outsVisible o hoo)
    simpa [List.flatMap_append, List.append_assoc] using hB

/-- non-vacuity of `SpliceWF`: the host of the equivalence example, `outer = []` -/
example : SpliceWF [] exHost (fun n => [2, 1].contains n.id) [exNeg, exOther] exRelu [exAbs]
    [.mk 5 "Neg" "" "" [some "x"] ["%5_0"] [] [] [] [], .mk 6 "Relu" "" "" [some "%5_0"] ["r"] [] [] [] []]
    ["n", "%5_0"] := by
  constructor <;> decide

/-- Writing rewritten bodies back into the visited node keeps the enclosing graph well-formed when
the bodies capture no more outer names than before (a rewrite inside a body only reads values the
matched nodes already read). -/
theorem writeBack_wf (outer : List Name) (g : Graph) (cur : Nat) (subs' : List (String × Graph))
    (hcaps : ∀ n ∈ g.nodes, n.id = cur → ∀ x ∈ capsOf BIG subs', x ∈ n.caps)
    (hwf : wfGraph outer g = true) :
    wfGraph outer (g.setNodes (g.nodes.map fun n =>
      if n.id == cur then n.setBodies (capsOf BIG subs') subs' else n)) = true := by
  -- make the update total in the node (identity where the captures would not shrink)
  let f : Node → Node := fun n =>
    if n.id == cur ∧ (∀ x ∈ capsOf BIG subs', x ∈ n.caps) then n.setBodies (capsOf BIG subs') subs' else n
  have hf : g.nodes.map (fun n => if n.id == cur then n.setBodies (capsOf BIG subs') subs' else n) = g.nodes.map f := by
    apply List.map_congr_left
    intro n hn
    by_cases hid : n.id = cur
    · have hc := hcaps n hn hid
      have hb : (n.id == cur) = true := by simpa using hid
      simp only [f, hb, true_and]
      rw [if_pos hc]; rfl
    · have hb : (n.id == cur) = false := by simpa using hid
      simp only [f, hb]
      rw [if_neg (by simp)]
      simp
  rw [hf]
  have hout : ∀ n, (f n).outputs = n.outputs := by
    intro n; simp only [f]; split <;> simp [setBodies_outputs]
  have hreads : ∀ n, ∀ x ∈ (f n).reads, x ∈ n.reads := by
    intro n x hx
    simp only [f] at hx
    split at hx
    · rename_i hc
      rw [setBodies_reads] at hx
      unfold Node.reads
      rcases List.mem_append.mp hx with h | h
      · exact List.mem_append.mpr (Or.inl h)
      · exact List.mem_append.mpr (Or.inr (hc.2 x h))
    · exact hx
  unfold wfGraph at hwf ⊢
  obtain ⟨hw, ho⟩ := Bool.and_eq_true_iff.mp hwf
  have e1 : (g.setNodes (g.nodes.map f)).inputs = g.inputs := by cases g; rfl
  have e2 : (g.setNodes (g.nodes.map f)).initNames = g.initNames := by cases g; rfl
  have e3 : (g.setNodes (g.nodes.map f)).outputs = g.outputs := by cases g; rfl
  have e4 : (g.setNodes (g.nodes.map f)).nodes = g.nodes.map f := by cases g; rfl
  have e5 : (g.nodes.map f).flatMap (·.outputs) = g.nodes.flatMap (·.outputs) := by
    rw [List.flatMap_map]; congr 1; funext n; exact hout n
  simp only [e1, e2, e3, e4, e5]
  exact Bool.and_eq_true_iff.mpr ⟨wfNodes_map_shrink f hout hreads _ _ hw, ho⟩

/-- **Validity through a whole pass** (induction scheme: `hstep` is assumed, not discharged for `tryRules`): if every single application keeps the graph well-formed
(`applyAt_wf` for the given matches) and rewritten bodies capture no more than before, the output
of `passLoop` — any number of repeated/overlapping applications — is well-formed. -/
theorem applyRules_wf (outer : List Name) (rules : List Rule) (kind : Kind)
    (recurse : PassSt → Graph → Except Err (PassSt × Graph))
    (hstep : ∀ st lo g node st' lo' g' first,
      tryRules kind rules st lo g node = .ok (.applied st' lo' g' first) →
      wfGraph outer g = true → wfGraph outer g' = true)
    (hcaps : ∀ st (node : Node) st' subs' (g1 : Graph), recurseBodies recurse st node.subs = .ok (st', subs') →
      ∀ n ∈ g1.nodes, n.id = node.id → ∀ x ∈ capsOf BIG subs', x ∈ n.caps)
    (fuel : Nat) (st : PassSt) (lo : List (String × Nat)) (g : Graph) (cur : Option Nat) st' lo' g'
    (h : passLoop rules kind recurse fuel st lo g cur = .ok (st', lo', g')) :
    wfGraph outer g = true → wfGraph outer g' = true :=
  applyRules_preserves rules kind recurse (fun a b => wfGraph outer a = true → wfGraph outer b = true)
    (fun _ h => h) (fun _ _ _ h1 h2 h => h2 (h1 h)) hstep
    (fun st node st' subs' g1 hrec hw => writeBack_wf outer g1 node.id subs' (hcaps st node st' subs' g1 hrec) hw)
    fuel st lo g cur st' lo' g' h

/-! ## Equivalence through a whole pass -/

/-- same meaning at nesting depth `d + 1`, in every enclosing environment, for all arguments -/
def GraphEquiv {V} (sem : Sem V) (d : Nat) (g g' : Graph) : Prop :=
  ∀ outer args, evalGraph sem (d + 1) outer g' args = evalGraph sem (d + 1) outer g args

/-- **A graph's meaning depends on the enclosing scopes only through the names it mentions**
(`mentions g` = what its nodes read, captures of their bodies included, and its outputs): two
enclosing environments that agree on these names give the same result, at every depth. -/
theorem evalGraph_depends_on_mentions {V} (sem : Sem V) (d : Nat) (g : Graph) (outer outer' : Env V)
    (args : List (Option V)) (h : ∀ x ∈ mentions g, outer x = outer' x) :
    evalGraph sem d outer g args = evalGraph sem d outer' g args :=
  evalGraph_congr_outer sem d g outer outer' args h

/-- **Write-back of rewritten bodies (`hbody` of `applyRules_preserves`, for If/Loop bodies alike),
captures may shrink.**  If the bodies handed back by the recursion are pairwise equivalent to the
node's bodies (as functions of enclosing environment and arguments, at depth `d`), the new
captures are among the old ones, and every formerly captured name a new body still mentions is
still captured (`BodiesShrink`), the enclosing graph keeps its meaning.  A replacement that drops
a bound input (so the body captures *fewer* outer names) is covered. -/
theorem writeBack_equiv {V} (sem : Sem V) (d : Nat) (g : Graph) (cur : Nat) (subs' : List (String × Graph))
    (h : ∀ n ∈ g.nodes, n.id = cur → (∀ x ∈ capsOf BIG subs', x ∈ n.caps) ∧
      BodiesShrink sem d n.caps (capsOf BIG subs') subs' n.subs) :
    GraphEquiv sem d g (g.setNodes (g.nodes.map fun n =>
      if n.id == cur then n.setBodies (capsOf BIG subs') subs' else n)) := by
  intro outer args
  have e1 : ∀ ns, startEnv sem outer (g.setNodes ns) args = startEnv sem outer g args := by intro ns; cases g; rfl
  have e2 : ∀ ns, (g.setNodes ns).outputs = g.outputs := by intro ns; cases g; rfl
  have e3 : ∀ ns, (g.setNodes ns).nodes = ns := by intro ns; cases g; rfl
  simp only [evalGraph, e1, e2, e3]
  cases startEnv sem outer g args with
  | none => rfl
  | some ρ0 =>
    simp only [Option.bind_some]
    rw [evalNodes_map_congr]
    intro n hn ρ
    by_cases hid : n.id = cur
    · obtain ⟨hc, hb⟩ := h n hn hid
      have hb' : (n.id == cur) = true := by simpa using hid
      simp only [hb', if_true]
      exact evalNode_setBodies_shrink sem d ρ n _ subs' hc hb
    · have hb' : (n.id == cur) = false := by simpa using hid
      simp [hb']

/-- the special case delivered earlier: same captures, bodies pairwise equivalent -/
theorem bodiesShrink_of_same_caps {V} (sem : Sem V) (d : Nat) (C : List Name) (a : List (String × Graph)) :
    ∀ b, BodiesEquiv (evalGraph sem d) a b → BodiesShrink sem d C C a b := by
  induction a with
  | nil => intro b h; cases b with
    | nil => trivial
    | cons _ _ => exact absurd h (by simp [BodiesEquiv])
  | cons x a ih => intro b h; cases b with
    | nil => exact absurd h (by simp [BodiesEquiv])
    | cons y b => exact ⟨⟨h.1, fun _ _ hc => hc⟩, ih b h.2⟩

/-- non-vacuity of `BodiesShrink` with captures that really shrink: a body mentioning only `a`, in a
node that used to capture `a` and `b` -/
example {V} (sem : Sem V) (d : Nat) :
    BodiesShrink sem d ["a", "b"] ["a"]
      [("then_branch", Graph.mk [] [] [.mk 7 "Relu" "" "" [some "a"] ["t"] [] [] [] []] ["t"])]
      [("then_branch", Graph.mk [] [] [.mk 7 "Relu" "" "" [some "a"] ["t"] [] [] [] []] ["t"])] :=
  ⟨⟨fun _ _ => rfl, by decide⟩, trivial⟩

/-- **Equivalence through a whole pass**: if every single application keeps the meaning
(`applyAt_equiv` for the given matches — the assumption `hstep`, not discharged for `tryRules`) and the recursion into bodies hands back equivalent bodies
whose captures are the old ones or fewer (`BodiesShrink`), the output of `passLoop` — any number of repeated/overlapping applications
— has the meaning of its input. -/
theorem applyRules_equiv {V} (sem : Sem V) (d : Nat) (rules : List Rule) (kind : Kind)
    (recurse : PassSt → Graph → Except Err (PassSt × Graph))
    (hstep : ∀ st lo g node st' lo' g' first,
      tryRules kind rules st lo g node = .ok (.applied st' lo' g' first) → GraphEquiv sem d g g')
    (hrec : ∀ st (node : Node) st' subs' (g1 : Graph), recurseBodies recurse st node.subs = .ok (st', subs') →
      ∀ n ∈ g1.nodes, n.id = node.id → (∀ x ∈ capsOf BIG subs', x ∈ n.caps) ∧
        BodiesShrink sem d n.caps (capsOf BIG subs') subs' n.subs)
    (fuel : Nat) (st : PassSt) (lo : List (String × Nat)) (g : Graph) (cur : Option Nat) st' lo' g'
    (h : passLoop rules kind recurse fuel st lo g cur = .ok (st', lo', g')) : GraphEquiv sem d g g' :=
  applyRules_preserves rules kind recurse (GraphEquiv sem d)
    (fun _ _ _ => rfl) (fun _ _ _ h1 h2 outer args => (h2 outer args).trans (h1 outer args)) hstep
    (fun st node st' subs' g1 hr => writeBack_equiv sem d g1 node.id subs' (hrec st node st' subs' g1 hr))
    fuel st lo g cur st' lo' g' h

/-! ## Termination of one pass under *no re-match* (C07-D2 is the refutation without it)

`base` separates the ids of the nodes the pass starts with (`< base`) from the ids of nodes created
by replacements (`≥ base`).  `StepShape` is what one application does to the list of node ids — the
shape `applyAt` gives it — together with **NoRematch**: a rule only ever applies at an original
node.  `K` bounds the number of nodes one application inserts. -/

structure StepShape (kind : Kind) (rules : List Rule) (base K : Nat) : Prop where
  applied : ∀ st lo (g : Graph) (node : Node) st' lo' (g' : Graph) first,
    node ∈ g.nodes → g.ids.Nodup →
    tryRules kind rules st lo g node = .ok (.applied st' lo' g' first) →
    node.id < base ∧ ∃ (new : List Nat) (keep : Nat → Bool), new.length ≤ K ∧ new.Nodup ∧
      (∀ i ∈ new, base ≤ i ∧ i ∉ g.ids ∧ keep i = true) ∧
      g'.ids = (insAfterIds g.ids node.id new).filter keep ∧ first = new.head?.getD 0
  noFuel : ∀ st lo g node, tryRules kind rules st lo g node ≠ .error .fuel

theorem recurseBodies_noFuel (recurse : PassSt → Graph → Except Err (PassSt × Graph))
    (h : ∀ st b, recurse st b ≠ .error .fuel) :
    ∀ (subs : List (String × Graph)) st, recurseBodies recurse st subs ≠ .error .fuel := by
  intro subs
  induction subs with
  | nil => intro st; simp [recurseBodies]
  | cons p rest ih =>
    intro st hh
    obtain ⟨k, b⟩ := p
    simp only [recurseBodies] at hh
    split at hh
    · rename_i e he
      cases hh
      exact h st b he
    · split at hh
      · rename_i e he
        cases hh
        exact ih _ he
      · cases hh

theorem ids_writeBack (g : Graph) (cur : Nat) (c : List Name) (subs' : List (String × Graph)) :
    (g.setNodes (g.nodes.map fun n => if n.id == cur then n.setBodies c subs' else n)).ids = g.ids := by
  cases g with
  | mk ins inits nodes outs =>
    simp only [Graph.ids, Graph.setNodes, Graph.nodes, List.map_map]
    apply List.map_congr_left
    intro n _
    simp only [Function.comp]
    split
    · cases n; rfl
    · rfl

theorem nodeById_spec (g : Graph) (cur : Nat) (node : Node) (h : nodeById g cur = some node) :
    node ∈ g.nodes ∧ node.id = cur := by
  unfold nodeById at h
  exact ⟨List.mem_of_find?_eq_some h, by simpa using List.find?_some h⟩

/-- **One pass terminates under NoRematch** (ASSUMES `StepShape` for `tryRules`, which is not derived; the
only witnesses in this file use the empty rule list): with fuel above the potential `mu` — the number of
nodes at or after the cursor, original ones counted `K + 1` times — `passLoop` never runs out of
fuel: every node the pass starts with is visited at most once, every replacement node once.
(Errors of the rules themselves — opset clash, as_function — are other outcomes; the recursion
into bodies is assumed not to run out of fuel, which is this theorem one level down.) -/
theorem passLoop_terminates (rules : List Rule) (kind : Kind)
    (recurse : PassSt → Graph → Except Err (PassSt × Graph)) (base K : Nat) (hb : 0 < base)
    (shape : StepShape kind rules base K) (hrec : ∀ st b, recurse st b ≠ .error .fuel) :
    ∀ (fuel : Nat) (st : PassSt) (lo : List (String × Nat)) (g : Graph) (cur : Option Nat),
      g.ids.Nodup → (∀ i ∈ g.ids, 0 < i) → mu base K g.ids cur < fuel →
      passLoop rules kind recurse fuel st lo g cur ≠ .error .fuel := by
  intro fuel
  induction fuel with
  | zero => intro st lo g cur _ _ h; omega
  | succ f ih =>
    intro st lo g cur hnd hpos hmu hh
    cases cur with
    | none => simp [passLoop] at hh
    | some c =>
      simp only [passLoop] at hh
      split at hh
      · cases hh
      · rename_i node hnode
        obtain ⟨hmem, hid⟩ := nodeById_spec g c node hnode
        have hcids : c ∈ g.ids := by
          rw [← hid]; exact List.mem_map.mpr ⟨node, hmem, rfl⟩
        obtain ⟨pre, post, hsplit, hcpre⟩ := split_first c g.ids hcids
        have hnd' : (pre ++ c :: post).Nodup := hsplit ▸ hnd
        have htodo : todo g.ids (some c) = c :: post := by
          rw [hsplit]; exact dropWhile_split c pre post hcpre
        split at hh
        · rename_i e he
          cases hh
          exact shape.noFuel _ _ _ _ he
        · rename_i step hstep
          cases step with
          | applied st1 lo1 g1 first =>
            simp only at hh
            split at hh
            · rename_i e he
              cases hh
              exact recurseBodies_noFuel recurse hrec _ _ he
            · rename_i st2 subs' _
              obtain ⟨hlt, new, keep, hK, hnewnd, hnewp, hids', hfirst⟩ :=
                shape.applied _ _ _ _ _ _ _ _ hmem hnd hstep
              rw [hid] at hlt hids'
              have hfresh : ∀ i ∈ new, i ∉ pre ++ c :: post := fun i hi => hsplit ▸ (hnewp i hi).2.1
              have hkeep : ∀ i ∈ new, keep i = true := fun i hi => (hnewp i hi).2.2
              have hge : ∀ i ∈ new, base ≤ i := fun i hi => (hnewp i hi).1
              have hpos' : ∀ i ∈ pre ++ c :: post, 0 < i := hsplit ▸ hpos
              have ht := todo_applied pre post new c keep hnd' hpos' hfresh hkeep
              simp only at ht
              rw [← hsplit, ← hids', ← hfirst] at ht
              refine ih _ _ _ _ ?_ ?_ ?_ hh
              · rw [ids_writeBack, hids', hsplit]
                exact ids_applied_nodup pre post new c keep hnd' hnewnd hfresh
              · rw [ids_writeBack, hids', hsplit]
                exact ids_applied_pos pre post new c keep base hb hpos' hge
              · rw [ids_writeBack]
                have := mu_step_applied base K c post new keep g.ids g1.ids _ hlt hK hge htodo ht
                omega
          | noMatch st1 lo1 =>
            simp only at hh
            split at hh
            · rename_i e he
              cases hh
              exact recurseBodies_noFuel recurse hrec _ _ he
            · have ht := todo_successor_same pre post c hnd'
              rw [← hsplit] at ht
              refine ih _ _ _ _ ?_ ?_ ?_ hh
              · rw [ids_writeBack]; exact hnd
              · rw [ids_writeBack]; exact hpos
              · rw [ids_writeBack]
                have := mu_step_same base K c post g.ids _ htodo ht
                omega
          | skipped st1 lo1 =>
            simp only at hh
            split at hh
            · rename_i e he
              cases hh
              exact recurseBodies_noFuel recurse hrec _ _ he
            · have ht := todo_successor_same pre post c hnd'
              rw [← hsplit] at ht
              refine ih _ _ _ _ ?_ ?_ ?_ hh
              · rw [ids_writeBack]; exact hnd
              · rw [ids_writeBack]; exact hpos
              · rw [ids_writeBack]
                have := mu_step_same base K c post g.ids _ htodo ht
                omega

/-- non-vacuity: the hypotheses of `passLoop_terminates` are satisfiable (an empty rule set never
applies), and the theorem then bounds the pass over `exHost` (4 nodes: potential 4 + K·4) -/
example : StepShape .main [] 100 3 :=
  ⟨fun _ _ _ _ _ _ _ _ _ _ h => by simp [tryRules] at h, fun _ _ _ _ h => by simp [tryRules] at h⟩

example (recurse : PassSt → Graph → Except Err (PassSt × Graph)) (hrec : ∀ st b, recurse st b ≠ .error .fuel)
    (st : PassSt) (lo : List (String × Nat)) :
    passLoop [] .main recurse 17 st lo exHost (some 1) ≠ .error .fuel :=
  passLoop_terminates [] .main recurse 100 3 (by decide)
    ⟨fun _ _ _ _ _ _ _ _ _ _ h => by simp [tryRules] at h, fun _ _ _ _ h => by simp [tryRules] at h⟩
    hrec 17 st lo exHost (some 1) (by decide) (by decide) (by decide)

/-- The shape part of `StepShape` is what the model's splice does: the id list after `applyAt` is
the old one with the new nodes' ids inserted after the root, filtered by "not a matched node" when
the rule removes nodes (renaming, name transfer and the retiring of kept producers never touch
ids or order). -/
theorem applyAt_ids (d : Nat) (g : Graph) (m : Match) (new : List Node) (outs : List NewOut) (rm : Bool) :
    (applyAt d g m new outs rm).ids =
      (insAfterIds g.ids m.root (new.map (·.id))).filter (fun i => !(rm && m.nodes.contains i)) := by
  unfold applyAt
  rw [renamePassthru_ids]
  have e : ∀ ns, ((retireOld g m rm).setNodes ns).ids = ns.map (·.id) := by
    intro ns; cases rm <;> cases g <;> rfl
  rw [e, spliceNodes_ids, transferNames_ids]
  have := retireOld_ids g m rm
  unfold Graph.ids at this
  rw [this]
  rfl

/-! ## Every name is defined once over all scopes (the clause C07-D7 violated before c9666a4) -/

/-- (About `g.setNodes (spliceNodes …)`, `remove_nodes=True`; hypotheses `hroot`, `hpostU`, `hnew`, `hflat`
— replacement nodes without bodies —, `hnd`, `houts`.)
`collectNames` lists the inputs, initializers and node outputs of a graph *and of all its bodies*.
If it has no duplicates in the host, it has none after the splice, provided the replacement nodes
carry no bodies and each of their outputs is either a name the root defined (name transfer) or a
name outside `collectNames` of the host — which is what `_fresh_value_name` gives (`freshIn_spec`:
a name not in the model-wide set, which contains `collectNames` of every graph). -/
theorem applyAt_defs_once (d : Nat) (g : Graph) (pre0 post repl : List Node) (root : Node) (matched : List Nat)
    (hg : g.nodes = pre0 ++ root :: post)
    (hpre : ∀ n ∈ pre0, n.id ≠ root.id) (hpost : ∀ n ∈ post, n.id ≠ root.id)
    (hroot : matched.contains root.id = true) (hpostU : ∀ n ∈ post, matched.contains n.id = false)
    (hnew : ∀ n ∈ repl, matched.contains n.id = false)
    (hflat : ∀ n ∈ repl, n.subs = [])
    (hnd : (repl.flatMap (·.outputs)).Nodup)
    (houts : ∀ x ∈ repl.flatMap (·.outputs), x ∈ root.outputs ∨ x ∉ collectNames (d + 1) g)
    (h : (collectNames (d + 1) g).Nodup) :
    (collectNames (d + 1) (g.setNodes (spliceNodes g.nodes root.id matched repl true))).Nodup := by
  rw [hg, spliceNodes_eq pre0 post repl root matched hroot hpre hpost hpostU hnew]
  have e : ∀ ns, collectNames (d + 1) (g.setNodes ns) = g.inputs ++ g.initNames ++ collectNamesNodes d ns := by
    intro ns; cases g; rfl
  have e0 : collectNames (d + 1) g = g.inputs ++ g.initNames ++ collectNamesNodes d g.nodes := by cases g; rfl
  rw [e]
  rw [e0, hg] at h houts
  cases d with
  | zero =>
    simp only [collectNamesNodes, List.append_nil] at h ⊢
    exact h
  | succ d =>
    rw [collectNamesNodes_append, collectNamesNodes_cons] at h houts
    rw [collectNamesNodes_append, collectNamesNodes_append, collectNamesNodes_flat d repl hflat]
    -- the four parts of the host, pairwise disjoint
    obtain ⟨hA, hrest, hAd⟩ := List.nodup_append.mp h
    obtain ⟨hP, hRP, hPd⟩ := List.nodup_append.mp hrest
    obtain ⟨hR, hQ, hRd⟩ := List.nodup_append.mp hRP
    have hU := collectNamesNodes_filter_nodup d (fun n => !(matched.contains n.id)) pre0 hP
    have hUsub := collectNamesNodes_filter_sub d (fun n => !(matched.contains n.id)) pre0
    -- where a new output can be
    have hN : ∀ x ∈ repl.flatMap (·.outputs),
        x ∉ g.inputs ++ g.initNames ∧ x ∉ collectNamesNodes (d + 1) pre0 ∧ x ∉ collectNamesNodes (d + 1) post := by
      intro x hx
      rcases houts x hx with hr | hf
      · have hxR : x ∈ root.outputs ++ root.subs.flatMap (fun s => collectNames d s.2) :=
          List.mem_append.mpr (Or.inl hr)
        refine ⟨fun hm => hAd x hm x ?_ rfl, fun hm => hPd x hm x ?_ rfl, fun hm => hRd x hxR x hm rfl⟩
        · exact List.mem_append.mpr (Or.inr (List.mem_append.mpr (Or.inl hxR)))
        · exact List.mem_append.mpr (Or.inl hxR)
      · refine ⟨fun hm => hf (List.mem_append.mpr (Or.inl hm)), fun hm => hf ?_, fun hm => hf ?_⟩
        · exact List.mem_append.mpr (Or.inr (List.mem_append.mpr (Or.inl hm)))
        · exact List.mem_append.mpr (Or.inr (List.mem_append.mpr (Or.inr (List.mem_append.mpr (Or.inr hm)))))
    apply List.nodup_append.mpr
    refine ⟨hA, ?_, ?_⟩
    · apply List.nodup_append.mpr
      refine ⟨hU, ?_, ?_⟩
      · apply List.nodup_append.mpr
        exact ⟨hnd, hQ, fun x hx y hy hxy => (hN x hx).2.2 (hxy ▸ hy)⟩
      · intro x hx y hy hxy
        subst hxy
        rcases List.mem_append.mp hy with hy | hy
        · exact (hN x hy).2.1 (hUsub x hx)
        · exact hPd x (hUsub x hx) x (List.mem_append.mpr (Or.inr hy)) rfl
    · intro x hx y hy hxy
      subst hxy
      rcases List.mem_append.mp hy with hy | hy
      · exact hAd x hx x (List.mem_append.mpr (Or.inl (hUsub x hy))) rfl
      · rcases List.mem_append.mp hy with hy | hy
        · exact (hN x hy).1 hx
        · exact hAd x hx x (List.mem_append.mpr (Or.inr (List.mem_append.mpr (Or.inr hy)))) rfl

/-- non-vacuity: `exHost` (every name once), re-emission with a `val_k` interior name -/
example : (collectNames 3 (exHost.setNodes (spliceNodes exHost.nodes 2 [2, 1]
    [.mk 5 "Neg" "" "" [some "x"] ["val_1"] [] [] [] [], .mk 6 "Relu" "" "" [some "val_1"] ["r"] [] [] [] []] true))).Nodup :=
  applyAt_defs_once 2 exHost [exNeg, exOther] [exAbs] _ exRelu [2, 1] rfl (by decide) (by decide) (by decide)
    (by decide) (by decide) (by decide) (by decide) (by decide) (by decide)

/-! ## `commute=True` -/

/-- (Definitional: seven `rfl`s after unfolding `commuteRule` — it pins the model's definition; the content
is the `commute=True` tie.)  Every variant `RewriteRule.commute` produces differs from the rule in the pattern's operand
order only: name, `remove_nodes`, `as_function`, the condition and the replacement are the rule's
(a variant that lost `as_function` would splice a call to a function nobody creates), and the
pattern has the same outputs, root and number of nodes. -/
theorem commuteRule_keeps_options (r r' : Rule) (h : r' ∈ commuteRule r) :
    r'.name = r.name ∧ r'.removeNodes = r.removeNodes ∧ r'.asFunction = r.asFunction ∧
    r'.guardTag = r.guardTag ∧ r'.repl = r.repl ∧ r'.pat.outputs = r.pat.outputs ∧ r'.pat.root = r.pat.root := by
  unfold commuteRule at h
  obtain ⟨sw, _, rfl⟩ := List.mem_map.mp h
  exact ⟨rfl, rfl, rfl, rfl, rfl, rfl, rfl⟩

/-! ## Metadata -/

/-- Tagging with the rule name and merging the matched nodes' metadata touches nothing but
`metadata_props`: same number of replacement nodes, each with its id, operator, inputs, outputs,
attributes and bodies as the replacement function built them. -/
theorem tagAndMerge_structure (name : String) (from_ to : List Node) :
    (tagAndMerge name from_ to).map (fun n => (n.id, n.op, n.domain, n.overload, n.inputs, n.outputs, n.attrs, n.caps)) =
      to.map (fun n => (n.id, n.op, n.domain, n.overload, n.inputs, n.outputs, n.attrs, n.caps)) := by
  have hset : ∀ (n : Node) m, (fun n : Node => (n.id, n.op, n.domain, n.overload, n.inputs, n.outputs, n.attrs, n.caps))
      (n.setMeta m) = (n.id, n.op, n.domain, n.overload, n.inputs, n.outputs, n.attrs, n.caps) := by
    intro n m; cases n; rfl
  unfold tagAndMerge
  by_cases hn : (name != "") = true
  · simp only [hn, if_true]
    cases to with
    | nil => simp
    | cons t rest =>
      cases rest with
      | nil => simp [hset]
      | cons t2 r2 => simp [List.map_map, Function.comp_def, hset]
  · simp only [hn, Bool.false_eq_true, if_false]
    cases to with
    | nil => simp
    | cons t rest =>
      cases rest with
      | nil => simp [hset]
      | cons t2 r2 => simp [List.map_map, Function.comp_def, hset]

/-! ## Signature -/

/-- All values the replacement returns are new values (fresh `%…` names). -/
def NoPassthru (newOutputs : List NewOut) : Prop :=
  ∀ o ∈ newOutputs, ∃ t, o = .fresh t

theorem renamePassthru_id (d : Nat) (pairs : List (Name × NewOut))
    (h : ∀ p ∈ pairs, ∃ t, p.2 = .fresh t) (g : Graph) :
    renamePassthru d pairs g = g := by
  unfold renamePassthru
  induction pairs generalizing g with
  | nil => rfl
  | cons p rest ih =>
    obtain ⟨o, nv⟩ := p
    obtain ⟨t, ht⟩ := h (o, nv) (by simp)
    simp only at ht
    subst ht
    simp only [List.foldl_cons]
    exact ih (fun q hq => h q (by simp [hq])) g

/-- **Bridge: the model's own rewrite step is the splice on node lists** — for `remove_nodes=True`
and a replacement that returns only new values (`NoPassthru`): `retireOld` and `renamePassthru` are the
identity, so `applyAt` is the host with `spliceNodes` of the name-transferred replacement.  (Not covered:
`remove_nodes=False`, returned existing values.) -/
theorem applyAt_eq_splice (d : Nat) (g : Graph) (m : Match) (new : List Node) (outs : List NewOut)
    (h : NoPassthru outs) :
    applyAt d g m new outs true =
      g.setNodes (spliceNodes g.nodes m.root m.nodes
        (transferNames ((dedupOuts [] m.outputs).zip outs) new) true) := by
  unfold applyAt
  rw [renamePassthru_id d _ (fun p hp => h p.2 (List.of_mem_zip hp).2)]
  simp [retireOld]

/-- **Equivalence for the model's own `applyAt`** (`remove_nodes=True`, `NoPassthru`): `applyAt_equiv`
transported along `applyAt_eq_splice`.  The hypotheses are those of `applyAt_equiv` stated for the
name-transferred replacement `transferNames pairs new` (`SpliceOK` for the given match, `hnew`,
`ReplEquiv`); that `transferNames` produces such a list is assumed, not proved. -/
theorem applyAt_equiv_applyAt {V} (sem : Sem V) (d d' : Nat) (outer : Env V) (args : List (Option V))
    (g : Graph) (m : Match) (pre0 post new : List Node) (root : Node) (outs : List NewOut) (H : List Name)
    (hno : NoPassthru outs) (hroot : m.root = root.id)
    (hg : g.nodes = pre0 ++ root :: post)
    (hpre : ∀ n ∈ pre0, n.id ≠ root.id) (hpost : ∀ n ∈ post, n.id ≠ root.id)
    (hnew : ∀ n ∈ transferNames ((dedupOuts [] m.outputs).zip outs) new, m.nodes.contains n.id = false)
    (ok : SpliceOK (fun n => m.nodes.contains n.id) pre0 root post H g.outputs)
    (hrepl : ReplEquiv sem (evalGraph sem d) H (pre0.filter (fun n => m.nodes.contains n.id) ++ [root])
      (transferNames ((dedupOuts [] m.outputs).zip outs) new)) :
    evalGraph sem (d + 1) outer (applyAt d' g m new outs true) args = evalGraph sem (d + 1) outer g args := by
  rw [applyAt_eq_splice d' g m new outs hno, hroot]
  exact applyAt_equiv sem d outer args g pre0 post _ root m.nodes H hg hpre hpost hnew ok hrepl

/-- non-vacuity of the bridge: on `exHost` the model's `applyAt` replaces `z = Abs(r)` (match `[3]`) by a
new node object with a fresh output name, which takes over the name `z` -/
example {V} (sem : Sem V) (d : Nat) (outer : Env V) (args : List (Option V)) :
    evalGraph sem (d + 1) outer
      (applyAt 10 exHost { root := 3, nodes := [3], bindings := [(0, some "r")], outputs := ["z"] }
        [.mk 7 "Abs" "" "" [some "r"] ["%7_0"] [] [] [] []] [.fresh "%7_0"] true) args =
      evalGraph sem (d + 1) outer exHost args :=
  applyAt_equiv_applyAt sem d 10 outer args exHost _ [exNeg, exOther, exRelu] [] _ exAbs _ []
    (by intro o ho; exact ⟨"%7_0", by simpa using ho⟩) rfl rfl (by decide) (by decide) (by decide)
    (by constructor <;> decide)
    (fun ρ => by
      have e1 : List.filter (fun n : Node => ([3] : List Nat).contains n.id) [exNeg, exOther, exRelu] = [] := by decide
      have e2 : transferNames ((dedupOuts [] ["z"]).zip [NewOut.fresh "%7_0"])
          [Node.mk 7 "Abs" "" "" [some "r"] ["%7_0"] [] [] [] []] =
          [Node.mk 7 "Abs" "" "" [some "r"] ["z"] [] [] [] []] := by
        simp [transferNames, dedupOuts, renNode, renName, Node.id, Node.op, Node.domain, Node.overload, Node.inputs,
          Node.outputs, Node.attrs, Node.mprops, Node.caps, Node.subs]
      show ORel [] (evalNodes _ ρ (List.filter (fun n : Node => ([3] : List Nat).contains n.id) [exNeg, exOther, exRelu] ++ [exAbs]))
        (evalNodes _ ρ (transferNames ((dedupOuts [] ["z"]).zip [NewOut.fresh "%7_0"]) [Node.mk 7 "Abs" "" "" [some "r"] ["%7_0"] [] [] [] []]))
      rw [e1, e2, List.nil_append]
      have e3 : evalNodes (evalNode sem (evalGraph sem d)) ρ [Node.mk 7 "Abs" "" "" [some "r"] ["z"] [] [] [] []] =
          evalNodes (evalNode sem (evalGraph sem d)) ρ [exAbs] := rfl
      rw [e3]
      exact ORel.refl _ _)

/-- Graph input names, output names and initializers are untouched by the splice when the
replacement returns new values. -/
theorem applyAt_signature_fresh (d : Nat) (g : Graph) (m : Match) (new : List Node)
    (newOutputs : List NewOut) (rm : Bool) (h : NoPassthru newOutputs) :
    (applyAt d g m new newOutputs rm).inputs = g.inputs ∧
    (applyAt d g m new newOutputs rm).outputs = g.outputs ∧
    (applyAt d g m new newOutputs rm).inits = g.inits := by
  unfold applyAt
  rw [renamePassthru_id]
  · cases rm <;> cases g <;> simp [retireOld, Graph.setNodes, Graph.inputs, Graph.outputs, Graph.inits, Graph.nodes]
  · intro p hp
    have := List.of_mem_zip hp
    exact h p.2 this.2

theorem renGraph_inputs (x o : Name) (d : Nat) (g : Graph) (h : x ∉ g.inputs) :
    (renGraph x o d g).inputs = g.inputs := by
  cases d with
  | zero => rfl
  | succ d =>
    cases g with
    | mk ins inits nodes outs =>
      simp only [renGraph, Graph.inputs] at h ⊢
      have : ∀ y ∈ ins, renName x o y = y := by
        intro y hy
        unfold renName
        have : (y == x) = false := by
          have : y ≠ x := fun e => h (e ▸ hy)
          simpa using this
        simp [this]
      rw [List.map_congr_left this, List.map_id']

theorem renamePassthru_inputs (d : Nat) (pairs : List (Name × NewOut)) :
    ∀ g : Graph, (∀ p ∈ pairs, ∀ x, p.2 = .existing x → x ∉ g.inputs) →
      (renamePassthru d pairs g).inputs = g.inputs := by
  unfold renamePassthru
  induction pairs with
  | nil => intro g _; rfl
  | cons p rest ih =>
    intro g h
    obtain ⟨o, nv⟩ := p
    simp only [List.foldl_cons]
    cases nv with
    | existing x =>
      have hx : x ∉ g.inputs := h (o, .existing x) (by simp) x rfl
      have e := renGraph_inputs x o d g hx
      simp only
      rw [ih (renGraph x o d g) (fun q hq y hy => by rw [e]; exact h q (by simp [hq]) y hy), e]
    | fresh t => exact ih g (fun q hq => h q (by simp [hq]))
    | none => exact ih g (fun q hq => h q (by simp [hq]))

theorem renGraph_outputs (x o : Name) (d : Nat) (g : Graph) (h : x ∉ g.outputs) :
    (renGraph x o d g).outputs = g.outputs := by
  cases d with
  | zero => rfl
  | succ d =>
    cases g with
    | mk ins inits nodes outs =>
      simp only [renGraph, Graph.outputs] at h ⊢
      have : ∀ y ∈ outs, renName x o y = y := by
        intro y hy
        unfold renName
        have : (y == x) = false := by
          have : y ≠ x := fun e => h (e ▸ hy)
          simpa using this
        simp [this]
      rw [List.map_congr_left this, List.map_id']

theorem renamePassthru_outputs (d : Nat) (pairs : List (Name × NewOut)) :
    ∀ g : Graph, (∀ p ∈ pairs, ∀ x, p.2 = .existing x → x ∉ g.outputs) →
      (renamePassthru d pairs g).outputs = g.outputs := by
  unfold renamePassthru
  induction pairs with
  | nil => intro g _; rfl
  | cons p rest ih =>
    intro g h
    obtain ⟨o, nv⟩ := p
    simp only [List.foldl_cons]
    cases nv with
    | existing x =>
      have hx : x ∉ g.outputs := h (o, .existing x) (by simp) x rfl
      have e := renGraph_outputs x o d g hx
      simp only
      rw [ih (renGraph x o d g) (fun q hq y hy => by rw [e]; exact h q (by simp [hq]) y hy), e]
    | fresh t => exact ih g (fun q hq => h q (by simp [hq]))
    | none => exact ih g (fun q hq => h q (by simp [hq]))

/-- what fixes e8a0767 and 1dc987d guarantee: after `addIdentities` no returned value is one of the
listed interface names -/
theorem addIdentities_no_input (inputs : List Name) (outs : List NewOut) :
    ∀ base, ∀ o ∈ (addIdentities inputs base outs).2, ∀ x, o = .existing x → x ∉ inputs := by
  induction outs with
  | nil => intro base o ho; simp [addIdentities] at ho
  | cons a rest ih =>
    intro base o ho x hx
    cases a with
    | existing y =>
      by_cases hy : inputs.contains y = true
      · simp only [addIdentities, hy, if_true, List.mem_cons] at ho
        rcases ho with rfl | ho
        · cases hx
        · exact ih _ o ho x hx
      · have hy' : inputs.contains y = false := by simpa using hy
        simp only [addIdentities, hy', Bool.false_eq_true, if_false, List.mem_cons] at ho
        rcases ho with rfl | ho
        · cases hx; simpa using hy'
        · exact ih _ o ho x hx
    | fresh t =>
      simp only [addIdentities, List.mem_cons] at ho
      rcases ho with rfl | ho
      · cases hx
      · exact ih _ o ho x hx
    | none =>
      simp only [addIdentities, List.mem_cons] at ho
      rcases ho with rfl | ho
      · cases hx
      · exact ih _ o ho x hx

/-- **The graph signature is untouched — full statement (no `NoPassthru`), after fixes e8a0767,
1dc987d and aef7e04**: whatever the replacement returns — new values, bound inputs, initializers,
values that are graph inputs or graph outputs, values of an enclosing graph — the splice applied to
what `tryRule` hands it (`addIdentities (routeNames isFunc g outs)`: returned graph inputs, graph
outputs and, in graphs, foreign values routed through `Identity`) leaves the graph's input names and
output names as they were. -/
theorem applyAt_signature (d : Nat) (g : Graph) (m : Match) (new : List Node) (outs : List NewOut)
    (base : Nat) (rm : Bool) (isFunc : Bool) :
    (applyAt d g m (new ++ (addIdentities (routeNames isFunc g outs) base outs).1)
        (addIdentities (routeNames isFunc g outs) base outs).2 rm).inputs = g.inputs ∧
    (applyAt d g m (new ++ (addIdentities (routeNames isFunc g outs) base outs).1)
        (addIdentities (routeNames isFunc g outs) base outs).2 rm).outputs = g.outputs := by
  unfold applyAt
  have hpre : ∀ ns, ((retireOld g m rm).setNodes ns).inputs = g.inputs := by
    intro ns; cases rm <;> cases g <;> rfl
  have hpre' : ∀ ns, ((retireOld g m rm).setNodes ns).outputs = g.outputs := by
    intro ns; cases rm <;> cases g <;> rfl
  have hno := fun p (hp : p ∈ (dedupOuts [] m.outputs).zip (addIdentities (routeNames isFunc g outs) base outs).2) x
      (hx : p.2 = NewOut.existing x) =>
    addIdentities_no_input (routeNames isFunc g outs) outs base p.2 (List.of_mem_zip hp).2 x hx
  constructor
  · rw [renamePassthru_inputs]
    · exact hpre _
    · intro p hp x hx
      rw [hpre]
      exact fun hm => hno p hp x hx
        (List.mem_append.mpr (Or.inl (List.mem_append.mpr (Or.inl hm))))
  · rw [renamePassthru_outputs]
    · exact hpre' _
    · intro p hp x hx
      rw [hpre']
      exact fun hm => hno p hp x hx
        (List.mem_append.mpr (Or.inl (List.mem_append.mpr (Or.inr hm))))

/-- `addIdentities` only keeps or replaces: an existing value it returns was returned before -/
theorem addIdentities_existing_sub (R : List Name) (outs : List NewOut) :
    ∀ base, ∀ x, NewOut.existing x ∈ (addIdentities R base outs).2 → NewOut.existing x ∈ outs := by
  induction outs with
  | nil => intro base x h; simp [addIdentities] at h
  | cons a rest ih =>
    intro base x h
    cases a with
    | existing y =>
      cases hy : R.contains y with
      | true =>
        simp only [addIdentities, hy, if_true] at h
        rcases List.mem_cons.mp h with h | h
        · cases h
        · exact List.mem_cons_of_mem _ (ih _ x h)
      | false =>
        simp only [addIdentities, hy, Bool.false_eq_true, if_false] at h
        rcases List.mem_cons.mp h with h | h
        · rw [h]; exact List.mem_cons_self ..
        · exact List.mem_cons_of_mem _ (ih _ x h)
    | fresh t =>
      simp only [addIdentities, List.mem_cons] at h
      rcases h with h | h
      · cases h
      · exact List.mem_cons_of_mem _ (ih _ x h)
    | none =>
      simp only [addIdentities, List.mem_cons] at h
      rcases h with h | h
      · cases h
      · exact List.mem_cons_of_mem _ (ih _ x h)

/-- **Fix aef7e04 (C07-D11), every graph, every replacement**: in a graph or subgraph (not a function),
after the Identity routing every *existing* value the replacement still returns is defined by the graph
being rewritten itself (an input, an initializer or a node output of it) and is neither an input nor an
output of it — no value of an enclosing graph is handed to `replace_nodes_and_values`, so none can take
over the name or the output slot of a value of the body. -/
theorem addIdentities_no_foreign (g : Graph) (outs : List NewOut) (base : Nat) (x : Name)
    (h : NewOut.existing x ∈ (addIdentities (routeNames false g outs) base outs).2) :
    x ∈ g.defined ∧ x ∉ g.inputs ∧ x ∉ g.outputs := by
  have hno := addIdentities_no_input (routeNames false g outs) outs base _ h x rfl
  have hin := addIdentities_existing_sub (routeNames false g outs) outs base x h
  unfold routeNames at hno
  simp only [Bool.false_eq_true, if_false, List.mem_append, not_or] at hno
  obtain ⟨⟨hi, ho⟩, hf⟩ := hno
  refine ⟨?_, hi, ho⟩
  by_cases hd : x ∈ g.defined
  · exact hd
  · exfalso
    apply hf
    unfold foreignOuts
    exact List.mem_filterMap.mpr ⟨.existing x, hin, by simp [hd]⟩

/-- the C07-D11 witness: `a = Abs(x); z = If(c){ n = Neg(a); t = Neg(n) → t }` with `Neg(Neg(v)) → v` -/
def d11Body : Graph :=
  .mk [] [] [.mk 3 "Neg" "" "" [some "a"] ["n"] [] [] [] [], .mk 4 "Neg" "" "" [some "n"] ["t"] [] [] [] []] ["t"]
def d11Host : Graph :=
  .mk ["x", "c"] []
    [.mk 1 "Abs" "" "" [some "x"] ["a"] [] [] [] [],
     .mk 2 "If" "" "" [some "c"] ["z"] [] [] ["a"] [("then_branch", d11Body)]] ["z"]
def d11Rule : Rule :=
  { name := "", removeNodes := true, asFunction := false, guardTag := false,
    pat := { nodes := [⟨"Neg", "", [.var 0], 1, []⟩, ⟨"Neg", "", [.out 0 0], 1, []⟩], root := 1, outputs := [.out 1 0] },
    repl := { inits := [], uniqueInits := false, nodes := [], outputs := [.var 0] } }

/-- regression of C07-D11 (fixed aef7e04): the pass applies once; the body now holds one `Identity`
reading the outer `a` and still produces its output `t`; the outer graph is as it was and well-formed -/
theorem d11_fixed :
    ((applyToModel [d11Rule] 100 { opsets := [("", 18)], graph := d11Host, funcs := [] }).toOption.map
      fun r => (r.1, r.2.graph.nodes.map (·.op), r.2.graph.nodes.flatMap (·.caps), wfGraph [] r.2.graph,
        r.2.graph.nodes.flatMap fun n => n.subs.flatMap fun s =>
          s.2.nodes.map (·.op) ++ s.2.nodes.flatMap (·.inputNames) ++ s.2.outputs ++
            [toString (wfGraph ["x", "c", "a"] s.2)])) =
    some (1, ["Abs", "If"], ["a"], true, ["Identity", "a", "t", "true"]) := by
  decide +kernel

/-- the code between 1dc987d and aef7e04 routed only graph inputs and graph outputs: the returned outer
value `a` reached the splice and took the name of the body's output -/
theorem d11_prefix_refuted :
    ¬ (∀ (g : Graph) (outs : List NewOut) (base : Nat) (x : Name),
        NewOut.existing x ∈ (addIdentities (g.inputs ++ g.outputs) base outs).2 → x ∈ g.defined) := by
  intro h
  exact absurd (h d11Body [.existing "a"] 5 "a" (by decide)) (by decide)

/-! ### fix f8abc79 — `Identity(v) → v` with `v` routed: no progress, the rule is skipped -/

def idRule : Rule :=
  { name := "", removeNodes := true, asFunction := false, guardTag := false,
    pat := { nodes := [⟨"Identity", "", [.var 0], 1, []⟩], root := 0, outputs := [.out 0 0] },
    repl := { inits := [], uniqueInits := false, nodes := [], outputs := [.var 0] } }
/-- `y = Identity(x)`, `x` a graph input, `y` the graph output -/
def idHost : Graph := .mk ["x"] [] [.mk 1 "Identity" "" "" [some "x"] ["y"] [] [] [] []] ["y"]
/-- `a = Abs(x); z = If(c){ t = Identity(a) → t }`: the routed value is a value of the enclosing graph -/
def idBodyHost : Graph :=
  .mk ["x", "c"] []
    [.mk 1 "Abs" "" "" [some "x"] ["a"] [] [] [] [],
     .mk 2 "If" "" "" [some "c"] ["z"] [] [] ["a"]
       [("then_branch", .mk [] [] [.mk 3 "Identity" "" "" [some "a"] ["t"] [] [] [] []] ["t"])]] ["z"]

/-- **What the skip test of f8abc79 means** (every graph, match, node lists): it holds only when the
replacement brings no node of its own, there is exactly one routing node, and the single matched node is a
default-domain `Identity` reading the same value as the routing node — the rewrite would put an equal
node in place of the matched one. -/
theorem noProgress_spec (g : Graph) (m : Match) (newNodes idNodes : List Node)
    (h : noProgress g m newNodes idNodes = true) :
    newNodes = [] ∧ ∃ nid idn n, m.nodes = [nid] ∧ idNodes = [idn] ∧ nodeById g nid = some n ∧
      n.op = "Identity" ∧ n.domain = "" ∧ n.inputs.head? = idn.inputs.head? := by
  unfold noProgress at h
  simp only [Bool.and_eq_true] at h
  obtain ⟨⟨hn, _⟩, hm⟩ := h
  refine ⟨by simpa using hn, ?_⟩
  split at hm
  · rename_i nid idn h1 h2
    split at hm
    · rename_i n hnode
      simp only [Bool.and_eq_true, beq_iff_eq] at hm
      exact ⟨nid, idn, n, h1, rfl, hnode, hm.1.1, hm.1.2, hm.2⟩
    · cases hm
  · cases hm

/-- regression of the f8abc79 witnesses through the whole pass: the pass returns (no fuel error), applies
nothing and leaves the graphs as they were — for a routed graph input feeding a graph output, and for a
routed outer value inside an `If` body -/
theorem identity_passthru_skipped :
    ((applyToModel [idRule] 100 { opsets := [("", 18)], graph := idHost, funcs := [] }).toOption.map
      fun r => (r.1, r.2.graph.nodes.map (·.id), r.2.graph.nodes.flatMap (·.inputNames), r.2.graph.outputs)) =
      some (0, [1], ["x"], ["y"]) ∧
    ((applyToModel [idRule] 100 { opsets := [("", 18)], graph := idBodyHost, funcs := [] }).toOption.map
      fun r => (r.1, r.2.graph.nodes.map (·.id),
        r.2.graph.nodes.flatMap fun n => n.subs.flatMap fun s => s.2.nodes.map (·.id) ++ s.2.nodes.flatMap (·.outputs.length :: []))) =
      some (0, [1, 2], [3, 1]) := by
  decide +kernel

/-! ### C07-D4 (fixed e8a0767), C07-D10 (fixed 1dc987d) — the code before the fixes -/

def d4Host : Graph :=
  .mk ["x"] []
    [.mk 1 "Neg" "" "" [some "x"] ["n"] [] [] [] [], .mk 2 "Neg" "" "" [some "n"] ["m"] [] [] [] [],
     .mk 3 "Add" "" "" [some "m", some "x"] ["z"] [] [] [] []] ["z"]
def d4Match : Match := { root := 2, nodes := [2, 1], bindings := [(0, some "x")], outputs := ["m"] }

/-- Before e8a0767 the returned value went into the splice as it was: `Neg(Neg(x)) → x` renamed the
graph input `x` to `m`. -/
theorem applyAt_signature_prefix_refuted :
    ¬ (∀ (d : Nat) (g : Graph) (m : Match) (new : List Node) (outs : List NewOut) (rm : Bool),
        (applyAt d g m new outs rm).inputs = g.inputs) := by
  intro h
  exact absurd (h 10 d4Host d4Match [] [.existing "x"] true) (by decide)

/-- `Neg(Neg(x)) → x` -/
def d4Rule : Rule :=
  { name := "r1", removeNodes := true, asFunction := false, guardTag := false,
    pat := { nodes := [⟨"Neg", "", [.var 0], 1, []⟩, ⟨"Neg", "", [.out 0 0], 1, []⟩], root := 1, outputs := [.out 1 0] },
    repl := { inits := [], uniqueInits := false, nodes := [], outputs := [.var 0] } }

/-- regression of the C07-D4 witness through the whole pass: one application, the input is still `x` -/
theorem d4_fixed :
    ((applyToModel [d4Rule] 100 { opsets := [("", 18)], graph := d4Host, funcs := [] }).toOption.map
      fun r => (r.1, r.2.graph.inputs, r.2.graph.outputs)) = some (1, ["x"], ["z"]) := by
  decide +kernel

def d10Host : Graph :=
  .mk ["a"] []
    [.mk 1 "Abs" "" "" [some "a"] ["x"] [] [] [] [], .mk 2 "Neg" "" "" [some "x"] ["n"] [] [] [] [],
     .mk 3 "Neg" "" "" [some "n"] ["m"] [] [] [] [], .mk 4 "Add" "" "" [some "m", some "x"] ["z"] [] [] [] []] ["z", "x"]

/-- C07-D10, the code between e8a0767 and 1dc987d (only graph *inputs* routed through `Identity`):
a returned value that is a graph output was renamed to the matched output's name — outputs
`(z, x)` became `(z, m)` (replayed then on the real code). -/
theorem applyAt_signature_output_prefix_refuted :
    ¬ (∀ (d : Nat) (g : Graph) (m : Match) (new : List Node) (outs : List NewOut) (base : Nat) (rm : Bool),
        (applyAt d g m (new ++ (addIdentities g.inputs base outs).1) (addIdentities g.inputs base outs).2 rm).outputs
          = g.outputs) := by
  intro h
  exact absurd (h 10 d10Host { root := 3, nodes := [3, 2], bindings := [(0, some "x")], outputs := ["m"] }
    [] [.existing "x"] 5 true) (by decide)

/-- regression of the C07-D10 witness through the whole pass: one application, signature `(a) → (z, x)` kept -/
theorem d10_fixed :
    ((applyToModel [d4Rule] 100 { opsets := [("", 18)], graph := d10Host, funcs := [] }).toOption.map
      fun r => (r.1, r.2.graph.inputs, r.2.graph.outputs)) = some (1, ["a"], ["z", "x"]) := by
  decide +kernel

/-! ## Initializers (after fixes 340a24c and c9666a4: a new initializer whose name is taken — in
this graph's initializers or anywhere in the model — is registered as a model-wide fresh `name_k`) -/

/-- **No `FreshInitializerNames` hypothesis**: whatever names the replacement asks for, registration
only appends — every node, input, output and every existing initializer (name and value, in place)
is untouched; one initializer per request is added with the requested value, under names that are
new to the graph *and to the whole model's name set*, pairwise distinct; the name set grows by
exactly these names.  (`names` ⊇ the graph's initializer names is the invariant `apply_to_model`
establishes by collecting all value names first.)  What remains outside the theorem: that the
search for a free `name_k` succeeds (`= some _`; `k ≤ |names|+1` is searched, a free one exists by
counting, which is not proved — the tie exercises it). -/
theorem registerInits_adds_only (names names' : List Name) (g g' : Graph) (is is' : List (Name × String))
    (hsub : ∀ z ∈ g.initNames, z ∈ names) (h : registerInits names g is = some (g', is', names')) :
    g'.nodes = g.nodes ∧ g'.inputs = g.inputs ∧ g'.outputs = g.outputs ∧ g'.inits = g.inits ++ is' ∧
    is'.map (·.2) = is.map (·.2) ∧ (∀ y ∈ is'.map (·.1), y ∉ g.initNames ∧ y ∉ names) ∧ (is'.map (·.1)).Nodup ∧
    names' = names ++ is'.map (·.1) :=
  registerInits_spec is names g g' is' names' hsub h

/-- names that are free (in the graph and in the model) are kept as requested -/
theorem registerInits_keeps_free_name (names : List Name) (g : Graph) (x : Name) (t : String)
    (h : x ∉ g.initNames) (hn : x ∉ names) :
    registerInits names g [(x, t)] = some (g.setInits (g.inits ++ [(x, t)]), [(x, t)], names ++ [x]) := by
  simp [registerInits, freshInitName, h, hn]

def d18Host : Graph :=
  .mk ["x"] [("one", "A")]
    [.mk 1 "Mul" "" "" [some "x", some "one"] ["a"] [] [] [] [],
     .mk 2 "Relu" "" "" [some "a"] ["z"] [] [] [] []] ["z"]

/-- regression: the D18 witness is harmless — the second `one` becomes `one_1`, the `Mul` still
reads the first, the graph stays well-formed -/
theorem d18_fixed :
    (registerInits (collectNames 10 d18Host) d18Host [("one", "A")]).map
        (fun r => (r.2.1.map (·.1), r.1.nodes.map (·.inputs), wfGraph [] r.1)) =
      some (["one_1"], d18Host.nodes.map (·.inputs), true) := by
  decide +kernel

/-! ### D18 (= finding C09-N3), the code before the fix -/

/-- `FreshInitializerNames`: the names the replacement registers are pairwise distinct and not
yet initializers of the graph — the hypothesis the pre-fix code needed. -/
def FreshInitializerNames (g : Graph) (is : List (Name × String)) : Prop :=
  (is.map (·.1)).Nodup ∧ ∀ x ∈ is.map (·.1), x ∉ g.initNames

theorem registerInitsPrefix_adds_only (d : Nat) (g : Graph) (is : List (Name × String))
    (h : FreshInitializerNames g is) :
    (registerInitsPrefix d g is).nodes = g.nodes ∧ (registerInitsPrefix d g is).inputs = g.inputs ∧
    (registerInitsPrefix d g is).outputs = g.outputs ∧ (registerInitsPrefix d g is).inits = g.inits ++ is := by
  rw [registerInitsPrefix_fresh d is g h.1 h.2]
  cases g; simp [Graph.setInits, Graph.nodes, Graph.inputs, Graph.outputs, Graph.inits]

/-- Before 340a24c, registering `one` again (the second firing of any rule that names its
initializer) detached the first registration: the `Mul` that used it read a value that was no
initializer (`†one`) — a host node *was* touched and the graph was no longer well-formed. -/
theorem registerInits_prefix_refuted :
    ¬ (∀ (d : Nat) (g : Graph) (is : List (Name × String)),
        (registerInitsPrefix d g is).nodes.map (·.inputs) = g.nodes.map (·.inputs)) := by
  intro h
  exact absurd (h 10 d18Host [("one", "A")]) (by decide)

theorem d18_prefix_result_not_wf :
    wfGraph [] d18Host = true ∧ wfGraph [] (registerInitsPrefix 10 d18Host [("one", "A")]) = false := by
  decide

/-! ## Opset imports -/

/-- `_update_opset_imports` never changes the version of a domain that is already imported
(a different explicit version is an error, `none`), and afterwards every used domain is imported. -/
theorem updOpsets_preserves (used : List (String × Option Nat)) :
    ∀ (imports imports' : List (String × Nat)) (d : String) (v : Nat),
      updOpsets imports used = some imports' → imports.lookup d = some v → imports'.lookup d = some v := by
  induction used with
  | nil => intro i i' d v h; simp [updOpsets] at h; subst h; exact id
  | cons p rest ih =>
    intro i i' d v h hv
    obtain ⟨dom, ver⟩ := p
    unfold updOpsets at h
    cases hl : i.lookup dom with
    | none =>
      rw [hl] at h
      simp only at h
      apply ih _ _ d v h
      rw [List.lookup_append, hv]; rfl
    | some cur =>
      rw [hl] at h
      cases ver with
      | none => exact ih _ _ d v h hv
      | some v' =>
        simp only at h
        by_cases hc : v' != cur
        · simp [hc] at h
        · simp [hc] at h; exact ih _ _ d v h hv

/-- **The opset imports the replacement needs are added**: after a successful
`_update_opset_imports`, every domain the replacement's nodes use is imported — at the version the
node asked for when the domain was new and a version was given, at 1 when new and none was given,
at the version already imported otherwise (`updOpsets_preserves`). -/
theorem updOpsets_covers (used : List (String × Option Nat)) :
    ∀ (imports imports' : List (String × Nat)), updOpsets imports used = some imports' →
      ∀ p ∈ used, (imports'.lookup p.1).isSome = true := by
  induction used with
  | nil => intro _ _ _ p hp; simp at hp
  | cons q rest ih =>
    intro i i' h p hp
    obtain ⟨dom, ver⟩ := q
    unfold updOpsets at h
    cases hl : i.lookup dom with
    | none =>
      rw [hl] at h
      simp only at h
      rcases List.mem_cons.mp hp with rfl | hp'
      · have : (i ++ [(dom, ver.getD 1)]).lookup dom = some (ver.getD 1) := by
          rw [List.lookup_append, hl]; simp [List.lookup]
        rw [updOpsets_preserves rest _ _ dom _ h this]; rfl
      · exact ih _ _ h p hp'
    | some cur =>
      rw [hl] at h
      have hrest : updOpsets i rest = some i' := by
        cases ver with
        | none => exact h
        | some v' =>
          simp only at h
          by_cases hc : v' != cur
          · simp [hc] at h
          · simpa [hc] using h
      rcases List.mem_cons.mp hp with rfl | hp'
      · rw [updOpsets_preserves rest _ _ dom cur hrest hl]; rfl
      · exact ih _ _ hrest p hp'

example : updOpsets [("", 18)] [("", none), ("local", none), ("ext", some 3)] =
    some [("", 18), ("local", 1), ("ext", 3)] := by decide

theorem updOpsets_clash (imports : List (String × Nat)) (d : String) (cur v : Nat)
    (rest : List (String × Option Nat)) (h : imports.lookup d = some cur) (hne : v ≠ cur) :
    updOpsets imports ((d, some v) :: rest) = none := by
  unfold updOpsets
  rw [h]
  simp [hne]

/-! ## C07-D3 (fixed a8da06e) — a pattern with two output nodes: the insertion point is the *first* output node -/

def d3Host : Graph :=
  .mk ["x"] []
    [.mk 1 "Neg" "" "" [some "x"] ["n"] [] [] [] [], .mk 2 "Abs" "" "" [some "n"] ["u"] [] [] [] [],
     .mk 3 "Relu" "" "" [some "x"] ["r"] [] [] [] [], .mk 4 "Add" "" "" [some "u", some "r"] ["z"] [] [] [] []] ["z"]
/-- pattern `(Relu(x), Neg(x))` matched at the `Relu` (root) and the earlier `Neg` -/
def d3Match : Match := { root := 3, nodes := [3, 1], bindings := [(0, some "x")], outputs := ["r", "n"] }
def d3New : List Node :=
  [.mk 5 "Relu" "" "" [some "x"] ["%5_0"] [] [] [] [], .mk 6 "Neg" "" "" [some "x"] ["%6_0"] [] [] [] []]

/-- The splice alone (the code before a8da06e): the host is well-formed, the match is removable,
the replacement is the pattern itself — and the spliced graph defines `n` after its use in `Abs`
(replayed then: onnx.checker "Nodes in a graph must be topologically sorted").  `applyAt_wf` /
`applyAt_equiv` therefore carry **OutputsAtRoot**. -/
theorem applyAt_wf_prefix_refuted :
    wfGraph [] d3Host = true ∧ validToReplace d3Host d3Match.nodes d3Match.outputs = true ∧
    wfGraph [] (applyAt 10 d3Host d3Match d3New [.fresh "%5_0", .fresh "%6_0"] true) = false := by
  decide

/-- after a8da06e the pass ends with `sort()`: the same spliced graph, sorted, is well-formed
(`sortGraph` renders onnx_ir's stable topological sort — a contract; this is its instance here) -/
theorem d3_sorted_wf :
    wfGraph [] (sortGraph (applyAt 10 d3Host d3Match d3New [.fresh "%5_0", .fresh "%6_0"] true)) = true := by
  decide +kernel

/-! ## C07-D6 (fixed f6e9b0d) — a pattern variable bound to the output of another matched node -/

def d6Host : Graph :=
  .mk ["x"] []
    [.mk 1 "Abs" "" "" [some "x"] ["a"] [] [] [] [], .mk 2 "Sub" "" "" [some "a", some "a"] ["z"] [] [] [] []] ["z"]
/-- `Sub(v0, Abs(v1))` → itself -/
def d6Rule : Rule :=
  { name := "r", removeNodes := true, asFunction := false, guardTag := true,
    pat := { nodes := [⟨"Abs", "", [.var 1], 1, []⟩, ⟨"Sub", "", [.var 0, .out 0 0], 1, []⟩], root := 1, outputs := [.out 1 0] },
    repl := { inits := [], uniqueInits := false,
              nodes := [⟨"Abs", "", none, [.var 1], 1, []⟩, ⟨"Sub", "", none, [.var 0, .out 0 0], 1, []⟩],
              outputs := [.out 1 0] } }

/-- The skip test of f6e9b0d covers everything `graph.remove(safe=True)` refuses: when it is false,
no replacement node reads an interior value of the match. -/
theorem readsRemoved_covers_unsafeRemove (matched : List Node) (outs : List Name) (new : List Node)
    (newOuts : List NewOut) (h : readsRemoved matched outs new newOuts = false) :
    unsafeRemove matched outs new = false := by
  unfold readsRemoved at h
  simp only [Bool.or_eq_false_iff] at h
  exact h.1

/-- The situation in which the code before f6e9b0d raised: on `a = Abs(x); z = Sub(a, a)` the match
succeeds with `v0 ↦ a` (an interior matched value), `_valid_to_replace` accepts, and the
replacement reads `a`, whose producer is to be removed (`graph.remove(safe=True)` raised
ValueError — PassError from `rewrite()` on a valid model). -/
theorem unsafeRemove_prefix_refuted :
    (matchAt d6Host d6Rule (d6Host.nodes.getD 1 default)).isSome = true ∧
    unsafeRemove [d6Host.nodes.getD 1 default, d6Host.nodes.getD 0 default] ["z"]
      [.mk 3 "Abs" "" "" [some "x"] ["%3_0"] [] [] [] [], .mk 4 "Sub" "" "" [some "a", some "%3_0"] ["%4_0"] [] [] [] []] = true := by
  decide

/-- regression: the pass now skips the rule there — no error, no application, the graph as it was -/
theorem unsafeRemove_skipped :
    ((applyToModel [d6Rule] 100 { opsets := [("", 18)], graph := d6Host, funcs := [] }).toOption.map
      fun r => (r.1, r.2.graph.nodes.map (·.id), wfGraph [] r.2.graph)) = some (0, [1, 2], true) := by
  decide +kernel

/-! ## `as_function` -/

/-- What the extracted function is: its body is exactly the matched nodes in graph order, its
formal inputs are the call's actual inputs, its outputs the matched outputs; the call node keeps
its inputs/outputs and addresses the new function (domain, name, overload). -/
theorem asFunction_structure (g : Graph) (po : List (String × Nat)) (funcs : List Func) (m : Match)
    (call call' : Node) (fn : Func) (h : asFunction g po funcs m [call] = some (call', fn)) :
    fn.body.nodes = g.nodes.filter (fun n => m.nodes.contains n.id) ∧
    fn.body.outputs = m.outputs ∧ fn.body.inputs = call.inputs.map (·.getD "") ∧ fn.body.inits = [] ∧
    call'.inputs = call.inputs ∧ call'.outputs = call.outputs ∧
    (call'.domain, call'.op, call'.overload) = fn.ident := by
  unfold asFunction at h
  simp only at h
  split at h
  · exact absurd h (by simp)
  · split at h
    · exact absurd h (by simp)
    · split at h
      · exact absurd h (by simp)
      · simp only [Option.some.injEq, Prod.mk.injEq] at h
        obtain ⟨h1, h2⟩ := h
        subst h1; subst h2
        cases call
        simp [Graph.nodes, Graph.outputs, Graph.inputs, Graph.inits, Node.setOverload, Node.inputs, Node.outputs,
          Node.domain, Node.op, Node.overload, Func.ident, Node.id, Node.attrs, Node.mprops, Node.caps, Node.subs]

/-- Every value the function body reads is a formal parameter or computed inside (the condition
under which `_copy_for_function` does not raise), so the body is closed. -/
theorem asFunction_closed (g : Graph) (po : List (String × Nat)) (funcs : List Func) (m : Match)
    (call call' : Node) (fn : Func) (h : asFunction g po funcs m [call] = some (call', fn)) :
    ∀ n ∈ fn.body.nodes, ∀ x ∈ n.inputNames, x ∈ fn.body.inputs ++ fn.body.nodes.flatMap (·.outputs) := by
  have hs := asFunction_structure g po funcs m call call' fn h
  unfold asFunction at h
  simp only at h
  split at h
  · exact absurd h (by simp)
  · split at h
    · exact absurd h (by simp)
    · rename_i hk
      intro n hn x hx
      rw [hs.1] at hn ⊢
      rw [hs.2.2.1]
      have := hk
      simp only [Bool.not_eq_eq_eq_not, Bool.not_true, Bool.not_eq_false] at this
      have h1 := List.all_eq_true.mp this n hn
      have h2 := List.all_eq_true.mp h1 x hx
      simpa using h2

/-! ### opset imports of the extracted function (fixes 35ad500 and 04d2d07; C07-D5, C07-D9 before) -/

/-- Wherever the match sits, **every domain the function's nodes use and the model imports is
imported by the extracted function**: for a match in the main graph or in an `If`/`Loop` body at
the *model's* version (whatever the body's own dict holds); for a match inside a model-local
function at that function's version when it declares one, else at the model's. -/
theorem asFunction_imports_used (isFunc : Bool) (g : Graph) (main lo : List (String × Nat))
    (funcs : List Func) (m : Match) (call call' : Node) (fn : Func)
    (h : asFunction g (parentOpsets isFunc main lo) funcs m [call] = some (call', fn)) :
    ∀ n ∈ fn.body.nodes, ∀ v, main.lookup n.domain = some v →
      fn.opsets.lookup n.domain = some (if isFunc then (lo.lookup n.domain).getD v else v) := by
  intro n hn v hv
  have hs := asFunction_structure g _ funcs m call call' fn h
  rw [hs.1] at hn
  unfold asFunction at h
  simp only at h
  split at h
  · exact absurd h (by simp)
  · split at h
    · exact absurd h (by simp)
    · split at h
      · exact absurd h (by simp)
      · simp only [Option.some.injEq, Prod.mk.injEq] at h
        obtain ⟨_, h2⟩ := h
        subst h2
        simp only
        rw [lookup_filter_key (parentOpsets isFunc main lo)
          (fun k => ((g.nodes.filter fun n => m.nodes.contains n.id).map (·.domain)).contains k) n.domain
          (by simpa using ⟨n, by simpa using hn, rfl⟩)]
        unfold parentOpsets
        cases isFunc with
        | true => simpa using mergeOpsets_lookup_main main lo n.domain v hv
        | false => simpa using mergeOpsets_lookup_over lo main n.domain v hv

/-- Inside a model-local function, a domain only the function imports (the main graph lacks it) is
imported by the extracted function too. -/
theorem asFunction_imports_function_only_domain (g : Graph) (main lo : List (String × Nat))
    (funcs : List Func) (m : Match) (call call' : Node) (fn : Func)
    (h : asFunction g (parentOpsets true main lo) funcs m [call] = some (call', fn)) :
    ∀ n ∈ fn.body.nodes, ∀ v, lo.lookup n.domain = some v → fn.opsets.lookup n.domain = some v := by
  intro n hn v hv
  have hs := asFunction_structure g _ funcs m call call' fn h
  rw [hs.1] at hn
  unfold asFunction at h
  simp only at h
  split at h
  · exact absurd h (by simp)
  · split at h
    · exact absurd h (by simp)
    · split at h
      · exact absurd h (by simp)
      · simp only [Option.some.injEq, Prod.mk.injEq] at h
        obtain ⟨_, h2⟩ := h
        subst h2
        simp only
        rw [lookup_filter_key (parentOpsets true main lo)
          (fun k => ((g.nodes.filter fun n => m.nodes.contains n.id).map (·.domain)).contains k) n.domain
          (by simpa using ⟨n, by simpa using hn, rfl⟩)]
        simpa [parentOpsets] using mergeOpsets_lookup_over main lo n.domain v hv

def d5Body : Graph :=
  .mk [] [] [.mk 1 "Neg" "" "" [some "x"] ["n"] [] [] [] [], .mk 2 "Relu" "" "" [some "n"] ["t"] [] [] [] []] ["t"]
def d5Match : Match := { root := 2, nodes := [2, 1], bindings := [(0, some "x")], outputs := ["t"] }
def d5Call : Node := .mk 3 "NR" "local" "" [some "x"] ["%3_0"] [] [] [] []

/-- regression (C07-D5 and C07-D9 witnesses): a match inside an `If` body whose own dict holds what
`try_rewrite`/`_update_opset_imports` put there — `local`, and the default version 1 for the
default domain; the model imports the default domain at 18 — the function imports it at 18 -/
theorem asFunction_in_body_has_opset :
    updOpsets [] [("", none)] = some [("", 1)] ∧
    ∃ call fn, asFunction d5Body (parentOpsets false [("", 18)] [("", 1), ("local", 1)]) [] d5Match [d5Call] = some (call, fn) ∧
      fn.opsets.lookup "" = some 18 ∧ fn.body.nodes.any (·.domain == "") = true := by
  refine ⟨by decide, _, _, rfl, ?_, ?_⟩ <;> decide

/-- Before 35ad500 the imports were filtered from the container's own dict alone: in a body that
dict is empty after deserialisation, so the function holding `Neg`/`Relu` imported no opset for the
default domain (replayed then: onnx.checker "No Opset registered for domain"). -/
theorem asFunction_in_body_prefix_refuted :
    ∃ call fn, asFunction d5Body [("local", 1)] [] d5Match [d5Call] = some (call, fn) ∧
      fn.opsets.lookup "" = none ∧ fn.body.nodes.any (·.domain == "") = true := by
  refine ⟨_, _, rfl, ?_, ?_⟩ <;> decide

/-- Between 35ad500 and 04d2d07 the container's dict overrode the model's for every container: a
body's `"" ↦ 1` (the default `_update_opset_imports` records for an unversioned node) beat the
model's 18 (replayed then: onnx.checker "FunctionOp imports version 1 whereas model imports
version 18"). -/
theorem asFunction_in_body_stale_default_version_prefix_refuted :
    ∃ call fn, asFunction d5Body (mergeOpsets [("", 18)] [("", 1), ("local", 1)]) [] d5Match [d5Call] = some (call, fn) ∧
      fn.opsets.lookup "" = some 1 := by
  refine ⟨_, _, rfl, ?_⟩
  decide

/-! ## C07-D2 — one pass need not terminate: the replacement nodes are visited next -/

def d2Host : Graph := .mk ["x", "y"] [] [.mk 1 "Add" "" "" [some "x", some "y"] ["z"] [] [] [] []] ["z"]
/-- `Add(x, y) → Add(y, x)`, no condition function -/
def d2Rule : Rule :=
  { name := "", removeNodes := true, asFunction := false, guardTag := false,
    pat := { nodes := [⟨"Add", "", [.var 0, .var 1], 1, []⟩], root := 0, outputs := [.out 0 0] },
    repl := { inits := [], uniqueInits := false, nodes := [⟨"Add", "", none, [.var 1, .var 0], 1, []⟩], outputs := [.out 0 0] } }

/-- cursor steps a pass would need if every host node were visited once and every replacement
node once (the reading of "one pass" under which it terminates) -/
def stepBound (rules : List Rule) (g : Graph) : Nat :=
  g.nodes.length * (1 + (rules.map (·.repl.nodes.length)).foldl max 0) + 1

def isFuelErr {α} : Except Err α → Bool
  | .error .fuel => true
  | _ => false

/-- The operand swap of a commutative operator — a rule whose replacement equals its pattern by
construction — exhausts any such bound on a one-node graph: the iterator continues into the
nodes it has just inserted and the rule fires on its own output, for ever (replayed on the real
`rewrite`: it does not return). -/
theorem pass_terminates_full_refuted :
    ¬ (∀ (rules : List Rule) (m : Model),
        isFuelErr (applyToModel rules (10 * stepBound rules m.graph) m) = false) := by
  intro h
  exact absurd (h [d2Rule] { opsets := [("", 18)], graph := d2Host, funcs := [] }) (by decide +kernel)

/-- `Add(x, y)` has two variants (as given, operands swapped); a pattern without commutative binary
nodes has exactly one, the rule itself -/
example : (commuteRule d2Rule).map (·.pat.nodes.map (·.inputs)) = [[[.var 0, .var 1]], [[.var 1, .var 0]]] ∧
    (commuteRule d4Rule).map (·.pat.nodes.map (·.inputs)) = [d4Rule.pat.nodes.map (·.inputs)] := by decide

end OV.Props.C07
